import ShVerif.Gen.C06
/-
  C06 — Parsing and printing never crash or hang.  Table obligations (regenerated from the source
  on every run): the type switches that every parsed tree flows through when it is printed or
  walked cover every implementer of the interface they range over, so their `panic`/silent default
  is unreachable for parser-produced trees.  Whole-parser panic freedom and linear time are
  explored by the harness's fuzz leg, not proved.
-/
namespace ShVerif.C06
open ShVerif.Gen.C06

/-- Node types the parser never produces (BraceExp appears only after brace splitting). -/
def notProduced : List String := ["BraceExp"]

/-- The switches that must be exhaustive, with the interface they range over. -/
def mustCover : List (String × String) :=
  [("Printer.command", "Command"), ("Printer.wordPart", "WordPart"), ("Printer.loop", "Loop"),
   ("Printer.arithmExprRecurse", "ArithmExpr"), ("Printer.testExprSameLine", "TestExpr"),
   ("Walk", "Node")]

def implOf (i : String) : List String :=
  match implementers.find? (·.1 == i) with
  | some (_, l) => l
  | none => []

def casesOf (f : String) : Option (List String) :=
  match switches.find? (fun s => s.2.1 == f) with
  | some (_, _, _, cs, _) => some cs
  | none => none

/-- Each listed switch exists and has a case for every implementer the parser can produce. -/
theorem switch_exhaustive :
    mustCover.all (fun (f, i) =>
      match casesOf f with
      | some cs => !(implOf i).isEmpty && (implOf i).all (fun t => cs.contains t || notProduced.contains t)
      | none => false) = true := by
  decide +kernel

/-- No switch has a case for a type that does not implement the interface it ranges over
    (a renamed or removed node type is noticed). -/
theorem switch_cases_known :
    mustCover.all (fun (f, i) =>
      match casesOf f with
      | some cs => cs.all (fun t => (implOf i).contains t)
      | none => false) = true := by
  decide +kernel

end ShVerif.C06
