import ShVerif.Model.C06
import ShVerif.Gen.C06
/-
  C06 — Parsing and printing never crash or hang.  Table obligations (regenerated from the source
  on every run):
   * the type switches every parsed tree flows through when it is printed, simplified, walked or
     encoded cover every implementer of the interface they range over that the parser can
     produce, or have a default that does not panic;
   * the index and slice expressions of that code are syntactically guarded (a length test of the
     very slice on every path, a range loop …), or are listed here with the reason they are in
     range: a clause of the tree well-formedness predicate `wfNode` (which the harness checks on
     every tree the parser returns, RecoverErrors trees included, and ties to the real
     `Pos()`/`End()` methods by making nodes ill-formed on purpose), or a spelled-out invariant
     of printer-local state.
  Whole-parser panic freedom and linear time are explored by the harness's fuzz leg, not proved;
  the index safety of the byte-source layer (`p.bs[p.bsp…]`, newLit/endLit) is the L2 obligation
  `bytesrc_no_panic`, stated at the end and proved in Props/C06L2.lean from C07's refinement
  theorem; `walk_total` / `encode_total` are in Props/C06L6.lean.
-/
namespace ShVerif.C06
open ShVerif.Gen.C06

/-- Node types the parser never produces (BraceExp appears only after brace splitting). -/
def notProduced : List String := ["BraceExp"]

def implOf (i : String) : List String :=
  match implementers.find? (·.1 == i) with
  | some (_, l) => l
  | none => []

def casesOf (f : String) : Option (List String) :=
  match switches.find? (fun s => s.2.1 == f) with
  | some (_, _, _, cs, _) => some cs
  | none => none

/-! ### switches -/

/-- The files whose code consumes parser-produced trees. -/
def consumerFiles : List String := ["printer.go", "simplify.go", "walk.go", "typedjson/json.go"]

/-- Every type switch of those files with the interface it ranges over; "-" = not a syntax
    interface (typedjson switches over decoded JSON values; encoding goes through reflection). -/
def switchIface : List (String × String × String) :=
  [("Printer.Print", "node.(type)", "Node"),
   ("Printer.wordPart", "wp.(type)", "WordPart"),
   ("Printer.loop", "loop.(type)", "Loop"),
   ("Printer.arithmExprRecurse", "expr.(type)", "ArithmExpr"),
   ("Printer.testExprSameLine", "expr.(type)", "TestExpr"),
   ("Printer.unquotedWord", "wp.(type)", "WordPart"),
   ("Printer.command", "cmd.(type)", "Command"),
   ("startsWithLparen", "node.(type)", "Node"),
   ("endsWithRparen", "node.(type)", "Node"),
   ("simplifier.visit", "node.(type)", "Node"),
   ("simplifier.removeNegateTest", "u.X.(type)", "TestExpr"),
   ("Walk", "node.(type)", "Node"),
   ("jsonTypeName", "enc.(type)", "-"),
   ("decodeValue", "enc.(type)", "-")]

def ifaceOf (f on : String) : Option String :=
  match switchIface.find? (fun e => e.1 == f && e.2.1 == on) with
  | some (_, _, i) => some i
  | none => none

/-- a case covers type `t` when it names `t` or an interface `t` implements -/
def covers (cs : List String) (t : String) : Bool :=
  cs.contains t || cs.any (fun c => (implOf c).contains t)

def allSwitches : List (String × String × String × List String × String) := switches ++ tjSwitches

/-- Every type switch in printer.go, simplify.go, walk.go and typedjson/json.go is known, and
    either does not panic in its default (no default clause, or one that returns an error), or has
    a case for every implementer of its interface that the parser can produce. -/
theorem switch_exhaustive :
    (allSwitches.filter (fun s => consumerFiles.contains s.1)).all (fun (_, f, on, cs, dflt) =>
      match ifaceOf f on with
      | none => false
      | some "-" => dflt != "panic"
      | some i => !(implOf i).isEmpty &&
          (dflt != "panic" || (implOf i).all (fun t => covers cs t || notProduced.contains t))) = true
    ∧ switchIface.all (fun e => allSwitches.any (fun s => s.2.1 == e.1 && s.2.2.1 == e.2.1 && consumerFiles.contains s.1)) = true := by
  decide +kernel

/-- The switches that must be *total* (a silently skipped case would lose output or children),
    with the interface they range over. -/
def mustCover : List (String × String) :=
  [("Printer.command", "Command"), ("Printer.wordPart", "WordPart"), ("Printer.loop", "Loop"),
   ("Printer.arithmExprRecurse", "ArithmExpr"), ("Printer.testExprSameLine", "TestExpr"),
   ("Walk", "Node")]

/-- Each of them exists and has a case for every implementer the parser can produce. -/
theorem print_walk_switches_total :
    mustCover.all (fun (f, i) =>
      match casesOf f with
      | some cs => !(implOf i).isEmpty && (implOf i).all (fun t => cs.contains t || notProduced.contains t)
      | none => false) = true := by
  decide +kernel

/-- No such switch has a case for a type that does not implement the interface it ranges over
    (a renamed or removed node type is noticed). -/
theorem switch_cases_known :
    mustCover.all (fun (f, i) =>
      match casesOf f with
      | some cs => cs.all (fun t => (implOf i).contains t)
      | none => false) = true := by
  decide +kernel

/-! ### index sites -/

/-- The index/slice expressions without a syntactic guard: (function, indexed expression, why it
    is in range). -/
def expectedUnguarded : List (String × String × Why) :=
  [("CallExpr.Pos", "c.Args", .wf "CallExpr"),          -- reached only when len(c.Assigns) == 0
   ("CallExpr.End", "c.Assigns", .wf "CallExpr"),       -- reached only when len(c.Args) == 0
   ("Word.Pos", "w.Parts", .wf "Word"),
   ("Word.End", "w.Parts", .wf "Word"),
   ("CaseItem.Pos", "c.Patterns", .wf "CaseItem"),
   ("LetClause.End", "l.Exprs", .wf "LetClause"),
   ("BraceExp.Pos", "b.Elems", .wf "BraceExp"),
   ("Printer.wordParts", "wps", .wf "Word"),            -- evaluated only with quoted = false: the callers pass Word.Parts
   ("Printer.decLevel", "p.levelIncs", .inv "incLevel appends one entry, decLevel removes one; they are called in matched pairs around nested blocks"),
   ("Printer.stmt", "s.Redirs", .inv "startRedirs is an index returned by printRedirsUntil, a loop index over the same slice, hence ≤ len"),
   ("Printer.printRedirsUntil", "redirs", .inv "startRedirs is the previous result of this function on the same slice, hence ≤ len"),
   ("decodePos", "nums", .inv "nums is an array of len(posFieldNames) = 3 elements indexed by the range key of posFieldNames and by 0, 1, 2"),
   ("decodeValue", "nodeByName", .inv "a map lookup; a missing key yields nil, not a panic")]

def siteExpected (f base : String) : Bool := expectedUnguarded.any (fun e => e.1 == f && e.2.1 == base)

/-- Every index or slice expression in nodes.go, printer.go, simplify.go, walk.go and
    typedjson/json.go is guarded syntactically or justified in `expectedUnguarded`; every
    justification by well-formedness names a clause of `wfReq`; no expectation is stale. -/
theorem index_sites_guarded :
    indexSites.all (fun (_, f, base, _, _, guard, _) => guard != "none" || siteExpected f base) = true
    ∧ expectedUnguarded.all (fun e =>
        match e.2.2 with
        | .wf t => wfReq.any (·.1 == t)
        | .inv _ => true) = true
    ∧ expectedUnguarded.all (fun e =>
        indexSites.any (fun (_, f, base, _, _, guard, _) => guard == "none" && f == e.1 && base == e.2.1)) = true := by
  decide +kernel

/-- non-vacuity: the table holds the node-method sites the WF predicate is about, and guarded ones -/
theorem index_sites_nonvacuous :
    indexSites.length ≥ 40
    ∧ ["Word.Pos", "Word.End", "CallExpr.Pos", "CallExpr.End", "LetClause.End", "CaseItem.Pos"].all
        (fun f => indexSites.any (fun s => s.2.1 == f)) = true
    ∧ ["len", "range", "none"].all (fun g => indexSites.any (fun s => s.2.2.2.2.2.1 == g)) = true := by
  decide +kernel

/-! ### the well-formedness predicate -/

/-- `wfNode` demands exactly a non-empty list: a node type without a clause is always well-formed,
    a `Word` is well-formed iff it has a part, a `CallExpr` iff it has an assignment or an argument. -/
theorem wfNode_word (n : Nat) : wfNode "Word" [("Parts", n)] = decide (n > 0) := by
  simp [wfNode, wfReq, lenOf]

theorem wfNode_call (a b : Nat) :
    wfNode "CallExpr" [("Assigns", a), ("Args", b)] = (decide (a > 0) || decide (b > 0)) := by
  simp [wfNode, wfReq, lenOf]

theorem wfNode_other (lens : List (String × Nat)) : wfNode "IfClause" lens = true := by
  simp [wfNode, wfReq]

/-- Before 637e874 the tree `RecoverErrors(1)` returned for `case n in (` held a CaseItem without
    patterns (finding C06-recover-caseitem-no-patterns, fixed): such a node is ill-formed, which is
    why `CaseItem.Pos()` — one of the unguarded sites above — panicked on it.  The harness checks
    on every returned tree that no such node occurs. -/
theorem recovered_caseitem_ill_formed :
    wfNode "CaseItem" [("Comments", 0), ("Patterns", 0), ("Stmts", 0), ("Last", 0)] = false := by
  decide

/-! ### the byte-source obligation (proved in Props/C06L2.lean) -/

/-- The obligation of the byte-source layer L2, stated here without importing anything, for an
    abstract relation `faults input sched prog` = "running the client program `prog` over `input`
    delivered in chunks `sched` makes a primitive index its buffer out of range (`p.bs[p.bsp-w:]`,
    `len(litBs)-p.w`, `isLitRedir`) or hang".  Props/C06L2.lean instantiates it with C07's model
    (`l2Faults`: client inside `InProtocol`, stop word ≤ 4 bytes, a primitive returns a `Fault`) and
    proves it: theorem `ShVerif.C06.bytesrc_no_panic`. -/
def bytesrc_no_panic_statement {Prog : Type} (faults : List UInt8 → List Nat → Prog → Prop) : Prop :=
  ∀ (input : List UInt8) (sched : List Nat) (prog : Prog), ¬ faults input sched prog

end ShVerif.C06
