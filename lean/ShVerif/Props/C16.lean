import ShVerif.Model.C16
import ShVerif.Proofs.C16
import ShVerif.Proofs.C16b
import ShVerif.Proofs.C16c
import ShVerif.Proofs.C16d
/-
  C16 — Brace expansion matches bash.  Property theorems.  A statement that is false of the model
  (hence of the Go code: the model is tied to it on every run) is kept as `def …_statement`, with
  a proved `…_partial` theorem, and a proved counter-example (`…_counterexample`).
-/
namespace ShVerif.C16

/-! ## Splitting leaves the printed form unchanged -/

/-- `SplitBraces` never changes the printed form of a literal word — for every byte string. -/
theorem split_render (w : Bytes) : render (splitBraces w).1 = w := split_render_aux w

/-! ## … and reports whether it found a brace expansion -/

/-- The documented contract: the bool says whether the result contains a `BraceExp`. -/
def split_reports_statement : Prop :=
  ∀ w : Bytes, (splitBraces w).2 = true ↔ hasBrace (splitBraces w).1 = true

/-- What the code does: it reports whether the literal contains a `{`.  A reported `false` is
    always right (and leaves the word untouched), a `BraceExp` is always reported; the contract
    holds exactly when a word with `{` does produce a `BraceExp`. -/
theorem split_reports_partial (w : Bytes) :
    ((splitBraces w).2 = true ↔ cLB ∈ w) ∧
    ((splitBraces w).2 = false → (splitBraces w).1 = [.lit w]) ∧
    (hasBrace (splitBraces w).1 = true → (splitBraces w).2 = true) ∧
    ((cLB ∈ w → hasBrace (splitBraces w).1 = true) →
      ((splitBraces w).2 = true ↔ hasBrace (splitBraces w).1 = true)) := by
  have key : (splitBraces w).2 = true ↔ cLB ∈ w := by
    unfold splitBraces; split <;> simp_all
  have h2 : (splitBraces w).2 = false → (splitBraces w).1 = [.lit w] := by
    unfold splitBraces; split <;> simp_all
  have h3 : hasBrace (splitBraces w).1 = true → (splitBraces w).2 = true := by
    intro hb
    cases hr : (splitBraces w).2 with
    | true => rfl
    | false => rw [h2 hr] at hb; simp [hasBrace, Part.isLit] at hb
  exact ⟨key, h2, h3, fun h => ⟨fun ht => h (key.mp ht), h3⟩⟩

/-- `a{b` is reported as containing a brace expansion although none results
    (finding C16-reports-true-without-braceexp). -/
theorem split_reports_counterexample : ¬ split_reports_statement := by
  intro h
  have := (h [97, 123, 98]).mp (by decide)
  revert this
  decide

/-! ## Sequences -/

abbrev In64 (x : Int) : Prop := minI64 ≤ x ∧ x ≤ maxI64

/-- The loop parameters `bracesSeqRec` computes for `{fr..to..inc}` (inc = 1 when absent). -/
def mkSeq (fr to inc : Int) : SeqParams :=
  { chars := false, «from» := fr, to := to, width := 0,
    incr := goIncr inc (decide (fr ≤ to)), upward := decide (fr ≤ to) }

/-- A sequence `{fr..to[..inc]}` visits exactly the `⌊|to−fr|/|inc|⌋+1` values of the ideal
    arithmetic progression, in order — for all Int64 endpoints and increments
    (`k` bounds the number of iterations looked at). -/
def seq_exact_statement : Prop :=
  ∀ fr to inc : Int, In64 fr → In64 to → In64 inc →
    ∀ k, seqVals (mkSeq fr to inc) k fr = (idealSeq fr to (idealStep inc)).take k

/-- It holds whenever the Go arithmetic does not overflow: the increment is not −2^63 (whose
    negation wraps) and the last element plus the step is still an Int64. -/
theorem seq_exact_partial (fr to inc : Int) (hfr : In64 fr) (_hto : In64 to) (hinc : In64 inc)
    (hmin : inc ≠ minI64) (hno : SeqNoOverflow fr to (idealStep inc)) (k : Nat) :
    seqVals (mkSeq fr to inc) k fr = (idealSeq fr to (idealStep inc)).take k :=
  seq_exact_core (mkSeq fr to inc) fr to inc hfr.1 hfr.2
    (by have := hinc.1; omega) hinc.2 rfl rfl rfl hno k

/-- `{9223372036854775806..9223372036854775807}`: after the two elements `n += 1` wraps to −2^63
    and the loop goes on (finding C16-seq-int64-overflow). -/
theorem seq_exact_counterexample : ¬ seq_exact_statement := by
  intro h
  have := h 9223372036854775806 9223372036854775807 1 (by decide) (by decide) (by decide) 3
  revert this
  decide

/-- The same with an explicit increment of −2^63, whose absolute value does not exist in Int64:
    `{0..1..-9223372036854775808}` alternates between 0 and −2^63. -/
theorem seq_exact_counterexample_min_incr :
    seqVals (mkSeq 0 1 minI64) 4 0 = [0, minI64, 0, minI64] ∧
    idealSeq 0 1 (idealStep minI64) = [0] := by
  decide

/-- Non-vacuity of `seq_exact_partial`: `{-3..10..4}` and a descending sequence at the lower
    limit satisfy its hypotheses. -/
example : SeqNoOverflow (-3) 10 (idealStep 4) ∧ seqVals (mkSeq (-3) 10 4) 9 (-3) = [-3, 1, 5, 9] := by
  decide
example : SeqNoOverflow (minI64 + 6) (minI64 + 2) (idealStep (-2)) ∧
    seqVals (mkSeq (minI64 + 6) (minI64 + 2) (-2)) 9 (minI64 + 6) =
      [minI64 + 6, minI64 + 4, minI64 + 2] := by
  decide

/-! ## Expansion of a split word: no panic, count, limit -/

/-- `bracesSeqRec` never panics (index out of range on `br.Elems[1]`, `fromLit[0]`) on what
    `SplitBraces` produces — for every byte string, overflow or not. -/
theorem expand_no_panic (w : Bytes) : expand (splitBraces w).1 ≠ .error .panic := by
  obtain ⟨r, hr⟩ := bracesRec_total (bracesIn (splitBraces w).1 + 1) (limit + 1) (splitBraces w).1
    (wf_split w) (by omega)
  unfold expand bracesSeq
  rw [hr]
  by_cases hl : r.length > limit <;> simp [hl]

/-- Number of results = product over the concatenated parts of the sum over the alternatives
    (`count`), a sequence counting `⌊|to−from|/step⌋+1`. -/
theorem count_denot (t : Word) : (denot t).length = count t := denot_length t

/-- The expansion of a well-formed tree whose sequences do not overflow is its denotation
    (alternatives in order, sequences as ideal progressions, left-major products), or the limit
    error exactly when there are more than 16384 results. -/
theorem expand_spec (t : Word) (hwf : wf t = true) (hno : noOv t = true) :
    expand t = if count t > limit then .error .limit else .ok (denot t) := by
  obtain ⟨r, hr, hrr⟩ := bracesRec_spec (bracesIn t + 1) (limit + 1) t hwf hno (by omega) (by omega)
  have hlen : r.length = min (limit + 1) (count t) := by
    have := congrArg List.length hrr
    simpa [List.length_take, denot_length] using this
  unfold expand bracesSeq
  rw [hr]
  simp only
  by_cases hc : count t > limit
  · have : r.length > limit := by omega
    simp [hc, this]
  · have : ¬ r.length > limit := by omega
    simp only [hc, this, if_false, hrr]
    congr 1
    apply List.take_of_length_le
    rw [denot_length]; omega

/-- `count`: when the expansion succeeds it has exactly `count` elements. -/
theorem count_results (w : Bytes) (hno : noOv (splitBraces w).1 = true) (rs : List Bytes)
    (h : expand (splitBraces w).1 = .ok rs) : rs.length = count (splitBraces w).1 := by
  rw [expand_spec _ (wf_split w) hno] at h
  split at h
  · cases h
  · cases h; exact denot_length _

/-- The documented limit: an error **iff** the list would exceed 16384 elements. -/
def limit_iff_statement : Prop :=
  ∀ w : Bytes, isLimitErr (expand (splitBraces w).1) = true ↔ count (splitBraces w).1 > limit

/-- It holds for every word none of whose sequences overflows Int64 in the Go loop. -/
theorem limit_iff_partial (w : Bytes) (hno : noOv (splitBraces w).1 = true) :
    isLimitErr (expand (splitBraces w).1) = true ↔ count (splitBraces w).1 > limit := by
  rw [expand_spec _ (wf_split w) hno]
  split <;> simp_all [isLimitErr]

/-- `{9223372036854775806..9223372036854775807}` has 2 elements but ends in the limit error
    (finding C16-seq-int64-overflow). -/
def overflowWitness : Bytes :=
  [123, 57, 50, 50, 51, 51, 55, 50, 48, 51, 54, 56, 53, 52, 55, 55, 53, 56, 48, 54, 46, 46,
   57, 50, 50, 51, 51, 55, 50, 48, 51, 54, 56, 53, 52, 55, 55, 53, 56, 48, 55, 125]

/-- The expansion of the overflow witness is the limit error. -/
theorem overflow_witness_limit : isLimitErr (expand (splitBraces overflowWitness).1) = true := by
  have htree : (splitBraces overflowWitness).1 =
      [.brace true [[.lit (overflowWitness.drop 1 |>.take 19)], [.lit (overflowWitness.drop 22 |>.take 19)]],
       .lit []] := by rfl
  rw [htree]
  apply expand_single_seq_limit _ _ (mkSeq 9223372036854775806 9223372036854775807 1) (by rfl)
  -- two values, then the wrapped −2^63 and the 16383 values after it
  exact seqVals_overflow_len _ rfl rfl rfl (limit - 1) (by decide)

theorem limit_iff_counterexample : ¬ limit_iff_statement := by
  intro h
  have hcount : ¬ count (splitBraces overflowWitness).1 > limit := by decide
  exact hcount ((h overflowWitness).mp overflow_witness_limit)

/-! ## Equivalence with bash -/

/-- Go side of the equivalence, for every well-formed brace expression tree `t` (nested list
    groups with ≥ 2 alternatives, valid sequences, literals of ordinary bytes): splitting the
    *text* of `t` and expanding gives the denotation of `t` — alternatives in order, ideal
    sequences, left-major products — or the limit error iff it has more than 16384 elements. -/
theorem expand_canon (t : Word) (hc : canon t = true) (hno : noOv t = true) :
    expand (splitBraces (render t)).1 =
      if count t > limit then .error .limit else .ok (denot t) := by
  obtain ⟨hd, hn⟩ := split_canon_denot t hc
  rw [expand_spec _ (wf_split _) (by rw [hn]; exact hno), hd]
  have : count (splitBraces (render t)).1 = count t := by
    rw [← denot_length, ← denot_length, hd]
  rw [this]

/-- Sequence terms: whenever SplitBraces' validity test accepts `{x..y[..z]}` (endpoints and
    increment of ordinary bytes), bash's `expand_seqterm` reads the same kind, endpoints, padding
    width and step. -/
theorem seq_terms_agree (elems : List Word) (hv : seqValid elems = true)
    (hs : seqShape elems = true) : seqAgree elems = true := seqAgree_of_valid elems hv hs

/-- bash side of the equivalence: on the text of a well-formed tree, bash's `brace_expand`
    (gobbler scans, `expand_amble`, `expand_seqterm`, recursion on pieces and postscript) yields
    the denotation. -/
theorem bash_canon_denot (t : Word) (hc : canon t = true) :
    bashBraces (render t) = denot t :=
  bash_canon _ t hc (seqsAgree_of_canon t hc) (by omega)

/-- `bashCount` really is the number of words bash produces — for every byte string. -/
theorem bashCount_length (w : Bytes) : bashCount w = (bashBraces w).length := bashCount_eq w

/-- "Expanding the word gives exactly the list of words bash's brace expansion gives, or an error
    only when that list would exceed the 16384-element limit" — for every literal word. -/
def bash_equiv_statement : Prop :=
  ∀ w : Bytes, cDollar ∉ w →
    (isLimitErr (expand (splitBraces w).1) = true ↔ bashCount w > limit) ∧
    (bashCount w ≤ limit → expand (splitBraces w).1 = .ok (bashBraces w))

/-- The equivalence holds for the text of every well-formed brace expression tree (`canon`: nested
    list groups with at least two alternatives, `{x..y[..z]}` sequences that pass the validity
    test, literals of bytes other than `{ } , . \ $`) provided no sequence overflows Int64 in the
    Go loop (`noOv`; finding C16-seq-int64-overflow otherwise). -/
theorem bash_equiv_partial (t : Word) (hc : canon t = true) (hno : noOv t = true) :
    (isLimitErr (expand (splitBraces (render t)).1) = true ↔ bashCount (render t) > limit) ∧
    (bashCount (render t) ≤ limit →
      expand (splitBraces (render t)).1 = .ok (bashBraces (render t))) := by
  have hb := bash_canon_denot t hc
  have hcount : bashCount (render t) = count t := by
    rw [bashCount_eq, hb, denot_length]
  rw [expand_canon t hc hno, hcount, hb]
  constructor
  · split <;> simp_all [isLimitErr]
  · intro hle
    rw [if_neg (by omega)]

/-- Non-vacuity: `a{b,c{1..3}}d{x,}` is such a tree. -/
example :
    let t : Word := [.lit [97], .brace false [[.lit [98]], [.lit [99], .brace true [[.lit [49]], [.lit [51]]]]],
      .lit [100], .brace false [[.lit [120]], []]]
    canon t = true ∧ noOv t = true ∧
      render t = [97, 123, 98, 44, 99, 123, 49, 46, 46, 51, 125, 125, 100, 123, 120, 44, 125] := by
  decide

/-- `{a},}`: bash keeps scanning after a `}` that closes a group without separator and expands
    to `a}` and the empty word; SplitBraces closes the group at the first `}`
    (finding C16-close-without-separator). -/
theorem bash_equiv_counterexample : ¬ bash_equiv_statement := by
  intro h
  have h2 := (h [123, 97, 125, 44, 125] (by decide)).2 (by decide)
  have e1 : expand (splitBraces [123, 97, 125, 44, 125]).1 = .ok [[123, 97, 125, 44, 125]] := by rfl
  have e2 : bashBraces [123, 97, 125, 44, 125] = [[97, 125], []] := by rfl
  rw [e1, e2] at h2
  cases h2

/-- `{a..{b,c}}`: bash drops the outer braces (`a..b a..c`), mvdan/sh keeps them
    (finding C16-invalid-seq-nested-a). -/
theorem bash_equiv_counterexample_nested :
    expand (splitBraces [123, 97, 46, 46, 123, 98, 44, 99, 125, 125]).1 =
      .ok [[123, 97, 46, 46, 98, 125], [123, 97, 46, 46, 99, 125]] ∧
    bashBraces [123, 97, 46, 46, 123, 98, 44, 99, 125, 125] =
      [[97, 46, 46, 98], [97, 46, 46, 99]] := by
  constructor <;> rfl

/-- The overflow witness: bash's list has 2 elements, the expansion is the limit error. -/
theorem bash_equiv_counterexample_overflow :
    bashCount overflowWitness = 2 ∧ isLimitErr (expand (splitBraces overflowWitness).1) = true :=
  ⟨by rfl, overflow_witness_limit⟩

end ShVerif.C16
