import ShVerif.Model.C16
import ShVerif.Proofs.C16
import ShVerif.Proofs.C16b
import ShVerif.Proofs.C16c
import ShVerif.Proofs.C16d
import ShVerif.Proofs.C16e
/-
  C16 — Brace expansion matches bash.  Property theorems.  A statement that is false of the model
  (hence of the Go code: the model is tied to it on every run) is kept as `def …_statement`, with
  a proved `…_partial` theorem, and a proved counter-example (`…_counterexample`).
  `pinned_…` lemmas keep the witnesses of repaired defects (f5e7d25, bbca746, 9b7d1dc) in place.
-/
namespace ShVerif.C16

/-! ## Splitting leaves the printed form unchanged -/

/-- `SplitBraces` never changes the printed form of a literal word — for every byte string. -/
theorem split_render (w : Bytes) : render (splitBraces w).1 = w := split_render_aux w

/-! ## … and reports whether it found a brace expansion -/

/-- The documented contract, for every byte string: the bool says whether the result contains a
    `BraceExp`, and a word without one is left untouched. -/
theorem split_reports (w : Bytes) :
    ((splitBraces w).2 = true ↔ hasBrace (splitBraces w).1 = true) ∧
    ((splitBraces w).2 = false → (splitBraces w).1 = [.lit w]) := by
  unfold splitBraces
  split
  · simp [hasBrace, Part.isLit]
  · simp only
    split
    · rename_i hb; simp [hb]
    · simp [hasBrace, Part.isLit]

/-- `a{b` (finding C16-reports-true-without-braceexp, fixed by f5e7d25). -/
theorem pinned_reports_a_lbrace_b : splitBraces [97, 123, 98] = ([.lit [97, 123, 98]], false) := by
  rfl

/-! ## Sequences -/

abbrev In64 (x : Int) : Prop := minI64 ≤ x ∧ x ≤ maxI64

/-- The loop parameters `bracesSeqRec` computes for `{fr..to..inc}` (inc = 1 when absent). -/
def mkSeq (fr to inc : Int) : SeqParams :=
  { chars := false, «from» := fr, to := to, width := 0,
    step := goStep inc, upward := decide (fr ≤ to) }

/-- A sequence `{fr..to[..inc]}` visits exactly the `⌊|to−fr|/|inc|⌋+1` values of the ideal
    arithmetic progression, in order — for all Int64 endpoints and increments, including
    increment −2^63 and ranges that end at the Int64 limits (`k` bounds the number of iterations
    looked at). -/
theorem seq_exact (fr to inc : Int) (hfr : In64 fr) (hto : In64 to) (hinc : In64 inc) (k : Nat) :
    seqVals (mkSeq fr to inc) k fr = (idealSeq fr to (idealStep inc)).take k :=
  seq_exact_core (mkSeq fr to inc) fr to inc hfr.1 hfr.2 hto.1 hto.2 hinc.1 hinc.2 rfl rfl rfl k

/-- `{9223372036854775806..9223372036854775807}` and `{0..1..-9223372036854775808}`
    (finding C16-seq-int64-overflow, fixed by bbca746). -/
theorem pinned_seq_at_int64_limit :
    seqVals (mkSeq 9223372036854775806 9223372036854775807 1) 5 9223372036854775806 =
      [9223372036854775806, 9223372036854775807] ∧
    seqVals (mkSeq 0 1 minI64) 5 0 = [0] ∧
    seqVals (mkSeq (minI64 + 1) minI64 (-2)) 5 (minI64 + 1) = [minI64 + 1] := by
  decide

/-! ## Expansion of a split word: no panic, count, limit -/

/-- `bracesSeqRec` never panics (index out of range on `br.Elems[1]`, `fromLit[0]`) on what
    `SplitBraces` produces — for every byte string. -/
theorem expand_no_panic (w : Bytes) : expand (splitBraces w).1 ≠ .error .panic := by
  obtain ⟨r, hr⟩ := bracesRec_total (bracesIn (splitBraces w).1 + 1) (limit + 1) (splitBraces w).1
    (wf_split w) (by omega)
  unfold expand bracesSeq
  rw [hr]
  by_cases hl : r.length > limit <;> simp [hl]

/-- Number of results = product over the concatenated parts of the sum over the alternatives
    (`count`), a sequence counting `⌊|to−from|/step⌋+1`. -/
theorem count_denot (t : Word) : (denot t).length = count t := denot_length t

/-- The expansion of a well-formed tree is its denotation (alternatives in order, sequences as
    ideal progressions, left-major products), or the limit error exactly when there are more than
    16384 results. -/
theorem expand_spec (t : Word) (hwf : wf t = true) :
    expand t = if count t > limit then .error .limit else .ok (denot t) := by
  obtain ⟨r, hr, hrr⟩ := bracesRec_spec (bracesIn t + 1) (limit + 1) t hwf (by omega) (by omega)
  have hlen : r.length = min (limit + 1) (count t) := by
    have := congrArg List.length hrr
    simpa [List.length_take, denot_length] using this
  unfold expand bracesSeq
  rw [hr]
  simp only
  by_cases hc : count t > limit
  · have : r.length > limit := by omega
    simp [hc, this]
  · have : ¬ r.length > limit := by omega
    simp only [hc, this, if_false, hrr]
    congr 1
    apply List.take_of_length_le
    rw [denot_length]; omega

/-- `count`: when the expansion succeeds it has exactly `count` elements — for every byte string. -/
theorem count_results (w : Bytes) (rs : List Bytes)
    (h : expand (splitBraces w).1 = .ok rs) : rs.length = count (splitBraces w).1 := by
  rw [expand_spec _ (wf_split w)] at h
  split at h
  · cases h
  · cases h; exact denot_length _

/-- The documented limit, for every byte string: an error **iff** the list would exceed 16384
    elements. -/
theorem limit_iff (w : Bytes) :
    isLimitErr (expand (splitBraces w).1) = true ↔ count (splitBraces w).1 > limit := by
  rw [expand_spec _ (wf_split w)]
  split <;> simp_all [isLimitErr]

/-- `{9223372036854775806..9223372036854775807}` (finding C16-seq-int64-overflow). -/
def overflowWitness : Bytes :=
  [123, 57, 50, 50, 51, 51, 55, 50, 48, 51, 54, 56, 53, 52, 55, 55, 53, 56, 48, 54, 46, 46,
   57, 50, 50, 51, 51, 55, 50, 48, 51, 54, 56, 53, 52, 55, 55, 53, 56, 48, 55, 125]

/-- It no longer ends in the limit error: two words. -/
theorem pinned_overflow_witness :
    isLimitErr (expand (splitBraces overflowWitness).1) = false ∧
    count (splitBraces overflowWitness).1 = 2 := by
  have hc : count (splitBraces overflowWitness).1 = 2 := by decide +kernel
  refine ⟨?_, hc⟩
  have := limit_iff overflowWitness
  cases h : isLimitErr (expand (splitBraces overflowWitness).1) with
  | false => rfl
  | true =>
    have := this.mp h
    rw [hc] at this
    exact absurd this (by decide)

/-- `{,x}` (finding C16-empty-word-becomes-field, fixed by 9b7d1dc): no empty trailing `Lit`, the
    empty alternative is a word without parts, and `Fields` yields the single field `x`. -/
theorem pinned_empty_alternative :
    (splitBraces [123, 44, 120, 125]).1 = [.brace false [[], [.lit [120]]]] ∧
    fields [123, 44, 120, 125] = .ok [[120]] := by
  constructor <;> rfl

/-! ## Equivalence with bash -/

/-- Go side of the equivalence, for every well-formed brace expression tree `t` (`canonTop`:
    nested list groups with ≥ 2 alternatives, valid sequences; literals inside groups of ordinary
    bytes, top-level literals of any bytes but `{`, backslash, `$`): splitting the *text* of `t` and
    expanding gives the denotation of `t` — alternatives in order, ideal sequences, left-major
    products — or the limit error iff it has more than 16384 elements. -/
theorem expand_canon (t : Word) (hc : canonTop t = true) :
    expand (splitBraces (render t)).1 =
      if count t > limit then .error .limit else .ok (denot t) := by
  have hd := split_canonTop_denot t hc
  rw [expand_spec _ (wf_split _), hd]
  have : count (splitBraces (render t)).1 = count t := by
    rw [← denot_length, ← denot_length, hd]
  rw [this]

/-- Every `canon` tree (the class of the previous version of `bash_equiv_partial`) is `canonTop`. -/
theorem canon_is_canonTop (t : Word) (h : canon t = true) : canonTop t = true :=
  canon_canonTop t h

/-- Sequence terms: whenever SplitBraces' validity test accepts `{x..y[..z]}` (endpoints and
    increment of ordinary bytes), bash's `expand_seqterm` reads the same kind, endpoints, padding
    width and step. -/
theorem seq_terms_agree (elems : List Word) (hv : seqValid elems = true)
    (hs : seqShape elems = true) : seqAgree elems = true := seqAgree_of_valid elems hv hs

/-- bash side of the equivalence: on the text of a well-formed tree, bash's `brace_expand`
    (gobbler scans, `expand_amble`, `expand_seqterm`, recursion on pieces and postscript) yields
    the denotation. -/
theorem bash_canon_denot (t : Word) (hc : canonTop t = true) :
    bashBraces (render t) = denot t :=
  bash_canonTop _ t hc (by omega)

/-- `bashCount` really is the number of words bash produces — for every byte string. -/
theorem bashCount_length (w : Bytes) : bashCount w = (bashBraces w).length := bashCount_eq w

/-- "Expanding the word gives exactly the list of words bash's brace expansion gives, or an error
    only when that list would exceed the 16384-element limit" — for every literal word. -/
def bash_equiv_statement : Prop :=
  ∀ w : Bytes, cDollar ∉ w →
    (isLimitErr (expand (splitBraces w).1) = true ↔ bashCount w > limit) ∧
    (bashCount w ≤ limit → expand (splitBraces w).1 = .ok (bashBraces w))

/-- The equivalence holds for the text of every well-formed brace expression tree (`canonTop`):
    nested list groups with at least two alternatives, `{x..y[..z]}` sequences that pass the
    validity test (any Int64 endpoints and increment, letters with a step); literals *inside*
    groups of bytes other than `{ } , \ $`, with single dots only (every `.` followed by a
    non-dot byte of the same literal); literals *outside* any group of any bytes other than `{`,
    backslash and `$` — so `file.{c,h}`, `a,b{1..3}.tar.gz`, `{a.b,.c}` and `x}{a,b}` are covered. -/
theorem bash_equiv_partial (t : Word) (hc : canonTop t = true) :
    (isLimitErr (expand (splitBraces (render t)).1) = true ↔ bashCount (render t) > limit) ∧
    (bashCount (render t) ≤ limit →
      expand (splitBraces (render t)).1 = .ok (bashBraces (render t))) := by
  have hb := bash_canon_denot t hc
  have hcount : bashCount (render t) = count t := by
    rw [bashCount_eq, hb, denot_length]
  rw [expand_canon t hc, hcount, hb]
  constructor
  · split <;> simp_all [isLimitErr]
  · intro hle
    rw [if_neg (by omega)]

/-- Non-vacuity: `file.{c,h}` and `a,b}{x..z..2}.tar.gz` are such trees. -/
example :
    let t : Word := [.lit [102, 105, 108, 101, 46], .brace false [[.lit [99]], [.lit [104]]]]
    canonTop t = true ∧ render t = [102, 105, 108, 101, 46, 123, 99, 44, 104, 125] := by
  decide
example :
    canonTop [.lit [97, 44, 98, 125], .brace true [[.lit [120]], [.lit [122]], [.lit [50]]],
      .lit [46, 116, 97, 114, 46, 103, 122]] = true := by
  decide
/-- `{a.b,.c}x.y`: dots inside a group. -/
example :
    canonTop [.brace false [[.lit [97, 46, 98]], [.lit [46, 99]]], .lit [120, 46, 121]] = true := by
  decide

/-- Non-vacuity: `a{b,c{1..3}}d{x,}` is such a tree. -/
example :
    let t : Word := [.lit [97], .brace false [[.lit [98]], [.lit [99], .brace true [[.lit [49]], [.lit [51]]]]],
      .lit [100], .brace false [[.lit [120]], []]]
    canon t = true ∧ canonTop t = true ∧
      render t = [97, 123, 98, 44, 99, 123, 49, 46, 46, 51, 125, 125, 100, 123, 120, 44, 125] := by
  decide

/-- `{a},}`: bash keeps scanning after a `}` that closes a group without separator and expands
    to `a}` and the empty word; SplitBraces closes the group at the first `}`
    (finding C16-close-without-separator). -/
theorem bash_equiv_counterexample : ¬ bash_equiv_statement := by
  intro h
  have h2 := (h [123, 97, 125, 44, 125] (by decide)).2 (by decide)
  have e1 : expand (splitBraces [123, 97, 125, 44, 125]).1 = .ok [[123, 97, 125, 44, 125]] := by rfl
  have e2 : bashBraces [123, 97, 125, 44, 125] = [[97, 125], []] := by rfl
  rw [e1, e2] at h2
  cases h2

/-- `{a..{b,c}}`: bash drops the outer braces (`a..b a..c`), mvdan/sh keeps them
    (finding C16-invalid-seq-nested-a). -/
theorem bash_equiv_counterexample_nested :
    expand (splitBraces [123, 97, 46, 46, 123, 98, 44, 99, 125, 125]).1 =
      .ok [[123, 97, 46, 46, 98, 125], [123, 97, 46, 46, 99, 125]] ∧
    bashBraces [123, 97, 46, 46, 123, 98, 44, 99, 125, 125] =
      [[97, 46, 46, 98], [97, 46, 46, 99]] := by
  constructor <;> rfl

end ShVerif.C16
