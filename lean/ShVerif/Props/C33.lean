import ShVerif.Model.C33
import ShVerif.Proofs.C33
/-
  C33 — Indexed arrays behave like a map from indices to values.  Property theorems.

  `Arr`  = the Go representation (`Variable.List`, `Variable.Indexes`; `none` = nil = dense),
  `Var`  = the fields of `expand.Variable` the array code touches, `applyOp` = one statement,
  `SMap` = a finite map Int ⇀ Str as a strictly sorted association list; `SVar` = map + unset/scalar/array tag, with
           bash's semantics of every operation (`specOp`), `Arr.abs`/`Var.abs` the abstraction.
  Helper lemmas: ShVerif/Proofs/C33.lean.
-/
namespace ShVerif.C33

/-! ### The specification really is a finite map -/

/-- Sorted association lists are canonical representatives of finite maps. -/
theorem map_canonical {m₁ m₂ : SMap} (h₁ : m₁.Sorted) (h₂ : m₂.Sorted)
    (h : ∀ k, m₁.lookup k = m₂.lookup k) : m₁ = m₂ :=
  SMap.ext h₁ h₂ h

/-- `insert` is map update, and keeps the canonical form. -/
theorem map_insert (m : SMap) (hs : m.Sorted) (k : Int) (v : Str) :
    (m.insert k v).Sorted ∧ ∀ j, (m.insert k v).lookup j = if j = k then some v else m.lookup j :=
  ⟨SMap.insert_sorted hs k v, SMap.lookup_insert m k v⟩

/-- `erase` is map removal, and keeps the canonical form. -/
theorem map_erase (m : SMap) (hs : m.Sorted) (k : Int) :
    (m.erase k).Sorted ∧ ∀ j, (m.erase k).lookup j = if j = k then none else m.lookup j :=
  ⟨SMap.erase_sorted hs k, SMap.lookup_erase hs k⟩

/-- The abstraction of a well-formed representation is a canonical map with non-negative keys. -/
theorem abs_is_map (a : Arr) (h : a.WF) : a.abs.Sorted ∧ ∀ k ∈ a.abs.keys, 0 ≤ k :=
  ⟨abs_sorted h, abs_keys_nonneg h⟩

/-! ### internal/sparse.go -/

/-- `SetIndexedElem` with a non-negative index never panics, preserves the representation
    invariant (indices strictly increasing, non-negative, as many as elements, nil iff dense) and
    is map update. -/
theorem abs_set (a : Arr) (h : a.WF) (k : Int) (v : Str) (hk : 0 ≤ k) :
    ∃ a', setElem a k v = .ok a' ∧ a'.WF ∧ a'.abs = a.abs.insert k v :=
  setElem_spec h k v hk

/-- `DeleteIndexedElem` (any index, also negative or absent) never panics, preserves the
    invariant and is map removal. -/
theorem abs_delete (a : Arr) (h : a.WF) (k : Int) :
    ∃ a', deleteElem a k = .ok a' ∧ a'.WF ∧ a'.abs = a.abs.erase k :=
  deleteElem_spec h k

/-- "The index k must not be negative": on a dense array the Go code indexes `list[k]` and
    panics … -/
theorem set_negative_dense_panics (list : List Str) (k : Int) (v : Str) (hk : k < 0) :
    setElem ⟨list, none⟩ k v = .panic := by
  simp only [setElem]
  rw [if_pos (by omega), if_pos hk]

/-- … and on a sparse array it silently breaks the invariant (a negative index is stored).
    `WF_preserved` below shows that no caller in interp/vars.go ever does this. -/
theorem set_negative_sparse_breaks_invariant (a : Arr) (h : a.WF) (ix : List Int)
    (e : a.idx = some ix) (k : Int) (v : Str) (hk : k < 0) :
    ∃ a', setElem a k v = .ok a' ∧ ¬ a'.WF := by
  have pre := h.pre e
  cases ix with
  | nil => exact (wf_idx_ne_nil h e).elim
  | cons x xs =>
    have hx : 0 ≤ x := pre.nonneg x (List.mem_cons_self ..)
    have hlb : lb (x :: xs) k = 0 := by simp only [lb]; rw [if_neg (by omega)]
    have hf : foundAt (x :: xs) k = false := by
      simp only [foundAt]; rw [if_neg (by omega)]; simp; omega
    have hc : canonical (some (k :: x :: xs)) = some (k :: x :: xs) := by
      simp only [canonical, isIotaFrom]
      have : (k == 0) = false := by simp; omega
      simp [this]
    refine ⟨⟨v :: a.list, some (k :: x :: xs)⟩, ?_, ?_⟩
    · simp only [setElem, e, sparseSet, search_eq _ _ pre.inc, hlb, hf]
      simp [insertAt, hc]
    · intro w
      have := (w.shape _ rfl).2.2.1 k (List.mem_cons_self ..)
      omega

/-- `CanonicalIndexes`: nil exactly when the indices are 0, 1, 2, … -/
theorem canonical_nil_iff_dense (ix : List Int) :
    canonical (some ix) = none ↔ ix = iotaFrom 0 ix.length := by
  simp only [canonical]
  constructor
  · intro h
    split at h
    · next hi => exact eq_iotaFrom_of_isIotaFrom hi
    · cases h
  · intro h
    rw [if_pos (by rw [h]; exact isIotaFrom_iotaFrom ..)]

/-- `IndexedMax` is the largest key, or -1 for the empty array. -/
theorem max (a : Arr) (h : a.WF) :
    indexedMax a = a.abs.maxKey ∧
    (a.abs = [] → a.abs.maxKey = -1) ∧
    (∀ k ∈ a.abs.keys, k ≤ a.abs.maxKey) ∧
    (a.abs ≠ [] → a.abs.maxKey ∈ a.abs.keys) :=
  ⟨indexedMax_spec h, fun e => by rw [e]; rfl, fun _ hk => SMap.le_maxKey (abs_sorted h) hk,
    fun ne => SMap.maxKey_mem ne⟩

/-! ### expand: `${!a[@]}`, `${#a[@]}`, `${a[i]}`, `${a[@]:o:l}` -/

/-- `indexedKeys` yields exactly the domain of the map, strictly increasing. -/
theorem keys_sorted_domain (a : Arr) (h : a.WF) :
    indexedKeys a = .ok a.abs.keys ∧ Increasing a.abs.keys ∧
    ∀ k, k ∈ a.abs.keys ↔ a.abs.lookup k ≠ none :=
  ⟨indexedKeys_spec h, (sorted_iff_keys _).mp (abs_sorted h),
    fun k => (SMap.lookup_isSome_iff_mem_keys a.abs k).symm⟩

/-- The element count is the size of the map. -/
theorem count (a : Arr) (h : a.WF) :
    a.list.length = a.abs.length ∧ a.abs.keys.length = a.abs.length :=
  ⟨count_spec h, by simp [SMap.keys]⟩

/-- `indexedVal` (non-negative index) is map lookup and never panics. -/
theorem val_spec (a : Arr) (h : a.WF) (i : Int) (hi : 0 ≤ i) :
    indexedVal a i = .ok (a.abs.lookup i) :=
  indexedVal_spec h i hi

/-- `${a[i]}` for every `i`: a negative subscript reads index `i + max + 1` (an error when that is
    still negative); the guard means `indexedVal` is never called with a negative index, so the
    `v.List[i]` panic is unreachable. -/
theorem neg_index (a : Arr) (h : a.WF) (i : Int) :
    elemRead a i = specRead a.abs i ∧ elemRead a i ≠ .panic ∧
    (i < 0 → 0 ≤ i + (a.abs.maxKey + 1) →
      elemRead a i = match a.abs.lookup (i + (a.abs.maxKey + 1)) with
        | some s => .val s
        | none => .unset) := by
  have e := elemRead_spec h i
  refine ⟨e, ?_, ?_⟩
  · rw [e]
    simp only [specRead]
    split
    · intro c; cases c
    · split <;> (intro c; cases c)
  · intro hi hr
    rw [e]
    simp only [specRead, resolve, if_pos hi]
    rw [if_neg (by omega)]
    cases SMap.lookup a.abs (i + (a.abs.maxKey + 1)) <;> rfl

/-- `${a[@]:off:len}` with an absent or non-negative length: the elements whose index is at least
    the offset (negative: counted from one past the largest index), the first `len` of them. -/
theorem slice_spec (a : Arr) (h : a.WF) (offset length : Option Int)
    (hl : ∀ l, length = some l → 0 ≤ l) :
    ∃ r, sliceElems a offset length = .ok r ∧ specSlice a.abs offset length = some r :=
  sliceElems_spec h offset length hl

/-! ### interp/vars.go: every statement, every sequence -/

/-- Every operation, on every well-formed variable, terminates without a Go panic (in
    particular `SetIndexedElem` is never reached with a negative index) and re-establishes the
    invariant. -/
theorem WF_preserved (v : Var) (op : Op) (h : v.WF) : ∃ v', applyOp v op = .ok v' ∧ v'.WF :=
  let ⟨v', e, w, _⟩ := applyOp_spec v op h
  ⟨v', e, w⟩

/-- … hence so does every operation sequence from an unset variable. -/
theorem WF_run (ops : List Op) : ∃ v, runOps Var.zero ops = .ok v ∧ v.WF :=
  let ⟨v', e, w, _⟩ := runOps_spec ops Var.zero Var.WF.zero_var
  ⟨v', e, w⟩

/-- Every operation on a well-formed variable that `IsSet()` whenever it has a value (both kept
    by every operation) is the bash operation on the abstract variable (map + unset/scalar/array
    tag). -/
theorem op_refine (v : Var) (op : Op) (h : v.WF) (hs : v.SetOK) :
    ∃ v', applyOp v op = .ok v' ∧ v'.WF ∧ v'.SetOK ∧ v'.abs = specOp v.abs op :=
  let ⟨v', e, w, ab⟩ := applyOp_spec v op h
  ⟨v', e, w, applyOp_setOK hs e, ab (opOK_of_setOK hs op)⟩

/-- From any such variable: running the code's operations and abstracting = running bash's
    operations on the abstraction — by induction over the sequence. -/
theorem ops_refine_from (v : Var) (h : v.WF) (hs : v.SetOK) (ops : List Op) :
    ∃ v', runOps v ops = .ok v' ∧ v'.WF ∧ v'.abs = specRun v.abs ops :=
  let ⟨v', e, w, ab⟩ := runOps_spec ops v h
  ⟨v', e, w, ab (runOK_always ops v h hs)⟩

/-- The property, at full strength: for EVERY operation sequence (element and whole-array
    assignment, `+=` of arrays, strings and elements, explicit `[i]=` resetting the counter,
    `read -a`, `mapfile`, negative and out-of-range subscripts, unset of elements and of the
    variable) starting from an unset variable, the code never panics, keeps the representation
    invariant, and the array it ends with is the one bash's semantics gives. -/
theorem ops_refine (ops : List Op) :
    ∃ v, runOps Var.zero ops = .ok v ∧ v.WF ∧ v.abs = specRun SVar.unset ops :=
  ops_refine_from Var.zero Var.WF.zero_var (fun c => (c rfl).elim) ops

/-! ### Repaired by `fix:` commits 1543c4b, 52fb9f0, 4e7d138, 87a26e0 (witnesses in corpus/C33-fixed.txt):
    the model of the current code gives bash's answer on the former counter-examples -/

def bX : Str := [120]
def bY : Str := [121]
def bZ : Str := [122]
def bQ : Str := [113]
def bR : Str := [114]

/-- `a=(x y); a[1]+=z` is `(x yz)`; on a sparse array `a=([3]=x); a[3]+=z; a[-1]+=y; a[1]+=q`. -/
theorem elem_append_fixed :
    runOps Var.zero [.assign [.plain bX, .plain bY], .appElem 1 bZ]
      = .ok ⟨.indexed, true, [], ⟨[bX, bY ++ bZ], none⟩, false⟩ ∧
    runOps Var.zero [.assign [.at 3 bX], .appElem 3 bZ, .appElem (-1) bY, .appElem 1 bQ]
      = .ok ⟨.indexed, true, [], ⟨[bQ, bX ++ bZ ++ bY], some [1, 3]⟩, false⟩ := by
  decide

/-- `a=(x y [-5]=q r)`: the bad subscript only skips its element: `(x y r)`, as in bash. -/
theorem literal_bad_subscript_fixed :
    runOps Var.zero [.assign [.plain bX, .plain bY, .at (-5) bQ, .plain bR]]
      = .ok ⟨.indexed, true, [], ⟨[bX, bY, bR], none⟩, false⟩ ∧
    specRun SVar.unset [.assign [.plain bX, .plain bY, .at (-5) bQ, .plain bR]]
      = ⟨.indexed, [(0, bX), (1, bY), (2, bR)]⟩ := by
  decide

/-- `a[0]=x; unset a`: an array created by an element assignment `IsSet()` and can be unset. -/
theorem unset_after_elem_assign_fixed :
    runOps Var.zero [.setElem 0 bX, .unsetAll] = .ok Var.zero ∧
    specRun SVar.unset [.setElem 0 bX, .unsetAll] = SVar.unset := by
  decide

/-- `mapfile -t a <<< z; unset a`: the array made by `mapfile` `IsSet()` and is unset, as in bash. -/
theorem mapfile_unset_fixed :
    runOps Var.zero [.mapfile [[122]], .unsetAll] = .ok Var.zero ∧
    specRun SVar.unset [.mapfile [[122]], .unsetAll] = SVar.unset := by
  decide

/-! ### Non-vacuity -/

/-- A run through dense → sparse → dense representations with negative subscripts, an explicit
    `[i]=` resetting the counter, an out-of-range subscript, `+=` of all three kinds, unsets. -/
def demoOps : List Op :=
  [.assign [.plain bX, .at 5 bY, .plain bZ],   -- a=(x [5]=y z)        {0:x 5:y 6:z}
   .setElem (-1) bQ,                           -- a[-1]=q              {0:x 5:y 6:q}
   .append [.plain bR, .at (-8) bZ, .at (-20) bQ], -- a+=(r [-8]=z [-20]=q) {0:z 5:y 6:q 7:r} (last skipped)
   .unsetElem (-2),                            -- unset 'a[-2]'        {0:z 5:y 7:r}
   .appStr bX,                                 -- a+=x                 {0:zx 5:y 7:r}
   .unsetElem 5, .unsetElem 7,                 -- back to dense        {0:zx}
   .setStr bY, .setElem 1 bQ,                  -- a=y; a[1]=q          {0:y 1:q}
   .appElem (-1) bR, .appElem 4 bZ]            -- a[-1]+=r; a[4]+=z    {0:y 1:qr 4:z}

example : runOps Var.zero demoOps
    = .ok ⟨.indexed, true, [], ⟨[bY, bQ ++ bR, bZ], some [0, 1, 4]⟩, false⟩ := by decide
example : specRun SVar.unset demoOps = ⟨.indexed, [(0, bY), (1, bQ ++ bR), (4, bZ)]⟩ := by decide
/-- `read -a` / `mapfile` replace a sparse array wholesale: indices restart at 0. -/
example : runOps Var.zero [.assign [.at 3 bX, .at 7 bY], .readArr [bQ, bR, bZ], .unsetElem 1]
    = .ok ⟨.indexed, true, [], ⟨[bQ, bZ], some [0, 2]⟩, false⟩ := by decide
/-- Scalars: `s=x; s+=y; unset 's[-1]'` (refused, like bash); `unset 's[0]'` unsets. -/
example : specRun SVar.unset [.setStr bX, .appStr bY, .unsetElem (-1)] = ⟨.str, [(0, bX ++ bY)]⟩ := by decide
example : runOps Var.zero [.setStr bX, .appStr bY, .unsetElem (-1), .unsetElem 0] = .ok Var.zero := by decide
example : runOps Var.zero (demoOps.take 4)
    = .ok ⟨.indexed, true, [], ⟨[bZ, bY, bR], some [0, 5, 7]⟩, false⟩ := by decide
/-- A scalar becomes a one-element array: `s=x; s+=(y)`. -/
example : runOps Var.zero [.setStr bX, .append [.plain bY]]
    = .ok ⟨.indexed, true, bX, ⟨[bX, bY], none⟩, false⟩ := by decide
/-- Sparse slicing: `a=([2]=x [5]=y [9]=z); ${a[@]: -5:2}` = elements from index 5: `y z`. -/
example : sliceElems ⟨[bX, bY, bZ], some [2, 5, 9]⟩ (some (-5)) (some 2) = .ok [bY, bZ] := by decide
example : specSlice [(2, bX), (5, bY), (9, bZ)] (some (-5)) (some 2) = some [bY, bZ] := by decide
/-- A well-formed sparse representation exists (the hypotheses `a.WF` are satisfiable). -/
example : (Arr.mk [bX, bY] (some [2, 5])).WF :=
  ⟨fun ix e => by cases e; exact ⟨rfl, by unfold Increasing; decide, by decide, by decide⟩⟩

end ShVerif.C33
