import ShVerif.Model.C33
import ShVerif.Proofs.C33
namespace ShVerif.C33
end ShVerif.C33
