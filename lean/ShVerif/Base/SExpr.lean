/-
  S-expressions over whitespace-separated tokens, used to ship trees through the line protocol:
  `( Ty 3 0 0 ( Kid … ) )`.  Parentheses are separate tokens.  Total, core Lean only.
-/
namespace ShVerif

inductive SExp
  | atom (s : String)
  | list (xs : List SExp)
  deriving Repr, Inhabited

namespace SExp

/-- One step of the stack parser: the stack holds the reversed contents of the open lists. -/
def step (st : Option (List (List SExp))) (tok : String) : Option (List (List SExp)) :=
  match st with
  | none => none
  | some stack =>
    if tok = "(" then some ([] :: stack)
    else if tok = ")" then
      match stack with
      | top :: next :: rest => some ((SExp.list top.reverse :: next) :: rest)
      | _ => none
    else
      match stack with
      | top :: rest => some ((SExp.atom tok :: top) :: rest)
      | [] => none

/-- Parses a token list holding exactly one S-expression. -/
def parse (toks : List String) : Option SExp :=
  match toks.foldl step (some [[]]) with
  | some [[x]] => some x
  | _ => none

def atomNat? : SExp → Option Nat
  | .atom s => s.toNat?
  | _ => none

end SExp
end ShVerif
