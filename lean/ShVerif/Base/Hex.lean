/-
  Base: byte strings and the hex encoding used by the line protocol between the Go harness and
  the Lean driver.  Core Lean only.
-/
namespace ShVerif

abbrev Bytes := List UInt8

def hexDigit (n : Nat) : Char :=
  if n < 10 then Char.ofNat (48 + n) else Char.ofNat (87 + n)

def hexVal (c : Char) : Option Nat :=
  if '0' ≤ c ∧ c ≤ '9' then some (c.toNat - 48)
  else if 'a' ≤ c ∧ c ≤ 'f' then some (c.toNat - 87)
  else if 'A' ≤ c ∧ c ≤ 'F' then some (c.toNat - 55)
  else none

/-- Hex-encode a byte string; the empty string is written `-` so that every argument is a
    non-empty token. -/
def toHex (b : Bytes) : String :=
  if b.isEmpty then "-" else
  String.ofList (b.flatMap fun x => [hexDigit (x.toNat / 16), hexDigit (x.toNat % 16)])

def ofHexChars : List Char → Option Bytes
  | [] => some []
  | [_] => none
  | a :: b :: rest => do
    let x ← hexVal a
    let y ← hexVal b
    let r ← ofHexChars rest
    pure (UInt8.ofNat (x * 16 + y) :: r)

def ofHex (s : String) : Option Bytes :=
  if s = "-" then some [] else ofHexChars s.toList

def bytesOfString (s : String) : Bytes := s.toUTF8.toList

/-- Lossy rendering for diagnostics only. -/
def bytesToStringLossy (b : Bytes) : String :=
  String.ofList (b.map fun x => Char.ofNat x.toNat)

/-- Lexicographic comparison of byte strings, as Go's `strings.Compare`. -/
def cmpBytes : Bytes → Bytes → Ordering
  | [], [] => .eq
  | [], _ :: _ => .lt
  | _ :: _, [] => .gt
  | a :: as, b :: bs =>
    if a < b then .lt else if b < a then .gt else cmpBytes as bs

def ordToInt : Ordering → Int
  | .lt => -1 | .eq => 0 | .gt => 1

def parseInt? (s : String) : Option Int := s.toInt?

end ShVerif
