/-
  Base: Go's view of a string as a sequence of runes.  `decodeRunes` mirrors `for _, r := range s`
  (utf8.DecodeRuneInString: every byte that does not start a well-formed shortest-form encoding of
  a scalar value yields U+FFFD and advances by one byte); `encodeRunes` mirrors `string([]rune)`.
  Used only by line-protocol drivers (glue between the byte strings of the harness and the
  rune-level models); no theorem depends on it.  Core Lean only.
-/
import ShVerif.Base.Hex
namespace ShVerif

def runeError : Char := Char.ofNat 0xFFFD

private def cont (b : UInt8) : Bool := 0x80 ≤ b.toNat && b.toNat ≤ 0xBF

/-- One step of Go's utf8.DecodeRune: the rune and the number of bytes consumed (≥ 1). -/
def decodeRune1 : Bytes → Char × Nat
  | [] => (runeError, 1)
  | b0 :: rest =>
    let x := b0.toNat
    if x < 0x80 then (Char.ofNat x, 1)
    else if 0xC2 ≤ x && x ≤ 0xDF then
      match rest with
      | b1 :: _ => if cont b1 then (Char.ofNat ((x - 0xC0) * 64 + (b1.toNat - 0x80)), 2) else (runeError, 1)
      | _ => (runeError, 1)
    else if 0xE0 ≤ x && x ≤ 0xEF then
      match rest with
      | b1 :: b2 :: _ =>
        let lo := if x == 0xE0 then 0xA0 else 0x80
        let hi := if x == 0xED then 0x9F else 0xBF
        if lo ≤ b1.toNat && b1.toNat ≤ hi && cont b2 then
          (Char.ofNat ((x - 0xE0) * 4096 + (b1.toNat - 0x80) * 64 + (b2.toNat - 0x80)), 3)
        else (runeError, 1)
      | _ => (runeError, 1)
    else if 0xF0 ≤ x && x ≤ 0xF4 then
      match rest with
      | b1 :: b2 :: b3 :: _ =>
        let lo := if x == 0xF0 then 0x90 else 0x80
        let hi := if x == 0xF4 then 0x8F else 0xBF
        if lo ≤ b1.toNat && b1.toNat ≤ hi && cont b2 && cont b3 then
          (Char.ofNat ((x - 0xF0) * 262144 + (b1.toNat - 0x80) * 4096 + (b2.toNat - 0x80) * 64
            + (b3.toNat - 0x80)), 4)
        else (runeError, 1)
      | _ => (runeError, 1)
    else (runeError, 1)

def decodeRunesFuel : Nat → Bytes → List Char
  | 0, _ => []
  | _, [] => []
  | fuel + 1, bs =>
    let (r, n) := decodeRune1 bs
    r :: decodeRunesFuel fuel (bs.drop n)

/-- `for _, r := range s` -/
def decodeRunes (bs : Bytes) : List Char := decodeRunesFuel bs.length bs

/-- `string(runes)` -/
def encodeRunes (rs : List Char) : Bytes := rs.flatMap String.utf8EncodeChar

end ShVerif
