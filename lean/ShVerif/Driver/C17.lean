import ShVerif.Driver.L3Glob
namespace ShVerif.Drv.C17
open ShVerif ShVerif.L3 ShVerif.Drv.L3

/-- ops (mode is the decimal pattern.Mode value, strings are hex):
    `regexp m p`          model of pattern.Regexp: `ok <printed form>` or the error class
    `compiles m p`        model of "regexp.Compile accepts the result" (yes/no/na), `wf m p` subset grammar
    `rx m p alpha n`      model regexp semantics on all strings ≤ n over alpha (validates the regexp assumption)
    `matcher m p alpha n` model of internal.ExtendedPatternMatcher
    `spec m p alpha n`    the reference semantics globMatch (the property itself); `specl m p s*` on listed strings
    `bashspec m p s*`     globMatch on the listed strings (validated against bash by the harness)
    `malformed m p`       reference parser verdict -/
def handle (args : List String) : String :=
  match args with
  | ["regexp", m, p] =>
    match parseMode m, runesOfHex p with
    | some m, some p =>
      match regexpOf m p with
      | .ok t => "ok " ++ toHex t.printBytes
      | .error e => showErr p e
    | _, _ => "bad-op"
  | ["compiles", m, p] =>
    match parseMode m, runesOfHex p with
    | some m, some p =>
      match regexpOf m p with
      | .ok t => if goCompiles t.body then "yes" else "no"
      | .error _ => "na"
    | _, _ => "bad-op"
  | ["wf", m, p] =>
    match parseMode m, runesOfHex p with
    | some m, some p =>
      match regexpOf m p with
      | .ok t => if t.wf then "yes" else "no"
      | .error _ => "na"
    | _, _ => "bad-op"
  | ["rx", m, p, alpha, n] =>
    match parseMode m, runesOfHex p, runesOfHex alpha, n.toNat? with
    | some m, some p, some alpha, some n =>
      match regexpOf m p with
      | .ok t => if goCompiles t.body then bits t.matches (enumStrs alpha n) else "nocompile"
      | .error _ => "na"
    | _, _, _, _ => "bad-op"
  | ["matcher", m, p, alpha, n] =>
    match parseMode m, runesOfHex p, runesOfHex alpha, n.toNat? with
    | some m, some p, some alpha, some n =>
      match extMatcher m p with
      | .panic => "panic"
      | .err e => showErr p e
      | .unsupported => "unsupported"
      | .ok f => bits f (enumStrs alpha n)
    | _, _, _, _ => "bad-op"
  | ["spec", m, p, alpha, n] =>
    match parseMode m, runesOfHex p, runesOfHex alpha, n.toNat? with
    | some m, some p, some alpha, some n =>
      match malformed m p with
      | some _ => "malformed"
      | none => bits (globMatch m p) (enumStrs alpha n)
    | _, _, _, _ => "bad-op"
  | "specl" :: m :: p :: strs =>
    match parseMode m, runesOfHex p, strs.mapM runesOfHex with
    | some m, some p, some strs =>
      match malformed m p with
      | some _ => "malformed"
      | none => bits (globMatch m p) strs
    | _, _, _ => "bad-op"
  | "bashspec" :: m :: p :: strs =>
    match parseMode m, runesOfHex p, strs.mapM runesOfHex with
    | some m, some p, some strs => bits (globMatch m p) strs
    | _, _, _ => "bad-op"
  | ["supported", m, p] =>
    match parseMode m, runesOfHex p with
    | some m, some p => if supported m p then "yes" else "no"
    | _, _ => "bad-op"
  | ["malformed", m, p] =>
    match parseMode m, runesOfHex p with
    | some m, some p =>
      match malformed m p with
      | some e => showErr p e
      | none => "wellformed"
    | _, _ => "bad-op"
  | _ => "bad-op"

end ShVerif.Drv.C17
