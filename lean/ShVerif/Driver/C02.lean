import ShVerif.Driver.L4
/-! C02 driver: the shared L4 ops (`print`, `parse`, `reprint`). -/
namespace ShVerif.Drv.C02
def handle (args : List String) : String := ShVerif.Drv.L4.handle args
end ShVerif.Drv.C02
