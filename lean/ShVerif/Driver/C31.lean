import ShVerif.Model.C31
namespace ShVerif.Drv.C31
open ShVerif ShVerif.C31

/-- programs come in postfix notation: `a<id>` atom, `S` seq, `I` if, `W` while, `U` until,
    `F<n>` word-list for with n items, `C<n>` C-style for with bound n, `B` subshell/block -/
def step (stack : Option (List Sk)) (tok : String) : Option (List Sk) :=
  match stack with
  | none => none
  | some st =>
    let c := tok.front
    let rest := (tok.drop 1).toString
    if c = 'a' then rest.toNat?.map (fun n => Sk.atom n :: st)
    else if tok = "S" then
      match st with | b :: a :: r => some (Sk.seq a b :: r) | _ => none
    else if tok = "I" then
      match st with | e :: t :: c :: r => some (Sk.ifc c t e :: r) | _ => none
    else if tok = "W" then
      match st with | b :: c :: r => some (Sk.whileL false c b :: r) | _ => none
    else if tok = "U" then
      match st with | b :: c :: r => some (Sk.whileL true c b :: r) | _ => none
    else if c = 'F' then
      match rest.toNat?, st with | some n, b :: r => some (Sk.forW n b :: r) | _, _ => none
    else if c = 'C' then
      match rest.toNat?, st with | some n, b :: r => some (Sk.forC n b :: r) | _, _ => none
    else if tok = "B" then
      match st with | b :: r => some (Sk.sub b :: r) | _ => none
    else none

def parse (toks : List String) : Option Sk :=
  match toks.foldl step (some []) with
  | some [sk] => some sk
  | _ => none

/-- oracle from a bit string: the i-th executed atom succeeds iff bit i is '1' (default: succeeds) -/
def oracleOf (bits : String) : Nat → Bool := fun i =>
  match bits.toList[i]? with
  | some c => c = '1'
  | none => true

def showLog (l : List Nat) : String := ",".intercalate (l.reverse.map toString)

/-- ops:
    `run <k> <fuel> <bits|-> <postfix program…>` → atoms executed when the k-th atom cancels the
       context (k = 0: never), for-items started, whether stop() recorded the cancellation
    `bound <postfix program…>` → static unwind bound and fuel depth -/
def handle (args : List String) : String :=
  match args with
  | "run" :: k :: fuel :: bits :: toks =>
    match k.toNat?, fuel.toNat?, parse toks with
    | some k, some fuel, some sk =>
      let e : Env := { cancelAt := 1000000000, cancelAtom := if k = 0 then 1000000000 else k,
                       oracle := oracleOf (if bits = "-" then "" else bits) }
      match exec e fuel sk St.init with
      | some st => "log=" ++ showLog st.log ++ " items=" ++ toString st.items ++ " cancelled=" ++ (if reported e st then "1" else "0")
      | none => "running"
    | _, _, _ => "bad-op"
  | "bound" :: toks =>
    match parse toks with
    | some sk => "unwind=" ++ toString (unwind sk) ++ " depth=" ++ toString (depth sk)
        ++ " user=" ++ (if userLevel sk then "1" else "0")
    | none => "bad-op"
  | _ => "bad-op"

end ShVerif.Drv.C31
