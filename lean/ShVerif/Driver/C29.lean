import ShVerif.Model.C29
/-
  C29 driver (line protocol).  Ops:

    chain <rw> <tok>…      free-form overlay chains: B:<name>:<flags>:<kind>:<val> (root variable),
                           mk:<parent>:<fs>, bg:<parent>, set:<o>:<name>:<flags>:<kind>:<val>,
                           get:<o>:<name>, each:<o>          (parent: n | b | <overlay id>)
    run <rw> <tok>…        Runner-level steps: B:…, call, ret, sub0, sub1, end, snap:<n1>,<n2>…,
                           hset:<name>:<val>, assign:<name>:<val>, local:<name>:<val>, export:<name>,
                           unset:<name>, readonly:<name>:<val>
    specenv <rw> <tok>…    the specification for the same tokens: the root Environ receives no Set
    sb <cap> <part>…       FieldsSeq's copy + SplitBraces on a word; parts l<hex> | o<tag>
    bs <cap> <part>…       the same followed by bracesSeqRec: the words handed to expandWord
    alias <cap> <args> <name=words:blank>…   the alias loop of Runner.cmd
    hdoc <part>…           the <<- line splitter; parts p<tag> | l<tag>:<seg>;<seg>…
    selftest               the constant answer of the harness's detector self-test
-/
namespace ShVerif.Drv.C29
open ShVerif ShVerif.L1 ShVerif.C29

def b01 (b : Bool) : String := if b then "1" else "0"

def parseFlags (s : String) : Option (Bool × Bool × Bool × Bool) :=
  match s.toList with
  | [a, b, c, d] =>
    let f (ch : Char) : Option Bool := if ch = '1' then some true else if ch = '0' then some false else none
    do pure ((← f a), (← f b), (← f c), (← f d))
  | _ => none

def parseVar (flags kind val : String) : Option Var := do
  let (s, l, x, r) ← parseFlags flags
  let k ← kind.toNat?
  let v ← ofHex val
  pure { set := s, loc := l, exported := x, readOnly := r, kind := k, val := v }

def showVar (v : Var) : String :=
  "v" ++ b01 v.set ++ b01 v.loc ++ b01 v.exported ++ b01 v.readOnly ++ "k" ++ toString v.kind ++ ":" ++ toHex v.val

def parsePRef (s : String) : Option PRef :=
  if s = "n" then some .nil else if s = "b" then some .base else s.toNat?.map .ov

def showRoot (h : EnvHeap) : String := "root=" ++ ",".intercalate (h.rootSets.map toHex)

def insertSorted (x : String) : List String → List String
  | [] => [x]
  | y :: ys => if x ≤ y then x :: y :: ys else y :: insertSorted x ys

def sortStrings (l : List String) : List String := l.foldr insertSorted []

def showEach (l : List (Bytes × Var)) : String :=
  "[" ++ ",".intercalate (sortStrings (l.map fun (n, v) => toHex n ++ "=" ++ showVar v)) ++ "]"

/-- free-form chain ops -/
def chainRun (rw : Bool) : EnvHeap → List String → List String → String
  | h, acc, [] => " ".intercalate (acc ++ [showRoot h])
  | h, acc, tok :: rest =>
    match tok.splitOn ":" with
    | ["B", n, fl, k, v] =>
      match ofHex n, parseVar fl k v with
      | some n, some v => chainRun rw { h with base := h.base ++ [(n, v)] } acc rest
      | _, _ => "bad-op"
    | ["mk", p, fs] =>
      match parsePRef p with
      | some p =>
        let (h1, o) := allocScope h { parent := p, funcScope := fs = "1" }
        chainRun rw h1 (acc ++ ["#" ++ toString o]) rest
      | none => "bad-op"
    | ["bg", p] =>
      match parsePRef p with
      | some p =>
        match newOverlay h p true with
        | some (h1, o) => chainRun rw h1 (acc ++ ["#" ++ toString o]) rest
        | none => " ".intercalate (acc ++ ["panic"])
      | none => "bad-op"
    | ["set", o, n, fl, k, v] =>
      match o.toNat?, ofHex n, parseVar fl k v with
      | some o, some n, some v =>
        match envSetTop rw h o n v with
        | .ok h1 => chainRun rw h1 (acc ++ ["ok"]) rest
        | .err h1 => chainRun rw h1 (acc ++ ["err"]) rest
        | .panic => " ".intercalate (acc ++ ["panic"])
      | _, _, _ => "bad-op"
    | ["get", o, n] =>
      match o.toNat?, ofHex n with
      | some o, some n => chainRun rw h (acc ++ [showVar (envGet h o n)]) rest
      | _, _ => "bad-op"
    | ["each", o] =>
      match o.toNat? with
      | some o => chainRun rw h (acc ++ [showEach (envEachRef h (h.scopes.length + 1) (.ov o))]) rest
      | none => "bad-op"
    | _ => "bad-op"

/-- chain shape from overlay `o` outwards: funcScope bits and what it ends in -/
def chainShape (h : EnvHeap) : Nat → PRef → String → String
  | _, .nil, acc => acc ++ "/nil"
  | _, .base, acc => acc ++ "/root"
  | 0, .ov _, acc => acc ++ "/loop"
  | fuel + 1, .ov o, acc => chainShape h fuel (scopeAt h o).parent (acc ++ b01 (scopeAt h o).funcScope)

/-- Runner-level state of the driver: the model state plus `inFunc` of the current Runner and of
    the enclosing ones (Runner.call saves and restores it; Runner.subshell does not copy it). -/
structure RunSt where
  st : EState
  inFunc : Bool := false
  savedInFunc : List Bool := []
  outerInFunc : List (Bool × List Bool) := []

def applyOp (rw : Bool) (rs : RunSt) (op : EOp) : Option RunSt :=
  (estep rw rs.st op).map fun st => { rs with st := st }

def curGet (rs : RunSt) (n : Bytes) : Var := envGet rs.st.h rs.st.cur.writeEnv n

def runToks (rw : Bool) : RunSt → List String → List String → String
  | rs, acc, [] => " ".intercalate (acc ++ [showRoot rs.st.h])
  | rs, acc, tok :: rest =>
    let fail := " ".intercalate (acc ++ ["panic"])
    let go (r : Option RunSt) (acc : List String) : String :=
      match r with
      | some rs1 => runToks rw rs1 acc rest
      | none => fail
    match tok.splitOn ":" with
    | ["B", n, fl, k, v] =>
      match ofHex n, parseVar fl k v with
      | some n, some v =>
        -- the root Environ's variables are fixed before `interp.New`
        runToks rw { rs with st := { rs.st with h := { rs.st.h with base := rs.st.h.base ++ [(n, v)] } } } acc rest
      | _, _ => "bad-op"
    | ["call"] =>
      go ((applyOp rw rs .call).map fun r => { r with inFunc := true, savedInFunc := rs.inFunc :: rs.savedInFunc }) acc
    | ["ret"] =>
      match rs.savedInFunc with
      | [] => go (some rs) acc
      | f :: fs => go ((applyOp rw rs .ret).map fun r => { r with inFunc := f, savedInFunc := fs }) acc
    | ["sub0"] =>
      go ((applyOp rw rs (.subshell false)).map fun r =>
        { r with inFunc := false, savedInFunc := [], outerInFunc := (rs.inFunc, rs.savedInFunc) :: rs.outerInFunc }) acc
    | ["sub1"] =>
      go ((applyOp rw rs (.subshell true)).map fun r =>
        { r with inFunc := false, savedInFunc := [], outerInFunc := (rs.inFunc, rs.savedInFunc) :: rs.outerInFunc }) acc
    | ["end"] =>
      match rs.outerInFunc with
      | [] => go (some rs) acc
      | (f, fs) :: os => go ((applyOp rw rs .subEnd).map fun r => { r with inFunc := f, savedInFunc := fs, outerInFunc := os }) acc
    | ["snap", names] =>
      match applyOp rw rs .handler with
      | none => fail
      | some rs1 =>
        match rs1.st.handler with
        | none => fail
        | some o =>
          let shape := chainShape rs1.st.h (rs1.st.h.scopes.length + 1) (.ov o) "chain="
          match (names.splitOn ",").mapM ofHex with
          | some ns => runToks rw rs1 (acc ++ [shape] ++ ns.map fun n => toHex n ++ "=" ++ showVar (envGet rs1.st.h o n)) rest
          | none => "bad-op"
    | ["hset", n, v] =>
      match ofHex n, ofHex v with
      | some n, some v =>
        go ((applyOp rw rs .handler).bind fun r => applyOp rw r (.hset n { set := true, kind := 1, val := v })) acc
      | _, _ => "bad-op"
    | ["assign", n, v] =>
      match ofHex n, ofHex v with
      | some n, some v =>
        go (applyOp rw rs (.set n { curGet rs n with loc := false, set := true, kind := 1, val := v })) acc
      | _, _ => "bad-op"
    | ["local", n, v] =>
      match ofHex n, ofHex v with
      | some n, some v =>
        if !rs.inFunc then go (some rs) acc   -- "local: can only be used in a function"
        else go (applyOp rw rs (.set n { curGet rs n with loc := true, set := true, kind := 1, val := v })) acc
      | _, _ => "bad-op"
    | ["readonly", n, v] =>
      match ofHex n, ofHex v with
      | some n, some v =>
        go (applyOp rw rs (.set n { curGet rs n with readOnly := true, set := true, kind := 1, val := v })) acc
      | _, _ => "bad-op"
    | ["export", n] =>
      match ofHex n with
      | some n => go (applyOp rw rs (.set n { curGet rs n with kind := kindKeepValue, exported := true })) acc
      | none => "bad-op"
    | ["unset", n] =>
      match ofHex n with
      | some n => if (curGet rs n).set then go (applyOp rw rs (.set n {})) acc else go (some rs) acc
      | none => "bad-op"
    | _ => "bad-op"

/-! ### SplitBraces -/

def parsePart (s : String) : Option Part :=
  match s.toList with
  | 'l' :: r => (ofHex (String.ofList r)).map .lit
  | 'o' :: r => (String.ofList r).toNat?.map .other
  | _ => none

mutual
def renderParts (h : Heap) : Nat → List Part → List String
  | _, [] => []
  | fuel, p :: ps => renderPart h fuel p :: renderParts h fuel ps
def renderPart (h : Heap) : Nat → Part → String
  | _, .nilp => "nil"
  | _, .lit v => "l" ++ toHex v
  | _, .other t => "o" ++ toString t
  | 0, .brace _ => "B?"
  | fuel + 1, .brace b =>
    let bo := braceAt h b
    "B" ++ b01 bo.seq ++ "[" ++ ";".intercalate (bo.elems.map fun w => "(" ++ ",".intercalate (renderParts h fuel (partsOf h w)) ++ ")") ++ "]"
end

def sbRun (cap : Nat) (parts : List Part) : String :=
  let n := parts.length
  let c := max cap n
  let arr0 := padTo parts c
  let h0 : Heap := { words := [{ arr := 0, off := 0, len := n, cap := c, isNil := n = 0 && c = 0 }], parr := [arr0] }
  match fieldsSeqSplit (fun _ _ need => need) h0 0 with
  | none => "panic"
  | some (h1, cw, res) =>
    let same := h1.words[0]? = h0.words[0]? && h1.parr[0]? = h0.parr[0]?
    b01 res ++ " (" ++ ",".intercalate (renderParts h1 64 (partsOf h1 cw)) ++ ") orig=" ++ (if same then "same" else "changed")

def bsRun (cap : Nat) (parts : List Part) : String :=
  let n := parts.length
  let c := max cap n
  let arr0 := padTo parts c
  let h0 : Heap := { words := [{ arr := 0, off := 0, len := n, cap := c, isNil := n = 0 && c = 0 }], parr := [arr0] }
  match fieldsSeqWords (fun _ _ need => need) 64 h0 0 with
  | none => "panic"
  | some (h1, ws) =>
    let same := h1.words[0]? = h0.words[0]? && h1.parr[0]? = h0.parr[0]?
    " ".intercalate (ws.map fun w => "(" ++ ",".intercalate (renderParts h1 64 (partsOf h1 w)) ++ ")") ++
      " orig=" ++ (if same then "same" else "changed")

/-! ### alias loop, here-document splitter -/

def parseIds (s : String) : Option (List Nat) :=
  if s = "-" then some [] else (s.splitOn ",").mapM String.toNat?

def showIds (l : List Nat) : String := if l.isEmpty then "-" else ",".intercalate (l.map toString)

/-- allocate one alias' argument slice (exact capacity, nil when empty) -/
def allocIds (h : IdHeap) (ids : List Nat) (extra : Nat) : IdHeap × Slice :=
  if ids.isEmpty && extra = 0 then (h, Slice.nil)
  else (h ++ [padTo ids (ids.length + extra)], { arr := h.length, off := 0, len := ids.length, cap := ids.length + extra })

def aliasRun (cap : Nat) (args : List Nat) (entries : List (Nat × List Nat × Bool)) : String :=
  let (h0, sargs) := allocIds [] args (cap - args.length)
  let (h1, tbl) := entries.foldl (fun (acc : IdHeap × List (Nat × Slice × Bool)) e =>
    let (h, s) := allocIds acc.1 e.2.1 0
    (h, acc.2 ++ [(e.1, s, e.2.2)])) (h0, [])
  match aliasLoop tbl (args.length + 64) h1 sargs 0 with
  | none => "panic"
  | some (h2, res) =>
    let same := h2.take h1.length = h1
    "args=" ++ showIds (cells h2 res) ++ " orig=" ++ (if same then "same" else "changed")

def hdocRun (parts : List (Nat × List Bytes)) (vals : Nat → Bytes) : String :=
  let spec := parts.map fun (t, segs) => (t, segs.length)
  let (_, _, lines) := hdocSplit (fun _ old need => max need (2 * old)) [] Slice.nil [] spec
  let cellText (c : Nat) : Bytes :=
    let t := c % 1000
    let k := c / 1000
    match parts.find? (fun p => p.1 = t) with
    | some (_, []) => vals t
    | some (_, segs) => segs.getD k []
    | none => []
  let texts := lines.map fun l => l.flatMap cellText
  -- flushLine: `if buf.Len() > 0 { buf.WriteByte('\n') }; buf.WriteString(line)`
  let out := texts.foldl (fun (buf : Bytes) t => if buf.isEmpty then t else buf ++ [10] ++ t) []
  "out=" ++ toHex out

def parseHdocPart (s : String) : Option (Nat × List Bytes) :=
  match s.toList with
  | 'p' :: r => (String.ofList r).toNat?.map fun t => (t, [])
  | 'l' :: r =>
    match (String.ofList r).splitOn ":" with
    | [t, segs] => do
      let t ← t.toNat?
      let ss ← (segs.splitOn ";").mapM ofHex
      pure (t, ss)
    | _ => none
  | _ => none

def parseAliasEntry (s : String) : Option (Nat × List Nat × Bool) :=
  match s.splitOn "=" with
  | [n, rhs] =>
    match rhs.splitOn ":" with
    | [ids, bl] => do
      let n ← n.toNat?
      let ids ← parseIds ids
      pure (n, ids, bl = "1")
    | _ => none
  | _ => none

def handle (args : List String) : String :=
  match args with
  | "chain" :: rw :: toks => chainRun (rw = "1") {} [] toks
  | "run" :: rw :: toks =>
    -- `B:` tokens come first; then Reset builds the first overlay
    let bs := toks.takeWhile (·.startsWith "B:")
    let rest := toks.dropWhile (·.startsWith "B:")
    let base : List (Bytes × Var) := bs.filterMap fun t =>
      match t.splitOn ":" with
      | ["B", n, fl, k, v] => do pure ((← ofHex n), (← parseVar fl k v))
      | _ => none
    runToks (rw = "1") { st := einit base } [] rest
  | "specenv" :: _ => "root="
  | "sb" :: cap :: parts =>
    match cap.toNat?, parts.mapM parsePart with
    | some c, some ps => sbRun c ps
    | _, _ => "bad-op"
  | "bs" :: cap :: parts =>
    match cap.toNat?, parts.mapM parsePart with
    | some c, some ps => bsRun c ps
    | _, _ => "bad-op"
  | "alias" :: cap :: a :: entries =>
    match cap.toNat?, parseIds a, entries.mapM parseAliasEntry with
    | some c, some a, some es => aliasRun c a es
    | _, _, _ => "bad-op"
  | "hdoc" :: parts =>
    match parts.mapM parseHdocPart with
    | some ps => hdocRun ps (fun t => (bytesOfString ("P" ++ toString t)))
    | none => "bad-op"
  | ["selftest"] => "spare-capacity=detected pointer-swap=detected env-array=detected env-set=detected unchanged=same"
  | _ => "bad-op"

end ShVerif.Drv.C29
