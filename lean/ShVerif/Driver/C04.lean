import ShVerif.Base.Hex
import ShVerif.Base.SExpr
import ShVerif.Model.C04
namespace ShVerif.Drv.C04
open ShVerif ShVerif.C04

def tyOfString (s : String) : Ty :=
  match s with
  | "nil" => .nil | "L" => .list | "Word" => .word | "Lit" => .lit | "SglQuoted" => .sgl
  | "DblQuoted" => .dbl | "ParamExp" => .paramExp | "ArithmExp" => .arithmExp
  | "ArithmCmd" => .arithmCmd | "ParenArithm" => .parenArithm | "BinaryArithm" => .binaryArithm
  | "UnaryArithm" => .unaryArithm | "TestClause" => .testClause | "ParenTest" => .parenTest
  | "BinaryTest" => .binaryTest | "UnaryTest" => .unaryTest | "Subshell" => .subshell
  | "CmdSubst" => .cmdSubst | "Stmt" => .stmt | "Assign" => .assign
  | s => .other s

def tyToString : Ty → String
  | .nil => "nil" | .list => "L" | .word => "Word" | .lit => "Lit" | .sgl => "SglQuoted"
  | .dbl => "DblQuoted" | .paramExp => "ParamExp" | .arithmExp => "ArithmExp"
  | .arithmCmd => "ArithmCmd" | .parenArithm => "ParenArithm" | .binaryArithm => "BinaryArithm"
  | .unaryArithm => "UnaryArithm" | .testClause => "TestClause" | .parenTest => "ParenTest"
  | .binaryTest => "BinaryTest" | .unaryTest => "UnaryTest" | .subshell => "Subshell"
  | .cmdSubst => "CmdSubst" | .stmt => "Stmt" | .assign => "Assign"
  | .other s => s

def parseAttrs (s : String) : Option (List Nat) :=
  if s = "-" then some [] else (s.splitOn ",").mapM (·.toNat?)

def showAttrs (a : List Nat) : String :=
  if a.isEmpty then "-" else ",".intercalate (a.map toString)

mutual
def ofSExp : SExp → Option Node
  | .list (.atom ty :: .atom attrs :: .atom val :: kids) => do
    let a ← parseAttrs attrs
    let v ← ofHex val
    let ks ← ofSExps kids
    pure (.mk (tyOfString ty) a v ks)
  | _ => none
def ofSExps : List SExp → Option (List Node)
  | [] => some []
  | x :: xs => do
    let n ← ofSExp x
    let ns ← ofSExps xs
    pure (n :: ns)
end

mutual
def showNode : Node → List String → List String
  | .mk ty a v ks, acc =>
    "(" :: tyToString ty :: showAttrs a :: toHex v :: showNodes ks (")" :: acc)
def showNodes : List Node → List String → List String
  | [], acc => acc
  | k :: ks, acc => showNode k (showNodes ks acc)
end

def render (n : Node) : String := " ".intercalate (showNode n [])

/-- ops:
    `simp <sexpr>`   → `<0|1> <sexpr>`: the model of `syntax.Simplify` on a whole dumped tree.
    `dqw <dollar> <hex>` → `same` | `sgl <dollar> <hex>`: `simplifyWord` on one `"lit"` part.
    `specword <dollar> <hex>` → `val <hex>`: the *specification*: the string the original
      double-quoted literal denotes (`dqValue`); the harness answers with the value of the word
      after Simplify. -/
def handle (args : List String) : String :=
  match args with
  | "simp" :: toks =>
    match SExp.parse toks with
    | some sx =>
      match ofSExp sx with
      | some n =>
        let r := simplify n
        (if r.2 then "1 " else "0 ") ++ render r.1
      | none => "bad-tree"
    | none => "bad-sexp"
  | ["dqw", d, h] =>
    match ofHex h with
    | some v =>
      match rewriteDq (d != "0") v with
      | some nv => "sgl " ++ d ++ " " ++ toHex nv
      | none => "same"
    | none => "bad-op"
  | ["specword", _, h] =>
    match ofHex h with
    | some v =>
      match dqValue v with
      | some r => "val " ++ toHex r
      | none => "none"
    | none => "bad-op"
  | _ => "bad-op"

end ShVerif.Drv.C04
