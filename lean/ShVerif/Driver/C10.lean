import ShVerif.Model.C10
namespace ShVerif.Drv.C10
open ShVerif ShVerif.C10

/-- `hdoc <quoted 0|1> <tabs 0|1> <stop-hex> <line-hex>*` → `closed <n>` | `unclosed <bool>` -/
def handle (args : List String) : String :=
  match args with
  | "hdoc" :: q :: t :: stop :: lines =>
    match ofHex stop, lines.mapM ofHex with
    | some st, some ls =>
      match scan true (q == "1") (t == "1") st { tok := .newl, openNodes := 0, litLen := 0 } ls with
      | .closed body => s!"closed {body.length}"
      | .unclosedErr inc => s!"unclosed {inc}"
    | _, _ => "bad-op"
  | _ => "bad-op"

end ShVerif.Drv.C10
