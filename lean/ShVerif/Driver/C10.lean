import ShVerif.Model.C10
namespace ShVerif.Drv.C10
open ShVerif ShVerif.C10

def itemOf : Char → Option Item
  | 'h' => some .hdoc
  | 'e' => some .enter
  | 'l' => some .leave
  | 'n' => some .newl
  | 't' => some .tok
  | _ => none

def tokOf : String → Option Tok
  | "newl" => some .newl
  | "eof" => some .eof
  | "other" => some .other
  | _ => none

/-- `hdoc <quoted 0|1> <tabs 0|1> <caller openNodes> <stop-hex> <line-hex>*` → `closed <n>` | `unclosed <bool>` (doHeredocs reading one body)
    `sched <quoted 0|1> <items: h e l n t …> <stop-hex> <line-hex>*` → `unclosed <bool>` | `none`
    `inc <tok> <openNodes> <litLen>` → `<bool>` -/
def handle (args : List String) : String :=
  match args with
  | "hdoc" :: q :: t :: o :: stop :: lines =>
    match ofHex stop, lines.mapM ofHex, o.toNat? with
    | some st, some ls, some on =>
      match readBody (q == "1") (t == "1") st (inBrackets .newl on 0) ls with
      | .closed body => s!"closed {body.length}"
      | .unclosedErr inc => s!"unclosed {inc}"
    | _, _, _ => "bad-op"
  | "sched" :: q :: items :: stop :: lines =>
    match items.toList.mapM itemOf, ofHex stop, lines.mapM ofHex with
    | some its, some st, some ls =>
      match prefixFlag its (q == "1") st ls with
      | some b => s!"unclosed {b}"
      | none => "none"
    | _, _, _ => "bad-op"
  | ["inc", t, o, l] =>
    match tokOf t, o.toNat?, l.toNat? with
    | some tk, some on, some ll => s!"{(inBrackets tk on ll).errIncomplete}"
    | _, _, _ => "bad-op"
  | _ => "bad-op"

end ShVerif.Drv.C10
