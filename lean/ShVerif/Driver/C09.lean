import ShVerif.Base.SExpr
import ShVerif.Base.Hex
import ShVerif.Model.C09
import ShVerif.Gen.C09
/-
  C09 line protocol.
    newpos o l c            -> "offset line col valid recovered" of NewPos(o,l,c)
    addcol o l c n          -> the same five numbers of posAddCol(NewPos(o,l,c), n)
    addcolraw offs lc n     -> the same for the Pos with these two words (zero / recovered positions)
    after o l c o' l' c'    -> NewPos(o,l,c).After(NewPos(o',l',c'))
    posend <vtree>          -> "ok" | "diff id,…": regenerated Pos()/End() expressions evaluated on
                               every node of a dumped tree = what the real methods returned
    local <ptree>           -> the local ordering facts hold at every node
    specglobal <ptree>      -> the global statement (pos ≤ end, descendants within ancestors, children
                               in source order), executed directly
    localtight / specglobaltight <ptree> -> the same with non-overlap of list elements (trees without
                               here-documents)
    speclinecol <hex> o…    -> "line:col …" of these byte offsets, recomputed from the source bytes
-/
namespace ShVerif.Drv.C09
open ShVerif ShVerif.C09

def showPos (p : Pos) : String :=
  s!"{p.offset} {p.line} {p.col} {if p.isValid then 1 else 0} {if p.isRecovered then 1 else 0}"

/-- "offs:lineCol" -/
def posOfAtom (s : String) : Option Pos :=
  match s.splitOn ":" with
  | [a, b] => match a.toNat?, b.toNat? with
    | some o, some lc => some { offs := o, lineCol := lc }
    | _, _ => none
  | _ => none

/-- "name=P:offs:lineCol" | "name=B:0|1" | "name=L:n" -/
def scalarOfAtom (s : String) : Option (String × Scalar) :=
  match s.splitOn "=" with
  | [name, v] =>
    match v.splitOn ":" with
    | ["P", a, b] => match a.toNat?, b.toNat? with
      | some o, some lc => some (name, .pos { offs := o, lineCol := lc })
      | _, _ => none
    | ["B", b] => some (name, .flag (b == "1"))
    | ["L", n] => n.toNat?.map fun k => (name, .len k)
    | _ => none
  | _ => none

def atomStr? : SExp → Option String
  | .atom s => some s
  | _ => none

mutual
  def vtreeOf : SExp → Option VTree
    | .list (a :: b :: c :: d :: e :: .list scs :: kids) =>
      match a.atomNat?, b.atomNat?, atomStr? c, (atomStr? d).bind posOfAtom, (atomStr? e).bind posOfAtom,
            scs.mapM (fun x => (atomStr? x).bind scalarOfAtom), vtreesOf kids with
      | some ty, some id, some slot, some p, some q, some sc, some ks => some (.node ty id slot p q sc ks)
      | _, _, _, _, _, _, _ => none
    | _ => none
  def vtreesOf : List SExp → Option (List VTree)
    | [] => some []
    | x :: xs =>
      match vtreeOf x, vtreesOf xs with
      | some t, some ts => some (t :: ts)
      | _, _ => none
end

def pairsOf : List SExp → Option (List (Nat × Nat))
  | [] => some []
  | a :: b :: rest =>
    match a.atomNat?, b.atomNat?, pairsOf rest with
    | some x, some y, some r => some ((x, y) :: r)
    | _, _, _ => none
  | _ => none

mutual
  def ptreeOf : SExp → Option PTree
    | .list (a :: s :: b :: c :: .list toks :: kids) =>
      match a.atomNat?, s.atomNat?, b.atomNat?, c.atomNat?, pairsOf toks, ptreesOf kids with
      | some id, some sl, some p, some e, some tk, some ks => some (.node id sl p e tk ks)
      | _, _, _, _, _, _ => none
    | _ => none
  def ptreesOf : List SExp → Option (List PTree)
    | [] => some []
    | x :: xs =>
      match ptreeOf x, ptreesOf xs with
      | some t, some ts => some (t :: ts)
      | _, _ => none
end

def nat3 (a b c : String) : Option (Nat × Nat × Nat) :=
  match a.toNat?, b.toNat?, c.toNat? with
  | some x, some y, some z => some (x, y, z)
  | _, _, _ => none

def handle (args : List String) : String :=
  match args with
  | ["newpos", o, l, c] =>
    match nat3 o l c with
    | some (o, l, c) => showPos (newPos o l c)
    | none => "bad-op"
  | ["addcol", o, l, c, n] =>
    match nat3 o l c, n.toInt? with
    | some (o, l, c), some n => showPos (posAddCol (newPos o l c) n)
    | _, _ => "bad-op"
  | ["addcolraw", o, lc, n] =>
    match o.toNat?, lc.toNat?, n.toInt? with
    | some o, some lc, some n => showPos (posAddCol { offs := o, lineCol := lc } n)
    | _, _, _ => "bad-op"
  | ["after", o, l, c, o', l', c'] =>
    match nat3 o l c, nat3 o' l' c' with
    | some (o, l, c), some (o', l', c') => toString ((newPos o l c).after (newPos o' l' c'))
    | _, _ => "bad-op"
  | "posend" :: toks =>
    match (SExp.parse toks).bind vtreeOf with
    | some t =>
      match posEndDiffs Gen.C09.table Gen.C09.helpers t with
      | [] => "ok"
      | ds => "diff " ++ ",".intercalate (ds.map toString)
    | none => "bad-op"
  | "local" :: toks =>
    match (SExp.parse toks).bind ptreeOf with
    | some t => toString (localOk t)
    | none => "bad-op"
  | "specglobal" :: toks =>
    match (SExp.parse toks).bind ptreeOf with
    | some t => toString (globalOk t)
    | none => "bad-op"
  | "localtight" :: toks =>
    match (SExp.parse toks).bind ptreeOf with
    | some t => toString (localOk t && localDisjoint t)
    | none => "bad-op"
  | "specglobaltight" :: toks =>
    match (SExp.parse toks).bind ptreeOf with
    | some t => toString (globalOk t && globalDisjoint t)
    | none => "bad-op"
  | "speclinecol" :: hex :: offs =>
    match ofHex hex, offs.mapM (·.toNat?) with
    | some src, some os =>
      if os.isEmpty then "-" else
      " ".intercalate (os.map fun o => let (l, c) := lineColAt src o; s!"{l}:{c}")
    | _, _ => "bad-op"
  | _ => "bad-op"

end ShVerif.Drv.C09
