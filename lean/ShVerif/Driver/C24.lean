import ShVerif.Model.C24
namespace ShVerif.Drv.C24
open ShVerif ShVerif.C24

def showErr : Option Err → String
  | none => "-"
  | some .missingChar => "missing"
  | some (.invalidChar c) => "invalid:" ++ toHex [c]

def showHook : HookRes → String
  | .obs o => "out=" ++ toHex o.out ++ " n=" ++ toString o.consumed ++ " err=" ++ showErr o.err
  | .panic => "panic"
  | .unmodelled => "unmodelled"

def showB : BRes → String
  | .done r => "out=" ++ toHex r.out ++ " st=" ++ toString r.status
  | .panic => "panic"
  | .unmodelled => "unmodelled"
  | .outOfFuel => "out-of-fuel"

def showSpec : Spec.Res → String
  | .res out st => "out=" ++ toHex out ++ " st=" ++ toString st
  | .outside => "outside"
  | .outOfFuel => "out-of-fuel"

/-- ops (byte strings in hex, `-` = empty):
    `fmt <0|1> <format> <arg>*`  → model of `formatInto(format, args)` (1 = nil args slice);
    `printf <word>*`             → model of the `printf` builtin (words after the command name);
    `echo <word>*`               → model of the `echo` builtin;
    `specprintf`/`spececho <word>*` → the specification of bash (compared with the implementation);
    `bashprintf`/`bashecho <word>*` → the same specification (compared with the real bash). -/
def handle (args : List String) : String :=
  match args with
  | "fmt" :: nil :: f :: as =>
    match ofHex f, as.mapM ofHex with
    | some f, some as => showHook (formatInto f as (nil == "1"))
    | _, _ => "bad-op"
  | "printf" :: ws =>
    match ws.mapM ofHex with
    | some ws => showB (printfBuiltin ws)
    | none => "bad-op"
  | "echo" :: ws =>
    match ws.mapM ofHex with
    | some ws => showB (echoBuiltin ws)
    | none => "bad-op"
  | op :: ws =>
    if op = "specprintf" ∨ op = "bashprintf" then
      match ws.mapM ofHex with
      | some ws => showSpec (Spec.printf ws)
      | none => "bad-op"
    else if op = "spececho" ∨ op = "bashecho" then
      match ws.mapM ofHex with
      | some ws => showSpec (Spec.echo ws)
      | none => "bad-op"
    else "bad-op"
  | _ => "bad-op"

end ShVerif.Drv.C24
