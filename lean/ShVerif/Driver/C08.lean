import ShVerif.Model.C08
import ShVerif.Gen.C08
import ShVerif.Expect.C08Scratch
namespace ShVerif.Drv.C08
open ShVerif.C08

def bool? : String → Option Bool
  | "0" => some false
  | "1" => some true
  | _ => none

def b2s (b : Bool) : String := if b then "1" else "0"

def optNat? (s : String) : Option (Option Nat) :=
  if s = "-" then some none else s.toNat?.map some

/-- `r:<nl>:<line>:<open>:<lit>:<err>:<inStmt>`  |  `s:<id|->:<err>:<tokNewl>:<line>:<open>:<lit>` -/
def evOf (t : String) : Option Ev :=
  match t.splitOn ":" with
  | ["r", nl, line, o, l, err, ins] => do
    pure (.read (← bool? nl) (← line.toNat?) (← o.toNat?) (← l.toNat?) (← bool? err) (← bool? ins))
  | ["s", id, err, tn, line, o, l] => do
    pure (.stmt (← optNat? id) (← bool? err) (← bool? tn) (← line.toNat?) (← o.toNat?) (← l.toNat?))
  | _ => none

def showIds (l : List (Option Nat)) : String :=
  if l.isEmpty then "-" else ",".intercalate (l.map fun | some n => toString n | none => "x")

def showNats (l : List Nat) : String :=
  if l.isEmpty then "-" else ",".intercalate (l.map toString)

def showCb (c : Cb) : String := "c:" ++ showIds c.stmts ++ ":" ++ b2s c.inc ++ ":" ++ b2s c.err

def showG (g : G) : String :=
  " ".intercalate (g.cbs.map showCb ++ [if g.panic then "end=panic" else "end=ok"])

/-- `s<id>:<err>` | `n:<err>` -/
def stepOf (t : String) : Option Step :=
  match t.splitOn ":" with
  | [a, e] =>
    if a = "n" then (bool? e).map fun e => { stmt := none, err := e }
    else if a.startsWith "s" then do
      let id ← (a.drop 1).toString.toNat?
      pure { stmt := some id, err := (← bool? e) }
    else none
  | _ => none

def showYield (y : Yield) : String :=
  "y" ++ (match y.stmt with | some n => toString n | none => "-") ++ ":" ++ b2s y.err

def stopOf (s : String) : Option (Option Nat) := optNat? s

def cfgOf (toks : List String) : Option (List (String × String)) :=
  toks.mapM fun t =>
    match t.splitOn "=" with
    | k :: v :: rest => some (k, "=".intercalate (v :: rest))
    | _ => none

/-- ops:
    `glue <stop|-> f:<err>:<open>:<lit> <ev>*` → callbacks of InteractiveSeq (final parser state first) + whether Go would panic
    `specran <ev>*`            → the property: the statements that must have been run (all of them)
    `axioms <ev>*`             → the trace hypotheses A0 A1 A2 evaluated on the trace
    `a3 <stop|-> <ev>*`        → trace hypothesis A3: no Read after the stop made Read return EOF
    `seq <stop|-> <hdocErr> <step>*` → yields of StmtsSeq
    `specseq <hdocErr> <step>*`      → the property: what Parse returns (statement ids, error)
    `psnap <P|Q> <field=value>*`     → expected field values after reset() (from the regenerated table)
    `fields <P|Q>`                   → regenerated field list -/
def handle (args : List String) : String :=
  match args with
  | "glue" :: stop :: fin :: evs =>
    match stopOf stop, fin.splitOn ":", evs.mapM evOf with
    | some st, ["f", e, o, l], some tr =>
      match bool? e, o.toNat?, l.toNat? with
      | some e, some o, some l => showG (runAll st tr e o l)
      | _, _, _ => "bad-op"
    | _, _, _ => "bad-op"
  | "specran" :: evs =>
    match evs.mapM evOf with
    | some tr => showNats (allStmts tr)
    | none => "bad-op"
  | "axioms" :: evs =>
    match evs.mapM evOf with
    | some tr => "A0=" ++ b2s (checkA0 tr) ++ " A1=" ++ b2s (checkA1 none tr) ++ " A2=" ++ b2s (checkA2 tr)
    | none => "bad-op"
  | "a3" :: stop :: evs =>
    match stopOf stop, evs.mapM evOf with
    | some st, some tr => "A3=" ++ b2s (noReadAfterStop st {} tr)
    | _, _ => "bad-op"
  | "seq" :: stop :: h :: steps =>
    match stopOf stop, bool? h, steps.mapM stepOf with
    | some st, some h, some ss =>
      let ys := stmtsSeq (fun k => st != some k) ss h
      if ys.isEmpty then "-" else " ".intercalate (ys.map showYield)
    | _, _, _ => "bad-op"
  | "specseq" :: h :: steps =>
    match bool? h, steps.mapM stepOf with
    | some h, some ss => let r := parse ss h; "ids=" ++ showNats r.stmts ++ " err=" ++ b2s r.err
    | _, _ => "bad-op"
  | "psnap" :: which :: cfg =>
    match cfgOf cfg with
    | none => "bad-op"
    | some cfg =>
      if which = "P" then " ".intercalate (snapshot Gen.C08.parser Expect.C08.parser cfg)
      else if which = "Q" then " ".intercalate (snapshot Gen.C08.printer Expect.C08.printer cfg)
      else "bad-op"
  | ["fields", which] =>
    if which = "P" then " ".intercalate Gen.C08.parser.fieldNames
    else if which = "Q" then " ".intercalate Gen.C08.printer.fieldNames
    else "bad-op"
  | _ => "bad-op"

end ShVerif.Drv.C08
