/-
  Line-protocol loop shared by the per-property drivers: one operation per line on stdin
  (`<prop> <op> <args…>`), one canonical result line on stdout.  It executes the *model's own
  definitions*; the Go harness runs the real implementation on the same lines and `check` diffs
  the two streams.
-/
namespace ShVerif.Drv

partial def loop (handle : List String → String) (h out : IO.FS.Stream) : IO Unit := do
  let line ← h.getLine
  if line.isEmpty then return ()
  let l := (line.dropEndWhile (fun c => c = '\n' || c = '\r')).toString
  let toks := (l.splitOn " ").filter (· ≠ "")
  match toks with
  | [] => out.putStrLn "bad-op empty"
  | _ :: args => out.putStrLn (handle args)
  loop handle h out

def mainLoop (handle : List String → String) : IO Unit := do
  let out ← IO.getStdout
  loop handle (← IO.getStdin) out
  out.flush

end ShVerif.Drv
