import ShVerif.Model.C03
import ShVerif.Driver.L4
/-!
  C03 driver.
    `run <lang> <hexsrc>`             model tie: L4 parse → toL5 → L5 runFile; answers `ran <hexout> <status>`
    `specfmt <opts> <lang> <hexsrc>`  the property's statement on the model: `same` unless formatting changed behaviour
-/
namespace ShVerif.Drv.C03
open ShVerif ShVerif.C03

def fuel : Nat := 4000

def handle (args : List String) : String :=
  match args with
  | ["run", lang, src] =>
    match Drv.L4.readLang lang, ofHex src with
    | some l, some b => (runSrc fuel l b).show
    | _, _ => "bad-op"
  | ["specfmt", opts, lang, src] =>
    match Drv.L4.readOpts opts, Drv.L4.readLang lang, ofHex src with
    | some o, some l, some b => specFormat fuel o l b
    | _, _, _ => "bad-op"
  | _ => "bad-op"

end ShVerif.Drv.C03
