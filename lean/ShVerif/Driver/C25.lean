import ShVerif.Model.C25
/-
  Line protocol of C25: `<op> <hex string> <hex name>=<hex value>*`
    expand / fields            the model of shell.Expand / shell.Fields
    specexpand / specfields    the specifications hdocSem / argsSem
-/
namespace ShVerif.Drv.C25
open ShVerif ShVerif.C25

def parsePair (t : String) : Option (Bytes × Bytes) :=
  match t.splitOn "=" with
  | [a, b] =>
    match ofHex a, ofHex b with
    | some x, some y => some (x, y)
    | _, _ => none
  | _ => none

def showBytesRes : Res Bytes → String
  | .ok v => "ok " ++ toHex v
  | .err => "err"
  | .outside => "outside"

def showFieldsRes : Res (List Bytes) → String
  | .ok fs => " ".intercalate ("ok" :: fs.map toHex)
  | .err => "err"
  | .outside => "outside"

def handle (args : List String) : String :=
  match args with
  | op :: s :: pairs =>
    match ofHex s, pairs.mapM parsePair with
    | some str, some env =>
      if op = "expand" then showBytesRes (shellExpand str env)
      else if op = "fields" then showFieldsRes (shellFields str env)
      else if op = "specexpand" then showBytesRes (hdocSem str env)
      else if op = "specfields" then showFieldsRes (argsSem str env)
      else "bad-op"
    | _, _ => "bad-op"
  | _ => "bad-op"

end ShVerif.Drv.C25
