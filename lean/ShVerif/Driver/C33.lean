import ShVerif.Model.C33
/-
  C33 driver.  Unit level (hooks):
    set <k> <val> <idx> <elem>*      → `ok <idx> <elem>*` | `panic`      SetIndexedElem
    del <k> <idx> <elem>*            → same                               DeleteIndexedElem
    canon <idx>                      → <idx>                              CanonicalIndexes
    max <idx> <elem>*                → int                                IndexedMax
    val <i> <idx> <elem>*            → `some <hex>` | `none` | `panic`    Variable.indexedVal
    keys <idx> <elem>*               → `ok <int>*` | `panic`              Variable.indexedKeys
    slice <off|_> <len|_> <idx> <elem>* → `ok <elem>*` | `panic`          Config.sliceElems
  `<idx>` is `nil`, `[]` (empty, non-nil) or `i1,i2,…`; elements are hex.
  Specification on the abstract map (the argument array must be well-formed):
    specset/specdel/specval/speckeys/specmax/speccount/specslice        → `M k:hex …` etc.
  Program level:  prog <token>* (model)  /  specprog <token>* (map specification); see `parseCmd`.
                  progrep <token>* → the final `expand.Variable`s of a and b the model predicts.
-/
namespace ShVerif.Drv.C33
open ShVerif ShVerif.C33

def parseIdx (s : String) : Option (Option (List Int)) :=
  if s = "nil" then some none
  else if s = "[]" then some (some [])
  else ((s.splitOn ",").mapM String.toInt?).map some

def showInts (l : List Int) : String := ",".intercalate (l.map toString)

def showIdx : Option (List Int) → String
  | none => "nil"
  | some [] => "[]"
  | some l => showInts l

def showList (l : List Str) : String := " ".intercalate (l.map toHex)

def joinToks (l : List String) : String := " ".intercalate (l.filter (· ≠ ""))

def showArrRes : Res Arr → String
  | .panic => "panic"
  | .ok a => joinToks ["ok", showIdx a.idx, showList a.list]

def parseArr (idx : String) (elems : List String) : Option Arr :=
  match parseIdx idx, elems.mapM ofHex with
  | some ix, some l => some ⟨l, ix⟩
  | _, _ => none

def showMap (m : SMap) : String :=
  joinToks ("M" :: m.map fun (k, v) => toString k ++ ":" ++ toHex v)

def parseOptInt (s : String) : Option (Option Int) :=
  if s = "_" then some none else s.toInt?.map some

/-! ### program level -/

inductive Item where
  | V | K | N | J | Z
  | E (i : Int) | L (i : Int)
  | S (off : Int) (len : Option Int)

inductive Blk where
  | sub | fn

inductive Cmd where
  | op (x : Bool) (o : Op)
  | copy (x : Bool) (app : Bool)          -- x=("${y[@]}") / x+=("${y[@]}")
  | localAssign (x : Bool) (es : List Elem)
  | localNaked (x : Bool)
  | dump (x : Bool) (items : List Item)
  | openB (b : Blk)
  | closeB

def parseElem (s : String) : Option Elem :=
  match s.toList with
  | 'p' :: r => (ofHex (String.ofList r)).map Elem.plain
  | 'i' :: r =>
    match (String.ofList r).splitOn "=" with
    | [i, v] => match i.toInt?, ofHex v with
      | some i, some v => some (Elem.at i v)
      | _, _ => none
    | _ => none
  | _ => none

def parseElems (s : String) : Option (List Elem) :=
  if s = "" then some [] else (s.splitOn ",").mapM parseElem

def parseItem (s : String) : Option Item :=
  match s.toList with
  | ['V'] => some .V | ['K'] => some .K | ['N'] => some .N | ['J'] => some .J | ['Z'] => some .Z
  | 'E' :: r => (String.ofList r).toInt?.map Item.E
  | 'L' :: r => (String.ofList r).toInt?.map Item.L
  | 'S' :: r =>
    match (String.ofList r).splitOn "_" with
    | [o, ""] => o.toInt?.map fun o => Item.S o none
    | [o, l] => match o.toInt?, l.toInt? with
      | some o, some l => some (Item.S o (some l))
      | _, _ => none
    | _ => none
  | _ => none

def parseVals (s : String) : Option (List Str) :=
  if s = "" then some [] else (s.splitOn ",").mapM ofHex

def parseVar (s : String) : Option Bool :=
  if s = "a" then some false else if s = "b" then some true else none

def parseCmd (tok : String) : Option Cmd :=
  if tok = "(sub" ∨ tok = "(cs" then some (.openB .sub)
  else if tok = "(fn" then some (.openB .fn)
  else if tok = ")" then some .closeB
  else match tok.splitOn ":" with
    | [x, "as", es] => do some (.op (← parseVar x) (.assign (← parseElems es)))
    | [x, "ap", es] => do some (.op (← parseVar x) (.append (← parseElems es)))
    | [x, "se", i, v] => do some (.op (← parseVar x) (.setElem (← i.toInt?) (← ofHex v)))
    | [x, "ae", i, v] => do some (.op (← parseVar x) (.appElem (← i.toInt?) (← ofHex v)))
    | [x, "ss", v] => do some (.op (← parseVar x) (.setStr (← ofHex v)))
    | [x, "sa", v] => do some (.op (← parseVar x) (.appStr (← ofHex v)))
    | [x, "ue", i] => do some (.op (← parseVar x) (.unsetElem (← i.toInt?)))
    | [x, "ua"] => do some (.op (← parseVar x) .unsetAll)
    | [x, "ra", _, vs] => do some (.op (← parseVar x) (.readArr (← parseVals vs)))   -- read -a variants
    | [x, "mf", _, vs] => do some (.op (← parseVar x) (.mapfile (← parseVals vs)))   -- mapfile / readarray
    | [x, "da", es] => do some (.op (← parseVar x) (.assign (← parseElems es)))      -- declare -a x=(…)
    | [x, "cp"] => do some (.copy (← parseVar x) false)
    | [x, "ca"] => do some (.copy (← parseVar x) true)
    | [x, "lo", es] => do some (.localAssign (← parseVar x) (← parseElems es))
    | [x, "ln"] => do some (.localNaked (← parseVar x))
    | [x, "d", items] => do some (.dump (← parseVar x) (← (items.splitOn ",").mapM parseItem))
    | _ => none

/-- What the program skeleton needs from a state type: the model (`Var`) or the map spec. -/
structure Sem (σ : Type) where
  init : σ
  step : σ → Op → Option σ
  values : σ → List Str
  item : σ → Item → String

def str (b : Str) : String := bytesToStringLossy b

def angle (l : List String) : String :=
  if l.isEmpty then "<>" else String.join (l.map fun s => "<" ++ s ++ ">")

def showRead : ReadRes → String
  | .val s => "<S" ++ str s ++ ">"
  | .unset => "<>"
  | .err => "!err"
  | .panic => "!panic"

def lenRead : ReadRes → String
  | .val s => toString s.length
  | .unset => "0"
  | .err => "!err"
  | .panic => "!panic"

def resList : Res (List Str) → String
  | .ok l => angle (l.map str)
  | .panic => "!panic"

/-- Reads on the Go representation, as the expansion code performs them. -/
def varItem (v : Var) : Item → String
  | it =>
    match v.kind with
    | .str => "?"
    | k =>
      let a : Arr := if k = .indexed then v.arr else ⟨[], none⟩
      match it with
      | .V => "V" ++ resList (sliceElems a none none)
      | .K =>
        if k = .indexed then
          match indexedKeys a with
          | .ok ks => "K" ++ angle (ks.map toString)
          | .panic => "K!panic"
        else "K!"
      | .N => match sliceElems a none none with
        | .ok l => "N" ++ toString l.length
        | .panic => "N!panic"
      | .J => match sliceElems a none none with
        | .ok l => "J<" ++ " ".intercalate (l.map str) ++ ">"
        | .panic => "J!panic"
      | .Z => match indexedVal a 0 with
        | .ok (some s) => "Z<" ++ str s ++ ">"
        | .ok none => "Z<>"
        | .panic => "Z!panic"
      | .E i => "E" ++ showRead (elemRead a i)
      | .L i => "L" ++ lenRead (elemRead a i)
      | .S o l => "S" ++ resList (sliceElems a (some o) l)

def mapItem (m : SMap) : Item → String
  | .V => "V" ++ angle (m.vals.map str)
  | .K => "K" ++ angle (m.keys.map toString)
  | .N => "N" ++ toString m.length
  | .J => "J<" ++ " ".intercalate (m.vals.map str) ++ ">"
  | .Z => "Z<" ++ str (optStr (m.lookup 0)) ++ ">"
  | .E i => "E" ++ showRead (specRead m i)
  | .L i => "L" ++ lenRead (specRead m i)
  | .S o l => match specSlice m (some o) l with
    | some vs => "S" ++ angle (vs.map str)
    | none => "S!neglen"

def varSem : Sem Var where
  init := Var.zero
  step v o := match applyOp v o with | .ok v' => some v' | .panic => none
  values v := match v.kind with
    | .indexed => if v.nilList then [[]] else v.arr.list   -- "${x[@]}" of a nil List: one empty field
    | .str => [v.str]
    | .unknown => []
  item := varItem

def mapSem : Sem SVar where
  init := SVar.unset
  step x o := some (specOp x o)
  values x := x.m.vals
  item x := mapItem x.m

structure PState (σ : Type) where
  a : σ
  b : σ
  saved : Option (σ × σ)
  blk : Blk
  la : Bool
  lb : Bool
  out : List String     -- reversed

def get {σ} (s : PState σ) (x : Bool) : σ := if x then s.b else s.a
def put {σ} (s : PState σ) (x : Bool) (v : σ) : PState σ := if x then { s with b := v } else { s with a := v }

def stepCmd {σ} (sem : Sem σ) (s : PState σ) : Cmd → Option (PState σ)
  | .op x o => (sem.step (get s x) o).map (put s x)
  | .copy x app =>
    let es := (sem.values (get s (!x))).map Elem.plain
    (sem.step (get s x) (if app then .append es else .assign es)).map (put s x)
  | .localAssign x es =>
    let s := if x then { s with lb := true } else { s with la := true }
    (sem.step (get s x) (.assign es)).map (put s x)
  | .localNaked x =>
    let s := if x then { s with lb := true } else { s with la := true }
    some (put s x sem.init)
  | .dump x items =>
    let line := (if x then "b:" else "a:") ++ String.join (items.map fun it => " " ++ sem.item (get s x) it)
    some { s with out := line :: s.out }
  | .openB b => some { s with saved := some (s.a, s.b), blk := b, la := false, lb := false }
  | .closeB =>
    match s.saved with
    | none => some s
    | some (a0, b0) =>
      match s.blk with
      | .sub => some { s with a := a0, b := b0, saved := none }
      | .fn => some { s with a := if s.la then a0 else s.a, b := if s.lb then b0 else s.b, saved := none }

def runCmds {σ} (sem : Sem σ) (s : PState σ) : List Cmd → Option (PState σ)
  | [] => some s
  | c :: cs => match stepCmd sem s c with
    | some s' => runCmds sem s' cs
    | none => none

def runProgWith {σ} (sem : Sem σ) (toks : List String) (render : PState σ → String) : String :=
  match toks.mapM parseCmd with
  | none => "bad-op"
  | some cmds =>
    match runCmds sem ⟨sem.init, sem.init, none, .sub, false, false, []⟩ cmds with
    | none => "panic"
    | some s => render s

def runProg {σ} (sem : Sem σ) (toks : List String) : String :=
  runProgWith sem toks fun s => String.join (s.out.reverse.map (· ++ "|"))

def b01 (b : Bool) : String := if b then "1" else "0"

/-- The Go `expand.Variable` the model predicts at the end of the program (`Runner.Vars`). -/
def showVar (v : Var) : String :=
  match v.kind with
  | .unknown => "unset"
  | .str => "str:" ++ b01 v.set ++ ":" ++ toHex v.str
  | .indexed => "arr:" ++ b01 v.set ++ ":" ++ toHex v.str ++ ":" ++ showIdx v.arr.idx ++ ":" ++
      (if v.nilList then "nil" else ";".intercalate (v.arr.list.map toHex))

def handle (args : List String) : String :=
  match args with
  | "set" :: k :: v :: idx :: elems =>
    match k.toInt?, ofHex v, parseArr idx elems with
    | some k, some v, some a => showArrRes (setElem a k v)
    | _, _, _ => "bad-op"
  | "del" :: k :: idx :: elems =>
    match k.toInt?, parseArr idx elems with
    | some k, some a => showArrRes (deleteElem a k)
    | _, _ => "bad-op"
  | ["canon", idx] =>
    match parseIdx idx with
    | some ix => showIdx (canonical ix)
    | none => "bad-op"
  | "max" :: idx :: elems =>
    match parseArr idx elems with
    | some a => toString (indexedMax a)
    | none => "bad-op"
  | "val" :: i :: idx :: elems =>
    match i.toInt?, parseArr idx elems with
    | some i, some a =>
      match indexedVal a i with
      | .ok (some s) => "some " ++ toHex s
      | .ok none => "none"
      | .panic => "panic"
    | _, _ => "bad-op"
  | "keys" :: idx :: elems =>
    match parseArr idx elems with
    | some a =>
      match indexedKeys a with
      | .ok ks => joinToks ("ok" :: ks.map toString)
      | .panic => "panic"
    | none => "bad-op"
  | "slice" :: o :: l :: idx :: elems =>
    match parseOptInt o, parseOptInt l, parseArr idx elems with
    | some o, some l, some a =>
      match sliceElems a o l with
      | .ok r => joinToks ["ok", showList r]
      | .panic => "panic"
    | _, _, _ => "bad-op"
  | "specset" :: k :: v :: idx :: elems =>
    match k.toInt?, ofHex v, parseArr idx elems with
    | some k, some v, some a => showMap (a.abs.insert k v)
    | _, _, _ => "bad-op"
  | "specdel" :: k :: idx :: elems =>
    match k.toInt?, parseArr idx elems with
    | some k, some a => showMap (a.abs.erase k)
    | _, _ => "bad-op"
  | "specval" :: i :: idx :: elems =>
    match i.toInt?, parseArr idx elems with
    | some i, some a =>
      match a.abs.lookup i with
      | some s => "some " ++ toHex s
      | none => "none"
    | _, _ => "bad-op"
  | "speckeys" :: idx :: elems =>
    match parseArr idx elems with
    | some a => joinToks ("ok" :: a.abs.keys.map toString)
    | none => "bad-op"
  | "specmax" :: idx :: elems =>
    match parseArr idx elems with
    | some a => toString a.abs.maxKey
    | none => "bad-op"
  | "speccount" :: idx :: elems =>
    match parseArr idx elems with
    | some a => toString a.abs.length
    | none => "bad-op"
  | "specslice" :: o :: l :: idx :: elems =>
    match parseOptInt o, parseOptInt l, parseArr idx elems with
    | some o, some l, some a =>
      match specSlice a.abs o l with
      | some r => joinToks ["ok", showList r]
      | none => "neglen"
    | _, _, _ => "bad-op"
  | "prog" :: toks => runProg varSem toks
  | "progrep" :: toks => runProgWith varSem toks fun s => "a=" ++ showVar s.a ++ " b=" ++ showVar s.b
  | "specprog" :: toks => runProg mapSem toks
  | _ => "bad-op"

end ShVerif.Drv.C33
