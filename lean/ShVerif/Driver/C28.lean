import ShVerif.Model.C28
/-
  C28 driver.  Encodings: byte strings are hex (`-` = empty); rune strings are dot-separated hex
  code points (`-` = empty); integers are decimal, `_` = absent.  See the op list at `handle`.
-/
namespace ShVerif.Drv.C28
open ShVerif ShVerif.C28

def hexNat (s : String) : Option Nat :=
  if s.isEmpty then none else
  s.toList.foldl (fun acc c => match acc, hexVal c with
    | some a, some d => some (a * 16 + d)
    | _, _ => none) (some 0)

def natHex (n : Nat) : String := String.ofList (Nat.toDigits 16 n)

def ofRunes (s : String) : Option (List Nat) :=
  if s = "-" then some [] else (s.splitOn ".").mapM hexNat

def toRunes (l : List Nat) : String :=
  if l.isEmpty then "-" else ".".intercalate (l.map natHex)

def optInt (s : String) : Option (Option Int) :=
  if s = "_" then some none else s.toInt?.map some

def showInt (i : Int) : String := toString i

def csvNat (l : List Nat) : String :=
  if l.isEmpty then "-" else ",".intercalate (l.map toString)

def bits (l : List Bool) : String := String.ofList (l.map fun b => if b then '1' else '0')

def ofBits (s : String) : List Bool := s.toList.map (· = '1')

def fops (s : String) : Option (List FOp) :=
  s.toList.mapM fun c => match c with
    | 'm' => some FOp.more | 'f' => some FOp.flag | 'v' => some FOp.value | 'a' => some FOp.args
    | _ => none

def showEv : FEv → String
  | .more b => if b then "m1" else "m0"
  | .flag f => "f" ++ toHex f
  | .value v => "v" ++ toHex v
  | .args isNil a => (if isNil then "n" else "a") ++ String.join (a.map fun x => ":" ++ toHex x)

/-- Split a token list at "/" separators. -/
def splitSlash : List String → List (List String)
  | [] => [[]]
  | "/" :: rest => [] :: splitSlash rest
  | t :: rest =>
    match splitSlash rest with
    | [] => [[t]]
    | g :: gs => (t :: g) :: gs

/-- OPTARG as left by `case "getopts"`: `none` = unset. -/
def optargVar (optstr : List Nat) (o : GOut) : Option (List Nat) :=
  let diag := optstr.head? ≠ some 58
  if o.opt = 63 ∧ diag ∧ !o.done then none
  else if o.opt = 58 ∧ diag then none
  else if o.optarg ≠ [] then some o.optarg else none

/-- Builtin-level sequence: cursor, OPTIND variable, calls → one record per call. -/
def gseq : GState → Int → List (Option Int × List Nat × List (List Nat)) → List String
  | _, _, [] => []
  | g, ov, (oi?, optstr, args) :: rest =>
    let optind := oi?.getD ov
    match gcall g ⟨optind, optstr, args⟩ with
    | .panic => ["panic"]
    | .ok (g', o) =>
      let ov' := optindAfter g optind g'
      let oa := match optargVar optstr o with
        | none => "U"
        | some a => "S" ++ toRunes a
      ((if o.done then "1" else "0") ++ "|" ++ natHex o.opt ++ "|" ++ oa ++ "|" ++ showInt ov')
        :: gseq g' ov' rest

def parseDOp (t : String) : Option DOp :=
  match t.splitOn ":" with
  | ["ds"] => some .dirs
  | ["cd", p] => (ofHex p).map .cd
  | "pu" :: as => (as.mapM ofHex).map (.pushd false)
  | "pun" :: as => (as.mapM ofHex).map (.pushd true)
  | "po" :: as => (as.mapM ofHex).map (.popd false)
  | "pon" :: as => (as.mapM ofHex).map (.popd true)
  | _ => none

def parsePart (t : String) : Option Part :=
  match t.toList with
  | 'l' :: r => (ofHex (String.ofList r)).map .lit
  | 'n' :: r => (ofHex (String.ofList r)).map .nakedIndex
  | ['o'] => some .other
  | _ => none

/--
  atoi h · shift n h* · loop b|c h* · exit h* · fp script h* · params so bits h* · wait n h* ·
  gnext ai ri optstr arg* · gseq call (/ call)* · dirs dir fs* / op* · slicestr r off len ·
  sliceelems n idx off len · lvalue kind part* · assoc kind
-/
def handle (args : List String) : String :=
  match args with
  | ["atoi", h] =>
    match ofHex h with
    | some s => match goAtoi s with
      | some n => showInt n
      | none => "none"
    | none => "bad-op"
  | "shift" :: n :: hs =>
    match n.toNat?, hs.mapM ofHex with
    | some n, some as =>
      match shift (List.replicate n []) as with
      | .usage => "usage"
      | .outOfRange => "range"
      | .ok k => "ok " ++ toString k
      | .panic => "panic"
    | _, _ => "bad-op"
  | "loop" :: k :: hs =>
    match hs.mapM ofHex with
    | some as => csvNat (loopSim (k = "b") as)
    | none => "bad-op"
  | "exit" :: hs =>
    match hs.mapM ofHex with
    | some as =>
      match exitArgs as with
      | .ok (.code c) => "code " ++ toString c
      | .ok .invalid => "invalid"
      | .ok .tooMany => "toomany"
      | .ok .last => "last"
      | .panic => "panic"
    | none => "bad-op"
  | "fp" :: script :: hs =>
    match fops script, hs.mapM ofHex with
    | some ops, some as =>
      let (tr, k) := fpRun (FP.init as) ops
      " ".intercalate (tr.map showEv ++ (if k then ["PANIC"] else []))
    | _, _ => "bad-op"
  | "params" :: so :: b :: hs =>
    match hs.mapM ofHex with
    | some as =>
      match params (ofBits b) as with
      | .ok st => "ok " ++ bits st.opts ++ " " ++
          (match st.params with
           | none => "keep"
           | some ps => "set" ++ String.join (ps.map fun x => ":" ++ toHex x)) ++ " " ++
          -- so = "0": Params ran as an option of New before any StdIO: the listing went to io.Discard
          (if so = "1" then toString st.listings else "-")
      | .err w => "err " ++ toHex w
      | .panic => "panic"
      | .outOfFuel => "out-of-fuel"
    | none => "bad-op"
  | "wait" :: n :: hs =>
    match n.toNat?, hs.mapM ofHex with
    | some n, some as =>
      match wait n as with
      | .ok .badFlag => "badflag"
      | .ok .all => "all"
      | .ok (.notChild k) =>
        let a := as.getD k []
        "notchild " ++ toHex ((cutPrefixG a).getD a)
      | .ok (.waited _) => "waited"
      | .panic => "panic"
    | _, _ => "bad-op"
  | "gnext" :: ai :: ri :: optstr :: as =>
    match ai.toNat?, ri.toNat?, ofRunes optstr, as.mapM ofRunes with
    | some ai, some ri, some os, some as =>
      match gnext ⟨ai, ri⟩ os as with
      | .panic => "panic"
      | .ok (g, o) => natHex o.opt ++ " " ++ toRunes o.optarg ++ " " ++ (if o.done then "1" else "0")
          ++ " " ++ toString g.argidx ++ " " ++ toString g.runeidx
    | _, _, _, _ => "bad-op"
  | "gseq" :: rest =>
    let calls := (splitSlash rest).mapM fun c =>
      match c with
      | oi :: os :: as =>
        match optInt oi, ofRunes os, as.mapM ofRunes with
        | some oi, some os, some as => some (oi, os, as)
        | _, _, _ => none
      | _ => none
    match calls with
    | some cs => " ".intercalate (gseq ⟨0, 0⟩ 1 cs)
    | none => "bad-op"
  | "dirs" :: rest =>
    match splitSlash rest with
    | [d :: fs, ops] =>
      match ofHex d, fs.mapM ofHex, ops.mapM parseDOp with
      | some d, some fs, some ops =>
        -- executed step by step so that a panic keeps the records before it
        let rec go (s : DState) : List DOp → List String
          | [] => []
          | op :: ops =>
            match dstep fs s op with
            | .panic => ["panic"]
            | .ok (s', code, out) => (toString code ++ ":" ++ toHex out) :: go s' ops
        " ".intercalate (go ⟨d, [d]⟩ ops)
      | _, _, _ => "bad-op"
    | _ => "bad-op"
  | ["slicestr", r, off, len] =>
    match ofRunes r, optInt off, optInt len with
    | some r, some off, some len =>
      match sliceStr r off len with
      | .ok (some o) => toRunes o
      | .ok none => "error"
      | .panic => "panic"
    | _, _, _ => "bad-op"
  | ["sliceelems", n, idx, off, len] =>
    let idx? : Option (List Int) := if idx = "_" then some [] else (idx.splitOn ",").mapM String.toInt?
    match n.toNat?, idx?, optInt off, optInt len with
    | some n, some idx, some off, some len =>
      match sliceElems (List.range n) idx off len with
      | .ok o => csvNat o
      | .panic => "panic"
    | _, _, _, _ => "bad-op"
  | "lvalue" :: parts =>
    match parts.mapM parsePart with
    | some ps =>
      (if isArithName (.word ps) then "1 " else "0 ") ++
      (match arithLvalue (.word ps) with
       | .ok (some n) => toHex n
       | .ok none => "error"
       | .panic => "panic")
    | none => "bad-op"
  | ["assoc", k] =>
    let e : Option AExpr := match k with
      | "w" => some (.word []) | "b" => some .binary | "u" => some .unary
      | "p" => some .paren | "f" => some .flags | _ => none
    match e with
    | some e => (match assocIndex e with | .ok true => "ok" | .ok false => "error" | .panic => "panic")
    | none => "bad-op"
  | "resolve" :: start :: ents =>
    -- resolve <start name> <name:kind:target>*  (kind u s n i a; unknown names are unset)
    let parse (t : String) : Option (Bytes × Var) :=
      match t.splitOn ":" with
      | [n, k, tg] =>
        let kind? : Option VKind := match k with
          | "u" => some .unknown | "s" => some .string | "n" => some .nameRef
          | "i" => some .indexed | "a" => some .assoc | _ => none
        match ofHex n, kind?, ofHex tg with
        | some n, some kd, some tg => some (n, ⟨kd, tg⟩)
        | _, _, _ => none
      | _ => none
    match ofHex start, ents.mapM parse with
    | some st, some es =>
      let env : Bytes → Var := fun n => match es.find? (fun e => e.1 == n) with
        | some e => e.2
        | none => ⟨.unknown, []⟩
      let (name, v) := resolve env (env st)
      let ks := match v.kind with
        | .unknown => "u" | .string => "s" | .nameRef => "n" | .indexed => "i" | .assoc => "a"
        | .keepValue => "k"
      toHex name ++ " " ++ ks ++ " " ++
        (match appendKind (prevFor env (env st)).kind with | .ok _ => "ok" | .panic => "panic")
    | _, _ => "bad-op"
  | _ => "bad-op"

end ShVerif.Drv.C28
