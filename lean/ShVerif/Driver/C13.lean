import ShVerif.Model.C13
namespace ShVerif.Drv.C13
open ShVerif ShVerif.C13

def showKind : ErrKind → String
  | .null => "null" | .posix => "posix" | .range => "range" | .mksh => "mksh"

def showQuote : Except QErr Bytes → String
  | .ok q => "ok " ++ toHex q
  | .error e => "err " ++ toString e.offs ++ " " ++ showKind e.kind

def showPart : Part → String
  | .lit v => "L:" ++ toHex v
  | .sgl false v => "S:" ++ toHex v
  | .sgl true v => "D:" ++ toHex v
  | .dbl v => "Q:" ++ toHex v

def showWord (w : Word) : String := "+".intercalate (w.map showPart)

def natHex (n : Nat) : String := String.ofList (Nat.toDigits 16 n)

def showExpand : List Word → String
  | ws =>
    let rs := ws.map expandLit
    if rs.any (fun r => r == Res.outside) then "outside"
    else if rs.any (fun r => r == Res.err) then "err"
    else " ".intercalate ("ok" :: rs.map fun r => match r with | .ok b => toHex b | _ => "?")

/-- ops (byte strings in hex, `-` = empty; lang = LangVariant as a decimal bit set):
    `quote <lang> <s>`   → `ok <q>` | `err <offs> <kind>`            model of syntax.Quote
    `dec <s>`            → `<rune hex> <size>`                        utf8.DecodeRuneInString
    `isprint-table`      → all maximal ranges of unicode.IsPrint
    `fmt <s>`            → hex of expand.Format(nil, s, nil)
    `lex <lang> <q>`     → `words <w>*` | `err` | `outside`           Parser.Words
    `unq <lang> <q>`     → `ok <hex>*` | `err` | `outside`            expand.Literal of each word
    `cmd <lang> <q>`     → `simple <w>` | `assign` | `notsimple` | `outside`   Parser.Parse of one word
    `specrt <lang> <s>`  → `fail` | `ok`   the property: Quote must fail exactly on the strings the
                           variant cannot represent, otherwise its result must parse as one word of
                           literal/quoted parts that expands to `s`. -/
def handle (args : List String) : String :=
  match args with
  | ["quote", l, s] =>
    match l.toNat?, ofHex s with
    | some l, some s => showQuote (quote l s)
    | _, _ => "bad-op"
  | ["dec", s] =>
    match ofHex s with
    | some s => let d := decodeRune s; natHex d.1 ++ " " ++ toString d.2
    | none => "bad-op"
  | ["isprint-table"] =>
    " ".intercalate (printRanges.map fun p => natHex p.1 ++ "-" ++ natHex p.2)
  | ["fmt", s] =>
    match ofHex s with
    | some s => toHex (fmtEsc s)
    | none => "bad-op"
  | ["lex", l, q] =>
    match l.toNat?, ofHex q with
    | some l, some q =>
      match lexWords l q with
      | .ok ws => " ".intercalate ("words" :: ws.map showWord)
      | .err => "err"
      | .outside => "outside"
    | _, _ => "bad-op"
  | ["unq", l, q] =>
    match l.toNat?, ofHex q with
    | some l, some q =>
      match lexWords l q with
      | .ok ws => showExpand ws
      | .err => "err"
      | .outside => "outside"
    | _, _ => "bad-op"
  | ["cmd", l, q] =>
    match l.toNat?, ofHex q with
    | some l, some q =>
      match cmdPos l q with
      | .simple w => "simple " ++ showWord w
      | .assign => "assign"
      | .special => "notsimple"
      | .err => "notsimple"
      | .outside => "outside"
    | _, _ => "bad-op"
  | ["specrt", l, s] =>
    match l.toNat?, ofHex s with
    | some l, some s => if specFails l s then "fail" else "ok"
    | _, _ => "bad-op"
  | _ => "bad-op"

end ShVerif.Drv.C13
