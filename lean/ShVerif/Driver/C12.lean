import ShVerif.Model.C12
namespace ShVerif.Drv.C12
open ShVerif.C12 ShVerif.C12.Tok

def tokOf : String → Option Tok
  | "W" => some word | "Q" => some qword | "A" => some assign | ">" => some io
  | "if" => some kIf | "then" => some kThen | "elif" => some kElif | "else" => some kElse
  | "fi" => some kFi | "while" => some kWhile | "until" => some kUntil | "do" => some kDo
  | "done" => some kDone | "for" => some kFor | "in" => some kIn | "case" => some kCase
  | "esac" => some kEsac | "{" => some lbrace | "}" => some rbrace | "!" => some bang
  | "(" => some lparen | ")" => some rparen | ";" => some semi | "&" => some amp
  | "&&" => some andIf | "||" => some orIf | "|" => some pipe | ";;" => some dsemi
  | "NL" => some nl
  | _ => none

def langOf : String → Option Lang
  | "b" => some .bash
  | "p" => some .posix
  | _ => none

def showB (b : Bool) : String := if b then "acc" else "rej"

def bit (c : Char) : Option Bool :=
  if c = '1' then some true else if c = '0' then some false else none

/-- `posix elseInCmd rsrvAfterIO bangAlone forAssign fnBody(0|1|2) forBrace` `closerAfterRedir` as eight characters. -/
def cfgOf (s : String) : Option Cfg :=
  match s.toList with
  | [a, b, c, d, e, f, g, h] => do
    let fb ← (if f = '0' then some FnBody.andOr else if f = '1' then some FnBody.command
              else if f = '2' then some FnBody.compound else none)
    pure { posix := ← bit a, elseInCmd := ← bit b, rsrvAfterIO := ← bit c, bangAlone := ← bit d,
           forAssign := ← bit e, fnBody := fb, forBrace := ← bit g, closerAfterRedir := ← bit h }
  | _ => none

/-- ops: `acc <b|p> <tok>*` — model of the Go parser;
         `specsh <b|p> <tok>*` — recogniser of the shells' grammar (the specification, run against
           `bash -n` / `dash -n`);
         `cfg <8 chars> <tok>*` — the parser with arbitrary rule variants (ties the harness's own
           transliteration). -/
def handle (args : List String) : String :=
  match args with
  | "acc" :: l :: toks =>
    match langOf l, toks.mapM tokOf with
    | some l, some ts => showB (accepts l ts)
    | _, _ => "bad-op"
  | "specsh" :: l :: toks =>
    match langOf l, toks.mapM tokOf with
    | some l, some ts => showB (shellAccepts l ts)
    | _, _ => "bad-op"
  | "cfg" :: cs :: toks =>
    match cfgOf cs, toks.mapM tokOf with
    | some c, some ts => showB (parse c ts)
    | _, _ => "bad-op"
  | _ => "bad-op"

end ShVerif.Drv.C12
