import ShVerif.Model.L3Glob
import ShVerif.Base.RuneCodec
/-
  Line-protocol helpers shared by the C17 and C18 drivers: rune decoding of the hex arguments,
  canonical rendering of errors, enumeration of all strings up to a length over an alphabet.
-/
namespace ShVerif.Drv.L3
open ShVerif ShVerif.L3

/-- Hex argument → runes, decoding UTF-8 as Go does. -/
def runesOfHex (h : String) : Option Str :=
  (ofHex h).map fun b => (decodeRunes b).map Char.toNat

def hexOfRunes (s : Str) : String := toHex (encodeStr s)

def showClsErr : ClsErr → String
  | .coll => "coll"
  | .unmatched => "unmatched"
  | .invalid n => "invalid:" ++ hexOfRunes n

/-- Byte offset of rune index `i` in `p`. -/
def byteOff (p : Str) (i : Nat) : Nat := byteLen (p.take i)

def showErr (p : Str) : Err → String
  | .trailingBackslash => "err trailing-backslash"
  | .badRange lo hi => s!"err bad-range {lo} {hi}"
  | .cls e => "err class " ++ showClsErr e
  | .negExt gs => "err negext" ++ String.join (gs.map fun (s, e) => s!" {byteOff p s}:{byteOff p e}")

/-- All strings of length ≤ n over the alphabet, shortest first, in alphabet order. -/
def enumStrs (alpha : Str) : Nat → List Str
  | 0 => [[]]
  | n + 1 =>
    let prev := enumStrs alpha n
    let longest := prev.filter (fun s => s.length == n)
    prev ++ longest.flatMap (fun s => alpha.map (fun a => s ++ [a]))

def bits (f : Str → Bool) (strs : List Str) : String :=
  String.ofList (strs.map fun s => if f s then '1' else '0')

def parseMode (s : String) : Option Mode := s.toNat?.map Mode.ofNat

end ShVerif.Drv.L3
