import ShVerif.Model.C27
/-
  Line protocol for C27.

    run|runpinned <bg> <base> <dir> <optbits> <op>* | <op>*     heap-shape dump of parent and child after the ops
    spec|specpinned <bg> <base> <dir> <optbits> <op>* | <op>*   the SPECIFICATION: the parent's observable state
                                                   as it was *before* the subshell ran (the impl
                                                   answers with the state *after*)
    growtab s|i <n>                                the growth policy the driver uses as oracle

  `…pinned` runs the old `assignVal` (in-place `+=`, before db7f3b5).  Op tokens: see `parseOp`.
-/
namespace ShVerif.Drv.C27
open ShVerif ShVerif.L1 ShVerif.C27

/-! ### Go 1.26 runtime growth policy (driver only; the theorems quantify over every oracle) -/

def sizeClasses : List Nat :=
  [8, 16, 24, 32, 48, 64, 80, 96, 112, 128, 144, 160, 176, 192, 208, 224, 240, 256, 288, 320, 352,
   384, 416, 448, 480, 512, 576, 640, 704, 768, 896, 1024, 1152, 1280, 1408, 1536, 1792, 2048]

def roundUp (b : Nat) : Nat := (sizeClasses.find? (· ≥ b)).getD b

/-- `growslice` + `roundupsize`; element types with pointers (strings, 16 bytes) above 512 bytes
    carry an 8-byte malloc header. -/
def goGrow (esz : Nat) : Grow := fun _ old need =>
  let nc := if need > 2 * old then need else if old < 256 then 2 * old else need
  let b := nc * esz
  if esz = 16 && b > 512 then (roundUp (b + 8) - 8) / esz else roundUp b / esz

def goGrows : Grows := { strs := goGrow 16, ints := goGrow 8 }

/-! ### Parsing -/

def parseInt (s : String) : Option Int := s.toInt?

def hexList (s : String) : Option (List Bytes) :=
  if s = "_" then some [] else (s.splitOn ",").mapM ofHex

def parseIdx (s : String) : Option Idx :=
  if s = "_" then some .none
  else if s.startsWith "i" then (parseInt (s.drop 1).toString).map Idx.int
  else none

def parseBool (s : String) : Option Bool :=
  if s = "1" then some true else if s = "0" then some false else none

def parseRhs (s : String) : Option Rhs :=
  if s = "_" then some .none
  else if s.startsWith "s" then (ofHex (s.drop 1).toString).map Rhs.str
  else if s.startsWith "a" then
    let body := (s.drop 1).toString
    if body = "" then some (.arr [])
    else (body.splitOn ",").mapM (fun (e : String) =>
      match e.splitOn "=" with
      | [i, v] => do
        let v ← ofHex v
        if i = "_" then pure (none, v) else do
          let k ← parseInt i
          pure (some k, v)
      | _ => none) |>.map Rhs.arr
  else if s.startsWith "m" then
    let body := (s.drop 1).toString
    if body = "" then some (.amap [])
    else (body.splitOn ",").mapM (fun (e : String) =>
      match e.splitOn "=" with
      | [k, v] => do pure ((← ofHex k), (← ofHex v))
      | _ => none) |>.map Rhs.amap
  else none

def parseVt (s : String) : Option ValType :=
  match s with
  | "_" => some .dflt | "a" => some .a | "A" => some .A | "n" => some .n | _ => none

def parseOp (tok : String) : Option Op :=
  match tok.splitOn ":" with
  | ["A", name, idx, app, rhs] => do
    pure (.assign (← ofHex name) (← parseIdx idx) (← parseBool app) (← parseRhs rhs))
  | ["D", v, flags, vt, name, naked, app, rhs] => do
    let v ← match v with
      | "d" => some DeclVariant.declare | "l" => some .local | "x" => some .export
      | "r" => some .readonly | _ => none
    let fl := flags.toList
    pure (.decl v (fl.contains 'x') (fl.contains 'r') (fl.contains 'g') (← parseVt vt) (← ofHex name)
      (← parseBool naked) (← parseBool app) (← parseRhs rhs))
  | ["IA", name, app, rhs] => do
    pure (.inline (← ofHex name) (← parseBool app) (← parseRhs rhs))
  | ["PA", name, idx, colon, val] => do
    let idx ← if idx = "_" then some none
      else if idx.startsWith "i" then (parseInt (idx.drop 1).toString).map some
      else none
    pure (.paramAssign (← ofHex name) idx (← parseBool colon) (← ofHex val))
  | ["N"] => some .nop
  | ["U", mode, name, sub] => do
    let mode ← match mode with
      | "b" => some UnsetMode.both | "v" => some .vars | "f" => some .funcs | _ => none
    let sub ← if sub = "_" then some none
      else if sub = "@" then some (some Sub.all)
      else if sub.startsWith "i" then (parseInt (sub.drop 1).toString).map fun k => some (Sub.int k)
      else none
    pure (.unset mode (← ofHex name) sub)
  | ["RA", name, vals] => do pure (.readArr (← ofHex name) (← hexList vals))
  | ["SV", name, val] => do pure (.setStr (← ofHex name) (← ofHex val))
  | ["MF", name, vals] => do pure (.mapfile (← ofHex name) (← hexList vals))
  | ["SH", n] => (parseInt n).map Op.shift
  | ["SP", vals] => (hexList vals).map Op.setParams
  | ["CD", d] => (ofHex d).map Op.cd
  | ["PU", d] => (ofHex d).map Op.pushd
  | ["PS"] => some .pushdSwap
  | ["PO"] => some .popd
  | ["O", i, v] => do pure (.setOpt (← i.toNat?) (← parseBool v))
  | ["AL", name, words, blank] => do pure (.alias (← ofHex name) (← ofHex words) (← parseBool blank))
  | ["UA", name] => (ofHex name).map Op.unalias
  | ["F", name, body] => do pure (.funcDef (← ofHex name) (← ofHex body))
  | ["CF", vals] => (hexList vals).map Op.pushFunc
  | ["RF"] => some .popFunc
  | _ => none

def parseBase (s : String) : Option (List (Bytes × Bytes)) :=
  if s = "_" then some []
  else (s.splitOn ",").mapM fun e =>
    match e.splitOn "=" with
    | [k, v] => do pure ((← ofHex k), (← ofHex v))
    | _ => none

/-! ### Dump -/

/-- Identity classes: ids in order of first appearance, one list per kind of heap object. -/
structure Cl where
  strs : List Nat := []
  ints : List Nat := []
  maps : List Nat := []
  scopes : List Nat := []
  fmaps : List Nat := []
  amaps : List Nat := []

def classOf (seen : List Nat) (id : Nat) : List Nat × Nat :=
  match seen.idxOf? id with
  | some i => (seen, i + 1)
  | none => (seen ++ [id], seen.length + 1)

def insertBy (le : α → α → Bool) (x : α) : List α → List α
  | [] => [x]
  | y :: ys => if le x y then x :: y :: ys else y :: insertBy le x ys

def sortBy (le : α → α → Bool) (l : List α) : List α := l.foldr (insertBy le) []

def keyLe (a b : Bytes × β) : Bool := cmpBytes a.1 b.1 != .gt

def commaSep (l : List String) : String := ",".intercalate l

def kindNum : Kind → Nat
  | .unknown => 0 | .string => 1 | .nameRef => 2 | .indexed => 3 | .associative => 4 | .keepValue => 5

def bit (b : Bool) : String := if b then "1" else "0"

/-- `shape = true`: with identity classes, lengths and capacities (the tie);
    `shape = false`: contents only (the observation the property talks about). -/
def showStrSlice (shape : Bool) (h : Heap) (cl : Cl) (s : Slice) (hideEmptyClass : Bool := false) : Cl × String :=
  if s.isNil then (cl, "n")
  else
    let body := "[" ++ commaSep ((cells h.strs s).map toHex) ++ "]"
    if !shape then (cl, body)
    else if hideEmptyClass then
      if s.len = 0 then (cl, "e")
      else
        let (seen, c) := classOf cl.strs s.arr
        ({ cl with strs := seen }, s!"{c}.{s.len}{body}")
    else if s.cap = 0 then (cl, "z")
    else
      let (seen, c) := classOf cl.strs s.arr
      ({ cl with strs := seen }, s!"{c}.{s.len}.{s.cap}{body}")

def showIntSlice (shape : Bool) (h : Heap) (cl : Cl) (s : Slice) : Cl × String :=
  if s.isNil then (cl, "n")
  else
    let body := "[" ++ commaSep ((cells h.ints s).map toString) ++ "]"
    if !shape then (cl, body)
    else if s.cap = 0 then (cl, "z")
    else
      let (seen, c) := classOf cl.ints s.arr
      ({ cl with ints := seen }, s!"{c}.{s.len}.{s.cap}{body}")

def showKV (m : List (Bytes × Bytes)) : String :=
  "{" ++ commaSep ((sortBy keyLe m).map fun (k, v) => toHex k ++ "=" ++ toHex v) ++ "}"

def showMap (shape : Bool) (h : Heap) (cl : Cl) : Option Nat → Cl × String
  | none => (cl, "n")
  | some id =>
    let body := showKV (mapOf h.maps id)
    if !shape then (cl, body)
    else
      let (seen, c) := classOf cl.maps id
      ({ cl with maps := seen }, s!"{c}{body}")

def showVar (shape : Bool) (h : Heap) (cl : Cl) (nv : Bytes × Var) : Cl × String :=
  let v := nv.2
  let (cl, l) := showStrSlice shape h cl v.list
  let (cl, i) := showIntSlice shape h cl v.indexes
  let (cl, m) := showMap shape h cl v.map
  (cl, s!"{toHex nv.1}:{kindNum v.kind}:{bit v.set}{bit v.isLocal}{bit v.exported}{bit v.readOnly}:{toHex v.str}:L{l}:I{i}:M{m}")

def showVars (shape : Bool) (h : Heap) (cl : Cl) (vars : List (Bytes × Var)) : Cl × String :=
  let (cl, parts) := (sortBy keyLe vars).foldl (fun (acc : Cl × List String) nv =>
    let (cl, s) := showVar shape h acc.1 nv
    (cl, acc.2 ++ [s])) (cl, [])
  (cl, "|".intercalate parts)

def showChain (shape : Bool) (h : Heap) : Nat → Cl → PRef → Cl × List String
  | 0, cl, _ => (cl, [])
  | _ + 1, cl, .nil => (cl, [])
  | _ + 1, cl, .base => (cl, [])
  | fuel + 1, cl, .ov id =>
    match h.scopes[id]? with
    | none => (cl, ["dangling"])
    | some o =>
      let (cl, head) : Cl × String :=
        if shape then
          let (seen, c) := classOf cl.scopes id
          let cl := { cl with scopes := seen }
          let (cl, p) : Cl × String := match o.parent with
            | .nil => (cl, "n")
            | .base => (cl, "b")
            | .ov p => let (seen, c) := classOf cl.scopes p; ({ cl with scopes := seen }, s!"S{c}")
          (cl, s!"S{c},f{bit o.funcScope},p{p},v{bit o.values.isNone}")
        else (cl, s!"f{bit o.funcScope},v{bit o.values.isNone}" ++
          (match o.parent with | .nil => ",pn" | .base => ",pb" | .ov _ => ",po"))
      let (cl, vars) := showVars shape h cl (o.values.getD [])
      let (cl, rest) := showChain shape h fuel cl o.parent
      (cl, (head ++ "(" ++ vars ++ ")") :: rest)

/-- Does the chain end in the Runner's root Env (false for background copies)? -/
def reachesBase (h : Heap) : Nat → PRef → Bool
  | 0, _ => false
  | _ + 1, .nil => false
  | _ + 1, .base => true
  | fuel + 1, .ov id =>
    match h.scopes[id]? with
    | none => false
    | some o => reachesBase h fuel o.parent

def showRunner (shape : Bool) (h : Heap) (cl : Cl) (r : Runner) : Cl × String :=
  let (cl, chain) := showChain shape h (fuelOf h.scopes) cl (.ov r.env)
  let base := if reachesBase h (fuelOf h.scopes) (.ov r.env) then
    commaSep (r.base.map fun (k, v) => toHex k ++ "=" ++ toHex v) else ""
  let (cl, par) := showStrSlice shape h cl r.params (hideEmptyClass := true)
  let (cl, ds) := showStrSlice shape h cl r.dirStack
  let opts := String.join (r.opts.map bit)
  let (cl, fn) : Cl × String := match r.funcs with
    | none => (cl, "n")
    | some id =>
      let body := showKV (mapOf h.fmaps id)
      if shape then let (seen, c) := classOf cl.fmaps id; ({ cl with fmaps := seen }, s!"{c}{body}")
      else (cl, body)
  let (cl, al) : Cl × String := match r.alias with
    | none => (cl, "n")
    | some id =>
      let body := showKV ((mapOf h.amaps id).map fun (k, (w, b)) => (k, w ++ [if b then 43 else 45]))
      if shape then let (seen, c) := classOf cl.amaps id; ({ cl with amaps := seen }, s!"{c}{body}")
      else (cl, body)
  (cl, s!"env[{";".intercalate chain}] base[{base}] par={par} ds={ds} dir={toHex r.dir} opts={opts} fn={fn} al={al} if={bit r.inFunc}")

def showBoth (h : Heap) (p c : Runner) : String :=
  let (cl, ps) := showRunner true h {} p
  let (_, cs) := showRunner true h cl c
  "P{" ++ ps ++ "} C{" ++ cs ++ "}"

/-! ### Commands -/

structure Case where
  bg : Bool
  base : List (Bytes × Bytes)
  dir : Bytes
  opts : List Bool
  setup : List Op
  child : List Op

def parseCase (args : List String) : Option Case :=
  match args with
  | bg :: base :: dir :: nopts :: rest => do
    let bg ← parseBool bg
    let base ← parseBase base
    let dir ← ofHex dir
    let opts ← nopts.toList.mapM fun c => if c = '1' then some true else if c = '0' then some false else none
    let setupToks := rest.takeWhile (· ≠ "|")
    let childToks := (rest.dropWhile (· ≠ "|")).drop 1
    let setup ← setupToks.mapM parseOp
    let child ← childToks.mapM parseOp
    pure { bg, base, dir, opts, setup, child }
  | _ => none

def runCase (fx spec : Bool) (c : Case) : String :=
  match initState c.base c.dir c.opts with
  | none => "panic-init"
  | some (h, r) =>
    match run fx goGrows h r c.setup with
    | none => "panic-setup"
    | some (h, p) =>
      if spec then (showRunner false h {} p).2
      else
        match subshell goGrows h p c.bg with
        | none => "panic-subshell"
        | some (h, ch) =>
          match run fx goGrows h ch c.child with
          | none => "panic"
          | some (h, ch) => showBoth h p ch

def handle (args : List String) : String :=
  match args with
  | "run" :: rest => match parseCase rest with | some c => runCase true false c | none => "bad-op"
  | "runpinned" :: rest => match parseCase rest with | some c => runCase false false c | none => "bad-op"
  | "spec" :: rest => match parseCase rest with | some c => runCase true true c | none => "bad-op"
  | "specpinned" :: rest => match parseCase rest with | some c => runCase false true c | none => "bad-op"
  | ["growtab", k, n] =>
    match n.toNat? with
    | none => "bad-op"
    | some n =>
      let g := if k = "s" then goGrow 16 else goGrow 8
      let clone := (List.range (n + 1)).map fun i => toString (if i = 0 then 0 else newCap g 0 0 i)
      let app := (List.range (n + 1)).map fun i => toString (newCap g 0 i (i + 1))
      commaSep clone ++ ";" ++ commaSep app
  | _ => "bad-op"

end ShVerif.Drv.C27
