import ShVerif.Model.C16
namespace ShVerif.Drv.C16
open ShVerif ShVerif.C16

mutual
def dumpPart : Part → String
  | .lit v => "l" ++ toHex v ++ ";"
  | .brace seq elems => (if seq then "{s" else "{c") ++ dumpElems elems ++ "}"
def dumpWord : List Part → String
  | [] => ""
  | p :: ps => dumpPart p ++ dumpWord ps
def dumpElems : List (List Part) → String
  | [] => ""
  | [e] => dumpWord e
  | e :: e' :: es => dumpWord e ++ "|" ++ dumpElems (e' :: es)
end

/-- Lists longer than 48 are shown as the first 40 and the last 8 items. -/
def showItems (xs : List String) : String :=
  let n := xs.length
  let shown := if n ≤ 48 then xs else xs.take 40 ++ ["~"] ++ xs.drop (n - 8)
  " ".intercalate (("ok " ++ toString n) :: shown)

def showErr : Err → String
  | .limit => "limit"
  | .panic => "panic"

/-- A result word of `BracesSeq` by its literal parts. -/
def showLits (w : Word) : String :=
  if w.isEmpty then "_"
  else ".".intercalate (w.map fun p => match p with
    | .lit v => toHex v
    | .brace _ _ => "B")

def specBraces (w : Bytes) : String :=
  if bashCount w > limit then "limit" else showItems ((bashBraces w).map toHex)

def specFields (w : Bytes) : String :=
  if bashCount w > limit then "limit" else showItems ((bashFields w).map toHex)

/-- ops (byte strings in hex):
    `split w` — model of SplitBraces: returned bool and tree;
    `braces w` — model of BracesSeq on the split tree (words by literal parts);
    `fields w` — model of expand.Fields on the literal word;
    `specrender w` — the printed form must be `w` itself;
    `specreports w` — the bool must say whether the tree has a BraceExp;
    `specbraces w` — bash's brace expansion (spec), raw text;
    `specfields w` / `bashref w` — bash's expansion after quote removal, empty words dropped
       (`bashref`: the harness puts real bash's answer in the implementation column);
    `specseqagree w` — for a word that is one valid sequence: bash's `expand_seqterm` must read
       it with the parameters `bracesSeqRec` computes (hypothesis `seqsAgree` of
       `bash_equiv_partial`);
    `canon w` — does the split tree satisfy the hypotheses of `bash_equiv_partial`
       (distribution information only). -/
def handle (args : List String) : String :=
  match args with
  | [op, hw] =>
    match ofHex hw with
    | none => "bad-op"
    | some w =>
      if op = "split" then
        let (t, b) := splitBraces w
        (if b then "true " else "false ") ++ dumpWord t
      else if op = "braces" then
        match bracesSeq (splitBraces w).1 with
        | .error e => showErr e
        | .ok ws => showItems (ws.map showLits)
      else if op = "fields" then
        match fields w with
        | .error e => showErr e
        | .ok fs => showItems (fs.map toHex)
      else if op = "specrender" then toHex w
      else if op = "specreports" then
        if hasBrace (splitBraces w).1 then "true" else "false"
      else if op = "specbraces" then specBraces w
      else if op = "specfields" then specFields w
      else if op = "bashref" then specFields w
      else if op = "specseqagree" then
        match (splitBraces w).1 with
        | [.brace true elems] => if seqAgree elems then "true" else "false"
        | _ => "notseq"
      else if op = "canon" then
        let t' := (splitBraces w).1
        if canon t' then "true" else "false"
      else "bad-op"
  | _ => "bad-op"

end ShVerif.Drv.C16
