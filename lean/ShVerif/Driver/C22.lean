import ShVerif.Model.C22
import ShVerif.Base.RuneCodec
namespace ShVerif.Drv.C22
open ShVerif ShVerif.C22

/-- `for i, r := range s` with the bytes of every rune (glue; Go's utf8.DecodeRuneInString). -/
def decodeSymsFuel : Nat → Bytes → Str
  | 0, _ => []
  | _, [] => []
  | fuel + 1, bs =>
    let (r, n) := decodeRune1 bs
    ⟨r, bs.take n⟩ :: decodeSymsFuel fuel (bs.drop n)

def decodeSyms (bs : Bytes) : Str := decodeSymsFuel bs.length bs

def defaultIfs : Str := [⟨' ', [32]⟩, ⟨'\t', [9]⟩, ⟨'\n', [10]⟩]

def parseIfs (s : String) : Option Str :=
  if s = "unset" then some defaultIfs else (ofHex s).map decodeSyms

def tail1 (s : String) : String := String.ofList (s.toList.drop 1)

def parseD (t : String) : Option DPart :=
  match t.toList with
  | 'l' :: _ => (ofHex (tail1 t)).map .lit
  | 'e' :: _ => (ofHex (tail1 t)).map fun b => .exp (decodeSyms b)
  | ['a'] => some .at
  | ['t'] => some .star
  | _ => none

/-- tokens: `L<hex>` `S<hex>` `E<hex>` `O<op><hex>` `A` `T` `D(` inner… `)`; inner: `l<hex>` `e<hex>` `a` `t`. -/
def parseParts : Nat → List String → Option (List Part)
  | 0, _ => none
  | _, [] => some []
  | fuel + 1, t :: rest =>
    if t = "D(" then
      let inner := rest.takeWhile (· ≠ ")")
      let after := (rest.dropWhile (· ≠ ")")).drop 1
      match inner.mapM parseD, parseParts fuel after with
      | some ds, some ps => some (.dbl ds :: ps)
      | _, _ => none
    else
      let p : Option Part :=
        match t.toList with
        | 'L' :: _ => (ofHex (tail1 t)).map .lit
        | 'S' :: _ => (ofHex (tail1 t)).map .sgl
        | 'E' :: _ => (ofHex (tail1 t)).map fun b => .exp (decodeSyms b)
        -- `${u0:-"val"}` and friends (harness/c22.go kind 'O'): an unquoted expansion with that value
        | 'O' :: _ :: _ => (ofHex (String.ofList (t.toList.drop 2))).map fun b => .exp (decodeSyms b)
        | ['A'] => some .at
        | ['T'] => some .star
        | _ => none
      match p, parseParts fuel rest with
      | some p, some ps => some (p :: ps)
      | _, _ => none

def showFields (fs : List Bytes) : String :=
  " ".intercalate (toString fs.length :: fs.map toHex)

/-- ops: `wf <ifs|unset> <nparams> <param>* <token>*` model of wordFields;
        `specwf …` the POSIX specification. -/
def handle (args : List String) : String :=
  match args with
  | op :: ifs :: n :: rest =>
    match parseIfs ifs, n.toNat? with
    | some i, some n =>
      match (rest.take n).mapM ofHex, parseParts (rest.length + 1) (rest.drop n) with
      | some ps, some parts =>
        let env : Env := ⟨i, ps.map decodeSyms⟩
        if op = "wf" then showFields (wordFields env parts)
        else if op = "specwf" then showFields (posixFields env parts)
        else if op = "lit" then toHex (literal env parts)
        else if op = "litkeep" then toHex (literalKeepEscapes env parts)
        else if op = "speclit" then toHex (posixLiteral env parts)
        else "bad-op"
      | _, _ => "bad-op"
    | _, _ => "bad-op"
  | _ => "bad-op"

end ShVerif.Drv.C22
