import ShVerif.Model.C36
/-
  C36 line protocol.

    shebang <hex>                     → shell name (hex)           fileutil.Shebang
    cbs <namehex> <kind>              → not|ifshebang|is|panic     fileutil.CouldBeScript2
    run <flags> <entry>*              → result of a run over path arguments
    stdin <flags> <entry>             → result of a run on standard input
    specpatch <difftext> <src>        → some <hex> | none          the Lean patcher applied to text
                                                                    printed by `shfmt -d` (spec op)
    speclisted <src> <res>            → 1|0   the property's own words: listed ⇔ res ≠ src

  flags  = l,w,d,f,ai,det,fname,ln,p,s,i,bn,ci,sr,kp,fn,mn     (comma separated, positional)
           l,f ∈ f|t|0   w,d,ai ∈ 0|1   det ∈ d|e|a   fname hex   ln ∈ -|bash|posix|mksh|bats|zsh|auto
           p,s,bn,ci,sr,kp,fn,mn ∈ -|0|1   i ∈ -|<nat>
  entry  = path,ex,kind,skind,x,src,pS,pB,pZ,guess,res,diff
           kind ∈ reg|dir|lnk|oth|mis   props = `.` or k:v;k:v (hex)   guess = showOpts or `none`
           res = ok:<hex> | le:<hex> | pe:<hex> | none
  result = st=<n> panic=<0|1> out=<hex> err=<hex;…|.> w=<path:bytes;…|.>
-/
namespace ShVerif.Drv.C36
open ShVerif ShVerif.C36

def parseTri : String → Option Tri
  | "f" => some .off | "t" => some .nl | "0" => some .nul | _ => none
def parseB : String → Option Bool
  | "0" => some false | "1" => some true | _ => none
def parseOB : String → Option (Option Bool)
  | "-" => some none | "0" => some (some false) | "1" => some (some true) | _ => none
def parseLang : String → Option Lang
  | "bash" => some .bash | "posix" => some .posix | "mksh" => some .mksh
  | "bats" => some .bats | "zsh" => some .zsh | "auto" => some .auto | _ => none
def parseOLang : String → Option (Option Lang)
  | "-" => some none
  | s => (parseLang s).map some
def parseONat : String → Option (Option Nat)
  | "-" => some none
  | s => s.toNat?.map some
def parseDetect : String → Option Detect
  | "d" => some .dflt | "e" => some .exec | "a" => some .all | _ => none
def parseKind : String → Option Kind
  | "reg" => some .reg | "dir" => some .dir | "lnk" => some .lnk
  | "oth" => some .other | "mis" => some .missing | _ => none

def parseFlags (s : String) : Option Flags :=
  match s.splitOn "," with
  | [l, w, d, f, ai, det, fname, ln, p, sm, i, bn, ci, sr, kp, fn, mn] => do
    pure { list := ← parseTri l, write := ← parseB w, diff := ← parseB d, find := ← parseTri f
           applyIgnore := ← parseB ai, detect := ← parseDetect det, filename := ← ofHex fname
           ln := ← parseOLang ln, posix := ← parseOB p, simplify := ← parseOB sm
           indent := ← parseONat i, bn := ← parseOB bn, ci := ← parseOB ci, sr := ← parseOB sr
           kp := ← parseOB kp, fn := ← parseOB fn, mn := ← parseOB mn }
  | _ => none

def parseProps (s : String) : Option Props :=
  if s = "." then some [] else
  (s.splitOn ";").mapM fun kv =>
    match kv.splitOn ":" with
    | [k, v] => do pure (← ofHex k, ← ofHex v)
    | _ => none

def parseOpts (s : String) : Option (Option Opts) :=
  if s = "none" then some none else
  match s.splitOn "/" with
  | [l, i, bn, ci, sr, kp, fn, mn, sm] => do
    pure (some { lang := ← parseLang l, indent := ← i.toNat?, bn := ← parseB bn, ci := ← parseB ci
                 sr := ← parseB sr, kp := ← parseB kp, fn := ← parseB fn, mn := ← parseB mn
                 simplify := ← parseB sm })
  | _ => none

def parseRes (s : String) : Option Res :=
  if s = "none" then some .unknown else
  match s.splitOn ":" with
  | ["ok", h] => (ofHex h).map .ok
  | ["le", h] => (ofHex h).map .langErr
  | ["pe", h] => (ofHex h).map .err
  | _ => none

/-- An entry with the harness' plan for it. -/
structure PEntry where
  e : Entry
  guess : Option Opts
  res : Res
  diff : Bytes

def parseEntry (s : String) : Option PEntry :=
  match s.splitOn "," with
  | [path, ex, kind, skind, x, src, pS, pB, pZ, guess, res, diff] => do
    pure { e := { path := ← ofHex path, explicit := ← parseB ex, kind := ← parseKind kind
                  skind := ← parseKind skind, exec := ← parseB x, src := ← ofHex src
                  pShell := ← parseProps pS, pBash := ← parseProps pB, pZsh := ← parseProps pZ }
           guess := ← parseOpts guess, res := ← parseRes res, diff := ← ofHex diff }
  | _ => none

/-- The formatter as a table: the harness' result counts only for the options it was computed
    with; anything else is `unknown` (shows up as a plan-mismatch line). -/
def tableF (es : List PEntry) : Fmt := fun o path src =>
  match es.find? (fun pe => pe.e.path = path && pe.e.src = src) with
  | some pe => if pe.guess = some o then pe.res else .unknown
  | none => .unknown

def tableD (es : List PEntry) : Dif := fun path src _ =>
  match es.find? (fun pe => pe.e.path = path && pe.e.src = src) with
  | some pe => pe.diff
  | none => []

def showOut (o : Out) : String :=
  let errs := if o.stderr.isEmpty then "." else ";".intercalate (o.stderr.map toHex)
  let ws := if o.writes.isEmpty then "." else
    ";".intercalate (o.writes.map fun (p, b) => toHex p ++ ":" ++ toHex b)
  "st=" ++ toString o.status ++ " panic=" ++ (if o.panicked then "1" else "0") ++
  " out=" ++ toHex o.stdout ++ " err=" ++ errs ++ " w=" ++ ws

def showConf : Option Conf → String
  | none => "panic" | some .notScript => "not" | some .ifShebang => "ifshebang" | some .isScript => "is"

def handle (args : List String) : String :=
  match args with
  | ["shebang", h] =>
    match ofHex h with
    | some b => toHex (shebang b)
    | none => "bad-op"
  | ["cbs", n, k] =>
    match ofHex n, parseKind k with
    | some n, some k => showConf (couldBeScript2 n k)
    | _, _ => "bad-op"
  | "run" :: fl :: ents =>
    match parseFlags fl, ents.mapM parseEntry with
    | some f, some es => showOut (runWalk (tableF es) (tableD es) f (es.map (·.e)))
    | _, _ => "bad-op"
  | ["stdin", fl, ent] =>
    match parseFlags fl, parseEntry ent with
    | some f, some pe => showOut (runStdin (tableF [pe]) (tableD [pe]) f pe.e)
    | _, _ => "bad-op"
  | ["specpatch", dt, src] =>
    match ofHex dt, ofHex src with
    | some dt, some src =>
      match patchText dt src with
      | some r => "some " ++ toHex r
      | none => "none"
    | _, _ => "bad-op"
  | ["speclisted", src, res] =>
    match ofHex src, ofHex res with
    | some s, some r => if s ≠ r then "1" else "0"
    | _, _ => "bad-op"
  | _ => "bad-op"

end ShVerif.Drv.C36
