import ShVerif.Model.C21
import ShVerif.Model.L3Glob
import ShVerif.Model.C13
import ShVerif.Base.RuneCodec
/-
  Line protocol of C21.  Strings are UTF-8 in hex (`-` = empty).  The two parameters of the model
  are instantiated here: the matcher with the shared L3 model of `pattern.Regexp` (mode 0; the
  Shortest flag does not change the language) and its regular-expression semantics, the quoter with
  the C13 model of `syntax.Quote(·, LangBash)`.
-/
namespace ShVerif.Drv.C21
open ShVerif ShVerif.C21

def strOfHex (h : String) : Option Str := (ofHex h).map decodeRunes
def hexOfStr (s : Str) : String := toHex (encodeRunes s)

def mode0 : L3.Mode := L3.Mode.ofNat 0

/-- `pattern.Regexp(pat, 0|Shortest)` followed by `regexp.MustCompile`, as a full-string matcher. -/
def l3M (p : Str) : Pat :=
  match L3.regexpOf mode0 (p.map Char.toNat) with
  | .error _ => .err
  | .ok t => if L3.goCompiles t.body then .ok (fun u => L3.rmatch false t.body (u.map Char.toNat)) else .panic

/-- `syntax.Quote(s, LangBash)`. -/
def c13Q (s : Str) : Option Str :=
  match C13.quote C13.langBash (encodeRunes s) with
  | .ok q => some (decodeRunes q)
  | .error _ => none

def ext : Ext := ⟨l3M, c13Q⟩

/-! ### token parsing -/

abbrev P (α : Type) := List String → Option (α × List String)

def pHexes : Nat → P (List Str)
  | 0, ts => some ([], ts)
  | n + 1, t :: ts => do
    let s ← strOfHex t
    let (rest, ts') ← pHexes n ts
    pure (s :: rest, ts')
  | _ + 1, [] => none

def pInts : Nat → P (List Int)
  | 0, ts => some ([], ts)
  | n + 1, t :: ts => do
    let i ← t.toInt?
    let (rest, ts') ← pInts n ts
    pure (i :: rest, ts')
  | _ + 1, [] => none

def pPairs : Nat → P (List (Str × Str))
  | 0, ts => some ([], ts)
  | n + 1, k :: v :: ts => do
    let k ← strOfHex k
    let v ← strOfHex v
    let (rest, ts') ← pPairs n ts
    pure ((k, v) :: rest, ts')
  | _ + 1, _ => none

def flagsOf (f : String) (v : Var) : Var :=
  { v with ro := f.toList.contains 'r', exported := f.toList.contains 'x' }

/-- `u` | `s <flags> <hex>` | `i <flags> N` | `i <flags> <n> <hex>*n D` | `i <flags> <n> <hex>*n S <k> <int>*k`
    | `a <flags> <n> (<key> <val>)*n` -/
def pVar : P Var
  | "u" :: ts => some (Var.zero, ts)
  | "s" :: f :: h :: ts => do
    let s ← strOfHex h
    pure (flagsOf f (Var.ofStr s), ts)
  | "i" :: f :: "N" :: ts => some (flagsOf f { Var.zero with set := true, kind := .indexed }, ts)
  | "i" :: f :: n :: ts => do
    let n ← n.toNat?
    let (l, ts) ← pHexes n ts
    match ts with
    | "D" :: ts => pure (flagsOf f (Var.ofList l), ts)
    | "S" :: k :: ts =>
      let k ← k.toNat?
      let (ix, ts) ← pInts k ts
      pure (flagsOf f (Var.ofSparse l ix), ts)
    | _ => none
  | "a" :: f :: n :: ts => do
    let n ← n.toNat?
    let (m, ts) ← pPairs n ts
    pure (flagsOf f (Var.ofMap m), ts)
  | _ => none

def pEnv : Nat → P Env
  | 0, ts => some ([], ts)
  | n + 1, name :: ts => do
    let name ← strOfHex name
    let (v, ts) ← pVar ts
    let (rest, ts) ← pEnv n ts
    pure ((name, v) :: rest, ts)
  | _ + 1, [] => none

def pIdx (t : String) : Option Idx :=
  if t == "-" then some .none
  else if t == "@" then some .at
  else if t == "*" then some .star
  else match t.toList with
    | 'w' :: h => (strOfHex (String.ofList h)).map fun s => Idx.word s true
    | 'e' :: h => (strOfHex (String.ofList h)).map fun s => Idx.word s false
    | _ => none

def pOptInt (t : String) : Option (Option Int) :=
  if t == "-" then some none else t.toInt?.map some

def pExpOp : String → Option ExpOp
  | "+" => some .altUnset | ":+" => some .altUnsetOrNull
  | "-" => some .defUnset | ":-" => some .defUnsetOrNull
  | "?" => some .errUnset | ":?" => some .errUnsetOrNull
  | "=" => some .asgUnset | ":=" => some .asgUnsetOrNull
  | "#" => some .remSmallPre | "##" => some .remLargePre
  | "%" => some .remSmallSuf | "%%" => some .remLargeSuf
  | "^" => some .upperFirst | "^^" => some .upperAll
  | "," => some .lowerFirst | ",," => some .lowerAll
  | "@" => some .other
  | _ => none

def pAnchor : String → Option Anchor
  | "n" => some .none | "p" => some .pre | "s" => some .suf | _ => none

def pBool : String → Option Bool
  | "0" => some false | "1" => some true | _ => none

/-- `<name> <idx> <excl> <length> <names>` then `N` | `S <off> <len>` | `R <all> <anchor> <orig> <with>`
    | `X <op> <arg>` -/
def pPE : P PE
  | name :: idx :: excl :: len :: names :: ts => do
    let name ← strOfHex name
    let idx ← pIdx idx
    let excl ← pBool excl
    let len ← pBool len
    let names ← names.toNat?
    let base : PE := { name := name, idx := idx, excl := excl, length := len, names := names }
    match ts with
    | "N" :: ts => pure (base, ts)
    | "S" :: o :: l :: ts =>
      let o ← pOptInt o
      let l ← pOptInt l
      pure ({ base with slice := some (o, l) }, ts)
    | "R" :: all :: an :: orig :: w :: ts =>
      let all ← pBool all
      let an ← pAnchor an
      let orig ← strOfHex orig
      let w ← strOfHex w
      pure ({ base with repl := some ⟨all, orig, w, an⟩ }, ts)
    | "X" :: op :: arg :: ts =>
      let op ← pExpOp op
      let arg ← strOfHex arg
      pure ({ base with exp := some (op, arg) }, ts)
    | _ => none
  | _ => none

/-! ### rendering -/

def showFlags (v : Var) : String :=
  let f := (if v.ro then "r" else "") ++ (if v.exported then "x" else "")
  if f.isEmpty then "-" else f

def showVar (v : Var) : String :=
  if !v.set && v.kind == .unknown then "u"
  else match v.kind with
  | .unknown => "u"
  | .string => "s " ++ showFlags v ++ " " ++ hexOfStr v.str
  | .indexed =>
    match v.list with
    | none => "i " ++ showFlags v ++ " N"
    | some l =>
      let body := " ".intercalate (toString l.length :: l.map hexOfStr)
      match v.idx with
      | none => "i " ++ showFlags v ++ " " ++ body ++ " D"
      | some ix => "i " ++ showFlags v ++ " " ++ body ++ " S " ++ " ".intercalate (toString ix.length :: ix.map toString)
  | .assoc =>
    let m := v.map
    let keys := sortStrs (m.map (·.1))
    "a " ++ showFlags v ++ " " ++ " ".intercalate (toString m.length ::
      keys.flatMap fun k => [hexOfStr k, hexOfStr ((mapGet m k).getD [])])

def showErr : Err → String
  | .unbound => "err unbound"
  | .unsetMsg m => "err unset " ++ hexOfStr m
  | .indirect => "err indirect"
  | .negIndex => "err negindex"
  | .substr n => "err substr " ++ toString n
  | .assocSubscript => "err assocsubscript"
  | .quote => "err quote"
  | .unsupported => "err unsupported"
  | .panic => "panic"

/-- After an assigning expansion the driver prints `P0`: the model's lists and maps are values, so
    whoever else holds the variable's previous value (the parent of a subshell) still sees it
    unchanged; the harness prints `P1` when the Go code wrote into the previous slices or map. -/
def isAssign (pe : PE) : Bool :=
  match pe.exp with
  | some (op, _) => op == .asgUnset || op == .asgUnsetOrNull
  | none => false

def showFields (pe : PE) : Except Err (List Str × Env) → String
  | .error e => showErr e
  | .ok (fs, env) =>
    " ".intercalate ("ok" :: toString fs.length :: fs.map hexOfStr)
      ++ (if isAssign pe then " | " ++ showVar (env.get pe.name) ++ " P0" else "")

def showLit (pe : PE) : Except Err (Str × Env) → String
  | .error e => showErr e
  | .ok (s, env) =>
    "ok " ++ hexOfStr s ++ (if isAssign pe then " | " ++ showVar (env.get pe.name) ++ " P0" else "")

/-- the `"${!m[@]}"` path yields map iteration order in Go: compared up to permutation -/
def unorderedKeys (env : Env) (pe : PE) (quoted : Bool) : Bool :=
  quoted && pe.excl && pe.names == 0 && pe.idx.lit == ['@'] && (env.get pe.name).kind == .assoc

def bitAt (bits : String) (i : Nat) : Bool := bits.toList.getD i '0' == '1'

/-- matcher given by tables over the prefixes (`pre[k]` ↔ `s.take k` matches) and suffixes
    (`suf[j]` ↔ `s.drop j` matches) of `s`, as computed by Go's regexp -/
def tableM (s : Str) (pre suf : String) : Str → Bool := fun u =>
  if u == s.take u.length then bitAt pre u.length
  else if u == s.drop (s.length - u.length) then bitAt suf (s.length - u.length)
  else false

def specState : String → Option (Spec.St)
  | "unset" => some .unset | "null" => some .null | "set" => some .set | _ => none

def showOutcome : Option Spec.Outcome → String
  | some .param => "param" | some .word => "word" | some .assign => "assign"
  | some .error => "error" | some .null => "null" | none => "none"

def handle (args : List String) : String :=
  match args with
  | "fields" :: q :: nu :: nv :: ts =>
    match pBool q, pBool nu, nv.toNat? with
    | some q, some nu, some nv =>
      match pEnv nv ts with
      | some (env, ts) =>
        match pPE ts with
        | some (pe, []) =>
          let r := fields ext ⟨nu⟩ env pe q
          let r := if unorderedKeys env pe q then r.map (fun (fs, e) => (sortStrs fs, e)) else r
          showFields pe r
        | _ => "bad-op pe"
      | none => "bad-op env"
    | _, _, _ => "bad-op"
  | "lit" :: nu :: nv :: ts =>
    match pBool nu, nv.toNat? with
    | some nu, some nv =>
      match pEnv nv ts with
      | some (env, ts) =>
        match pPE ts with
        | some (pe, []) => showLit pe (paramExp ext ⟨nu⟩ env pe)
        | _ => "bad-op pe"
      | none => "bad-op env"
    | _, _ => "bad-op"
  -- removePattern with Go's regexp as the matcher parameter (tables), and with the L3 matcher
  | ["rm", s, fe, sh, ok, pre, suf] =>
    match strOfHex s, pBool fe, pBool sh with
    | some s, some fe, some sh =>
      if ok == "err" then hexOfStr s
      else hexOfStr (removeWith (tableM s pre suf) s fe sh)
    | _, _, _ => "bad-op"
  | ["rm3", s, p, fe, sh] =>
    match strOfHex s, strOfHex p, pBool fe, pBool sh with
    | some s, some p, some fe, some sh =>
      match removePattern l3M s p fe sh with
      | .ok r => hexOfStr r
      | .error e => showErr e
    | _, _, _, _ => "bad-op"
  | ["casetab", lo, hi] =>
    match lo.toNat?, hi.toNat? with
    | some lo, some hi =>
      " ".intercalate ((upTo lo hi).map fun n =>
        let c := Char.ofNat n
        toString (toUpper c).toNat ++ ":" ++ toString (toLower c).toNat)
    | _, _ => "bad-op"
  | ["spectab", op, st] =>
    match pExpOp op, specState st with
    | some op, some st => showOutcome (Spec.table op st)
    | _, _ => "bad-op"
  | ["specsub", s, o, l] =>
    match strOfHex s, pOptInt o, pOptInt l with
    | some s, some o, some l =>
      match Spec.substring s o l with
      | some r => "ok " ++ hexOfStr r
      | none => "error"
    | _, _, _ => "bad-op"
  | ["specrm", s, p, fe, sh] =>
    match strOfHex s, strOfHex p, pBool fe, pBool sh with
    | some s, some p, some fe, some sh =>
      match l3M p with
      | .ok m =>
        let n := s.length
        let ks := if fe then (if sh then (upTo 0 n).reverse else upTo 0 n)
                  else (if sh then upTo 0 n else (upTo 0 n).reverse)
        (match ks.find? (fun k => if fe then m (s.drop k) else m (s.take k)) with
         | some k => hexOfStr (if fe then s.take k else s.drop k)
         | none => hexOfStr s)
      | _ => "nopattern"
    | _, _, _, _ => "bad-op"
  | ["specrepl", an, all, p, w, s] =>
    match pAnchor an, pBool all, strOfHex p, strOfHex w, strOfHex s with
    | some an, some all, some p, some w, some s =>
      match l3M p with
      | .ok m => hexOfStr (Spec.replace m an all w s)
      | _ => "nopattern"
    | _, _, _, _, _ => "bad-op"
  | ["speccase", op, p, s] =>
    match pExpOp op, strOfHex p, strOfHex s with
    | some op, some p, some s =>
      match l3M p with
      | .ok m =>
        let f := if op == .upperFirst || op == .upperAll then toUpper else toLower
        hexOfStr (Spec.caseConv f (fun c => p.isEmpty || m [c]) (op == .upperAll || op == .lowerAll) s)
      | _ => "nopattern"
    | _, _, _ => "bad-op"
  | _ => "bad-op"

end ShVerif.Drv.C21
