import ShVerif.Model.C23
namespace ShVerif.Drv.C23
open ShVerif ShVerif.C23

def showFields : Except String (List (List Char)) → String
  | .error _ => "panic"
  | .ok fs => " ".intercalate ("ok" :: fs.map fun f => toHex (encodeRunes f))

def parseIfs (s : String) : Option (Option Bytes) :=
  if s = "unset" then some none else (ofHex s).map some

def parseMode (s : String) : Option Mode :=
  if s = "a" then some .array
  else if s = "bare" then some .bare
  else match s.toNat? with
    | some k => if k ≥ 1 then some (.names k) else none
    | none => none

/-- The harness observes the unread input through a following `IFS= read -r`: its first line. -/
def showOut (o : ReadOut) (nextLine : Bytes) : String :=
  " ".intercalate (("st=" ++ toString o.status) :: (o.vals.map toHex ++ ["rest", toHex nextLine]))

/-- ops:
    `rf <ifs|unset> <line> <n> <raw>`          model ReadFields (n any integer)
    `specrf <ifs|unset> <line> <k|a> <raw>`    spec values (k names padded, or all fields)
    `read <ifs|unset> <raw> <k|a|bare> <input>`     model of the builtin (readLine + …)
    `specread <ifs|unset> <raw> <k|a|bare> <input>` spec of the builtin -/
def handle (args : List String) : String :=
  match args with
  | ["rf", ifs, line, n, raw] =>
    match parseIfs ifs, ofHex line, n.toInt? with
    | some i, some l, some n => showFields (readFields (ifsOf i) (decodeRunes l) n (raw == "1"))
    | _, _, _ => "bad-op"
  | ["specrf", ifs, line, k, raw] =>
    match parseIfs ifs, ofHex line, parseMode k with
    | some i, some l, some (.names k) =>
      showFields (.ok (specRead (ifsOf i) (decodeRunes l) (some k) (raw == "1")))
    | some i, some l, some .array =>
      showFields (.ok (specRead (ifsOf i) (decodeRunes l) none (raw == "1")))
    | _, _, _ => "bad-op"
  | ["read", ifs, raw, mode, input] =>
    match parseIfs ifs, parseMode mode, ofHex input with
    | some i, some m, some inp =>
      match readBuiltin i (raw == "1") m inp with
      | .ok o =>
        match readLine true o.rest with
        | .ok l => showOut o l.line
        | .error _ => "panic"
      | .error _ => "panic"
    | _, _, _ => "bad-op"
  | ["specread", ifs, raw, mode, input] =>
    match parseIfs ifs, parseMode mode, ofHex input with
    | some i, some m, some inp =>
      let o := specBuiltin i (raw == "1") m inp
      showOut o (specReadLine true o.rest).line
    | _, _, _ => "bad-op"
  | _ => "bad-op"

end ShVerif.Drv.C23
