import ShVerif.Base.Hex
import ShVerif.Base.SExpr
import ShVerif.Model.C26
namespace ShVerif.Drv.C26
open ShVerif ShVerif.L5

/-!
  Line protocol of C26.  Programs travel as S-expressions over tokens (strings in hex):

    stmt  ::= ( s NEG cmd )                         NEG ::= 0 | 1
    cmd   ::= ( true ) | ( false ) | ( exit [N] ) | ( ret [N] ) | ( brk [I] ) | ( cont [I] )
            | ( sete B ) | ( setpf B ) | ( trapexit stmt* ) | ( traperr stmt* )
            | ( echo part* ) | ( echosub ( part* ) ( stmt* ) ( part* ) ) | ( test X NEG S ) | ( assign X part* ) | ( asub X stmt* )
            | ( call F ) | ( block stmt* ) | ( subsh stmt* ) | ( and stmt stmt ) | ( or stmt stmt )
            | ( pipe stmt stmt ) | ( if ( stmt* ) ( stmt* ) else ) | ( while B ( stmt* ) ( stmt* ) )
            | ( for X ( S* ) stmt* ) | ( case ( part* ) item* ) | ( fn F stmt )
    else  ::= ( none ) | ( els stmt* ) | ( elif ( stmt* ) ( stmt* ) else )
    item  ::= ( item OP ( pat* ) stmt* )            OP ::= brk | fall | resume
    pat   ::= ( lit S ) | ( star )
    part  ::= ( lit S ) | ( var X ) | ( st )

  ops:  `run FUEL stmt*`       → model `runFile`          (implementation: interp.Runner)
        `spec FUEL stmt*`      → `BashSem` `semFile`      (implementation: interp.Runner, Supported programs)
        `specbash FUEL stmt*`  → `BashSem` `semFile`      (implementation column holds real bash's answer)
        `supported stmt*`      → `C26.supportedProg` for both modes
-/

def strOf (s : String) : Option Str := (ofHex s).map (·.map (·.toNat))

def hexOf (s : Str) : String := toHex (s.map UInt8.ofNat)

def boolOf : SExp → Option Bool
  | .atom "0" => some false
  | .atom "1" => some true
  | _ => none

def atomStr : SExp → Option Str
  | .atom s => strOf s
  | _ => none

def partOf : SExp → Option Part
  | .list [.atom "lit", .atom s] => (strOf s).map .lit
  | .list [.atom "var", .atom s] => (strOf s).map .var
  | .list [.atom "st"] => some .status
  | _ => none

def patOf : SExp → Option Pat
  | .list [.atom "lit", .atom s] => (strOf s).map .lit
  | .list [.atom "star"] => some .star
  | _ => none

def opOf : SExp → Option CaseOp
  | .atom "brk" => some .brk
  | .atom "fall" => some .fall
  | .atom "resume" => some .resume
  | _ => none

def optNat : List SExp → Option (Option Nat)
  | [] => some none
  | [.atom s] => s.toNat?.map some
  | _ => none

def optInt : List SExp → Option (Option Int)
  | [] => some none
  | [.atom s] => s.toInt?.map some
  | _ => none

mutual
  def stmtOf : Nat → SExp → Option Stmt
    | 0, _ => none
    | n + 1, .list [.atom "s", neg, c] =>
      match boolOf neg, cmdOf n c with
      | some b, some c => some (.mk b c)
      | _, _ => none
    | _, _ => none
  def progOf : Nat → List SExp → Option Prog
    | 0, _ => none
    | _, [] => some .nil
    | n + 1, x :: xs =>
      match stmtOf n x, progOf n xs with
      | some s, some p => some (.cons s p)
      | _, _ => none
  def elseOf : Nat → SExp → Option Else
    | 0, _ => none
    | _, .list [.atom "none"] => some .none
    | n + 1, .list (.atom "els" :: ps) => (progOf n ps).map .els
    | n + 1, .list [.atom "elif", .list c, .list t, e] =>
      match progOf n c, progOf n t, elseOf n e with
      | some c, some t, some e => some (.elif c t e)
      | _, _, _ => none
    | _, _ => none
  def itemsOf : Nat → List SExp → Option Items
    | 0, _ => none
    | _, [] => some .nil
    | n + 1, .list (.atom "item" :: op :: .list pats :: body) :: rest =>
      match opOf op, pats.mapM patOf, progOf n body, itemsOf n rest with
      | some op, some ps, some b, some r => some (.cons ps b op r)
      | _, _, _, _ => none
    | _, _ => none
  def cmdOf : Nat → SExp → Option Cmd
    | 0, _ => none
    | n + 1, .list (.atom tag :: args) =>
      match tag, args with
      | "true", [] => some .tru
      | "false", [] => some .fls
      | "exit", a => (optNat a).map .exit
      | "ret", a => (optNat a).map .ret
      | "brk", a => (optInt a).map .brk
      | "cont", a => (optInt a).map .cont
      | "sete", [b] => (boolOf b).map .setE
      | "setpf", [b] => (boolOf b).map .setPF
      | "trapexit", ps => (progOf n ps).map .trapExit
      | "traperr", ps => (progOf n ps).map .trapErr
      | "echo", ps => (ps.mapM partOf).map .echo
      | "test", [x, neg, v] =>
        match atomStr x, boolOf neg, atomStr v with
        | some x, some b, some v => some (.test x b v)
        | _, _, _ => none
      | "assign", x :: ps =>
        match atomStr x, ps.mapM partOf with
        | some x, some w => some (.assign x w)
        | _, _ => none
      | "asub", x :: ps =>
        match atomStr x, progOf n ps with
        | some x, some p => some (.assignSub x p)
        | _, _ => none
      | "echosub", [.list w1, .list ps, .list w2] =>
        match w1.mapM partOf, progOf n ps, w2.mapM partOf with
        | some w1, some p, some w2 => some (.echoSub w1 p w2)
        | _, _, _ => none
      | "call", [f] => (atomStr f).map .call
      | "block", ps => (progOf n ps).map .block
      | "subsh", ps => (progOf n ps).map .subsh
      | "and", [x, y] =>
        match stmtOf n x, stmtOf n y with
        | some x, some y => some (.and x y)
        | _, _ => none
      | "or", [x, y] =>
        match stmtOf n x, stmtOf n y with
        | some x, some y => some (.or x y)
        | _, _ => none
      | "pipe", [x, y] =>
        match stmtOf n x, stmtOf n y with
        | some x, some y => some (.pipe x y)
        | _, _ => none
      | "if", [.list c, .list t, e] =>
        match progOf n c, progOf n t, elseOf n e with
        | some c, some t, some e => some (.ifc c t e)
        | _, _, _ => none
      | "while", [u, .list c, .list b] =>
        match boolOf u, progOf n c, progOf n b with
        | some u, some c, some b => some (.whl u c b)
        | _, _, _ => none
      | "for", x :: .list its :: body =>
        match atomStr x, its.mapM atomStr, progOf n body with
        | some x, some its, some b => some (.forc x its b)
        | _, _, _ => none
      | "case", .list w :: its =>
        match w.mapM partOf, itemsOf n its with
        | some w, some is => some (.case w is)
        | _, _ => none
      | "fn", [f, b] =>
        match atomStr f, stmtOf n b with
        | some f, some b => some (.fn f b)
        | _, _ => none
      | _, _ => none
    | _, _ => none
end

/-- The tokens of a program are the concatenation of its statements' S-expressions. -/
def parseProg (toks : List String) : Option Prog :=
  match SExp.parse ("(" :: toks ++ [")"]) with
  | some (.list xs) => progOf (toks.length + 2) xs
  | _ => none

def showRes : Option (Str × Nat) → String
  | none => "timeout"
  | some (out, st) => "ok " ++ hexOf out ++ " " ++ toString st

def handle (args : List String) : String :=
  match args with
  | "run" :: fuel :: toks =>
    match fuel.toNat?, parseProg toks with
    | some f, some p => showRes (runFile f p)
    | _, _ => "bad-op"
  | "spec" :: fuel :: toks =>
    match fuel.toNat?, parseProg toks with
    | some f, some p => showRes (Bash.semFile f p)
    | _, _ => "bad-op"
  | "specbash" :: fuel :: toks =>
    match fuel.toNat?, parseProg toks with
    | some f, some p => showRes (Bash.semFile f p)
    | _, _ => "bad-op"
  | "supported" :: toks =>
    match parseProg toks with
    | some p => (if C26.supportedProg false p then "1" else "0") ++ (if C26.supportedProg true p then "1" else "0")
    | none => "bad-op"
  | _ => "bad-op"

end ShVerif.Drv.C26
