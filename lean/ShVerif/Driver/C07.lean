import ShVerif.Model.L2ByteSrc
import ShVerif.Model.C07
/-
  Line protocol for C07 (also the reference for C06/C09/C10's byte-source streams).

    run     <input> <sched> <eofWith> <stop> <op>…   chunked model  (mirror of lexer.go)
    specrun <input> <stop> <op>…                     unchunked specification machine (Model/C07.lean)

  <input>, <stop>: hex (`-` = empty); <sched>: comma separated chunk lengths (`-` = none);
  <eofWith>: 0/1.  One token per op:
     r            rune                → r<code>:<w>
     k<N>         up to N runes, stop at runeEOF → k<count>:<last code>
     p / t / z    peek / peekTwo / zshNumRange → p<b> / t<b1>,<b2> / z0|z1
     s<code>      stop-word test for rune <code> → s0|s1
     n<code>      newLit(<code>);  nc = newLit(p.r) → n
     e            endLit → e<hex>
     q            nextPos (raw) → q<offs>,<line>,<col>
     b<o>,<d>     openBquotes, openBquoteDbls := o, d → b
     l / a<hex> / d   read / append / drop p.litBs → l<hex|~> / a / d
     x            errPass → x
     f            fill → f<n>
  `run` prints after every result `/<checksum of the state>`; both print the final state.
  A fault ends the line with `!panic`, `!hang` or `!fuel`.
-/
namespace ShVerif.Drv.C07
open ShVerif ShVerif.L2

def parseSched (s : String) : Option (List Nat) :=
  if s = "-" then some [] else (s.splitOn ",").mapM String.toNat?

def showFault : Fault → String
  | .oob _ => "!panic"
  | .hang => "!hang"
  | .fuel => "!fuel"

def mix (h v : Nat) : Nat := (h * 31 + v) % 4294967296

def cksum (s : St) : Nat :=
  let litTag := match s.lit with
    | none => 0
    | some [] => 1
    | some (b :: _) => 2 + b.toNat
  let errTag := match s.err with
    | none => 0
    | some (.utf8 ..) => 1
    | some .client => 2
  let ahead := match s.front with
    | [] => 256
    | b :: _ => b.toNat
  [s.bsp, s.blen, s.offs, s.line, s.col, s.r, s.w, s.readEOF.toNat, s.readErr.toNat, litTag,
   s.lastBqEsc, s.openBq, s.openBqDbl, errTag, ahead].foldl mix 7

def showErr : Option Err → String
  | none => "-"
  | some (.utf8 o l c) => s!"u{o}:{l}:{c}"
  | some .client => "c"

def showState (s : St) : String :=
  let lit := match s.lit with
    | none => "~"
    | some l => toHex l.reverse
  let ahead := if s.bsp > s.blen then "!" else toHex (s.front.take 8)
  s!"S {s.bsp} {s.blen} {s.offs} {s.line} {s.col} {s.r} {s.w} {s.readEOF.toNat} {s.readErr.toNat} {s.lastBqEsc} {s.openBq} {s.openBqDbl} {showErr s.err} {lit} {ahead}"

def runesUpTo : Nat → Nat → St → M (Nat × St)
  | 0, cnt, s => pure (cnt, s)
  | n + 1, cnt, s => do
    let (r, s) ← s.rune
    if r == runeEOF then pure (cnt + 1, s) else runesUpTo n (cnt + 1) s

/-- one op on the chunked model: result token and new state -/
def stepOp (op : String) (s : St) : Option (M (String × St)) :=
  let arg := (op.drop 1).toString
  match op.front with
  | 'r' => some do let (r, s) ← s.rune; pure (s!"r{r}:{s.w}", s)
  | 'k' => arg.toNat?.map fun n => do
      let (c, s) ← runesUpTo n 0 s; pure (s!"k{c}:{s.r}", s)
  | 'p' => some do let (b, s) ← s.peek; pure (s!"p{b}", s)
  | 't' => some do let (a, b, s) ← s.peekTwo; pure (s!"t{a},{b}", s)
  | 'z' => some do let (b, s) ← s.zshNum; pure (s!"z{b.toNat}", s)
  | 's' => arg.toNat?.map fun r => do
      let (b, s) ← s.stopAt r; pure (s!"s{b.toNat}", s)
  | 'n' =>
    if arg = "c" then some do let s ← s.newLit s.r; pure ("n", s)
    else arg.toNat?.map fun r => do let s ← s.newLit r; pure ("n", s)
  | 'e' => some do let (l, s) ← s.endLit; pure ("e" ++ toHex l, s)
  | 'q' => some (let (o, l, c) := s.nextPos; pure (s!"q{o},{l},{c}", s))
  | 'b' =>
    match arg.splitOn "," with
    | [o, d] =>
      match o.toNat?, d.toNat? with
      | some o, some d => some (pure ("b", { s with openBq := o, openBqDbl := d }))
      | _, _ => none
    | _ => none
  | 'l' => some (pure ("l" ++ (match s.lit with | none => "~" | some l => toHex l.reverse), s))
  | 'a' => (ofHex arg).map fun bs =>
      pure ("a", { s with lit := some (bs.reverse ++ s.lit.getD []) })
  | 'd' => some (pure ("d", { s with lit := none }))
  | 'x' => some (pure ("x", s.errPass .client))
  | 'f' => some do let (n, s) ← s.fill; pure (s!"f{n}", s)
  | _ => none

def runOps : List String → St → List String → String
  | [], s, acc => " ".intercalate (acc.reverse ++ ["|", showState s])
  | op :: ops, s, acc =>
    match stepOp op s with
    | none => "bad-op"
    | some (.error f) => " ".intercalate (acc.reverse ++ [showFault f])
    | some (.ok (res, s)) => runOps ops s (s!"{res}/{cksum s}" :: acc)

/-! the same ops on the specification machine -/
open ShVerif.C07 in
def stepSpec (op : String) (a : LSt) : Option (String × LSt) :=
  let arg := (op.drop 1).toString
  match op.front with
  | 'r' => some (let (r, a) := a.rune; (s!"r{r}:{a.w}", a))
  | 'k' => arg.toNat?.map fun n =>
      let (c, a) := LSt.runesUpTo n 0 a; (s!"k{c}:{a.r}", a)
  | 'p' => some (let (b, a) := a.peek; (s!"p{b}", a))
  | 't' => some (let (x, y, a) := a.peekTwo; (s!"t{x},{y}", a))
  | 'z' => some (let (b, a) := a.zshNum; (s!"z{b.toNat}", a))
  | 's' => arg.toNat?.map fun r => let (b, a) := a.stopAt r; (s!"s{b.toNat}", a)
  | 'n' =>
    if arg = "c" then some ("n", a.newLit a.r)
    else arg.toNat?.map fun r => ("n", a.newLit r)
  | 'e' => some (let (l, a) := a.endLit; ("e" ++ toHex l, a))
  | 'q' => some (let ((o, l, c), a) := a.pos; (s!"q{o},{l},{c}", a))
  | 'b' =>
    match arg.splitOn "," with
    | [o, d] =>
      match o.toNat?, d.toNat? with
      | some o, some d => some ("b", { a with openBq := o, openBqDbl := d })
      | _, _ => none
    | _ => none
  | 'l' => some ("l" ++ (match a.lit with | none => "~" | some l => toHex l.reverse), a)
  | 'a' => (ofHex arg).map fun bs => ("a", { a with lit := some (bs.reverse ++ a.lit.getD []) })
  | 'd' => some ("d", { a with lit := none })
  | 'x' => some ("x", a.errPass .client)
  | _ => none

open ShVerif.C07 in
def showSpecState (a : LSt) : String :=
  let lit := match a.lit with
    | none => "~"
    | some l => toHex l.reverse
  s!"L {a.line} {a.col} {a.r} {a.w} {a.lastBqEsc} {a.openBq} {a.openBqDbl} {showErr a.err} {lit} ok={a.ok.toNat}"

open ShVerif.C07 in
def runSpec : List String → LSt → List String → String
  | [], a, acc => " ".intercalate (acc.reverse ++ ["|", showSpecState a])
  | op :: ops, a, acc =>
    match stepSpec op a with
    | none => "bad-op"
    | some (res, a) => runSpec ops a (res :: acc)

def handle (args : List String) : String :=
  match args with
  | "run" :: input :: sched :: eofWith :: stop :: ops =>
    match ofHex input, parseSched sched, ofHex stop with
    | some inp, some sc, some st => runOps ops (init inp sc (eofWith = "1") st) []
    | _, _, _ => "bad-op"
  | "specrun" :: input :: stop :: ops =>
    match ofHex input, ofHex stop with
    | some inp, some st => runSpec ops (ShVerif.C07.LSt.init inp st) []
    | _, _ => "bad-op"
  | _ => "bad-op"

end ShVerif.Drv.C07
