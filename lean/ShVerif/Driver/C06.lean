import ShVerif.Model.C06
namespace ShVerif.Drv.C06
open ShVerif.C06

def parseLen (s : String) : Option (String × Nat) :=
  match s.splitOn "=" with
  | [f, n] => n.toNat?.map (fun k => (f, k))
  | _ => none

/-- `wf <Type> <Field>=<len>*` → `true` | `false`: do Pos()/End() of such a node stay in range? -/
def handle (args : List String) : String :=
  match args with
  | "wf" :: ty :: lens =>
    match lens.mapM parseLen with
    | some ls => toString (wfNode ty ls)
    | none => "bad-op"
  | _ => "bad-op"

end ShVerif.Drv.C06
