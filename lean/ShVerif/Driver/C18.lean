import ShVerif.Driver.L3Glob
namespace ShVerif.Drv.C18
open ShVerif ShVerif.L3 ShVerif.Drv.L3

/-- ops: `quote s` model of QuoteMeta; `hasmeta p` model of HasMeta; `unescape p`;
    `specquote m s alpha n`: which strings ≤ n over alpha (and s itself, listed last) the pattern
    QuoteMeta(s) must match according to the property: exactly s;
    `refquote`: the reference semantics of QuoteMeta(s) on the same strings;
    `specsingle m p`: the only string a pattern without metacharacters may match (the harness
    answers `only <u>` when the real matcher accepts nothing but u, `also <t>` otherwise). -/
def handle (args : List String) : String :=
  match args with
  | ["quote", s] =>
    match runesOfHex s with
    | some s => hexOfRunes (quoteMeta s)
    | none => "bad-op"
  | ["hasmeta", p] =>
    match runesOfHex p with
    | some p => if hasMeta p then "1" else "0"
    | none => "bad-op"
  | ["unescape", p] =>
    match runesOfHex p with
    | some p => hexOfRunes (unescape p)
    | none => "bad-op"
  | ["specquote", m, s, alpha, n] =>
    match parseMode m, runesOfHex s, runesOfHex alpha, n.toNat? with
    | some _, some s, some alpha, some n => bits (fun t => t == s) (enumStrs alpha n ++ [s])
    | _, _, _, _ => "bad-op"
  | ["refquote", m, s, alpha, n] =>
    match parseMode m, runesOfHex s, runesOfHex alpha, n.toNat? with
    | some m, some s, some alpha, some n => bits (globMatch m (quoteMeta s)) (enumStrs alpha n ++ [s])
    | _, _, _, _ => "bad-op"
  | ["specsingle", m, p] =>
    match parseMode m, runesOfHex p with
    | some _, some p =>
      if hasMeta p then "hasmeta" else "only " ++ hexOfRunes (unescape p)
    | _, _ => "bad-op"
  | _ => "bad-op"

end ShVerif.Drv.C18
