import ShVerif.Model.C30
import ShVerif.Gen.C30
namespace ShVerif.Drv.C30
open ShVerif ShVerif.C30

def simpleOf (t : String) : Option Simple :=
  match t.splitOn "." with
  | ["A", x, v] => some (.assign x v)
  | ["U", x] => some (.unset x)
  | ["E", w] => some (.echo w)
  | ["V", x] => some (.echoVar x)
  | ["Q"] => some .echoStatus
  | ["Z"] => some .echo0
  | ["S", n] => n.toNat?.map .status
  | ["X"] => some (.exit none)
  | ["X", n] => n.toNat?.map (fun k => .exit (some k))
  | ["e+"] => some (.setE true)
  | ["e-"] => some (.setE false)
  | ["N"] => some .setN
  | _ => none

def stmtOf (t : String) : Option Stmt :=
  match t.splitOn ":" with
  | "T" :: body => (body.mapM simpleOf).map .trapExit
  | [s] => (simpleOf s).map .simple
  | _ => none

/-- insertion sort by name, for a canonical variable listing -/
def insertVar (p : String × String) : List (String × String) → List (String × String)
  | [] => [p]
  | q :: r => if p.1 < q.1 then p :: q :: r else q :: insertVar p r

def sortVars (vs : List (String × String)) : List (String × String) := vs.foldr insertVar []

def showObs (o : Obs) (exited : Bool) : String :=
  "out=" ++ toString o.out.length ++ ":" ++ ",".intercalate o.out
    ++ " vars=" ++ ",".intercalate ((sortVars o.vars).map fun (x, v) => x ++ "=" ++ v)
    ++ " status=" ++ toString o.status ++ " exited=" ++ (if exited then "1" else "0")

def nameOf (s : String) : String := if s = "-" then "" else s

/-- ops:
    `fields`                      → the regenerated Runner field list
    `file <name|-> <stmt>*`       → model of one Run of the whole file
    `incr <stmt>*`                → model of one Run per top-level statement, stopping at Exited
    `specincr <name|-> <stmt>*`   → the property: whole-file semantics minus the end-of-file EXIT trap -/
def handle (args : List String) : String :=
  match args with
  | ["fields"] => " ".intercalate ShVerif.Gen.C30.runnerFields
  | "file" :: name :: toks =>
    match toks.mapM stmtOf with
    | some ss => let s := runFile (nameOf name) ss St.fresh; showObs s.obs s.exit.exiting
    | none => "bad-op"
  | "incr" :: toks =>
    match toks.mapM stmtOf with
    | some ss => let s := runIncr ss St.fresh; showObs s.obs s.exit.exiting
    | none => "bad-op"
  | "specincr" :: name :: toks =>
    match toks.mapM stmtOf with
    | some ss => showObs (specIncr (nameOf name) ss St.fresh) false
    | none => "bad-op"
  | _ => "bad-op"

end ShVerif.Drv.C30
