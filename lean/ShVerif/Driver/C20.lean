import ShVerif.Model.C20
namespace ShVerif.Drv.C20
open ShVerif ShVerif.C20

def unOpOfName : String → Option UnOp
  | "not" => some .not | "bitNeg" => some .bitNeg | "inc" => some .inc | "dec" => some .dec
  | "plus" => some .plus | "minus" => some .minus | _ => none

def unOpName : UnOp → String
  | .not => "not" | .bitNeg => "bitNeg" | .inc => "inc" | .dec => "dec"
  | .plus => "plus" | .minus => "minus"

def binOps : List (String × BinOp) :=
  [("add", .add), ("sub", .sub), ("mul", .mul), ("quo", .quo), ("rem", .rem), ("pow", .pow),
   ("eql", .eql), ("gtr", .gtr), ("lss", .lss), ("neq", .neq), ("leq", .leq), ("geq", .geq),
   ("and", .and), ("or", .or), ("xor", .xor), ("shr", .shr), ("shl", .shl),
   ("andL", .andL), ("orL", .orL), ("xorBool", .xorBool), ("comma", .comma),
   ("ternQuest", .ternQuest), ("ternColon", .ternColon),
   ("assgn", .assgn), ("addAssgn", .addAssgn), ("subAssgn", .subAssgn), ("mulAssgn", .mulAssgn),
   ("quoAssgn", .quoAssgn), ("remAssgn", .remAssgn), ("andAssgn", .andAssgn),
   ("orAssgn", .orAssgn), ("xorAssgn", .xorAssgn), ("shlAssgn", .shlAssgn),
   ("shrAssgn", .shrAssgn), ("andBoolAssgn", .andBoolAssgn), ("orBoolAssgn", .orBoolAssgn),
   ("xorBoolAssgn", .xorBoolAssgn), ("powAssgn", .powAssgn)]

def binOpOfName (s : String) : Option BinOp := (binOps.find? (·.1 == s)).map (·.2)
def binOpName (o : BinOp) : String := ((binOps.find? (·.2 == o)).map (·.1)).getD "?"

def syms : List (String × Sym) :=
  [("plus", .plus), ("minus", .minus), ("star", .star), ("slash", .slash), ("perc", .perc),
   ("power", .power), ("equal", .equal), ("nequal", .nequal), ("lss", .lss), ("gtr", .gtr),
   ("leq", .leq), ("geq", .geq), ("and", .and), ("or", .or), ("caret", .caret), ("shl", .shl),
   ("shr", .shr), ("andAnd", .andAnd), ("orOr", .orOr), ("dblCaret", .dblCaret),
   ("comma", .comma), ("quest", .quest), ("colon", .colon), ("assgn", .assgn),
   ("addAssgn", .addAssgn), ("subAssgn", .subAssgn), ("mulAssgn", .mulAssgn),
   ("quoAssgn", .quoAssgn), ("remAssgn", .remAssgn), ("andAssgn", .andAssgn),
   ("orAssgn", .orAssgn), ("xorAssgn", .xorAssgn), ("shlAssgn", .shlAssgn),
   ("shrAssgn", .shrAssgn), ("exclMark", .exclMark), ("tilde", .tilde), ("addAdd", .addAdd),
   ("subSub", .subSub)]

def symOfName (s : String) : Option Sym := (syms.find? (·.1 == s)).map (·.2)

/-- Prefix decoding: `W <hex>` | `P e` | `U <op> <0|1> e` | `B <op> e e`. -/
def decodeExpr : Nat → List String → Option (Expr × List String)
  | 0, _ => none
  | fuel + 1, toks =>
    match toks with
    | "W" :: h :: rest => (ofHex h).map fun w => (.word w, rest)
    | "P" :: rest =>
      match decodeExpr fuel rest with
      | some (x, rest') => some (.paren x, rest')
      | none => none
    | "U" :: o :: p :: rest =>
      match unOpOfName o, decodeExpr fuel rest with
      | some op, some (x, rest') => some (.unary op (p == "1") x, rest')
      | _, _ => none
    | "B" :: o :: rest =>
      match binOpOfName o, decodeExpr fuel rest with
      | some op, some (x, rest') =>
        match decodeExpr fuel rest' with
        | some (y, rest'') => some (.binary op x y, rest'')
        | none => none
      | _, _ => none
    | _ => none

def encodeExpr : Expr → List String
  | .word w => ["W", toHex w]
  | .paren x => "P" :: encodeExpr x
  | .unary op post x => "U" :: unOpName op :: (if post then "1" else "0") :: encodeExpr x
  | .binary op x y => "B" :: binOpName op :: (encodeExpr x ++ encodeExpr y)

def errName : Err → String
  | .divZero => "divZero" | .negExp => "negExp" | .unsupUnary => "unsupUnary"
  | .unsupBinary => "unsupBinary" | .readOnly => "readOnly" | .badNumber => "badNumber"
  | .syntaxErr => "syntaxErr" | .recursion => "recursion" | .outOfDomain => "outOfDomain"
  | .fuel => "fuel" | .unsupTarget => "unsupTarget"

def showRes : Res → String
  | .ok v => "ok " ++ toString v
  | .err e => "err " ++ errName e
  | .panic => "panic"

/-- `<n> (<name> <val> <ro>)*n <roAll>` → environment, listed names, remaining args. -/
def decodeVars : Nat → List String → List (Bytes × Bytes × Bool) →
    Option (List (Bytes × Bytes × Bool) × List String)
  | 0, rest, acc => some (acc.reverse, rest)
  | n + 1, nm :: v :: ro :: rest, acc =>
    match ofHex nm, ofHex v with
    | some a, some b => decodeVars n rest ((a, b, ro == "1") :: acc)
    | _, _ => none
  | _, _, _ => none

def mkEnv (vars : List (Bytes × Bytes × Bool)) (roAll : Bool) : Env :=
  { get := fun n => match vars.find? (·.1 == n) with | some (_, v, _) => v | none => []
    ro := fun n => roAll || match vars.find? (·.1 == n) with | some (_, _, r) => r | none => false }

def decodeEnv (args : List String) : Option (Env × List Bytes × List String) :=
  match args with
  | n :: rest =>
    match n.toNat? with
    | some k =>
      match decodeVars k rest [] with
      | some (vars, roAll :: rest') => some (mkEnv vars (roAll == "1"), vars.map (·.1), rest')
      | _ => none
    | none => none
  | [] => none

def showEnv (env : Env) (names : List Bytes) : String :=
  " ".intercalate (names.map fun n => toHex (env.get n))

def decodeToks : List String → Option (List Tok)
  | [] => some []
  | "LP" :: rest => (decodeToks rest).map (Tok.lparen :: ·)
  | "RP" :: rest => (decodeToks rest).map (Tok.rparen :: ·)
  | "W" :: h :: rest =>
    match ofHex h, decodeToks rest with
    | some w, some r => some (Tok.word w :: r)
    | _, _ => none
  | s :: rest =>
    match symOfName s, decodeToks rest with
    | some y, some r => some (Tok.sym y :: r)
    | _, _ => none

def showLevel (l : Nat) : String := ",".intercalate ((levelOps l).map binOpName)

/-- The precedence chain as data: one item per level, outermost first. -/
def precTable : String :=
  " ".intercalate
    [ "L:" ++ showLevel 0, "assign:" ++ ",".intercalate (assignOps.map binOpName), "ternary",
      "L:" ++ showLevel 3, "L:" ++ showLevel 4, "L:" ++ showLevel 5, "L:" ++ showLevel 6,
      "L:" ++ showLevel 7, "L:" ++ showLevel 8, "L:" ++ showLevel 9, "L:" ++ showLevel 10,
      "L:" ++ showLevel 11, "L:" ++ showLevel 12, "power:pow", "unary:not,bitNeg,plus,minus",
      "value" ]

def specFuel : Nat := 1000000

def handle (args : List String) : String :=
  match args with
  | ["atoi", h] =>
    match ofHex h with
    | some s => toString (atoi s)
    | none => "bad-op"
  | ["binarit", o, x, y] =>
    match binOpOfName o, x.toInt?, y.toInt? with
    | some op, some a, some b => showRes (binArit op a b)
    | _, _, _ => "bad-op"
  | ["intpow", x, y] =>
    match x.toInt?, y.toInt? with
    | some a, some b => toString (intPow a b)
    | _, _ => "bad-op"
  | ["fmtint", x] =>
    match x.toInt? with
    | some a => toHex (fmtInt a)
    | none => "bad-op"
  | "eval" :: rest =>
    match decodeEnv rest with
    | some (env, names, ex) =>
      match decodeExpr (ex.length + 1) ex with
      | some (e, []) =>
        let (r, env') := evalArith env e
        showRes r ++ " ; " ++ showEnv env' names
      | _ => "bad-op"
    | none => "bad-op"
  | "speceval" :: rest =>
    match decodeEnv rest with
    | some (env, names, ex) =>
      match decodeExpr (ex.length + 1) ex with
      | some (e, []) =>
        let (r, env') := specEval specFuel bashMaxDepth env e
        showRes r ++ " ; " ++ showEnv env' names
      | _ => "bad-op"
    | none => "bad-op"
  | "specstatus" :: kind :: rest =>
    match decodeEnv rest with
    | some (env, names, ex) =>
      match decodeExpr (ex.length + 1) ex with
      | some (e, []) =>
        let (st, env') :=
          if kind == "cmd" then specArithCmdStatus specFuel env e
          else if kind == "exp" then specExpansionStatus specFuel env e
          else specLetStatus specFuel env [e]
        toString st ++ " ; " ++ showEnv env' names
      | some (e, ex2) =>
        match decodeExpr (ex2.length + 1) ex2 with
        | some (e2, []) =>
          if kind == "let2" then
            let (st, env') := specLetStatus specFuel env [e, e2]
            toString st ++ " ; " ++ showEnv env' names
          else "bad-op"
        | _ => "bad-op"
      | _ => "bad-op"
    | none => "bad-op"
  | "status" :: kind :: rest =>
    match decodeEnv rest with
    | some (env, names, ex) =>
      match decodeExpr (ex.length + 1) ex with
      | some (e, []) =>
        let (st, env') :=
          if kind == "cmd" then arithCmdStatus env e
          else if kind == "exp" then expansionStatus env e
          else letStatus env [e]
        toString st ++ " ; " ++ showEnv env' names
      | some (e, ex2) =>
        match decodeExpr (ex2.length + 1) ex2 with
        | some (e2, []) =>
          if kind == "let2" then
            let (st, env') := letStatus env [e, e2]
            toString st ++ " ; " ++ showEnv env' names
          else "bad-op"
        | _ => "bad-op"
      | _ => "bad-op"
    | none => "bad-op"
  | "parse" :: toks =>
    match decodeToks toks with
    | some ts =>
      match parseArith ts with
      | some e => " ".intercalate (encodeExpr e)
      | none => "err"
    | none => "bad-op"
  | "print" :: ex =>
    match decodeExpr (ex.length + 1) ex with
    | some (e, []) =>
      match parseArith (printArith e) with
      | some e' => " ".intercalate (encodeExpr e')
      | none => "err"
    | _ => "bad-op"
  | ["prectable"] => precTable
  -- the model is stateless across evaluations: the code's nesting counter is 0 between them, and
  -- every counter increment in the source is paired with a decrement on every path
  | ["depthafter"] => "0"
  | ["counterpairs"] => "unpaired"
  | _ => "bad-op"

end ShVerif.Drv.C20
