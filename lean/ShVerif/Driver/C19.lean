import ShVerif.Model.C19
import ShVerif.Driver.L3Glob
/-
  Line protocol of C19 (see harness/c19.go for the token grammar):
    fields <opts> <pwd> <tree>* -- <X<hex>>* -- <seg>*     model of expand.Fields over the tree
    specfields …same…                                       the specification `specFields`
    clean <hex>                                             filepath.Clean
-/
namespace ShVerif.Drv.C19
open ShVerif ShVerif.L3 ShVerif.C19 ShVerif.Drv.L3

def cfgOfNat (n : Nat) : Cfg :=
  { dotglob := n.testBit 0, nullglob := n.testBit 1, globstar := n.testBit 2, nocase := n.testBit 3,
    extglob := n.testBit 4, noglob := n.testBit 5 }

/-- Pre-order tokens → the children of the directory being read, and the remaining tokens.
    `depth` = number of open directories. -/
def parseTree : Nat → List String → Option (List (Str × Node) × List String)
  | 0, _ => none
  | _, [] => some ([], [])
  | fuel + 1, tok :: rest =>
    if tok = "--" ∨ tok = "E" then some ([], tok :: rest)
    else
      let tag := tok.toList.headD ' '
      let body := String.ofList tok.toList.tail
      if tag = 'F' then
        match runesOfHex body, parseTree fuel rest with
        | some n, some (es, r) => some ((n, Node.file) :: es, r)
        | _, _ => none
      else if tag = 'L' then
        match body.splitOn ":" with
        | [a, b] =>
          match runesOfHex a, runesOfHex b, parseTree fuel rest with
          | some n, some t, some (es, r) => some ((n, Node.link t) :: es, r)
          | _, _, _ => none
        | _ => none
      else if tag = 'D' then
        match runesOfHex body, parseTree fuel rest with
        | some n, some (kids, "E" :: r) =>
          match parseTree fuel r with
          | some (es, r') => some ((n, Node.dir kids) :: es, r')
          | none => none
        | _, _ => none
      else none

def parseVars : List String → Option (List Str × List String)
  | "--" :: rest => some ([], rest)
  | tok :: rest =>
    if tok.toList.headD ' ' = 'X' then
      match runesOfHex (String.ofList tok.toList.tail), parseVars rest with
      | some v, some (vs, r) => some (v :: vs, r)
      | _, _ => none
    else none
  | [] => none

def parseSeg (vars : List Str) (tok : String) : Option Seg :=
  let tag := tok.toList.headD ' '
  let body := String.ofList tok.toList.tail
  if tag = 'p' then
    match body.toNat? with
    | some i => (vars[i]?).map Seg.par
    | none => none
  else match runesOfHex body with
    | none => none
    | some v =>
      if tag = 'u' then some (.unq v)
      else if tag = 's' then some (.sq v)
      else if tag = 'd' then some (.dq v)
      else if tag = 'g' then some (.ext v)
      else none

structure Case where
  cfg : Cfg
  pwd : Str
  root : Node
  segs : List Seg

def parseCase (args : List String) : Option Case :=
  match args with
  | opts :: pwd :: rest =>
    match opts.toNat?, runesOfHex pwd, parseTree (rest.length + 1) rest with
    | some o, some p, some (es, "--" :: r) =>
      match parseVars r with
      | some (vars, r') =>
        match r'.mapM (parseSeg vars) with
        | some segs => some ⟨cfgOfNat o, p, .dir es, segs⟩
        | none => none
      | none => none
    | _, _, _ => none
  | _ => none

def showFsErr : FsErr → String
  | .noent => "noent" | .notdir => "notdir" | .loop => "loop"

def showRes : Except FErr (List Str) → String
  | .ok fs => " ".intercalate ("ok" :: fs.map hexOfRunes)
  | .error .extglobOff => "err extglob-off"
  | .error .unsupported => "err negext-unsupported"
  | .error (.fs e) => "err readdir-" ++ showFsErr e
  | .error .panic => "panic"
  | .error .fuel => "fuel"
  | .error .outside => "outside"

def handle (args : List String) : String :=
  match args with
  | "fields" :: rest =>
    match parseCase rest with
    | some c => showRes (fields (readDir c.root) extMatcher c.cfg c.pwd c.segs)
    | none => "bad-op"
  | "specfields" :: rest =>
    match parseCase rest with
    | some c =>
      match specFields c.root c.cfg c.pwd c.segs with
      | .outside => "outside"
      | .ok fs => " ".intercalate ("ok" :: fs.map hexOfRunes)
    | none => "bad-op"
  | "bashspec" :: rest =>
    -- what `printf '%s\n' <word>` prints, line by line (no fields: one empty line)
    match parseCase rest with
    | some c =>
      match specFields c.root c.cfg c.pwd c.segs with
      | .outside => "outside"
      | .ok [] => "out -"
      | .ok fs => " ".intercalate ("out" :: fs.map hexOfRunes)
    | none => "bad-op"
  | "memfs" :: _ => "same"   -- harness self-check: in-memory tree = scratch directory for interp
  | ["clean", h] =>
    match runesOfHex h with
    | some p => hexOfRunes (clean p)
    | none => "bad-op"
  | _ => "bad-op"

end ShVerif.Drv.C19
