import ShVerif.Model.C35
/-
  C35 line protocol (modes are octal numbers, byte strings hex).

    script <cfg> <kind> <perm> <umask> <new>            → the system-call script, canonical text
    prefix <cfg> <perm> <umask> <old> <new> <k>         → file-system state after the first k calls
    failscript <cfg> <probetmp|probedir|temp>           → the script of a run whose atomic replace fails
    isprefix <cfg> <ok|stage> <perm> <umask> <new> <op>* → prefix | not-a-prefix-of …  (a killed run's calls)
    spectarget <op>*                                     → ok | violation <op>   (alphabet of calls on the target; spec op)
    speckill <perm> <old> <new> <content> <mode> <kind> → ok | violation   (the property's own words on an
                                                           observed post-kill state; spec op)
  cfg ∈ same|xdev|notmp    kind ∈ reg|dir|symlink|fifo|other
  script text: ops separated by `;`  e.g. `lstat:T;openx:P1:600;close:0;…;rename:X:T`
  state text : `target=<old|new|hex> mode=<oct> names=T,P1,P2,X temp=<hex>:<oct>|-`
-/
namespace ShVerif.Drv.C35
open ShVerif ShVerif.C35

def parseOct (s : String) : Option Nat :=
  if s.isEmpty then none else
  s.toList.foldlM (fun acc c => if '0' ≤ c ∧ c ≤ '7' then some (acc * 8 + (c.toNat - 48)) else none) 0

def showOct (n : Nat) : String := String.ofList (Nat.toDigits 8 n)

def parseCfg : String → Option TmpCfg
  | "same" => some .sameFs | "xdev" => some .crossDev | "notmp" => some .noTmp | _ => none

def parseKind : String → Option FKind
  | "reg" => some .reg | "dir" => some .dir | "symlink" => some .symlink
  | "fifo" => some .fifo | "other" => some .other | _ => none

def parseFailAt : String → Option FailAt
  | "probetmp" => some .probeTmp | "probedir" => some .probeDir | "temp" => some .temp | _ => none

def showPath : Path → String
  | .target => "T" | .probeTmp => "P1" | .probeDir => "P2" | .temp => "X"

def showOp : Op → String
  | .lstat p => "lstat:" ++ showPath p
  | .openExcl p m => "openx:" ++ showPath p ++ ":" ++ showOct m
  | .fstat fd => "fstat:" ++ toString fd
  | .fchmod fd m => "fchmod:" ++ toString fd ++ ":" ++ showOct m
  | .write fd d => "write:" ++ toString fd ++ ":" ++ toHex d
  | .fsync fd => "fsync:" ++ toString fd
  | .close fd => "close:" ++ toString fd
  | .rename a b => "rename:" ++ showPath a ++ ":" ++ showPath b
  | .renameXdev a b => "renamexdev:" ++ showPath a ++ ":" ++ showPath b
  | .unlink p => "unlink:" ++ showPath p

def showState (fs : FS) (old new : Bytes) : String :=
  let tgt :=
    match lookup fs .target with
    | none => "target=missing mode=-"
    | some ino =>
      "target=" ++ (if ino.bytes = old then "old" else if ino.bytes = new then "new" else toHex ino.bytes) ++
      " mode=" ++ showOct ino.mode
  let tmp :=
    match lookup fs .temp with
    | none => "-"
    | some ino =>
      (if ino.bytes = [] then "empty" else if ino.bytes = new then "new" else toHex ino.bytes) ++
      ":" ++ showOct ino.mode
  tgt ++ " names=" ++ ",".intercalate ((listing fs).map showPath) ++ " temp=" ++ tmp

def handle (args : List String) : String :=
  match args with
  | ["script", cfg, kind, perm, umask, new] =>
    match parseCfg cfg, parseKind kind, parseOct perm, parseOct umask, ofHex new with
    | some c, some k, some p, some u, some n => ";".intercalate ((shfmtW k c p u n).map showOp)
    | _, _, _, _, _ => "bad-op"
  | ["prefix", cfg, perm, umask, old, new, k] =>
    match parseCfg cfg, parseOct perm, parseOct umask, ofHex old, ofHex new, k.toNat? with
    | some c, some p, some u, some o, some n, some k =>
      match run ((writeScript c p u n).take k) (init o p u) with
      | some fs => showState fs o n
      | none => "error"
    | _, _, _, _, _, _ => "bad-op"
  | ["failscript", cfg, stage] =>
    match parseCfg cfg, parseFailAt stage with
    | some c, some a => ";".intercalate ((failScript c a).map showOp)
    | _, _ => "bad-op"
  | "isprefix" :: cfg :: stage :: perm :: umask :: new :: obs =>
    match parseCfg cfg, parseOct perm, parseOct umask, ofHex new with
    | some c, some p, some u, some n =>
      let script : Option (List Op) :=
        if stage = "ok" then some (writeScript c p u n) else (parseFailAt stage).map (failScript c)
      match script with
      | none => "bad-op"
      | some sc =>
        let want := sc.map showOp
        let got := obs.filter (· != "-")
        if got.isPrefixOf want then "prefix"
        else "not-a-prefix-of " ++ ";".intercalate want
    | _, _, _, _ => "bad-op"
  | "spectarget" :: toks =>
    -- the property's alphabet on the observed calls that touch the target's name: lstat, and the
    -- rename of the pending file onto it; anything else (open for writing, truncate, chmod, unlink,
    -- write through a descriptor of the target) is a violation
    match toks.find? (fun t => t != "lstat:T" && t != "rename:X:T" && t != "-") with
    | none => "ok"
    | some t => "violation " ++ t
  | ["speckill", perm, old, new, content, mode, kind] =>
    match parseOct perm, ofHex old, ofHex new, ofHex content, parseOct mode with
    | some p, some o, some n, some c, some m =>
      if (c = o ∨ c = n) ∧ m = p ∧ kind = "reg" then "ok" else "violation"
    | _, _, _, _, _ => "bad-op"
  | _ => "bad-op"

end ShVerif.Drv.C35
