import ShVerif.Base.Hex
import ShVerif.Base.SExpr
import ShVerif.Model.C05
/-
  Line protocol for C05.  The skeleton is shipped as an S-expression (see harness/c05.go,
  `c05Dump`):

    pos      := o:l:c | -
    com      := ( c pos endOffs hex )
    litem    := ( a L ) | ( b L ) | ( q L )
    item     := litem | ( w pos ) | ( t pos )
              | ( s kind swl endLine left right ( S stmt* ) ( C com* ) )
              | ( r rparen ( E elem* ) ( C com* ) )
    elem     := ( e pos ( C com* ) ( I item* ) )
    stmt     := ( st pos cmdPos cmdEnd semi ( C com* ) cmd ( R redir* ) )
    redir    := ( rd opPos hd ( I item* ) )      hd := - | ( h dash hasBody endLine ( L litem* ) ( L litem* ) )
    cmd      := ( n ) | ( fl ( I … ) ) | ( bl rbrace endLine ( S … ) ( C … ) )
              | ( sh swl firstLine lparen rparen endLine ( S … ) ( C … ) ) | ( if fi ifc )
              | ( wh doPos donePos condEnd ( S … ) ( C … ) doEnd ( S … ) ( C … ) )
              | ( fo doPos donePos ( I … ) doEnd ( S … ) ( C … ) ) | ( bi opPos stmt stmt )
              | ( fn stmt ) | ( cs inLine esac ( I … ) ( K caseitem* ) ( C … ) ) | ( wr ( I … ) stmt|- )
    ifc      := ( ic position hasThen thenPos condEnd ( S … ) ( C … ) thenEnd ( S … ) ( C … ) ( C … ) ifc|- )
    caseitem := ( ci pos opPos opBreak endLine ( C … ) ( I … ) ( S … ) ( C … ) )
    file     := ( f ( S … ) ( C … ) )
-/
namespace ShVerif.Drv.C05
open ShVerif ShVerif.C05

def posOf : SExp → Option Pos
  | .atom "-" => some Pos.none
  | .atom s =>
    match s.splitOn ":" with
    | [a, b, c] =>
      match a.toNat?, b.toNat?, c.toNat? with
      | some o, some l, some c => some ⟨true, o, l, c⟩
      | _, _, _ => none
    | _ => none
  | _ => none

def boolOf : SExp → Option Bool
  | .atom "0" => some false
  | .atom "1" => some true
  | _ => none

def comOf : SExp → Option Com
  | .list [.atom "c", p, e, .atom h] =>
    match posOf p, e.atomNat?, ofHex h with
    | some p, some e, some t => some ⟨p, e, t⟩
    | _, _, _ => none
  | _ => none

def comsOfList : List SExp → Option (List Com)
  | [] => some []
  | x :: xs =>
    match comOf x, comsOfList xs with
    | some c, some cs => some (c :: cs)
    | _, _ => none

def comsOf : SExp → Option (List Com)
  | .list (.atom "C" :: xs) => comsOfList xs
  | _ => none

def litemOf : SExp → Option LItem
  | .list [.atom "a", l] => l.atomNat?.map LItem.adv
  | .list [.atom "b", l] => l.atomNat?.map LItem.bsl
  | .list [.atom "q", l] => l.atomNat?.map LItem.qnl
  | _ => none

def litemsOfList : List SExp → Option (List LItem)
  | [] => some []
  | x :: xs =>
    match litemOf x, litemsOfList xs with
    | some c, some cs => some (c :: cs)
    | _, _ => none

def litemsOf : SExp → Option (List LItem)
  | .list (.atom "L" :: xs) => litemsOfList xs
  | _ => none

def hdocOf : SExp → Option (Option Hdoc)
  | .atom "-" => some none
  | .list [.atom "h", d, hb, el, b, w] =>
    match boolOf d, boolOf hb, el.atomNat?, litemsOf b, litemsOf w with
    | some d, some hb, some el, some b, some w => some (some ⟨d, hb, b, w, el⟩)
    | _, _, _, _, _ => none
  | _ => none

def kindOf : SExp → Option SubKind
  | .atom "d" => some .dollar
  | .atom "b" => some .backquote
  | .atom "t" => some .tempFile
  | .atom "r" => some .replyVar
  | .atom "p" => some .proc
  | _ => none

mutual
  def itemOf : SExp → Option Item
    | .list [.atom "w", p] => (posOf p).map Item.bslw
    | .list [.atom "t", p] => (posOf p).map Item.tnl
    | .list [.atom "s", k, swl, el, l, r, .list (.atom "S" :: ss), cs] =>
      match kindOf k, boolOf swl, el.atomNat?, posOf l, posOf r, stmtsOf ss, comsOf cs with
      | some k, some swl, some el, some l, some r, some ss, some cs => some (.sub k swl el l r ss cs)
      | _, _, _, _, _, _, _ => none
    | .list [.atom "r", rp, .list (.atom "E" :: es), cs] =>
      match posOf rp, elemsOf es, comsOf cs with
      | some rp, some es, some cs => some (.arr rp es cs)
      | _, _, _ => none
    | .list [.atom "a", l] => l.atomNat?.map fun l => Item.li (.adv l)
    | .list [.atom "b", l] => l.atomNat?.map fun l => Item.li (.bsl l)
    | .list [.atom "q", l] => l.atomNat?.map fun l => Item.li (.qnl l)
    | _ => none
  def itemsOf : List SExp → Option (List Item)
    | [] => some []
    | x :: xs =>
      match itemOf x, itemsOf xs with
      | some i, some is => some (i :: is)
      | _, _ => none
  def elemsOf : List SExp → Option (List Elem)
    | [] => some []
    | .list [.atom "e", p, cs, .list (.atom "I" :: is)] :: xs =>
      match posOf p, comsOf cs, itemsOf is, elemsOf xs with
      | some p, some cs, some is, some es => some (.mk p cs is :: es)
      | _, _, _, _ => none
    | _ :: _ => none
  def stmtOf : SExp → Option Stmt
    | .list [.atom "st", p, cp, ce, sm, cs, cmd, .list (.atom "R" :: rs)] =>
      match posOf p, posOf cp, posOf ce, posOf sm, comsOf cs, cmdOf cmd, redirsOf rs with
      | some p, some cp, some ce, some sm, some cs, some cmd, some rs => some (.mk p cp ce sm cs cmd rs)
      | _, _, _, _, _, _, _ => none
    | _ => none
  def stmtsOf : List SExp → Option (List Stmt)
    | [] => some []
    | x :: xs =>
      match stmtOf x, stmtsOf xs with
      | some s, some ss => some (s :: ss)
      | _, _ => none
  def redirsOf : List SExp → Option (List Redir)
    | [] => some []
    | .list [.atom "rd", op, hd, .list (.atom "I" :: is)] :: xs =>
      match posOf op, hdocOf hd, itemsOf is, redirsOf xs with
      | some op, some hd, some is, some rs => some (.mk op hd is :: rs)
      | _, _, _, _ => none
    | _ :: _ => none
  def cmdOf : SExp → Option Cmd
    | .list [.atom "n"] => some .none
    | .list [.atom "fl", .list (.atom "I" :: is)] => (itemsOf is).map Cmd.flat
    | .list [.atom "bl", rb, el, .list (.atom "S" :: ss), cs] =>
      match posOf rb, el.atomNat?, stmtsOf ss, comsOf cs with
      | some rb, some el, some ss, some cs => some (.block rb el ss cs)
      | _, _, _, _ => none
    | .list [.atom "sh", swl, fl, lp, rp, el, .list (.atom "S" :: ss), cs] =>
      match boolOf swl, fl.atomNat?, posOf lp, posOf rp, el.atomNat?, stmtsOf ss, comsOf cs with
      | some swl, some fl, some lp, some rp, some el, some ss, some cs => some (.subshell swl fl lp rp el ss cs)
      | _, _, _, _, _, _, _ => none
    | .list [.atom "if", fi, ic] =>
      match posOf fi, ifOf ic with
      | some fi, some ic => some (.ifc fi ic)
      | _, _ => none
    | .list [.atom "wh", dp, dn, ce, .list (.atom "S" :: cond), cl, de, .list (.atom "S" :: body), dl] =>
      match posOf dp, posOf dn, ce.atomNat?, stmtsOf cond, comsOf cl, de.atomNat?, stmtsOf body, comsOf dl with
      | some dp, some dn, some ce, some cond, some cl, some de, some body, some dl =>
        some (.whilec dp dn ce cond cl de body dl)
      | _, _, _, _, _, _, _, _ => none
    | .list [.atom "fo", dp, dn, .list (.atom "I" :: is), de, .list (.atom "S" :: body), dl] =>
      match posOf dp, posOf dn, itemsOf is, de.atomNat?, stmtsOf body, comsOf dl with
      | some dp, some dn, some is, some de, some body, some dl => some (.forc dp dn is de body dl)
      | _, _, _, _, _, _ => none
    | .list [.atom "bi", op, x, y] =>
      match posOf op, stmtOf x, stmtOf y with
      | some op, some x, some y => some (.binary op x y)
      | _, _, _ => none
    | .list [.atom "fn", b] => (stmtOf b).map Cmd.func
    | .list [.atom "cs", il, es, .list (.atom "I" :: w), .list (.atom "K" :: items), cs] =>
      match il.atomNat?, posOf es, itemsOf w, caseItemsOf items, comsOf cs with
      | some il, some es, some w, some items, some cs => some (.casec il es w items cs)
      | _, _, _, _, _ => none
    | .list [.atom "wr", .list (.atom "I" :: is), .atom "-"] =>
      (itemsOf is).map fun is => Cmd.wrap is none
    | .list [.atom "wr", .list (.atom "I" :: is), s] =>
      match itemsOf is, stmtOf s with
      | some is, some s => some (.wrap is (some s))
      | _, _ => none
    | _ => none
  def ifOf : SExp → Option IfC
    | .list [.atom "ic", p, ht, tp, ce, .list (.atom "S" :: cond), cl, te, .list (.atom "S" :: thn), tl, last, els] =>
      match posOf p, boolOf ht, posOf tp, ce.atomNat?, stmtsOf cond, comsOf cl, te.atomNat?, stmtsOf thn, comsOf tl, comsOf last with
      | some p, some ht, some tp, some ce, some cond, some cl, some te, some thn, some tl, some last =>
        match els with
        | .atom "-" => some (.mk p ht tp ce cond cl te thn tl last none)
        | e =>
          match ifOf e with
          | some e => some (.mk p ht tp ce cond cl te thn tl last (some e))
          | none => none
      | _, _, _, _, _, _, _, _, _, _ => none
    | _ => none
  def caseItemsOf : List SExp → Option (List CaseItem)
    | [] => some []
    | .list [.atom "ci", p, op, ob, el, cs, .list (.atom "I" :: pats), .list (.atom "S" :: ss), last] :: xs =>
      match posOf p, posOf op, boolOf ob, el.atomNat?, comsOf cs, itemsOf pats, stmtsOf ss, comsOf last, caseItemsOf xs with
      | some p, some op, some ob, some el, some cs, some pats, some ss, some last, some rest =>
        some (.mk p op ob el cs pats ss last :: rest)
      | _, _, _, _, _, _, _, _, _ => none
    | _ :: _ => none
end

def fileOf : SExp → Option File
  | .list [.atom "f", .list (.atom "S" :: ss), cs] =>
    match stmtsOf ss, comsOf cs with
    | some ss, some cs => some ⟨ss, cs⟩
    | _, _ => none
  | _ => none

def parseFile (toks : List String) : Option File :=
  match SExp.parse toks with
  | some s => fileOf s
  | none => none

/-- Option mask of harness/c05.go: bit 0 binNextLine, 1 swtCaseIndent, 2 spaceRedirects,
    3 keepPadding, 4 minify, 5 singleLine, 6 funcNextLine; bits 8… indent. -/
def optsOf (m : Nat) : Opts :=
  { minify := m.testBit 4, singleLine := m.testBit 5, binNextLine := m.testBit 0,
    funcNextLine := m.testBit 6, swtCaseIndent := m.testBit 1, tabIndent := m / 256 = 0 }

def showTexts (cs : List Com) : String :=
  if cs.isEmpty then "none" else " ".intercalate (cs.map fun c => toHex (trimRight c.text))

/-- The property's expectation for (options, tree): the source-order comment texts, or with
    Minify only a first-line shebang. -/
def specTexts (o : Opts) (f : File) : List Com :=
  if o.minify then (sourceOrder f).filter shebangAt11 else sourceOrder f

def masksOf (m : String) : Option (List Nat) :=
  if m = "-" then some [] else (m.splitOn ",").mapM String.toNat?

def handle (args : List String) : String :=
  match args with
  | "tree" :: ms :: toks =>
    -- assume/guarantee predicate, completeness of the dump, and the printer model per option set
    match masksOf ms, parseFile toks with
    | some ms, some f =>
      s!"wf={WFComments f} order={showTexts (sourceOrder f)} emit=" ++
        " | ".intercalate (ms.map fun m => showTexts (emitted (optsOf m) f))
    | _, _ => "bad-op"
  | "specfmt" :: ms :: toks =>
    match masksOf ms, parseFile toks with
    | some ms, some f => " | ".intercalate (ms.map fun m => showTexts (specTexts (optsOf m) f))
    | _, _ => "bad-op"
  | "ghost" :: m :: toks =>
    match m.toNat?, parseFile toks with
    | some m, some f =>
      let σ := printFile (optsOf m) f
      s!"lossD={σ.lossD} inline={σ.inlineN} ordered={SourceOrdered f}"
    | _, _ => "bad-op"
  | _ => "bad-op"

end ShVerif.Drv.C05
