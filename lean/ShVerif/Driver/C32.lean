import ShVerif.Model.C32
/-
  C32 driver (line protocol).  Ops:

    wait <p1,p2,…> <sched>      parent program tokens s<status> | w<pid> | W ; sched = rr | i,j,k…
                                → the `wait` results in order and whether the parent finished
    specwait <p1,p2,…>          the SPECIFICATION: `wait g<pid>` gives the status of the pid-th
                                started job (or not-a-child), whatever the schedule
    sep <setup ops> | <P:op|C:op>…   heap-shape dump of parent and child after the fork and after
                                every operation of the given interleaving
    growtab s|i <n>             the growth policy the driver uses as oracle

  Op tokens (names/values hex): ss:<n>:<v> setStr, as:<n>:<v> appendStr, se:<n>:<k>:<v> setElem,
  sk:<n>:<key>:<v> setKey, ue:<n>:<k> unsetElem, uk:<n>:<key> unsetKey, al:<n>:<0|1>:<v,v…> arrayLit,
  ml:<n>:<k=v,…> mapLit, un:<n> unset, sh:<k> shift, sp:<v,v…> setParams, pu:<dir> pushdN, po popdN.
-/
namespace ShVerif.Drv.C32
open ShVerif ShVerif.L1 ShVerif.C32

/-! ### Go 1.26 runtime growth policy (driver only; the theorems quantify over every oracle) -/

def sizeClasses : List Nat :=
  [8, 16, 24, 32, 48, 64, 80, 96, 112, 128, 144, 160, 176, 192, 208, 224, 240, 256, 288, 320, 352,
   384, 416, 448, 480, 512, 576, 640, 704, 768, 896, 1024, 1152, 1280, 1408, 1536, 1792, 2048]

def roundUp (b : Nat) : Nat := (sizeClasses.find? (· ≥ b)).getD b

def goGrow (esz : Nat) : Grow := fun _ old need =>
  let nc := if need > 2 * old then need else if old < 256 then 2 * old else need
  let b := nc * esz
  if esz = 16 && b > 512 then (roundUp (b + 8) - 8) / esz else roundUp b / esz

def goGrows : Grows := { strs := goGrow 16, ints := goGrow 8 }

def commaSep (l : List String) : String := if l.isEmpty then "-" else ",".intercalate l

/-! ### wait -/

def parsePOp (s : String) : Option POp :=
  match s.toList with
  | 's' :: r => (String.ofList r).toNat?.map .spawn
  | 'w' :: r => (String.ofList r).toNat?.map .waitJob
  | ['W'] => some .waitAll
  | _ => none

def showRes : WaitRes → String
  | .notChild pid => "g" ++ toString pid ++ ":notchild"
  | .status pid v _ => "g" ++ toString pid ++ ":" ++ toString v

/-- round robin over the parent and `n` children, `rounds` times -/
def roundRobin (n rounds : Nat) : List Nat := (List.range rounds).flatMap fun _ => List.range (n + 1)

def waitRun (prog : List POp) (sched : List Nat) : String :=
  let st := exec { prog := prog } sched
  " ".intercalate (st.results.map showRes ++ [if st.prog.isEmpty then "done" else "blocked"])

/-- the specification of `wait g<pid>`: the status given to the pid-th spawn that has happened -/
def specWait : List POp → List Nat → List String → List String
  | [], _, acc => acc
  | .spawn v :: rest, started, acc => specWait rest (started ++ [v]) acc
  | .waitJob pid :: rest, started, acc =>
    let r := if pid = 0 ∨ started.length < pid then "g" ++ toString pid ++ ":notchild"
             else "g" ++ toString pid ++ ":" ++ toString (started.getD (pid - 1) 0)
    specWait rest started (acc ++ [r])
  | _ :: rest, started, acc => specWait rest started acc

/-! ### sep -/

def hexList (s : String) : Option (List Bytes) :=
  if s = "-" then some [] else (s.splitOn ",").mapM ofHex

def parseKV (e : String) : Option (Bytes × Bytes) :=
  match e.splitOn "=" with
  | [k, v] => do pure ((← ofHex k), (← ofHex v))
  | _ => none

def parseKVs (s : String) : Option (List (Bytes × Bytes)) :=
  if s = "-" then some [] else (s.splitOn ",").mapM parseKV

def parseOp (s : String) : Option Op :=
  match s.splitOn ":" with
  | ["ss", n, v] => do pure (.setStr (← ofHex n) (← ofHex v))
  | ["as", n, v] => do pure (.appendStr (← ofHex n) (← ofHex v))
  | ["se", n, k, v] => do pure (.setElem (← ofHex n) (← k.toNat?) (← ofHex v))
  | ["sk", n, k, v] => do pure (.setKey (← ofHex n) (← ofHex k) (← ofHex v))
  | ["ue", n, k] => do pure (.unsetElem (← ofHex n) (← k.toNat?))
  | ["uk", n, k] => do pure (.unsetKey (← ofHex n) (← ofHex k))
  | ["al", n, a, vs] => do pure (.arrayLit (← ofHex n) (a = "1") (← hexList vs))
  | ["ml", n, kvs] => do pure (.mapLit (← ofHex n) (← parseKVs kvs))
  | ["un", n] => do pure (.unset (← ofHex n))
  | ["sh", k] => do pure (.shift (← k.toNat?))
  | ["sp", vs] => do pure (.setParams (← hexList vs))
  | ["pu", d] => do pure (.pushdN (← ofHex d))
  | ["po"] => some .popdN
  | _ => none

/-- identity classes, numbered by first appearance -/
structure Classes where
  strs : List Nat := []
  ints : List Nat := []
  maps : List Nat := []

def classOf (seen : List Nat) (id : Nat) : List Nat × Nat :=
  match seen.idxOf? id with
  | some i => (seen, i + 1)
  | none => (seen ++ [id], seen.length + 1)

def kindNum : Kind → Nat
  | .unknown => 0 | .string => 1 | .indexed => 3 | .associative => 4

/-- slice header: nil, or len/cap/class (class 0: no storage) -/
def showSlice (seen : List Nat) (s : Slice) (hide : Bool) : List Nat × String :=
  if s.isNil then (seen, "nil")
  else if s.cap = 0 || (hide && s.len = 0) then (seen, toString s.len ++ "/" ++ toString s.cap ++ "/0")
  else
    let r := classOf seen s.arr
    (r.1, toString s.len ++ "/" ++ toString s.cap ++ "/" ++ toString r.2)

def insertSorted (x : String) : List String → List String
  | [] => [x]
  | y :: ys => if x ≤ y then x :: y :: ys else y :: insertSorted x ys

def sortStrings (l : List String) : List String := l.foldr insertSorted []

def showVar (h : Heap) (cl : Classes) (name : Bytes) (v : Var) : Classes × String :=
  let l := showSlice cl.strs v.list false
  let i := showSlice cl.ints v.indexes false
  let m : List Nat × String :=
    match v.map with
    | none => (cl.maps, "nil")
    | some id =>
      let r := classOf cl.maps id
      (r.1, toString r.2 ++ "{" ++ ",".intercalate (sortStrings ((mapOf h.maps id).map fun kv => toHex kv.1 ++ "=" ++ toHex kv.2)) ++ "}")
  ({ strs := l.1, ints := i.1, maps := m.1 },
   toHex name ++ ":" ++ (if v.set then "1" else "0") ++ ":" ++ toString (kindNum v.kind) ++ ":" ++ toHex v.str ++
   ":L" ++ l.2 ++ "[" ++ commaSep ((cells h.strs v.list).map toHex) ++ "]" ++
   ":I" ++ i.2 ++ "[" ++ commaSep ((cells h.ints v.indexes).map toString) ++ "]" ++
   ":M" ++ m.2)

def showSide (h : Heap) (cl : Classes) (names : List Bytes) (s : Side) : Classes × String :=
  let r := names.foldl (fun (acc : Classes × List String) n =>
    let x := showVar h acc.1 n (s.get n)
    (x.1, acc.2 ++ [x.2])) (cl, [])
  let p0 := showSlice r.1.strs { s.params with cap := if s.params.len = 0 then 0 else 1 } true
  -- the capacity of Params is an accident of field expansion: shown as 0/1 only
  let p := p0
  let d := showSlice p.1 s.dirStack false
  ({ r.1 with strs := d.1 },
   " ".intercalate r.2 ++ " P" ++ p.2 ++ "[" ++ commaSep ((cells h.strs s.params).map toHex) ++ "]" ++
   " D" ++ d.2 ++ "[" ++ commaSep ((cells h.strs s.dirStack).map toHex) ++ "]")

def showTwo (names : List Bytes) (t : Two) : String :=
  let a := showSide t.h {} names t.parent
  let b := showSide t.h a.1 names t.child
  "{" ++ a.2 ++ " | " ++ b.2 ++ "}"

def varNames : List Bytes := [[97], [98], [109]]   -- a b m

def runSetup (h : Heap) (s : Side) : List Op → Option (Heap × Side)
  | [] => some (h, s)
  | op :: ops =>
    match step goGrows h s op with
    | some r => runSetup r.1 r.2 ops
    | none => none

def sepRun (dir : Bytes) (setup : List Op) (inter : List (Bool × Op)) : String :=
  -- New + Reset: dirStack = append(dirBootstrap[:0], Dir)
  let boot := sliceMake ([] : ArrHeap Bytes) [] 1
  let ds := sliceAppend goGrows.strs boot.1 { boot.2 with len := 0 } dir
  let h0 : Heap := { strs := ds.1 }
  match runSetup h0 { dirStack := ds.2 } setup with
  | none => "panic-setup"
  | some (h1, p) =>
    let f := fork goGrows h1 p
    let t0 : Two := { h := f.1, parent := p, child := f.2 }
    let rec go (t : Two) (acc : List String) : List (Bool × Op) → String
      | [] => " ".intercalate acc
      | (side, op) :: rest =>
        let s := if side then t.child else t.parent
        match step goGrows t.h s op with
        | none => " ".intercalate (acc ++ ["panic"])
        | some r =>
          let t' : Two := if side then { t with h := r.1, child := r.2 } else { t with h := r.1, parent := r.2 }
          go t' (acc ++ [showTwo varNames t']) rest
    go t0 [showTwo varNames t0] inter

def splitBar (toks : List String) : List String × List String :=
  (toks.takeWhile (· ≠ "|"), (toks.dropWhile (· ≠ "|")).drop 1)

def parseSided (s : String) : Option (Bool × Op) :=
  if s.startsWith "P:" then (parseOp (s.drop 2).toString).map fun o => (false, o)
  else if s.startsWith "C:" then (parseOp (s.drop 2).toString).map fun o => (true, o)
  else none

def handle (args : List String) : String :=
  match args with
  | ["wait", prog, sched] =>
    match (prog.splitOn ",").mapM parsePOp with
    | none => "bad-op"
    | some p =>
      let n := (p.filter fun o => match o with | .spawn _ => true | _ => false).length
      if sched = "rr" then waitRun p (roundRobin n (3 * p.length + 3 * n + 3))
      else
        match (sched.splitOn ",").mapM String.toNat? with
        | some s => waitRun p s
        | none => "bad-op"
  | ["specwait", prog] =>
    match (prog.splitOn ",").mapM parsePOp with
    | none => "bad-op"
    | some p => " ".intercalate (specWait p [] [] ++ ["done"])
  | "sep" :: dir :: rest =>
    let (a, b) := splitBar rest
    match ofHex dir, a.mapM parseOp, b.mapM parseSided with
    | some d, some setup, some inter => sepRun d setup inter
    | _, _, _ => "bad-op"
  | ["growtab", k, n] =>
    match n.toNat? with
    | none => "bad-op"
    | some n =>
      let g := if k = "s" then goGrow 16 else goGrow 8
      let clone := (List.range (n + 1)).map fun i => toString (if i = 0 then 0 else newCap g 0 0 i)
      let app := (List.range (n + 1)).map fun i => toString (newCap g 0 i (i + 1))
      commaSep clone ++ ";" ++ commaSep app
  | _ => "bad-op"

end ShVerif.Drv.C32
