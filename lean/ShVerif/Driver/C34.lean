import ShVerif.Model.C34
namespace ShVerif.Drv.C34
open ShVerif ShVerif.C34

def showRes : GetRes → String
  | .unset => "unset"
  | .val v => "val " ++ toHex v
  | .panic => "panic"

/-- ops:  `get <name> <pair>*`  → model Get;  `spec <name> <pair>*` → map spec;
    `each <pair>*` → names/values in order;
    `ciget` / `specci` / `cieach`: the same for caseInsensitive = true (ASCII names). -/
def handle (args : List String) : String :=
  match args with
  | "get" :: name :: pairs =>
    match ofHex name, pairs.mapM ofHex with
    | some n, some ps =>
      match listEnviron ps with
      | some l => showRes (get l n)
      | none => "panic"
    | _, _ => "bad-op"
  | "spec" :: name :: pairs =>
    match ofHex name, pairs.mapM ofHex with
    | some n, some ps =>
      match specGet ps n with
      | some v => "val " ++ toHex v
      | none => "unset"
    | _, _ => "bad-op"
  | "each" :: pairs =>
    match pairs.mapM ofHex with
    | some ps =>
      match listEnviron ps with
      | some l =>
        match each l with
        | some nvs => " ".intercalate ("each" :: nvs.map fun (n, v) => toHex n ++ ":" ++ toHex v)
        | none => "panic"
      | none => "panic"
    | none => "bad-op"
  | "ciget" :: name :: pairs =>
    match ofHex name, pairs.mapM ofHex with
    | some n, some ps =>
      match listEnvironF upperAscii ps with
      | some l => showRes (getF upperAscii l n)
      | none => "panic"
    | _, _ => "bad-op"
  | "specci" :: name :: pairs =>
    match ofHex name, pairs.mapM ofHex with
    | some n, some ps =>
      match specGetCI ps n with
      | some v => "val " ++ toHex v
      | none => "unset"
    | _, _ => "bad-op"
  | "cieach" :: pairs =>
    match pairs.mapM ofHex with
    | some ps =>
      match listEnvironF upperAscii ps with
      | some l =>
        match each l with
        | some nvs => " ".intercalate ("each" :: nvs.map fun (n, v) => toHex n ++ ":" ++ toHex v)
        | none => "panic"
      | none => "panic"
    | none => "bad-op"
  | _ => "bad-op"

end ShVerif.Drv.C34
