import ShVerif.Base.Hex
import ShVerif.Base.SExpr
import ShVerif.Model.C15
import ShVerif.Gen.C15
/-
  Line protocol for C15.  Values, types and JSON documents travel as S-expressions
  (parentheses are separate tokens; byte strings in hex, `-` = empty):

    type   pos | bool | str | ( u BITS OP|- ) | ( p T ) | ( i I ) | ( sl τ ) | ( sv T ) | ( o )
    value  ( P offs lineCol ) | ( B 0|1 ) | ( S hex ) | ( U bits op|- n ) | N | ( R v ) | IN | ( I v )
           | SN | ( L v… ) | ( T Name pe ( field v )… ) | O        pe = - | ( o lc o lc )
    json   null | true | false | ( n INT ) | frac | ( s hex ) | ( a j… ) | ( o ( hexkey j )… )

  ops: encode v · wf τ v · decode j · decodeAt τ j · errkind j KIND · newpos o l c · posparts offs lc
       · opstr n · unm T hex · sanitize hex · specroundtrip v
-/
namespace ShVerif.Drv.C15
open ShVerif ShVerif.C15

def σ : Schema :=
  mkSchema Gen.C15.structs Gen.C15.nodeByName Gen.C15.impls Gen.C15.tokenName Gen.C15.tokenIndex
    Gen.C15.unmarshalTables Gen.C15.opConsts

def strOfHex (h : String) : Option Str := (ofHex h).map (·.map (·.toNat))
def hexOfStr (s : Str) : String := toHex (s.map UInt8.ofNat)

def keyOfHex (h : String) : Option String :=
  match ofHex h with
  | some bs =>
    match String.fromUTF8? (ByteArray.mk bs.toArray) with
    | some s => some s
    | none => some (nameOfBytes (bs.map (·.toNat)))
  | none => none

def hexOfKey (k : String) : String := toHex k.toUTF8.toList

/-! #### parsing -/

def optName (s : String) : Option String := if s = "-" then none else some s

def typeOf : SExp → Option GoType
  | .atom "pos" => some .pos
  | .atom "bool" => some .bool
  | .atom "str" => some .str
  | .list [.atom "u", .atom b, .atom o] => b.toNat?.map fun bits => .uint bits (optName o)
  | .list [.atom "p", .atom t] => some (.ptr t)
  | .list [.atom "i", .atom i] => some (.iface i)
  | .list [.atom "sl", e] => (typeOf e).map .slice
  | .list [.atom "sv", .atom t] => some (.struct t (σ.fieldsOf t))
  | .list [.atom "o"] => some (.other "?")
  | _ => none

def posOf : SExp → Option Pos
  | .list [.atom "P", .atom a, .atom b] =>
    match a.toNat?, b.toNat? with
    | some x, some y => some ⟨x, y⟩
    | _, _ => none
  | _ => none

def peOf : SExp → Option (Option (Pos × Pos))
  | .atom "-" => some none
  | .list [.atom a, .atom b, .atom c, .atom d] =>
    match a.toNat?, b.toNat?, c.toNat?, d.toNat? with
    | some a, some b, some c, some d => some (some (⟨a, b⟩, ⟨c, d⟩))
    | _, _, _, _ => none
  | _ => none

mutual
  def valOf : SExp → Option Val
    | .atom "N" => some .nil
    | .atom "IN" => some .inil
    | .atom "SN" => some .snil
    | .atom "O" => some .other
    | .list [.atom "P", a, b] => (posOf (.list [.atom "P", a, b])).map .pos
    | .list [.atom "B", .atom b] => some (.bool (b != "0"))
    | .list [.atom "S", .atom h] => (strOfHex h).map .str
    | .list [.atom "U", .atom b, .atom o, .atom n] =>
      match b.toNat?, n.toNat? with
      | some b, some n => some (.uint b (optName o) n)
      | _, _ => none
    | .list [.atom "R", v] => (valOf v).map .ptr
    | .list [.atom "I", v] => (valOf v).map .iface
    | .list (.atom "L" :: vs) => (valsOf vs).map .slice
    | .list (.atom "T" :: .atom name :: pe :: fs) =>
      match peOf pe, fieldsOf fs with
      | some pe, some fs => some (.struct name pe fs)
      | _, _ => none
    | _ => none
  def valsOf : List SExp → Option (List Val)
    | [] => some []
    | x :: xs =>
      match valOf x, valsOf xs with
      | some v, some vs => some (v :: vs)
      | _, _ => none
  def fieldsOf : List SExp → Option (List (String × Val))
    | [] => some []
    | .list [.atom k, x] :: xs =>
      match valOf x, fieldsOf xs with
      | some v, some vs => some ((k, v) :: vs)
      | _, _ => none
    | _ => none
end

mutual
  def jOf : SExp → Option J
    | .atom "null" => some .null
    | .atom "true" => some (.bool true)
    | .atom "false" => some (.bool false)
    | .atom "frac" => some .frac
    | .list [.atom "n", .atom i] => i.toInt?.map .num
    | .list [.atom "s", .atom h] => (strOfHex h).map .str
    | .list (.atom "a" :: xs) => (jsOf xs).map .arr
    | .list (.atom "o" :: kvs) => (kvsOf kvs).map .obj
    | _ => none
  def jsOf : List SExp → Option (List J)
    | [] => some []
    | x :: xs =>
      match jOf x, jsOf xs with
      | some v, some vs => some (v :: vs)
      | _, _ => none
  def kvsOf : List SExp → Option (List (String × J))
    | [] => some []
    | .list [.atom k, x] :: xs =>
      match keyOfHex k, jOf x, kvsOf xs with
      | some k, some v, some vs => some ((k, v) :: vs)
      | _, _, _ => none
    | _ => none
end

/-! #### printing -/

def showPos (p : Pos) : String := s!"( P {p.offs} {p.lineCol} )"

def showOpt (o : Option String) : String := o.getD "-"

mutual
  def showVal : Val → String
    | .pos p => showPos p
    | .bool b => if b then "( B 1 )" else "( B 0 )"
    | .str s => "( S " ++ hexOfStr s ++ " )"
    | .uint b o n => s!"( U {b} {showOpt o} {n} )"
    | .nil => "N"
    | .ptr v => "( R " ++ showVal v ++ " )"
    | .inil => "IN"
    | .iface v => "( I " ++ showVal v ++ " )"
    | .snil => "SN"
    | .slice vs => "( L" ++ showVals vs ++ " )"
    | .struct name pe fs =>
      let pes := match pe with
        | none => "-"
        | some (p, e) => s!"( {p.offs} {p.lineCol} {e.offs} {e.lineCol} )"
      "( T " ++ name ++ " " ++ pes ++ showFields fs ++ " )"
    | .other => "O"
  def showVals : List Val → String
    | [] => ""
    | v :: vs => " " ++ showVal v ++ showVals vs
  def showFields : List (String × Val) → String
    | [] => ""
    | (k, v) :: fs => " ( " ++ k ++ " " ++ showVal v ++ " )" ++ showFields fs
end

mutual
  def showJ : J → String
    | .null => "null"
    | .bool b => if b then "true" else "false"
    | .num n => s!"( n {n} )"
    | .frac => "frac"
    | .str s => "( s " ++ hexOfStr s ++ " )"
    | .arr xs => "( a" ++ showJs xs ++ " )"
    | .obj kvs => "( o" ++ showKvs kvs ++ " )"
  def showJs : List J → String
    | [] => ""
    | x :: xs => " " ++ showJ x ++ showJs xs
  def showKvs : List (String × J) → String
    | [] => ""
    | (k, x) :: kvs => " ( " ++ hexOfKey k ++ " " ++ showJ x ++ " )" ++ showKvs kvs
end

def showErr : DErr → String
  | .unknownType => "unknownType" | .notAssignable => "notAssignable" | .missingType => "missingType"
  | .objInto => "objInto" | .unknownField => "unknownField" | .arrInto => "arrInto" | .strInto => "strInto"
  | .badOp => "badOp" | .numOp => "numOp" | .numRange => "numRange" | .numInto => "numInto"
  | .valInto => "valInto" | .posKind => "posKind" | .posLen => "posLen" | .posField => "posField"
  | .posFieldKind => "posFieldKind" | .posRange => "posRange" | .nullRoot => "nullRoot"

def showRes : Res Val → String
  | .ok v => "ok " ++ showVal v
  | .err _ => "err"
  | .panic => "panic"

/-! #### the errors Go may report: the map iteration order of `for name, fv := range enc` is
    random, so with several bad fields any of their errors can be the one returned.  `errSet` is the
    set of candidates (empty = success); it is used for the tie only. -/

def resErr {α : Type} : Res α → List DErr
  | .err e => [e]
  | _ => []

mutual
  def errSet (τ : GoType) : J → List DErr
    | .obj kvs =>
      match resolve σ τ (typeName kvs) with
      | .error e => [e]
      | .ok (_, ftys, _) => errSetFields ftys kvs
    | .arr xs =>
      match τ with
      | .slice ε => errSetElems ε xs
      | _ => [.arrInto]
    | .str s => resErr (decodeValue σ true τ (.str s))
    | .num n => resErr (decodeValue σ true τ (.num n))
    | .frac => resErr (decodeValue σ true τ .frac)
    | .bool b => resErr (decodeValue σ true τ (.bool b))
    | .null => []
  def errSetFields (ftys : List (String × GoType)) : List (String × J) → List DErr
    | [] => []
    | (k, jv) :: rest =>
      (if reservedKeys.contains k then [] else
        match (if isExportedName k then ftys.lookup k else none) with
        | none => [DErr.unknownField]
        | some .pos => resErr (decodePos jv)
        | some ft => errSet ft jv) ++ errSetFields ftys rest
  def errSetElems (ε : GoType) : List J → List DErr
    | [] => []
    | x :: rest =>
      match errSet ε x with
      | [] => errSetElems ε rest
      | es => es
end

def rootErrSet (j : J) : List DErr :=
  match errSet (.iface "Node") j with
  | [] => resErr (decodeRoot σ j)
  | es => es

/-! #### ops -/

def showType : GoType → String
  | .pos => "pos"
  | .bool => "bool"
  | .str => "str"
  | .uint b o => s!"( u {b} {showOpt o} )"
  | .ptr t => "( p " ++ t ++ " )"
  | .iface i => "( i " ++ i ++ " )"
  | .slice e => "( sl " ++ showType e ++ " )"
  | .struct t _ => "( sv " ++ t ++ " )"
  | .other _ => "( o )"

def splitArgs (toks : List String) : List SExp :=
  -- several S-expressions in a row: parse them as the elements of one list
  match SExp.parse ("(" :: toks ++ [")"]) with
  | some (.list xs) => xs
  | _ => []

def handle (args : List String) : String :=
  match args with
  | "encode" :: toks =>
    match splitArgs toks with
    | [v] =>
      match valOf v with
      | some v =>
        match encodeRoot σ v with
        | .val j => showJ j
        | .panic => "panic"
      | none => "bad-op"
    | _ => "bad-op"
  | "wf" :: toks =>
    match splitArgs toks with
    | [t, v] =>
      match typeOf t, valOf v with
      | some t, some v => toString (wf σ t v)
      | _, _ => "bad-op"
    | _ => "bad-op"
  | "decode" :: toks =>
    match splitArgs toks with
    | [j] =>
      match jOf j with
      | some j => showRes (decodeRoot σ j)
      | none => "bad-op"
    | _ => "bad-op"
  | "decodeAt" :: toks =>
    match splitArgs toks with
    | [t, j] =>
      match typeOf t, jOf j with
      | some t, some j => showRes (decodeValue σ true t j)
      | _, _ => "bad-op"
    | _ => "bad-op"
  | "errkind" :: kind :: toks =>
    match splitArgs toks with
    | [j] =>
      match jOf j with
      | some j =>
        let es := (rootErrSet j).map showErr
        if es.contains kind then "in" else "notin " ++ ",".intercalate es
      | none => "bad-op"
    | _ => "bad-op"
  | ["fields", t] =>
    " ; ".intercalate ((σ.fieldsOf t).map fun (k, τ) => k ++ " " ++ showType τ)
  | ["impl", i, t] => toString (σ.implements i t)
  | ["optypes"] =>
    " ".intercalate ((Gen.C15.uintFieldTypes.filter fun (_, _, hs, hu, _) => hs || hu).map (·.1))
  | ["newpos", o, l, c] =>
    match o.toNat?, l.toNat?, c.toNat? with
    | some o, some l, some c => showPos (newPos o l c)
    | _, _, _ => "bad-op"
  | ["posparts", a, b] =>
    match a.toNat?, b.toNat? with
    | some a, some b =>
      let p : Pos := ⟨a, b⟩
      s!"{p.offset} {p.line} {p.col} {p.isValid} {p.isRecovered}"
    | _, _ => "bad-op"
  | ["opstr", n] =>
    match n.toNat? with
    | some n => hexOfStr (σ.tokStr n)
    | none => "bad-op"
  | ["unm", t, h] =>
    match strOfHex h with
    | some s =>
      match σ.unm t s with
      | some n => toString n
      | none => "err"
    | none => "bad-op"
  | ["sanitize", h] =>
    match strOfHex h with
    | some s => hexOfStr (sanitize s)
    | none => "bad-op"
  | "specroundtrip" :: toks =>
    -- the property on the model: Decode (Encode v) for a root v, printed; the harness compares it
    -- with the Go tree with recovered positions cleared
    match splitArgs toks with
    | [v] =>
      match valOf v with
      | some v =>
        match encodeRoot σ v with
        | .val j =>
          -- answer in canonical form is the decoded value itself; the harness sends the Go tree
          -- with recovered positions cleared and empty slices nil
          showRes (decodeRoot σ j)
        | .panic => "encode-panic"
      | none => "bad-op"
    | _ => "bad-op"
  | _ => "bad-op"

end ShVerif.Drv.C15
