import ShVerif.Model.C14
import ShVerif.Gen.C14
namespace ShVerif.Drv.C14
open ShVerif ShVerif.C14

mutual
  def treeOf : SExp → Option Tree
    | .list (a :: b :: c :: d :: kids) =>
      match a.atomNat?, b.atomNat?, c.atomNat?, d.atomNat?, treesOf kids with
      | some ty, some id, some slot, some fl, some ks => some (.node ty id slot (fl != 0) ks)
      | _, _, _, _, _ => none
    | _ => none
  def treesOf : List SExp → Option (List Tree)
    | [] => some []
    | x :: xs =>
      match treeOf x, treesOf xs with
      | some t, some ts => some (t :: ts)
      | _, _ => none
end

def tbl : Table := tableOf Gen.C14.schema

def showEv : Ev → String
  | .enter i => s!"e{i}"
  | .leave i => s!"l{i}"
  | .panic => "panic"

def showNats (l : List Nat) : String :=
  if l.isEmpty then "-" else ",".intercalate (l.map toString)

def parseTree (toks : List String) : Option Tree :=
  match SExp.parse toks with
  | some s => treeOf s
  | none => none

def handle (args : List String) : String :=
  match args with
  | "schema" :: idx :: name :: fields =>
    match idx.toNat? with
    | some i =>
      match Gen.C14.schema[i]? with
      | some ti =>
        let want := ti.fields.map fun (p, l) => p ++ ":" ++ (if l then "L" else "S")
        if ti.name = name ∧ want = fields then "ok"
        else "differ " ++ ti.name ++ " " ++ " ".intercalate want
      | none => "differ no-such-type"
    | none => "bad-op"
  | "wf" :: toks =>
    match parseTree toks with
    | some t => toString (wf tbl t)
    | none => "bad-op"
  | "walk" :: which :: toks =>
    match parseTree toks with
    | some t =>
      let keep : Nat → Bool := match which.toNat? with
        | some p => fun i => i != p
        | none => fun _ => true
      " ".intercalate ((walk tbl keep t).map showEv)
    | none => "bad-op"
  | "specvisit" :: toks =>
    match parseTree toks with
    | some t => showNats ((allIds t).mergeSort (· ≤ ·))
    | none => "bad-op"
  | "preorder" :: n :: toks =>
    match n.toNat?, parseTree toks with
    | some n, some t => showNats (preorder tbl t (max n 1))
    | _, _ => "bad-op"
  | _ => "bad-op"

end ShVerif.Drv.C14
