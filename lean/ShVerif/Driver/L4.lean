/-
  Line-protocol codec for the L4 fragment tree, shared by the C01 and C02 drivers.
  Trees travel as S-expressions (tokens separated by blanks, parentheses are tokens):
    File  ( F stmt… )            Stmt ( S pos semi neg bg cmd )      pos  offs:line:col
    Cmd   ( C word… ) | ( P lp rp stmt… ) | ( B lb rb stmt… ) | ( Y oppos and|or|pipe x y )
    Word  ( W part… )            part ( L pos stop hex ) | ( Q left right hex )
  Core Lean only.
-/
import ShVerif.Base.Hex
import ShVerif.Base.SExpr
import ShVerif.Model.L4Syntax
import ShVerif.Model.L4Transcript
namespace ShVerif.Drv.L4
open ShVerif ShVerif.L4

def showPos (p : Pos) : String := s!"{p.offs}:{p.line}:{p.col}"

def readPos (s : String) : Option Pos :=
  match s.splitOn ":" with
  | [a, b, c] => do
    let a ← a.toNat?
    let b ← b.toNat?
    let c ← c.toNat?
    pure ⟨a, b, c⟩
  | _ => none

def showPart : WordPart → String
  | .lit p e v => s!"( L {showPos p} {showPos e} {toHex v} )"
  | .sgl l r v => s!"( Q {showPos l} {showPos r} {toHex v} )"

def showWord (w : Word) : String := "( W " ++ " ".intercalate (w.parts.map showPart) ++ " )"

def showOp : BinOp → String
  | .andStmt => "and" | .orStmt => "or" | .pipe => "pipe"

def b01 (b : Bool) : String := if b then "1" else "0"

mutual
def showStmt : Stmt → String
  | .mk pos semi neg bg cmd => s!"( S {showPos pos} {showPos semi} {b01 neg} {b01 bg} {showCmd cmd} )"
def showCmd : Cmd → String
  | .call args => "( C " ++ " ".intercalate (args.map showWord) ++ " )"
  | .subshell lp rp ss => s!"( P {showPos lp} {showPos rp}{showStmts ss} )"
  | .block lb rb ss => s!"( B {showPos lb} {showPos rb}{showStmts ss} )"
  | .binary opPos op x y => s!"( Y {showPos opPos} {showOp op} {showStmt x} {showStmt y} )"
def showStmts : Stmts → String
  | .nil => ""
  | .cons s r => " " ++ showStmt s ++ showStmts r
end

def showFile (f : File) : String := "( F" ++ showStmts f.stmts ++ " )"

def readPart : SExp → Option WordPart
  | .list [.atom "L", .atom p, .atom e, .atom v] => do
    pure (.lit (← readPos p) (← readPos e) (← ofHex v))
  | .list [.atom "Q", .atom l, .atom r, .atom v] => do
    pure (.sgl (← readPos l) (← readPos r) (← ofHex v))
  | _ => none

def readWord : SExp → Option Word
  | .list (.atom "W" :: parts) => do pure ⟨← parts.mapM readPart⟩
  | _ => none

def readOp : String → Option BinOp
  | "and" => some .andStmt | "or" => some .orStmt | "pipe" => some .pipe | _ => none

def readBool : String → Option Bool
  | "1" => some true | "0" => some false | _ => none

mutual
/-- fuel-bounded decoder (the S-expression is finite; the fuel is its size) -/
def readStmt : Nat → SExp → Option Stmt
  | 0, _ => none
  | n + 1, .list [.atom "S", .atom pos, .atom semi, .atom neg, .atom bg, cmd] => do
    pure (.mk (← readPos pos) (← readPos semi) (← readBool neg) (← readBool bg) (← readCmd n cmd))
  | _, _ => none
def readCmd : Nat → SExp → Option Cmd
  | 0, _ => none
  | _ + 1, .list (.atom "C" :: ws) => do pure (.call (← ws.mapM readWord))
  | n + 1, .list (.atom "P" :: .atom lp :: .atom rp :: ss) => do
    pure (.subshell (← readPos lp) (← readPos rp) (← readStmts n ss))
  | n + 1, .list (.atom "B" :: .atom lb :: .atom rb :: ss) => do
    pure (.block (← readPos lb) (← readPos rb) (← readStmts n ss))
  | n + 1, .list [.atom "Y", .atom opPos, .atom op, x, y] => do
    pure (.binary (← readPos opPos) (← readOp op) (← readStmt n x) (← readStmt n y))
  | _, _ => none
def readStmts : Nat → List SExp → Option Stmts
  | 0, _ => none
  | _ + 1, [] => some .nil
  | n + 1, s :: rest => do pure (.cons (← readStmt n s) (← readStmts n rest))
end

def readFile (n : Nat) : SExp → Option File
  | .list (.atom "F" :: ss) => do pure ⟨← readStmts n ss⟩
  | _ => none

/-- `i<indent>[,bn][,ci][,sr][,kp][,fn][,mn][,sl]` -/
def readOpts (s : String) : Option Opts :=
  match s.splitOn "," with
  | [] => none
  | i :: flags =>
    if !i.startsWith "i" then none else
    match (i.drop 1).toNat? with
    | none => none
    | some n =>
      flags.foldl (fun acc f => acc.bind fun o =>
        match f with
        | "bn" => some { o with binNextLine := true }
        | "ci" => some { o with swtCaseIndent := true }
        | "sr" => some { o with spaceRedirects := true }
        | "kp" => some { o with keepPadding := true }
        | "fn" => some { o with funcNextLine := true }
        | "mn" => some { o with minify := true }
        | "sl" => some { o with singleLine := true }
        | _ => none) (some { indent := n })

def readLang : String → Option Lang
  | "bash" => some .bash | "posix" => some .posix | "mksh" => some .mksh
  | "bats" => some .bats | "zsh" => some .zsh | _ => none

def showPrint : Except PrintErr Bytes → String
  | .ok b => "ok " ++ toHex b
  | .error .minifySingleLine => "refused"
  | .error .panic => "panic"

def showParse : Except ParseErr File → String
  | .ok f => "ok " ++ showFile f
  | .error .outside => "outside"
  | .error (.syntax _) => "error"
  | .error .outOfFuel => "out-of-fuel"

/-- ops shared by C01 and C02:
    `print <opts> file|stmt|cmd|word <sexp…>`  model printer;
    `parse <lang> <hex>`                        model parser;
    `reprint <opts> <lang> <hex>`               print (parse src) — both passes in the model;
    `specrt <opts> <lang> <hex>`                C01's statement evaluated on the model;
    `specidem <opts> <lang> <hex>`              C02's statement evaluated on the model;
    `spectr <opts> <lang> <hex>`                is the re-parsed tree a transcript of the first
                                                printing pass (`trFileB`, the hypothesis of
                                                `reprint_fixpoint`)?  Model-internal;
    `spectrfile <opts> <n> <sexp f> <sexp f'>`  `trFileB o f f'` on two given trees (the harness
                                                sends the Go parser's tree of the source and of
                                                the Go printer's output; `n` = tokens of the
                                                first S-expression). -/
def handle (args : List String) : String :=
  match args with
  | "print" :: opts :: kind :: sexp =>
    match readOpts opts, SExp.parse sexp with
    | some o, some e =>
      let n := sexp.length + 1
      match kind with
      | "file" => match readFile n e with
        | some f => showPrint (printFile o f)
        | none => "bad-tree"
      | "stmt" => match readStmt n e with
        | some s => showPrint (printStmt o s)
        | none => "bad-tree"
      | "cmd" => match readCmd n e with
        | some c => showPrint (printCmd o c)
        | none => "bad-tree"
      | "word" => match readWord e with
        | some w => showPrint (printWord o w)
        | none => "bad-tree"
      | _ => "bad-op"
    | _, _ => "bad-op"
  | ["parse", lang, src] =>
    match readLang lang, ofHex src with
    | some l, some b => showParse (parse l b)
    | _, _ => "bad-op"
  | ["reprint", opts, lang, src] =>
    match readOpts opts, readLang lang, ofHex src with
    | some o, some l, some b =>
      match parse l b with
      | .ok f => showPrint (printFile o f)
      | .error .outside => "outside"
      | .error _ => "error"
    | _, _, _ => "bad-op"
  | ["specrt", opts, lang, src] =>
    match readOpts opts, readLang lang, ofHex src with
    | some o, some l, some b => specRoundTrip o l b
    | _, _, _ => "bad-op"
  | ["specidem", opts, lang, src] =>
    match readOpts opts, readLang lang, ofHex src with
    | some o, some l, some b => specIdempotent o l b
    | _, _, _ => "bad-op"
  | "spectrfile" :: opts :: n1 :: rest =>
    match readOpts opts, n1.toNat? with
    | some o, some k =>
      let s1 := rest.take k
      let s2 := rest.drop k
      match SExp.parse s1, SExp.parse s2 with
      | some e1, some e2 =>
        match readFile (s1.length + 1) e1, readFile (s2.length + 1) e2 with
        | some f, some f' => if trFileB o f f' then "true" else "false"
        | _, _ => "bad-tree"
      | _, _ => "bad-op"
    | _, _ => "bad-op"
  | ["specnested", opts, lang, src] =>
    match readOpts opts, readLang lang, ofHex src with
    | some o, some l, some b => specNested o l b
    | _, _, _ => "bad-op"
  | ["spectr", opts, lang, src] =>
    match readOpts opts, readLang lang, ofHex src with
    | some o, some l, some b => specTranscript o l b
    | _, _, _ => "bad-op"
  | _ => "bad-op"

end ShVerif.Drv.L4
