import ShVerif.Base.Hex
/-
  C33 — Indexed arrays behave like a map from indices to values.

  Model of
    * internal/sparse.go      IndexedMax, SetIndexedElem, DeleteIndexedElem, CanonicalIndexes
    * expand/environ.go       Variable.indexedVal, Variable.indexedKeys
    * expand/expand.go        Config.sliceElems (the non-positional branch used for arrays)
    * expand/param.go         varInd's negative-index resolution for `${a[i]}`
    * interp/vars.go          assignVal (array literal loop, `a+=s`, `a[i]+=s`), setVarWithIndex,
                              unsetElem, as `applyOp`
  Go slices are immutable lists here (aliasing is property C27's business).  Go `int` is `Int`.
  A Go panic (index out of range, slice bounds) is the explicit value `Res.panic`.
  The specification is a finite map `Int ⇀ Str` kept as a strictly sorted association list, with
  the bash semantics of every operation.
-/
namespace ShVerif.C33

abbrev Str := Bytes

inductive Res (α : Type) where
  | ok (a : α)
  | panic
  deriving DecidableEq, Repr

/-- The Go representation of an indexed array: `Variable.List` and `Variable.Indexes`
    (`none` is the nil slice: the array is dense). -/
structure Arr where
  list : List Str
  idx : Option (List Int)
  deriving DecidableEq, Repr

/-! ### Go library functions used by the code -/

/-- The loop of Go's `slices.BinarySearch` (`cmp.Less(x[h], target)`), on fuel. -/
def bsearch (xs : List Int) (k : Int) : Nat → Nat → Nat → Nat
  | 0, i, _ => i
  | fuel + 1, i, j =>
    if i < j then
      let h := (i + j) / 2
      if xs.getD h 0 < k then bsearch xs k fuel (h + 1) j else bsearch xs k fuel i h
    else i

/-- `slices.BinarySearch(xs, k)`: position and whether `k` was found. -/
def search (xs : List Int) (k : Int) : Nat × Bool :=
  let i := bsearch xs k (xs.length + 1) 0 xs.length
  (i, decide (i < xs.length) && xs.getD i 0 == k)

/-- `slices.Insert(l, n, a)` for `n ≤ len(l)` (callers guard the bounds-check panic). -/
def insertAt {α : Type} : List α → Nat → α → List α
  | l, 0, a => a :: l
  | [], _ + 1, a => [a]
  | x :: xs, n + 1, a => x :: insertAt xs n a

/-- `slices.Delete(l, n, n+1)` for `n < len(l)`. -/
def removeAt {α : Type} : List α → Nat → List α
  | [], _ => []
  | _ :: xs, 0 => xs
  | x :: xs, n + 1 => x :: removeAt xs n

/-- `s, s+1, …` (`n` of them): what `for i := range indexes { indexes[i] = i }` builds. -/
def iotaFrom (s : Int) : Nat → List Int
  | 0 => []
  | n + 1 => s :: iotaFrom (s + 1) n

def isIotaFrom (s : Int) : List Int → Bool
  | [] => true
  | k :: ks => k == s && isIotaFrom (s + 1) ks

/-! ### internal/sparse.go -/

/-- `IndexedMax`: `len(indexes) > 0` → last index, else `len(list) - 1`. -/
def indexedMax (a : Arr) : Int :=
  match a.idx with
  | some (x :: xs) => (x :: xs).getLastD 0
  | _ => (a.list.length : Int) - 1

/-- `CanonicalIndexes`. -/
def canonical : Option (List Int) → Option (List Int)
  | none => none
  | some ix => if isIotaFrom 0 ix then none else some ix

/-- The common tail of `SetIndexedElem` once `indexes` is non-nil. -/
def sparseSet (list : List Str) (ix : List Int) (k : Int) (val : Str) : Res Arr :=
  let (pos, found) := search ix k
  if found then
    if pos < list.length then .ok ⟨list.set pos val, some ix⟩ else .panic   -- list[pos] = val
  else if pos ≤ list.length then                                            -- slices.Insert bounds
    .ok ⟨insertAt list pos val, canonical (some (insertAt ix pos k))⟩
  else .panic

/-- `SetIndexedElem(list, indexes, k, val)`.  The Go doc says "k must not be negative": a negative
    `k` on a dense array reaches `list[k]` and panics; on a sparse array it is inserted in front. -/
def setElem (a : Arr) (k : Int) (val : Str) : Res Arr :=
  match a.idx with
  | none =>
    if k < a.list.length then
      if k < 0 then .panic else .ok ⟨a.list.set k.toNat val, none⟩
    else if k = a.list.length then .ok ⟨a.list ++ [val], none⟩
    else sparseSet a.list (iotaFrom 0 a.list.length) k val
  | some ix => sparseSet a.list ix k val

/-- The common tail of `DeleteIndexedElem`. -/
def sparseDel (list : List Str) (ix : List Int) (k : Int) : Res Arr :=
  let (pos, found) := search ix k
  if !found then .ok ⟨list, some ix⟩
  else if pos + 1 ≤ list.length then                                        -- slices.Delete bounds
    .ok ⟨removeAt list pos, canonical (some (removeAt ix pos))⟩
  else .panic

/-- `DeleteIndexedElem(list, indexes, k)`. -/
def deleteElem (a : Arr) (k : Int) : Res Arr :=
  match a.idx with
  | none =>
    if k < 0 ∨ k ≥ a.list.length then .ok ⟨a.list, none⟩
    else if k = (a.list.length : Int) - 1 then .ok ⟨a.list.take k.toNat, none⟩
    else sparseDel a.list (iotaFrom 0 a.list.length) k
  | some ix => sparseDel a.list ix k

/-! ### expand/environ.go -/

/-- `Variable.indexedVal(i)`: `ok none` is `("", false)`; `v.List[pos]` out of range panics. -/
def indexedVal (a : Arr) (i : Int) : Res (Option Str) :=
  match a.idx with
  | some ix =>
    let (pos, found) := search ix i
    if found then
      match a.list[pos]? with
      | some s => .ok (some s)
      | none => .panic
    else .ok none
  | none =>
    if i < a.list.length then
      if i < 0 then .panic
      else match a.list[i.toNat]? with
        | some s => .ok (some s)
        | none => .panic
    else .ok none

/-- `Variable.indexedKeys()` (as integers; the Go code prints them with `strconv.Itoa`). -/
def indexedKeys (a : Arr) : Res (List Int) :=
  match a.idx with
  | none => .ok (iotaFrom 0 a.list.length)
  | some ix => if a.list.length ≤ ix.length then .ok (ix.take a.list.length) else .panic

/-! ### expand/expand.go `sliceElems` (positional = false) -/

/-- The closure `slicePos` over the current `elems`. -/
def slicePos (len : Nat) (n : Int) : Nat :=
  if n < 0 then
    let m := (len : Int) + n
    if m < 0 then len else m.toNat
  else if n > len then len else n.toNat

/-- The `pe.Slice.Offset != nil` part of `sliceElems` (`none` = no offset). -/
def sliceOffset (a : Arr) : Option Int → Res (List Str)
  | none => .ok a.list
  | some off =>
    match a.idx with
    | some (x :: xs) =>
      -- "Sparse arrays slice by index": len(indexes) > 0
      let last := (x :: xs).getLastD 0
      let off := if off < 0 then (if off + (last + 1) < 0 then last + 1 else off + (last + 1)) else off
      let pos := (search (x :: xs) off).1
      if pos ≤ a.list.length then .ok (a.list.drop pos) else .panic
    | _ => .ok (a.list.drop (slicePos a.list.length off))

/-- `sliceElems(pe, elems, indexes, false)` with `pe.Slice = {Offset, Length}` already evaluated
    (`none` = absent). -/
def sliceElems (a : Arr) (offset length : Option Int) : Res (List Str) :=
  match sliceOffset a offset with
  | .panic => .panic
  | .ok elems =>
    match length with
    | none => .ok elems
    | some l => .ok (elems.take (slicePos elems.length l))

/-! ### expand/param.go `varInd` on an indexed array: `${a[i]}` -/

inductive ReadRes where
  | val (s : Str)      -- element is set
  | unset              -- no such element
  | err                -- "negative array index"
  | panic
  deriving DecidableEq, Repr

def elemRead (a : Arr) (i : Int) : ReadRes :=
  let i' := if i < 0 then i + (indexedMax a + 1) else i
  if i' < 0 then .err
  else match indexedVal a i' with
    | .ok (some s) => .val s
    | .ok none => .unset
    | .panic => .panic

/-! ### interp/vars.go: variables and the operations on them -/

inductive Kind where
  | unknown   -- unset variable (the zero `expand.Variable`)
  | str       -- expand.String
  | indexed   -- expand.Indexed
  deriving DecidableEq, Repr

/-- The fields of `expand.Variable` the array code reads and writes.  `str` survives array
    assignments (the code only overwrites `Kind`, `List`, `Indexes`) — it is observable through
    the `a[i]+=v` path. -/
structure Var where
  kind : Kind
  set : Bool       -- Variable.Set: what `IsSet` reports, and what the `unset` builtin looks at
  str : Str
  arr : Arr
  /-- `Variable.List == nil` although the variable is an array.  The expansion code tells nil and
      empty apart (`"${a[@]}"` of a nil list yields one empty field), which is why every operation
      stores `[]string{}`; since 87a26e0 (`read -a`, `mapfile`) no modelled operation produces a
      nil list, so the flag stays false.  It is kept so that the final-variable probe (`progrep`)
      can say so. -/
  nilList : Bool
  deriving DecidableEq, Repr

def Var.zero : Var := ⟨.unknown, false, [], ⟨[], none⟩, false⟩

/-- One element of an array literal: `w` or `[i]=w` (indices already evaluated). -/
inductive Elem where
  | plain (v : Str)
  | at (i : Int) (v : Str)
  deriving DecidableEq, Repr

inductive Op where
  | assign (es : List Elem)        -- a=(…)
  | append (es : List Elem)        -- a+=(…)
  | setElem (i : Int) (v : Str)    -- a[i]=v
  | appElem (i : Int) (v : Str)    -- a[i]+=v
  | setStr (v : Str)               -- a=v
  | appStr (v : Str)               -- a+=v
  | unsetElem (i : Int)            -- unset 'a[i]'
  | unsetAll                       -- unset a
  | readArr (vs : List Str)        -- read -a a   (fields already split)
  | mapfile (vs : List Str)        -- mapfile -t a / readarray -t a   (lines already split)
  deriving DecidableEq, Repr

/-- The element loop of `assignVal` ("Evaluate values for each array element").  A negative
    explicit index that is still negative after adding max+1 prints "bad array subscript" and
    `continue`s: that element is skipped, the index counter is left unchanged (like bash). -/
def litLoop (a : Arr) (index : Int) : List Elem → Res Arr
  | [] => .ok a
  | .at i v :: rest =>
    let k := if i < 0 then i + (indexedMax a + 1) else i
    if k < 0 then litLoop a index rest
    else match setElem a k v with
      | .ok a' => litLoop a' (k + 1) rest
      | .panic => .panic
  | .plain v :: rest =>
    match setElem a index v with
    | .ok a' => litLoop a' (index + 1) rest
    | .panic => .panic

/-- The base list of `a+=(…)` and of `a[i]=v`: `switch prev.Kind`. -/
def baseArr (v : Var) : Arr :=
  match v.kind with
  | .unknown => ⟨[], none⟩
  | .str => ⟨[v.str], none⟩
  | .indexed => v.arr

/-- `setVarWithIndex` with a non-nil index `k` and value `valStr`.  An out-of-range negative index
    reports "bad array subscript" and leaves the variable alone.  The variable stored is the
    caller's `prev` with `Kind`, `List`, `Indexes` replaced and `Set = true`. -/
def setWithIndex (v : Var) (base : Arr) (k : Int) (valStr : Str) : Res Var :=
  let k' := if k < 0 then k + (indexedMax base + 1) else k
  if k' < 0 then .ok v
  else match setElem base k' valStr with
    | .ok a' => .ok ⟨.indexed, true, v.str, a', false⟩
    | .panic => .panic

def optStr : Option Str → Str
  | some s => s
  | none => []

/-- `setVarWithIndex` with `appendElem` (`name[i]+=s`; `assignVal` hands over just `s`): the
    current element at the resolved index, if any, is put in front of the value — found with
    the same code shape as `indexedVal` (binary search in `indexes`, or `k < len(list)`). -/
def appendWithIndex (v : Var) (base : Arr) (k : Int) (s : Str) : Res Var :=
  let k' := if k < 0 then k + (indexedMax base + 1) else k
  if k' < 0 then .ok v
  else match indexedVal base k' with
    | .panic => .panic
    | .ok cur =>
      match setElem base k' (optStr cur ++ s) with
      | .ok a' => .ok ⟨.indexed, true, v.str, a', false⟩
      | .panic => .panic

/-- `assignVal`'s `a+=s` on an indexed array: "Appends to the element at index 0". -/
def appendZero (a : Arr) (s : Str) : Res Arr :=
  match a.list with
  | x :: xs =>
    match a.idx with
    | none => .ok ⟨(x ++ s) :: xs, none⟩
    | some [] => .panic                                   -- prev.Indexes[0] out of range
    | some (i0 :: is) =>
      if i0 = 0 then .ok ⟨(x ++ s) :: xs, some (i0 :: is)⟩ else setElem a 0 s
  | [] => setElem a 0 s

/-- The array variable `assignVal` returns (`prev.Set = true`), stored as is. -/
def liftArr (v : Var) : Res Arr → Res Var
  | .ok a => .ok ⟨.indexed, true, v.str, a, false⟩
  | .panic => .panic

/-- One assignment / unset statement on one variable: `assignVal` followed by `setVarWithIndex`
    (runner.go:433), or `unsetElem` / `delVar`. -/
def applyOp (v : Var) : Op → Res Var
  | .assign es => liftArr v (litLoop ⟨[], none⟩ 0 es)
  | .append es => liftArr v (litLoop (baseArr v) (indexedMax (baseArr v) + 1) es)
  | .setElem i s => setWithIndex v (baseArr v) i s
  | .setStr s =>
    match v.kind with
    | .indexed => setWithIndex v v.arr 0 s          -- "fall back to the zero value for the index"
    | _ => .ok ⟨.str, true, s, v.arr, v.nilList⟩
  | .appStr s =>
    match v.kind with
    | .indexed => liftArr v (appendZero v.arr s)
    | _ => .ok ⟨.str, true, v.str ++ s, v.arr, v.nilList⟩
  | .appElem i s => appendWithIndex v (baseArr v) i s
  | .unsetElem i =>
    match v.kind with
    | .indexed =>
      let k := if i < 0 then i + (indexedMax v.arr + 1) else i
      if k < 0 then .ok v
      else match deleteElem v.arr k with
        | .ok a' => .ok ⟨.indexed, v.set, v.str, a', v.nilList⟩
        | .panic => .panic
    | .str => if i = 0 then .ok Var.zero else .ok v    -- only the literal subscript "0" deletes
    | .unknown => .ok v
  | .unsetAll => if v.set then .ok Var.zero else .ok v   -- builtin unset: `lookupVar(arg).IsSet()`
  -- builtin read -a: `r.setVar(arrayName, expand.Variable{Set: true, Kind: Indexed, List: values})`,
  -- a fresh variable: nil Indexes, empty Str, and `[]string{}` rather than nil for no fields
  | .readArr vs => .ok ⟨.indexed, true, [], ⟨vs, none⟩, false⟩
  -- builtin mapfile: `var vr expand.Variable; vr.Kind = Indexed; vr.Set = true; vr.List = []string{}`
  -- then one append per line: also a fresh variable
  | .mapfile vs => .ok ⟨.indexed, true, [], ⟨vs, none⟩, false⟩

def runOps (v : Var) : List Op → Res Var
  | [] => .ok v
  | op :: ops =>
    match applyOp v op with
    | .ok v' => runOps v' ops
    | .panic => .panic

/-! ### Specification: a finite map Int ⇀ Str as a strictly sorted association list -/

abbrev SMap := List (Int × Str)

namespace SMap

def lookup : SMap → Int → Option Str
  | [], _ => none
  | (k', v') :: m, k => if k = k' then some v' else lookup m k

def insert : SMap → Int → Str → SMap
  | [], k, v => [(k, v)]
  | (k', v') :: m, k, v =>
    if k < k' then (k, v) :: (k', v') :: m
    else if k = k' then (k, v) :: m
    else (k', v') :: insert m k v

def erase : SMap → Int → SMap
  | [], _ => []
  | (k', v') :: m, k => if k = k' then m else (k', v') :: erase m k

def keys (m : SMap) : List Int := m.map (·.1)
def vals (m : SMap) : List Str := m.map (·.2)

/-- Largest key, or -1 for the empty map. -/
def maxKey : SMap → Int
  | [] => -1
  | [(k, _)] => k
  | _ :: p :: m => maxKey (p :: m)

/-- Keys strictly increasing (hence unique): the canonical form of a finite map. -/
def Sorted (m : SMap) : Prop := m.Pairwise (fun a b => a.1 < b.1)

end SMap

/-- bash: a negative subscript counts back from one past the largest index. -/
def resolve (m : SMap) (i : Int) : Int := if i < 0 then i + (m.maxKey + 1) else i

/-- bash's compound assignment: words go to successive indices, `[i]=w` moves the counter; an
    element whose (resolved) subscript is negative is reported and *skipped*. -/
def specLit (m : SMap) (index : Int) : List Elem → SMap
  | [] => m
  | .plain v :: rest => specLit (m.insert index v) (index + 1) rest
  | .at i v :: rest =>
    let j := resolve m i
    if j < 0 then specLit m index rest
    else specLit (m.insert j v) (j + 1) rest

/-- The map of a list whose elements sit at `s, s+1, …`. -/
def enumFrom (s : Int) : List Str → SMap
  | [] => []
  | x :: xs => (s, x) :: enumFrom (s + 1) xs

/-- The specification's view of a shell variable: bash distinguishes an unset variable, a scalar
    and an array (a scalar reads like the one-element array `{0 ↦ s}`, but `unset 's[i]'` and
    `s=v` treat it differently), so the map comes with that tag (`Kind.unknown` = unset,
    `Kind.str` = scalar, `Kind.indexed` = array). -/
structure SVar where
  kind : Kind
  m : SMap
  deriving DecidableEq, Repr

def SVar.unset : SVar := ⟨.unknown, []⟩

/-- bash semantics of every operation. -/
def specOp (x : SVar) : Op → SVar
  | .assign es => ⟨.indexed, specLit [] 0 es⟩
  | .append es => ⟨.indexed, specLit x.m (x.m.maxKey + 1) es⟩
  | .setElem i s =>
    let j := resolve x.m i
    if j < 0 then x else ⟨.indexed, x.m.insert j s⟩
  | .appElem i s =>
    let j := resolve x.m i
    if j < 0 then x else ⟨.indexed, x.m.insert j (optStr (x.m.lookup j) ++ s)⟩
  | .setStr s =>
    match x.kind with
    | .indexed => ⟨.indexed, x.m.insert 0 s⟩
    | _ => ⟨.str, [(0, s)]⟩
  | .appStr s =>
    match x.kind with
    | .indexed => ⟨.indexed, x.m.insert 0 (optStr (x.m.lookup 0) ++ s)⟩
    | _ => ⟨.str, [(0, optStr (x.m.lookup 0) ++ s)]⟩
  | .unsetElem i =>
    match x.kind with
    | .indexed =>
      let j := resolve x.m i
      if j < 0 then x else ⟨.indexed, x.m.erase j⟩
    | .str => if i = 0 then SVar.unset else x     -- "not an array variable" for any other subscript
    | .unknown => x
  | .unsetAll => SVar.unset
  | .readArr vs => ⟨.indexed, enumFrom 0 vs⟩      -- the fields become elements 0, 1, 2, …
  | .mapfile vs => ⟨.indexed, enumFrom 0 vs⟩

def specRun (x : SVar) (ops : List Op) : SVar := ops.foldl specOp x

/-- `${a[i]}`. -/
def specRead (m : SMap) (i : Int) : ReadRes :=
  let j := resolve m i
  if j < 0 then .err
  else match m.lookup j with
    | some s => .val s
    | none => .unset

/-- The elements whose index is at least the offset; a negative offset counts back from one past
    the largest index (and selects nothing when it is still negative). -/
def specOffset (m : SMap) : Option Int → SMap
  | none => m
  | some off =>
    let o := if off < 0 then (if off + (m.maxKey + 1) < 0 then m.maxKey + 1 else off + (m.maxKey + 1)) else off
    m.filter (fun p => decide (o ≤ p.1))

/-- `${a[@]:off:len}`: the elements whose index is at least the (resolved) offset, the first
    `len` of them.  A negative length is an error in bash ("substring expression < 0"): `none`. -/
def specSlice (m : SMap) (offset length : Option Int) : Option (List Str) :=
  match length with
  | none => some (specOffset m offset).vals
  | some l => if l < 0 then none else some ((specOffset m offset).vals.take l.toNat)

/-! ### Abstraction -/

/-- The map an array representation stands for. -/
def Arr.abs (a : Arr) : SMap :=
  match a.idx with
  | none => enumFrom 0 a.list
  | some ix => ix.zip a.list

/-- A scalar is the one-element map `{0 ↦ s}`, an unset variable the empty map. -/
def Var.absMap (v : Var) : SMap :=
  match v.kind with
  | .unknown => []
  | .str => [(0, v.str)]
  | .indexed => v.arr.abs

def Var.abs (v : Var) : SVar := ⟨v.kind, v.absMap⟩

def Increasing (l : List Int) : Prop := l.Pairwise (· < ·)

/-- The representation invariant documented at `Variable.Indexes`: indices unique, non-negative,
    sorted, as many as the list elements; nil iff the array is dense. -/
structure Arr.WF (a : Arr) : Prop where
  shape : ∀ ix, a.idx = some ix →
    ix.length = a.list.length ∧ Increasing ix ∧ (∀ k ∈ ix, 0 ≤ k) ∧ isIotaFrom 0 ix = false

/-- Variables: the array part is well-formed, and an unset variable carries no stale string (it
    is the zero `expand.Variable`). -/
structure Var.WF (v : Var) : Prop where
  arr : v.arr.WF
  zero : v.kind = .unknown → v.str = []

/-- Every scalar or array `IsSet()` (what the `unset` builtin looks at); kept by every operation. -/
def Var.SetOK (v : Var) : Prop := v.kind ≠ .unknown → v.set = true

/-- `unset a` takes effect only on a variable that `IsSet()`: the side condition under which a
    single step refines bash.  `run_always_ok` shows it holds along every run. -/
def opOK (v : Var) : Op → Bool
  | .unsetAll => v.set || v.kind == .unknown
  | _ => true

def runOK (v : Var) : List Op → Bool
  | [] => true
  | op :: ops =>
    opOK v op &&
      match applyOp v op with
      | .ok v' => runOK v' ops
      | .panic => false

end ShVerif.C33
