/-
  C26 — the interpreter runs supported programs like bash.

  `ShVerif.Model.L5Run`  : the executable model of `interp.Runner` on the skeleton (`run`, `runFile`);
  `ShVerif.Model.L5Bash` : the declarative specification `BashSem` (`sem`, `semFile`);
  this file              : `supported`, the static description of the part of the skeleton on
                           which the two are *proved* equal (Props/C26.lean).  Every clause that
                           excludes something is there because the interpreter and bash really
                           differ on it; the clause names the entry of `known-findings.jsonl`.
  Core Lean only.
-/
import ShVerif.Model.L5Run
import ShVerif.Model.L5Bash
namespace ShVerif.C26
open ShVerif.L5

/-- Static context of a position in a program. -/
structure SCtx where
  /-- mode of the whole program: `set -e` may occur somewhere -/
  e : Bool
  /-- this position is syntactically inside a context where bash ignores `-e` -/
  ign : Bool := false
  /-- inside a function body: whether `-e` is ignored depends on the caller -/
  unk : Bool := false
  /-- inside a function body, in the shell process that called it (`return` works) -/
  fn : Bool := false
  /-- in the top-level shell process and not in a function body (`trap … EXIT` allowed) -/
  top : Bool := true
  /-- one entry per enclosing loop, innermost first: is this position such that nothing else
      runs between it and the `loopStmtsBroken` check of that loop? -/
  tl : List Bool := []

/-- Simple commands without control effects. -/
def pureCmd : Cmd → Bool
  | .tru | .fls | .echo _ | .test _ _ _ | .assign _ _ => true
  | _ => false

/-- Last stages of pipelines: simple commands that leave no trace in the shell that runs them
    (the interpreter runs the last stage in the current shell, bash in a subshell). -/
def pipeRCmd : Cmd → Bool
  | .tru | .fls | .echo _ | .test _ _ _ => true
  | _ => false

/-- Commands that always return status 0. -/
def zeroCmd : Cmd → Bool
  | .tru | .echo _ | .assign _ _ | .setE _ | .setPF _ | .trapExit _ | .fn _ _ | .brk _ | .cont _ => true
  | _ => false

def partNoStatus : Part → Bool
  | .status => false
  | _ => true

/-- Trap actions of the supported fragment: `echo`, `true`. -/
def simpleTrapStmt : Stmt → Bool
  | .mk false (.echo _) => true
  | .mk false .tru => true
  | _ => false

def simpleTrap : Prog → Bool
  | .nil => true
  | .cons s r => simpleTrapStmt s && simpleTrap r

def headFalse : List Bool → List Bool
  | [] => []
  | _ :: r => false :: r

def lastStmt : Prog → Option Stmt
  | .nil => none
  | .cons s .nil => some s
  | .cons _ r => lastStmt r

mutual
  /-- [finding C26-compound-errexit] a statement that may end a `{ }`, `if`, `for`, `case`, function
      body where `-e` applies must not return a non-zero status "because a command failed while `-e`
      was being ignored": not `! cmd`, not a list ending in `&&`. -/
  def tailOkS : Stmt → Bool
    | .mk neg c => !neg && tailOkC c
  def tailOkC : Cmd → Bool
    | .and _ _ => false
    | .or _ y => tailOkS y
    | _ => true
end

def tailOk (p : Prog) : Bool :=
  match lastStmt p with
  | none => true
  | some s => tailOkS s

/-- [finding C26-while-status] the last statement of a `while`/`until` body always returns 0. -/
def lastZero (p : Prog) : Bool :=
  match lastStmt p with
  | none => true
  | some (.mk neg c) => !neg && zeroCmd c

def levelsOk (tl : List Bool) (n : Option Int) : Bool :=
  let m := optInt n
  decide (1 ≤ m) && decide (m.toNat ≤ tl.length) && (tl.take m.toNat).all id

def subCtx (k : SCtx) : SCtx := { e := k.e, top := false }

def fnCtx (k : SCtx) : SCtx := { e := k.e, unk := true, fn := true, top := false }

mutual
  def supStmt (k : SCtx) : Stmt → Bool
    | .mk true c =>
      -- [findings C26-negation-errexit, C26-negated-exit] `!` only in front of a simple command
      -- without control effect (or, without `set -e`, of a subshell)
      pureCmd c || (!k.e && supNegSub k c)
    | .mk false c => supCmd k c
  /-- a negated subshell, in programs without `set -e` -/
  def supNegSub (k : SCtx) : Cmd → Bool
    | .subsh p => !p.isNil && supProg (subCtx k) false p
    | _ => false
  def supCmd (k : SCtx) : Cmd → Bool
    | .tru | .fls | .echo _ | .test _ _ _ | .assign _ _ | .setPF _ | .exit _ | .call _ => true
    | .setE on => !on || k.e
    -- [finding C26-return-status; `return` outside a function: the repository's `#JUSTERR` case]
    | .ret n => n.isSome && k.fn
    -- [findings C26-break-nested, C26-break-count, C26-break-function]
    | .brk n => levelsOk k.tl n
    | .cont n => levelsOk k.tl n
    -- [findings C26-exit-trap-subshell, C26-trap-exit-status]
    | .trapExit b => k.top && simpleTrap b
    -- [finding C26-err-trap] ERR traps are outside the proved fragment
    | .trapErr b => b.isNil
    -- [finding C26-subshell-errexit-ignored]
    | .assignSub _ p => !p.isNil && !(k.e && (k.ign || k.unk)) && supProg (subCtx k) false p
    | .subsh p => !p.isNil && !(k.e && (k.ign || k.unk)) && supProg (subCtx k) false p
    -- [finding C26-status-after-cmdsubst] no `$?` after the substitution in the same word
    | .echoSub _ p w2 =>
      !p.isNil && !(k.e && (k.ign || k.unk)) && supProg (subCtx k) false p && w2.all partNoStatus
    | .block p => !p.isNil && supProg k true p
    | .and x y => supStmt { k with ign := true, tl := headFalse k.tl } x && supStmt k y
    | .or x y => supStmt { k with ign := true, tl := headFalse k.tl } x && supStmt k y
    -- [finding C26-pipeline-last-stage] the last stage is a simple command without effect
    | .pipe x y =>
      !(k.e && (k.ign || k.unk)) && supPipeL k x && supPipeR y
    | .ifc c t e =>
      !c.isNil && supProg { k with ign := true, tl := headFalse k.tl } false c
        && !t.isNil && supProg k true t && supElse k e
    | .whl _ c b =>
      !c.isNil && supProg { k with ign := true, tl := headFalse k.tl } false c
        && !b.isNil && supBody { k with tl := true :: k.tl } b && lastZero b
    | .forc _ _ b =>
      !b.isNil && supBody { k with tl := true :: k.tl } b && (!k.e || k.ign || tailOk b)
    | .case _ is => supItems k false is
    | .fn _ (.mk false (.block p)) => !p.isNil && supProg (fnCtx k) true p
    | .fn _ _ => false
  /-- left operand of a pipeline: a non-negated statement run in a subshell -/
  def supPipeL (k : SCtx) : Stmt → Bool
    | .mk false c => supCmd (subCtx k) c
    | .mk true _ => false
  def supPipeR : Stmt → Bool
    | .mk false c => pipeRCmd c
    | .mk true _ => false
  /-- a statement list; `tailRule`: the list is the body of a `{ }`, an `if` branch, a `case` item
      or a function, whose last statement carries the position's tail flags and is subject to
      `tailOk`. -/
  def supProg (k : SCtx) (tailRule : Bool) : Prog → Bool
    | .nil => true
    | .cons s .nil =>
      supStmt k s && (!tailRule || !k.e || k.ign || tailOkS s)
    | .cons s r => supStmt { k with tl := headFalse k.tl } s && supProg k tailRule r
  /-- a loop body: control is back in `loopStmtsBroken` after each statement -/
  def supBody (k : SCtx) : Prog → Bool
    | .nil => true
    | .cons s r => supStmt k s && supBody k r
  def supElse (k : SCtx) : Else → Bool
    | .none => true
    | .els p => !p.isNil && supProg k true p
    | .elif c t e =>
      !c.isNil && supProg { k with ign := true, tl := headFalse k.tl } false c
        && !t.isNil && supProg k true t && supElse k e
  /-- [finding C26-case-empty-clause] `chain`: an earlier item ends in `;&` or `;;&`; an empty
      clause may then run after a failing one. -/
  def supItems (k : SCtx) (chain : Bool) : Items → Bool
    | .nil => true
    | .cons _ b op r =>
      !(chain && b.isNil) &&
      (match op with
       | .brk => supProg k true b && supItems k chain r
       | _ => supProg { k with tl := headFalse k.tl } true b && supItems k true r)
end

/-- Does `set -e` occur nowhere?  (Then mode `e = false` applies.) -/
def supportedProg (e : Bool) (p : Prog) : Bool := supProg { e := e } false p

end ShVerif.C26
