import ShVerif.Base.SExpr
/-
  C14 — generic model of syntax.Walk / syntax.Preorder over trees of an arbitrary node schema.
  The per-type instruction lists are NOT written here: they are regenerated from /repo/syntax/walk.go
  and /repo/syntax/nodes.go on every run (ShVerif/Gen/C14.lean) and fed to `walk` as a table.
-/
namespace ShVerif.C14

/-- A syntax tree with the schema erased: node type index, unique id, the index of the parent's
    child slot this node sits in, a flag (for comments in a split slot: "the code's predicate sends
    this comment to the trailing position"), and all children in field order. -/
inductive Tree
  | node (ty id slot : Nat) (flag : Bool) (kids : List Tree)
  deriving Repr, Inhabited

def Tree.ty : Tree → Nat | .node t _ _ _ _ => t
def Tree.id : Tree → Nat | .node _ i _ _ _ => i
def Tree.slot : Tree → Nat | .node _ _ s _ _ => s
def Tree.flag : Tree → Bool | .node _ _ _ f _ => f
def Tree.kids : Tree → List Tree | .node _ _ _ _ k => k

/-- What one statement of a `case *T:` body in Walk does. -/
inductive Op
  | walk      -- Walk(node.F, f): F must be non-nil
  | nilable   -- walkNilable(node.F, f)
  | list      -- walkList(node.F, f)
  | comments  -- walkComments(node.F, f)
  | split (afterNil : Bool)
      -- for i, c := range node.F { if pred(c) { trailing = node.F[i:]; break }; Walk(&c, f) }
      -- afterNil = true: the trailing comment is walked by a `defer`, i.e. after f(nil)
  deriving DecidableEq, Repr

structure Instr where
  op : Op
  slot : Nat
  deriving DecidableEq, Repr

inductive Ev
  | enter (id : Nat)   -- f(node) with a non-nil node
  | leave (id : Nat)   -- f(nil) closing that node
  | panic              -- the Go code would panic (default case, or Walk on a nil interface)
  deriving DecidableEq, Repr

abbrev Table := Nat → Option (List Instr)

def isSplit : Op → Bool
  | .split _ => true
  | _ => false

mutual
  /-- `Walk(node, f)` where `keep id` is what `f` answers for the node with that id. -/
  def walk (tbl : Table) (keep : Nat → Bool) : Tree → List Ev
    | .node ty id _ _ kids =>
      if !keep id then [.enter id] else
      match tbl ty with
      | none => [.enter id, .panic]
      | some instrs =>
        .enter id ::
          (instrs.flatMap fun i =>
            match i.op with
            | .walk => walkReq tbl keep i.slot kids
            | .nilable => walkSel tbl keep i.slot kids
            | .list => walkSel tbl keep i.slot kids
            | .comments => walkSel tbl keep i.slot kids
            | .split _ =>
              walkLead tbl keep i.slot kids) ++
          -- trailing comments that are walked before f(nil)
          (instrs.flatMap fun i =>
            match i.op with
            | .split false => walkTrail tbl keep i.slot kids
            | _ => []) ++
          [.leave id] ++
          -- trailing comments walked by `defer`, i.e. after f(nil)
          (instrs.flatMap fun i =>
            match i.op with
            | .split true => walkTrail tbl keep i.slot kids
            | _ => [])
  /-- all children in slot `s`, in order -/
  def walkSel (tbl : Table) (keep : Nat → Bool) (s : Nat) : List Tree → List Ev
    | [] => []
    | k :: ks => (if k.slot = s then walk tbl keep k else []) ++ walkSel tbl keep s ks
  /-- the single required child in slot `s`; Go panics when it is nil -/
  def walkReq (tbl : Table) (keep : Nat → Bool) (s : Nat) : List Tree → List Ev
    | [] => [.panic]
    | k :: ks => if k.slot = s then walk tbl keep k else walkReq tbl keep s ks
  /-- the comments of slot `s` before the first flagged one -/
  def walkLead (tbl : Table) (keep : Nat → Bool) (s : Nat) : List Tree → List Ev
    | [] => []
    | k :: ks =>
      if k.slot = s then (if k.flag then [] else walk tbl keep k ++ walkLead tbl keep s ks)
      else walkLead tbl keep s ks
  /-- the first flagged comment of slot `s` and every later comment of that slot
      (`trailing = node.F[i:]`, walked by walkComments before f(nil)) -/
  def walkTrail (tbl : Table) (keep : Nat → Bool) (s : Nat) : List Tree → List Ev
    | [] => []
    | k :: ks =>
      if k.slot = s then (if k.flag then walk tbl keep k ++ walkSel tbl keep s ks else walkTrail tbl keep s ks)
      else walkTrail tbl keep s ks
end

/-! ### Specification side -/

mutual
  /-- every node of the tree, parent before children, children in stored order -/
  def allIds : Tree → List Nat
    | .node _ id _ _ kids => id :: allIdsList kids
  def allIdsList : List Tree → List Nat
    | [] => []
    | k :: ks => allIds k ++ allIdsList ks
end

def enters : List Ev → List Nat
  | [] => []
  | .enter i :: r => i :: enters r
  | _ :: r => enters r

/-- Well-bracketed event sequences: `enter i … leave i` around the events of the children;
    a pruned node is a lone `enter`. Returns the stack after the events, `none` on a mismatch. -/
def bracketStep (st : Option (List Nat)) (e : Ev) (pruned : Nat → Bool) : Option (List Nat) :=
  match st, e with
  | none, _ => none
  | some stack, .enter i => if pruned i then some stack else some (i :: stack)
  | some (j :: stack), .leave i => if i = j then some stack else none
  | some [], .leave _ => none
  | some _, .panic => none

def wellBracketed (keep : Nat → Bool) (evs : List Ev) : Bool :=
  evs.foldl (fun st e => bracketStep st e (fun i => !keep i)) (some []) == some []

/-- Preorder: the consumer stops after `n` nodes; the `ok` latch makes every later callback a
    no-op that returns false. Yielded ids: -/
def preorder (tbl : Table) (t : Tree) (n : Nat) : List Nat :=
  (enters (walk tbl (fun _ => true) t)).take n

/-! ### Schema: which slots a node type has, and the table check -/

structure TypeInfo where
  name : String
  fields : List (String × Bool)        -- exported Node-holding fields (path, isList), decl. order
  instrs : Option (List (String × String × String))  -- Walk case: (op, field path, guard path)
  deriving Repr

def opOfString : String → Option Op
  | "walk" => some .walk
  | "nilable" => some .nilable
  | "list" => some .list
  | "comments" => some .comments
  | "split" => some (.split false)
  | "split-defer" => some (.split true)
  | _ => none

def resolve (ti : TypeInfo) : Option (List Instr) :=
  match ti.instrs with
  | none => none
  | some l => l.mapM fun (op, f, g) =>
      match opOfString op with
      | some o =>
        -- `if node.F != nil { Walk(node.F, f) }` is walkNilable
        let o := if o = .walk ∧ g = f then .nilable else o
        some { op := o, slot := (ti.fields.map (·.1)).idxOf f }
      | none => none

def tableOf (schema : List TypeInfo) : Table := fun ty =>
  match schema[ty]? with
  | some ti => resolve ti
  | none => none

/-- The Walk case of a type is complete: it touches every exported Node-holding field exactly
    once (as a permutation), each guard is the field itself or a prefix of its path, list fields
    are walked with list/comments/split and single fields with walk/nilable. -/
def caseComplete (ti : TypeInfo) : Bool :=
  match ti.instrs, resolve ti with
  | some l, some r =>
    (r.map (·.slot)).isPerm (List.range ti.fields.length) &&
    l.all (fun (op, f, g) =>
      (g = "" || g = f || (g ++ ".").isPrefixOf f) &&
      (match ti.fields.find? (·.1 = f) with
       | some (_, isList) => if isList then op = "list" || op = "comments" || op = "split" || op = "split-defer"
                             else op = "walk" || op = "nilable"
       | none => false))
  | _, _ => false

/-- No trailing comment is walked after f(nil). -/
def noDefer (ti : TypeInfo) : Bool :=
  match ti.instrs with
  | some l => l.all fun (op, _, _) => op != "split-defer"
  | none => true

/-! ### Tree well-formedness w.r.t. a table (checked on every tree the Go parser returns) -/

def slotCount (s : Nat) (kids : List Tree) : Nat := (kids.filter (·.slot = s)).length

/-- Split slots need no side condition any more: the unflagged prefix is walked in place, the
    rest (from the first flagged comment on) after the other children. Kept for the `wf` shape. -/
def splitOk (_s : Nat) : List Tree → Bool
  | _ => true

mutual
  def wf (tbl : Table) : Tree → Bool
    | .node ty _ _ _ kids =>
      (match tbl ty with
       | none => false
       | some instrs => instrs.all fun i =>
          match i.op with
          | .walk => slotCount i.slot kids == 1
          | .nilable => slotCount i.slot kids ≤ 1
          | .split _ => splitOk i.slot kids
          | _ => true) && wfList tbl kids
  def wfList (tbl : Table) : List Tree → Bool
    | [] => true
    | k :: ks => wf tbl k && wfList tbl ks
end

end ShVerif.C14

namespace ShVerif.C14

/-- Number of child slots of each node type, according to a schema. -/
def nslotsOf (schema : List TypeInfo) : Nat → Nat := fun ty =>
  match schema[ty]? with
  | some ti => ti.fields.length
  | none => 0

mutual
  /-- every child sits in a slot that exists for its parent's type -/
  def bounded (nslots : Nat → Nat) : Tree → Bool
    | .node ty _ _ _ kids => kids.all (fun k => k.slot < nslots ty) && boundedList nslots kids
  def boundedList (nslots : Nat → Nat) : List Tree → Bool
    | [] => true
    | k :: ks => bounded nslots k && boundedList nslots ks
end

/-- Each case of the table touches every slot of its type exactly once. -/
def TableComplete (tbl : Table) (nslots : Nat → Nat) : Prop :=
  ∀ ty instrs, tbl ty = some instrs → (instrs.map (·.slot)).Perm (List.range (nslots ty))

/-- No trailing comment is walked after f(nil). -/
def NoDefer (tbl : Table) : Prop :=
  ∀ ty instrs, tbl ty = some instrs → ∀ i ∈ instrs, i.op ≠ .split true

mutual
  /-- nodes all of whose proper ancestors are kept by the callback: what a pruning walk must visit -/
  def visible (keep : Nat → Bool) : Tree → List Nat
    | .node _ id _ _ kids => id :: (if keep id then visibleList keep kids else [])
  def visibleList (keep : Nat → Bool) : List Tree → List Nat
    | [] => []
    | k :: ks => visible keep k ++ visibleList keep ks
end

end ShVerif.C14
