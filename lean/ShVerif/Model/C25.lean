import ShVerif.Base.Hex
/-
  C25 — shell.Expand and shell.Fields (shell/expand.go) on a fragment.

  §1  the environment function and expand.FuncEnviron (empty = unset)
  §2  the fragment's syntax trees and the two parsers: `parseDoc` (Parser.Document: here-document
      text) and `parseWords` (Parser.WordsSeq)
  §3  expansion shaped like expand.Document / expand.Fields: Lit parts keep their source text and
      are unescaped by `wordField`, parameter expansions, simple arithmetic, `wordFields` with
      field splitting (default IFS), tilde prefix
  §4  `shellExpand`, `shellFields`
  §5  specifications: `hdocSem` (one left-to-right pass over the here-document text, POSIX 2.7.4 /
      2.6), `argsSem` (atoms split at separators, POSIX 2.6.5), `malformed`

  Fragment (everything else answers `outside`): valid UTF-8 without NUL/CR (the parser rejects
  invalid encodings; the harness never asks the model about them); `$name`, `${name}`,
  `${name:-w}`, `${name-w}`, `${name:+w}`, `${name+w}` with `w` made of plain characters and
  `$name`/`${name}`; `$(( ))` over decimal literals, names, `+ - *`, parentheses, blanks;
  backslashes; for Fields also blanks, '…', "…" and a `~`/`~/` prefix.  No command substitution,
  back quotes, braces, special parameters, `$[`, `$'`, assignments through `:=`.
  Core Lean only.
-/
namespace ShVerif.C25
open ShVerif

/-! ## §1 environment -/

abbrev Env := List (Bytes × Bytes)

/-- The `env func(string) string` handed to shell.Expand: "" for names it does not know. -/
def envF (env : Env) (name : Bytes) : Bytes :=
  match env.lookup name with
  | some v => v
  | none => []

/-- `expand.FuncEnviron(f).Get(name)`: unset exactly when `f name` is empty. -/
def envGet (env : Env) (name : Bytes) : Option Bytes :=
  let v := envF env name
  if v.isEmpty then none else some v

/-! ## §2 syntax -/

def bDollar : UInt8 := 36
def bBS : UInt8 := 92
def bBQ : UInt8 := 96
def bNL : UInt8 := 10
def bLB : UInt8 := 123
def bRB : UInt8 := 125
def bLP : UInt8 := 40
def bRP : UInt8 := 41
def bDQ : UInt8 := 34
def bSQ : UInt8 := 39
def bColon : UInt8 := 58
def bMinus : UInt8 := 45
def bPlus : UInt8 := 43
def bStar : UInt8 := 42
def bTilde : UInt8 := 126
def bSlash : UInt8 := 47
def bSpace : UInt8 := 32
def bTab : UInt8 := 9

def isDigit (b : UInt8) : Bool := 48 ≤ b && b ≤ 57
def isNameStart (b : UInt8) : Bool := (65 ≤ b && b ≤ 90) || (97 ≤ b && b ≤ 122) || b == 95
def isNameChar (b : UInt8) : Bool := isNameStart b || isDigit b
def isBlank (b : UInt8) : Bool := b == bSpace || b == bTab || b == bNL

inductive POp | colMinus | minus | colPlus | plus
  deriving DecidableEq, Repr

/-- Part of the word of `${name<op>word}`. -/
inductive WPart
  | lit (s : Bytes)
  | param (n : Bytes)
  deriving DecidableEq, Repr

inductive AExp
  | num (n : Nat)
  | var (n : Bytes)
  | add (a b : AExp)
  | sub (a b : AExp)
  | mul (a b : AExp)
  deriving DecidableEq, Repr

/-- A word part (of a here-document word, of a "…" string, or unquoted). -/
inductive Part
  | lit (raw : Bytes)                              -- source text, backslashes in
  | param (n : Bytes)                              -- $n or ${n}
  | paramOp (n : Bytes) (o : POp) (w : List WPart) -- ${n<op>w}
  | arith (e : AExp)
  deriving DecidableEq, Repr

inductive PRes (α : Type)
  | ok (a : α)
  | err          -- the Go parser reports a syntax error
  | outside      -- outside the fragment
  deriving Repr

def takeName : Bytes → Bytes × Bytes
  | [] => ([], [])
  | b :: rest => if isNameChar b then let (n, r) := takeName rest; (b :: n, r) else ([], b :: rest)

/-- The word of a parameter operator, up to the closing brace. -/
def parseWord : Nat → Bytes → Bytes → List WPart → PRes (List WPart × Bytes)
  | 0, _, _, _ => .outside
  | _ + 1, [], _, _ => .err          -- reached EOF without matching `${` with `}`
  | fuel + 1, b :: rest, cur, acc =>
    let flush := fun (acc : List WPart) => if cur.isEmpty then acc else acc ++ [.lit cur]
    if b == bRB then .ok (flush acc, rest)
    else if b == bDollar then
      match rest with
      | c :: rest' =>
        if isNameStart c then
          let (n, r) := takeName (c :: rest')
          parseWord fuel r [] (flush acc ++ [.param n])
        else if c == bLB then
          match rest' with
          | d :: _ =>
            if isNameStart d then
              let (n, r) := takeName rest'
              match r with
              | e :: r' => if e == bRB then parseWord fuel r' [] (flush acc ++ [.param n]) else .outside
              | [] => .err
            else .outside
          | [] => .outside
        else .outside
      | [] => .outside
    else if b == bBS || b == bBQ || b == bSQ || b == bDQ || b == bLB || b == 0 || b == 13 then .outside
    else parseWord fuel rest (cur ++ [b]) acc

/-! ### arithmetic: decimal literals, names, + - *, parentheses, blanks -/

inductive ATok | num (n : Nat) | name (n : Bytes) | plus | minus | star | lp | rp
  deriving DecidableEq, Repr

def takeDigits : Bytes → Bytes × Bytes
  | [] => ([], [])
  | b :: rest => if isDigit b then let (n, r) := takeDigits rest; (b :: n, r) else ([], b :: rest)

def digitsVal (ds : Bytes) : Nat := ds.foldl (fun acc d => acc * 10 + (d.toNat - 48)) 0

/-- Tokens of the arithmetic text up to the closing `))`; the remaining input after it. -/
def aLex : Nat → Bytes → List ATok → Nat → PRes (List ATok × Bytes)
  | 0, _, _, _ => .outside
  | _ + 1, [], _, _ => .err
  | fuel + 1, b :: rest, acc, depth =>
    if b == bSpace || b == bTab then aLex fuel rest acc depth
    else if isDigit b then
      let (ds, r) := takeDigits (b :: rest)
      -- a leading zero would be octal; long literals could overflow: keep them out
      if (ds.length > 1 && ds.head? == some 48) || ds.length > 6 then .outside
      else match r with
        | c :: _ => if isNameStart c then .outside else aLex fuel r (acc ++ [.num (digitsVal ds)]) depth
        | [] => aLex fuel r (acc ++ [.num (digitsVal ds)]) depth
    else if isNameStart b then
      let (n, r) := takeName (b :: rest)
      aLex fuel r (acc ++ [.name n]) depth
    else if b == bPlus then
      (match rest with
       | c :: _ => if c == bPlus then .outside else aLex fuel rest (acc ++ [.plus]) depth
       | [] => aLex fuel rest (acc ++ [.plus]) depth)
    else if b == bMinus then
      (match rest with
       | c :: _ => if c == bMinus then .outside else aLex fuel rest (acc ++ [.minus]) depth
       | [] => aLex fuel rest (acc ++ [.minus]) depth)
    else if b == bStar then
      (match rest with
       | c :: _ => if c == bStar then .outside else aLex fuel rest (acc ++ [.star]) depth
       | [] => aLex fuel rest (acc ++ [.star]) depth)
    else if b == bLP then aLex fuel rest (acc ++ [.lp]) (depth + 1)
    else if b == bRP then
      if depth > 0 then aLex fuel rest (acc ++ [.rp]) (depth - 1)
      else match rest with
        | c :: rest' => if c == bRP then .ok (acc, rest') else .outside
        | [] => .err
    else .outside

mutual
  def aExpr : Nat → List ATok → Option (AExp × List ATok)
    | 0, _ => none
    | fuel + 1, ts =>
      match aTerm fuel ts with
      | none => none
      | some (a, rest) => aExprTail fuel a rest
  def aExprTail : Nat → AExp → List ATok → Option (AExp × List ATok)
    | 0, _, _ => none
    | fuel + 1, a, ts =>
      match ts with
      | .plus :: rest =>
        (match aTerm fuel rest with
         | none => none
         | some (b, rest') => aExprTail fuel (.add a b) rest')
      | .minus :: rest =>
        (match aTerm fuel rest with
         | none => none
         | some (b, rest') => aExprTail fuel (.sub a b) rest')
      | _ => some (a, ts)
  def aTerm : Nat → List ATok → Option (AExp × List ATok)
    | 0, _ => none
    | fuel + 1, ts =>
      match aFactor fuel ts with
      | none => none
      | some (a, rest) => aTermTail fuel a rest
  def aTermTail : Nat → AExp → List ATok → Option (AExp × List ATok)
    | 0, _, _ => none
    | fuel + 1, a, ts =>
      match ts with
      | .star :: rest =>
        (match aFactor fuel rest with
         | none => none
         | some (b, rest') => aTermTail fuel (.mul a b) rest')
      | _ => some (a, ts)
  def aFactor : Nat → List ATok → Option (AExp × List ATok)
    | 0, _ => none
    | fuel + 1, ts =>
      match ts with
      | .num n :: rest => some (.num n, rest)
      | .name n :: rest => some (.var n, rest)
      | .lp :: rest =>
        (match aExpr fuel rest with
         | some (e, .rp :: rest') => some (e, rest')
         | _ => none)
      | .minus :: rest =>
        (match aFactor fuel rest with
         | some (e, rest') => some (.sub (.num 0) e, rest')
         | none => none)
      | .plus :: rest =>
        (match aFactor fuel rest with
         | some (e, rest') => some (.add (.num 0) e, rest')
         | none => none)
      | _ => none
end

/-- `$((` already consumed. -/
def parseArith (input : Bytes) : PRes (AExp × Bytes) :=
  match aLex (input.length + 1) input [] 0 with
  | .err => .err
  | .outside => .outside
  | .ok (toks, rest) =>
    if toks.isEmpty then .outside   -- `$(( ))`: valid and 0 in bash; kept out
    else match aExpr (4 * toks.length + 4) toks with
      | some (e, []) => .ok (e, rest)
      | _ => .err

/-- After a `$`: the expansion that starts here, if any (`none` = the dollar is literal). -/
def parseDollar (rest : Bytes) : PRes (Option (Part × Bytes)) :=
  match rest with
  | [] => .ok none
  | c :: rest' =>
    if isNameStart c then
      let (n, r) := takeName (c :: rest')
      .ok (some (.param n, r))
    else if c == bLB then
      match rest' with
      | [] => .err
      | d :: _ =>
        if isNameStart d then
          let (n, r) := takeName rest'
          match r with
          | [] => .err
          | e :: r' =>
            if e == bRB then .ok (some (.param n, r'))
            else
              let opRest : Option (POp × Bytes) :=
                if e == bColon then
                  match r' with
                  | f :: r'' => if f == bMinus then some (.colMinus, r'') else if f == bPlus then some (.colPlus, r'') else none
                  | [] => none
                else if e == bMinus then some (.minus, r')
                else if e == bPlus then some (.plus, r')
                else none
              match opRest with
              | none => .outside
              | some (o, r'') =>
                if r''.head? == some bTilde then .outside else   -- the word gets tilde expansion: kept out
                match parseWord (r''.length + 1) r'' [] [] with
                | .ok (w, r3) => .ok (some (.paramOp n o w, r3))
                | .err => .err
                | .outside => .outside
        else if d == bRB then .err     -- `${}`: invalid parameter name
        else .outside
    else if c == bLP then
      match rest' with
      | d :: r => if d == bLP then
                    (match parseArith r with
                     | .ok (e, r') => .ok (some (.arith e, r'))
                     | .err => .err
                     | .outside => .outside)
                  else .outside
      | [] => .outside
    else if isDigit c || c == 64 || c == bStar || c == 35 || c == 63 || c == bDollar || c == 33 || c == bMinus
         || c == 91 then .outside   -- special parameters, `$[`
    else .ok none

/-- The lexer's line continuation (`Parser.rune`): a backslash-newline pair disappears unless the
    rune before the backslash is itself a backslash (escaped or not). -/
def joinLines : Bool → Bytes → Bytes
  | _, [] => []
  | _, [b] => [b]
  | prevBS, b :: c :: rest =>
    if b == bBS && !prevBS && c == bNL then joinLines false rest
    else b :: joinLines (b == bBS) (c :: rest)

/-- Does a line continuation (by the lexer's rule) come directly after `$`, `(` or `)`?  The lexer
    builds `${`, `$((` and `))` by looking at the next rune without skipping the continuation, so
    `$\<newline>{x}` is not read as `${x}` (finding C25-continuation-inside-dollar-token): kept out. -/
def contRisk : Bool → UInt8 → Bytes → Bool
  | _, _, [] => false
  | _, _, [_] => false
  | prevBS, prev, b :: c :: rest =>
    if b == bBS && !prevBS && c == bNL then
      (prev == bDollar || prev == bLP || prev == bRP) || contRisk false prev rest
    else contRisk (b == bBS) b (c :: rest)

/-- Parser.Document on the fragment: the parts of the here-document word. -/
def parseDoc : Nat → Bytes → Bytes → List Part → PRes (List Part)
  | 0, _, _, _ => .outside
  | _ + 1, [], cur, acc => .ok (if cur.isEmpty then acc else acc ++ [.lit cur])
  | fuel + 1, b :: rest, cur, acc =>
    if b == 0 || b == 13 || b == bBQ then .outside
    else if b == bBS then
      match rest with
      | [] => .ok (acc ++ [.lit (cur ++ [b])])          -- a lone final backslash
      | c :: rest' =>
        if c == 0 || c == 13 then .outside
        else parseDoc fuel rest' (cur ++ [b, c]) acc
    else if b == bDollar then
      match parseDollar rest with
      | .err => .err
      | .outside => .outside
      | .ok none => parseDoc fuel rest (cur ++ [b]) acc
      | .ok (some (p, r)) => parseDoc fuel r [] ((if cur.isEmpty then acc else acc ++ [.lit cur]) ++ [p])
    else parseDoc fuel rest (cur ++ [b]) acc

/-! ### words (Parser.WordsSeq) -/

inductive Seg
  | unq (p : Part)          -- unquoted part (`lit` = source text with backslashes)
  | sq (s : Bytes)
  | dq (ps : List Part)
  deriving Repr

/-- Inside "…": parts up to the closing quote. -/
def parseDq : Nat → Bytes → Bytes → List Part → PRes (List Part × Bytes)
  | 0, _, _, _ => .outside
  | _ + 1, [], _, _ => .err          -- reached EOF without closing quote
  | fuel + 1, b :: rest, cur, acc =>
    let flush := fun (acc : List Part) => if cur.isEmpty then acc else acc ++ [.lit cur]
    if b == bDQ then .ok (flush acc, rest)
    else if b == 0 || b == 13 || b == bBQ then .outside
    else if b == bBS then
      match rest with
      | [] => .err
      | c :: rest' =>
        if c == bNL || c == 0 || c == 13 then .outside
        else parseDq fuel rest' (cur ++ [b, c]) acc
    else if b == bDollar then
      match parseDollar rest with
      | .err => .err
      | .outside => .outside
      | .ok none =>
        -- `$"` would end the string and `$'` is literal: fine; but keep `$` + quote simple
        parseDq fuel rest (cur ++ [b]) acc
      | .ok (some (p, r)) => parseDq fuel r [] (flush acc ++ [p])
    else parseDq fuel rest (cur ++ [b]) acc

def takeSq : Bytes → Option (Bytes × Bytes)
  | [] => none
  | b :: rest => if b == bSQ then some ([], rest) else (takeSq rest).map fun (s, r) => (b :: s, r)

/-- Characters that may stand unquoted in a word of the fragment. -/
def isPlainUnq (b : UInt8) : Bool :=
  isNameChar b || b == 46 || b == bSlash || b == bColon || b == 44 || b == 64 || b == 37 || b == bPlus
    || b == bMinus || b == bTilde || b == 93 || b == 94 || b == 61

/-- One word: segments up to the next blank or the end. -/
def parseWordSegs : Nat → Bytes → Bytes → List Seg → PRes (List Seg × Bytes)
  | 0, _, _, _ => .outside
  | _ + 1, [], cur, acc => .ok (if cur.isEmpty then acc else acc ++ [.unq (.lit cur)], [])
  | fuel + 1, b :: rest, cur, acc =>
    let flush := fun (acc : List Seg) => if cur.isEmpty then acc else acc ++ [.unq (.lit cur)]
    if isBlank b then .ok (flush acc, b :: rest)
    else if b == bBS then
      match rest with
      | [] => parseWordSegs fuel [] (cur ++ [b]) acc
      | c :: rest' =>
        if c == bNL || c == 0 || c == 13 then .outside
        else parseWordSegs fuel rest' (cur ++ [b, c]) acc
    else if b == bSQ then
      match takeSq rest with
      | none => .err
      | some (s, r) => if s.contains 0 || s.contains 13 then .outside else parseWordSegs fuel r [] (flush acc ++ [.sq s])
    else if b == bDQ then
      match parseDq fuel rest [] [] with
      | .err => .err
      | .outside => .outside
      | .ok (ps, r) => parseWordSegs fuel r [] (flush acc ++ [.dq ps])
    else if b == bDollar then
      match rest with
      | c :: _ =>
        if c == bSQ || c == bDQ then .outside      -- $'…' and $"…"
        else
          match parseDollar rest with
          | .err => .err
          | .outside => .outside
          | .ok none => parseWordSegs fuel rest (cur ++ [b]) acc
          | .ok (some (p, r)) => parseWordSegs fuel r [] (flush acc ++ [.unq p])
      | [] => parseWordSegs fuel rest (cur ++ [b]) acc
    else if isPlainUnq b then
      -- `=~` (bash expands the tilde after `=` in arguments) and `~` after `:` are kept out
      if b == bTilde && !(cur.isEmpty && acc.isEmpty) then .outside
      else if b == bTilde && !(match rest with
                                | [] => true
                                | c :: _ => c == bSlash || isBlank c || c == bSQ || c == bDQ || c == bDollar) then .outside
      else parseWordSegs fuel rest (cur ++ [b]) acc
    else .outside

def skipBlanks : Bytes → Bytes
  | [] => []
  | b :: rest => if isBlank b then skipBlanks rest else b :: rest

/-- Parser.WordsSeq on the fragment. -/
def parseWords : Nat → Bytes → List (List Seg) → PRes (List (List Seg))
  | 0, _, _ => .outside
  | fuel + 1, input, acc =>
    match skipBlanks input with
    | [] => .ok acc
    | b :: rest =>
      match parseWordSegs (input.length + 1) (b :: rest) [] [] with
      | .err => .err
      | .outside => .outside
      | .ok (segs, r) =>
        if segs.isEmpty then .outside else parseWords fuel r (acc ++ [segs])

/-! ## §3 expansion -/

/-- `wordField`'s backslash loop under quoteHeredoc (`\\ \$ \``) or quoteDouble (also `\"`). -/
def unescQ (dq : Bool) : Bytes → Bytes
  | [] => []
  | [b] => [b]
  | b :: c :: rest =>
    if b == bBS then
      (if c == bBS || c == bDollar || c == bBQ || (dq && c == bDQ) then [c] else [b, c]) ++ unescQ dq rest
    else b :: unescQ dq (c :: rest)

def paramVal (env : Env) (n : Bytes) : Bytes :=
  match envGet env n with
  | some v => v
  | none => []

def expandWParts (env : Env) : List WPart → Bytes
  | [] => []
  | .lit s :: rest => s ++ expandWParts env rest
  | .param n :: rest => paramVal env n ++ expandWParts env rest

/-- `paramExp` for the four test operators (the `:` forms test "unset or null", the plain forms
    "unset" — the same thing over a FuncEnviron). -/
def expandOp (env : Env) (n : Bytes) (o : POp) (w : List WPart) : Bytes :=
  match o, envGet env n with
  | .colMinus, some v => if v.isEmpty then expandWParts env w else v
  | .colMinus, none => expandWParts env w
  | .minus, some v => v
  | .minus, none => expandWParts env w
  | .colPlus, some v => if v.isEmpty then [] else expandWParts env w
  | .colPlus, none => []
  | .plus, some _ => expandWParts env w
  | .plus, none => []

def allDigits (v : Bytes) : Bool := !v.isEmpty && v.all isDigit

/-- Value of an arithmetic expression, or none when a variable does not hold a decimal literal
    (outside the fragment). -/
def evalA (env : Env) : AExp → Option Int
  | .num n => some n
  | .var n =>
    match envGet env n with
    | none => some 0
    | some v =>
      if allDigits v && !(v.length > 1 && v.head? == some 48) && v.length ≤ 6 then some (digitsVal v) else none
  | .add a b => do let x ← evalA env a; let y ← evalA env b; pure (x + y)
  | .sub a b => do let x ← evalA env a; let y ← evalA env b; pure (x - y)
  | .mul a b => do let x ← evalA env a; let y ← evalA env b; pure (x * y)

def natDigits : Nat → Nat → Bytes
  | 0, _ => []
  | fuel + 1, n => if n < 10 then [UInt8.ofNat (48 + n)] else natDigits fuel (n / 10) ++ [UInt8.ofNat (48 + n % 10)]

def showInt (i : Int) : Bytes :=
  if i < 0 then bMinus :: natDigits (i.natAbs + 1) i.natAbs else natDigits (i.natAbs + 1) i.natAbs

/-- One part inside quotes or a here-document (`wordField`). -/
def expandPartQ (env : Env) (dq : Bool) : Part → Option Bytes
  | .lit raw => some (unescQ dq raw)
  | .param n => some (paramVal env n)
  | .paramOp n o w => some (expandOp env n o w)
  | .arith e => (evalA env e).map showInt

def expandPartsQ (env : Env) (dq : Bool) : List Part → Option Bytes
  | [] => some []
  | p :: rest => do
    let a ← expandPartQ env dq p
    let b ← expandPartsQ env dq rest
    pure (a ++ b)

/-! ### wordFields -/

structure FPart where
  val : Bytes
  quoted : Bool
  deriving DecidableEq, Repr

structure WF where
  fields : List (List FPart)
  cur : List FPart
  allowEmpty : Bool

def WF.flush (s : WF) : WF :=
  if s.cur.isEmpty then s else { s with fields := s.fields ++ [s.cur], cur := [] }
def WF.add (s : WF) (p : FPart) : WF := { s with cur := s.cur ++ [p] }

def isIfs (b : UInt8) : Bool := b == bSpace || b == bTab || b == bNL

def splitAddAux : WF → Option Bytes → Bytes → WF
  | s, none, [] => s
  | s, some run, [] => s.add ⟨run, false⟩
  | s, none, c :: rest =>
    if isIfs c then splitAddAux s.flush none rest else splitAddAux s (some [c]) rest
  | s, some run, c :: rest =>
    if isIfs c then splitAddAux (s.add ⟨run, false⟩).flush none rest
    else splitAddAux s (some (run ++ [c])) rest

def splitAdd (s : WF) (v : Bytes) : WF := splitAddAux s none v

/-- The backslash loop of `wordFields` on an unquoted literal. -/
def unbackslash : Bytes → Bytes
  | [] => []
  | c :: rest =>
    if c == bBS then
      match rest with
      | [] => [bBS]
      | d :: rest' => d :: unbackslash rest'
    else c :: unbackslash rest

/-- `expandUser` for `~` and `~/…` (the only tilde forms of the fragment). -/
def expandUser (env : Env) (s : Bytes) (more : Bool) : Bytes × Bytes :=
  match s with
  | b :: name =>
    if b == bTilde then
      match name with
      | [] => if more then ([], s) else (match envGet env "HOME".toUTF8.toList with | some h => (h, []) | none => ([], s))
      | c :: _ =>
        if c == bSlash then (match envGet env "HOME".toUTF8.toList with | some h => (h, name) | none => ([], s))
        else ([], s)   -- `~x`: a user name; kept out by the parser
    else ([], s)
  | [] => ([], s)

def segStep (env : Env) (first : Bool) (more : Bool) (s : WF) : Seg → Option WF
  | .unq (.lit raw) =>
    -- the tilde prefix (quoted) and the rest (unquoted) are added only when non-empty
    let pr := if first then expandUser env raw more else ([], raw)
    let s := if pr.1.isEmpty then s else s.add ⟨pr.1, true⟩
    some (if pr.2.isEmpty then s else s.add ⟨unbackslash pr.2, false⟩)
  | .unq (.param n) => some (splitAdd s (paramVal env n))
  | .unq (.paramOp n o w) => some (splitAdd s (expandOp env n o w))
  | .unq (.arith e) => (evalA env e).map fun v => s.add ⟨showInt v, false⟩
  | .sq v => some ({ s with allowEmpty := true }.add ⟨v, true⟩)
  | .dq ps =>
    match expandPartsQ env true ps with
    | none => none
    | some _ =>
      -- one fieldPart per inner part
      let s := { s with allowEmpty := true }
      -- an empty "" has no parts but still contributes an (empty, quoted) part
      if ps.isEmpty then some (s.add ⟨[], true⟩)
      else ps.foldlM (fun (s : WF) p => (expandPartQ env true p).map fun v => s.add ⟨v, true⟩) s

def segLoop (env : Env) : Bool → WF → List Seg → Option WF
  | _, s, [] => some s
  | first, s, seg :: rest =>
    match segStep env first (!rest.isEmpty) s seg with
    | none => none
    | some s' => segLoop env false s' rest

def fieldText (f : List FPart) : Bytes := f.flatMap (·.val)

/-- `wordFields` + `fieldJoin` for one word. -/
def wordFields (env : Env) (segs : List Seg) : Option (List Bytes) :=
  match segLoop env true ⟨[], [], false⟩ segs with
  | none => none
  | some s =>
    let s := s.flush
    some ((if s.allowEmpty ∧ s.fields.isEmpty then [s.cur] else s.fields).map fieldText)

/-! ## §4 the two entry points -/

inductive Res (α : Type)
  | ok (a : α)
  | err
  | outside
  deriving Repr, DecidableEq

/-- shell.Expand. -/
def shellExpand (s : Bytes) (env : Env) : Res Bytes :=
  if contRisk false 0 s then .outside else
  let s := joinLines false s
  match parseDoc (s.length + 1) s [] [] with
  | .err => .err
  | .outside => .outside
  | .ok parts =>
    match expandPartsQ env false parts with
    | some v => .ok v
    | none => .outside

def wordsLoop (env : Env) : List (List Seg) → Option (List Bytes)
  | [] => some []
  | w :: rest => do
    let a ← wordFields env w
    let b ← wordsLoop env rest
    pure (a ++ b)

/-- shell.Fields. -/
def shellFields (s : Bytes) (env : Env) : Res (List Bytes) :=
  if (envF env "IFS".toUTF8.toList).isEmpty then
    match parseWords (s.length + 1) s [] with
    | .err => .err
    | .outside => .outside
    | .ok ws =>
      match wordsLoop env ws with
      | some fs => .ok fs
      | none => .outside
  else .outside   -- a custom IFS: outside the fragment

/-! ## §5 specifications -/

def Res.map {α β} (f : α → β) : Res α → Res β
  | .ok a => .ok (f a)
  | .err => .err
  | .outside => .outside

/-- bash removes backslash-newline pairs while it reads an unquoted here-document; backslashes pair
    up from the left (`\\` followed by a newline keeps the newline). -/
def bashJoin : Bytes → Bytes
  | [] => []
  | [b] => [b]
  | b :: c :: rest =>
    if b == bBS then (if c == bNL then bashJoin rest else b :: c :: bashJoin rest)
    else b :: bashJoin (c :: rest)

/-- One left-to-right pass over here-document text (POSIX 2.7.4): `\$`, `` \` `` and `\\` lose the
    backslash, every other backslash stays, expansions are replaced by their values, everything
    else (quotes included) is copied. -/
def hdocText (env : Env) : Nat → Bytes → Res Bytes
  | 0, _ => .outside
  | _ + 1, [] => .ok []
  | fuel + 1, b :: rest =>
    if b == 0 || b == 13 || b == bBQ then .outside
    else if b == bBS then
      match rest with
      | [] => .ok [b]
      | c :: rest' =>
        if c == 0 || c == 13 then .outside
        else (hdocText env fuel rest').map
          ((if c == bBS || c == bDollar || c == bBQ then [c] else [b, c]) ++ ·)
    else if b == bDollar then
      match parseDollar rest with
      | .err => .err
      | .outside => .outside
      | .ok none => (hdocText env fuel rest).map (b :: ·)
      | .ok (some (p, r)) =>
        match expandPartQ env false p with
        | none => .outside
        | some v => (hdocText env fuel r).map (v ++ ·)
    else (hdocText env fuel rest).map (b :: ·)

/-- What bash produces for `s` as here-document text. -/
def hdocSem (s : Bytes) (env : Env) : Res Bytes :=
  let t := bashJoin s
  hdocText env (t.length + 1) t

/-! ### arguments: atoms, split at separators (POSIX 2.6.5 with the default IFS) -/

inductive Atom
  | ch (b : UInt8)    -- a character that stays in its field
  | sep               -- IFS white space coming from an unquoted expansion
  | mark              -- a quoted (possibly empty) string was here: the field exists
  deriving DecidableEq, Repr

def valueAtoms (v : Bytes) : List Atom := v.map fun b => if isIfs b then .sep else .ch b
def textAtoms (v : Bytes) : List Atom := v.map .ch

def segAtoms (env : Env) (first more : Bool) : Seg → Option (List Atom)
  | .unq (.lit raw) =>
    let pr := if first then expandUser env raw more else ([], raw)
    some (textAtoms pr.1 ++ textAtoms (unbackslash pr.2))
  | .unq (.param n) => some (valueAtoms (paramVal env n))
  | .unq (.paramOp n o w) => some (valueAtoms (expandOp env n o w))
  | .unq (.arith e) => (evalA env e).map fun v => textAtoms (showInt v)
  | .sq v => some (Atom.mark :: textAtoms v)
  | .dq ps => (expandPartsQ env true ps).map fun v => Atom.mark :: textAtoms v

def wordAtoms (env : Env) : Bool → List Seg → Option (List Atom)
  | _, [] => some []
  | first, seg :: rest => do
    let a ← segAtoms env first (!rest.isEmpty) seg
    let b ← wordAtoms env false rest
    pure (a ++ b)

/-- Split at separators; a group with no atom at all gives no field. -/
def splitAtoms : List Atom → Option Bytes → List Bytes
  | [], none => []
  | [], some cur => [cur]
  | .sep :: rest, none => splitAtoms rest none
  | .sep :: rest, some cur => cur :: splitAtoms rest none
  | .ch b :: rest, none => splitAtoms rest (some [b])
  | .ch b :: rest, some cur => splitAtoms rest (some (cur ++ [b]))
  | .mark :: rest, none => splitAtoms rest (some [])
  | .mark :: rest, some cur => splitAtoms rest (some cur)

def wordArgs (env : Env) (segs : List Seg) : Option (List Bytes) :=
  (wordAtoms env true segs).map fun as => splitAtoms as none

def wordsArgs (env : Env) : List (List Seg) → Option (List Bytes)
  | [] => some []
  | w :: rest => do
    let a ← wordArgs env w
    let b ← wordsArgs env rest
    pure (a ++ b)

/-- What bash produces for `s` as the arguments of a command (no globbing). -/
def argsSem (s : Bytes) (env : Env) : Res (List Bytes) :=
  if (envF env "IFS".toUTF8.toList).isEmpty then
    match parseWords (s.length + 1) s [] with
    | .err => .err
    | .outside => .outside
    | .ok ws =>
      match wordsArgs env ws with
      | some fs => .ok fs
      | none => .outside
  else .outside

end ShVerif.C25
