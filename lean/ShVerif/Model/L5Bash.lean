/-
  L5 — `BashSem`: what *bash* does on the skeleton language of `L5Run`, written from the bash
  reference manual (sections "Lists", "Pipelines", "Compound Commands", "Shell Functions",
  "Command Execution Environment", and the builtins `set -e`, `set -o pipefail`, `break`,
  `continue`, `return`, `exit`, `trap`), and validated against bash 5.2 by the harness
  (`specbash` lines).  Core Lean only.

  It is deliberately *not* shaped like the interpreter: there are no `noErrExit`, `inLoop`,
  `breakEnclosing`, `returning`, `exiting` flags.  A command evaluates, in a *context* (is `-e`
  being ignored here, how many loops enclose us, are we in a function), to a *completion*:
  normal, `break n`, `continue n`, `return`, or `exit`, plus the new environment, whose `status`
  is `$?`.

  The rules, with their sources:

  * `-e` (manual, `set`): "Exit immediately if a pipeline (which may consist of a single simple
    command), a list, or a compound command returns a non-zero status.  The shell does not exit if
    the command that fails is part of the command list immediately following a `while` or `until`
    keyword, part of the test in an `if` statement, part of any command executed in a `&&` or `||`
    list except the command following the final `&&` or `||`, any command in a pipeline but the
    last, or if the command's return status is being inverted with `!`.  If a compound command
    other than a subshell returns a non-zero status because a command failed while `-e` was being
    ignored, the shell does not exit.  A trap on `ERR`, if set, is executed before the shell exits.
    … If a compound command or shell function executes in a context where `-e` is being ignored,
    none of the commands executed within the compound command or function body will be affected by
    the `-e` setting".
    A `{ }`, `if`, `while`, `until`, `for`, `case` command returns the status of the last command
    it executed, so when it returns non-zero and the shell is still running, that last command
    failed while `-e` was being ignored (or was inverted): the test is therefore made after simple
    commands (including function calls and assignments), pipelines and subshells, and nowhere
    else.  This is also what bash 5.2 does.
  * Command substitution: "Subshells spawned to execute command substitutions inherit the value
    of the `-e` option from the parent shell.  When not in posix mode, bash clears the `-e` option
    in such subshells" — unless `shopt -s inherit_errexit`: "command substitution inherits the
    value of the errexit option, instead of unsetting it in the subshell environment".  The
    interpreter documents (interp/api.go, `bashOptsTable`) that it always behaves as with
    `inherit_errexit` on, so `BashSem` is bash *with `shopt -s inherit_errexit`*, and the bash
    oracle is run that way.
  * `ERR` trap: "executed whenever a pipeline, a list, or a compound command returns a non-zero
    exit status, subject to the following conditions.  The ERR trap is not executed if the failed
    command is part of … [the same conditions as `-e`]"; "the ERR trap is not inherited by shell
    functions, command substitutions and subshell environments" (no `-E`).
  * bash tests whether ERR is trapped before it runs a command (`was_error_trap` in
    execute_cmd.c), so a trap set by the failing command itself (a function that sets it and
    returns non-zero) does not run for that command; ERR actions run for failures inside an EXIT
    action (validated against bash 5.2).
  * `EXIT` trap: "executed on exit from the shell"; a subshell starts with traps reset and runs
    the EXIT trap *it* sets when it exits.  `$?` at the start of a trap action is the status before
    the trap; "the exit status of the shell is the status of the last command executed before the
    trap" unless the action itself calls `exit`.
  * `break n` / `continue n`: "n must be ≥ 1.  If n is greater than the number of enclosing loops,
    all enclosing loops are exited / the last enclosing loop is resumed.  The return value is 0
    unless n is not greater than or equal to 1."  Outside a loop they do nothing and return 0.
    Loops are counted per shell function and per `( )` subshell or pipeline stage (bash ≥ 4.4), but a
    command substitution inside a loop still counts the loops around it: `break`/`continue` in
    `$( )` end the substitution (validated against bash 5.2).
  * `return`: "causes a shell function to stop executing and return the value n; if n is not
    supplied, the return value is the exit status of the last command executed in the function";
    outside a function (and a sourced script) it fails (status 2 in bash 5.2).
  * `exit`: status `n` mod 256, or `$?`; in a subshell it leaves the subshell only.
  * Pipelines: every stage runs in a subshell; status of the last stage, or with `pipefail` "the
    value of the last (rightmost) command to exit with a non-zero status, or zero"; `!` inverts.
  * `while`/`until`/`for`/`case`/`if`: status of the last command executed in the body, or 0 if
    none was executed.
-/
import ShVerif.Model.L5Run
namespace ShVerif.L5.Bash
open ShVerif.L5

/-- How a command completes. `brk n`/`cont n`: `n ≥ 1` loops still to leave / the `n`th to resume. -/
inductive Flow
  | norm
  | brk (n : Nat)
  | cont (n : Nat)
  | ret
  | exit
  deriving DecidableEq, Repr, Inhabited

/-- A shell execution environment. `status` is `$?`. -/
structure Env where
  vars : List (Str × Str) := []
  funcs : List (Str × Stmt) := []
  errexit : Bool := false
  pipefail : Bool := false
  trapExit : Prog := .nil
  trapErr : Prog := .nil
  status : Nat := 0
  out : Str := []

instance : Inhabited Env := ⟨{}⟩

/-- Where a command stands. -/
structure Ctx where
  ign : Bool := false      -- `-e` is being ignored here
  depth : Nat := 0         -- enclosing loops in this function / subshell
  inFunc : Bool := false
  inTrap : Bool := false   -- running an ERR trap action (not re-entered)
  trapSt : Nat := 0        -- `$?` when the trap action began (what a bare `exit` in it returns)
  exitTrap : Bool := false -- the trap about to run is the EXIT trap (set by the caller of `.trap`)
  inExit : Bool := false   -- running an EXIT trap action (ERR traps still run inside it)

abbrev Res := Option (Flow × Env)

/-- Sequential execution: stop at the first abnormal completion. -/
def seqList (f : Stmt → Env → Res) : Prog → Env → Res
  | .nil, e => some (.norm, e)
  | .cons st rest, e =>
    match f st e with
    | none => none
    | some (.norm, e1) => seqList f rest e1
    | some r => some r

/-- What a loop does with the completion of its body: `(leave?, completion of the loop)`. -/
def afterBody : Flow → Bool × Flow
  | .norm => (false, .norm)
  | .cont 0 => (false, .norm)
  | .cont 1 => (false, .norm)
  | .cont (n + 2) => (true, .cont (n + 1))
  | .brk 0 => (true, .norm)
  | .brk 1 => (true, .norm)
  | .brk (n + 2) => (true, .brk (n + 1))
  | .ret => (true, .ret)
  | .exit => (true, .exit)

/-- `for x in items` (at least one item): status of the last command executed. -/
def forItems (f : Stmt → Env → Res) (x : Str) (b : Prog) : List Str → Env → Res
  | [], e => some (.norm, e)
  | it :: rest, e =>
    match seqList f b { e with vars := (x, it) :: e.vars } with
    | none => none
    | some (fl, e1) =>
      match afterBody fl with
      | (true, fl') => some (fl', e1)
      | (false, _) => forItems f x b rest e1

/-- The status of a `case` command whose last selected clause was empty, or that selected no
    clause, is 0 ("zero if no pattern matches, otherwise the status of the last command
    executed"); `$?` itself is not touched while the clauses are being selected. -/
def caseDone (nonEmptyLast : Bool) (e : Env) : Env :=
  if nonEmptyLast then e else { e with status := 0 }

/-- `case`: the first item with a matching pattern; `;&` runs the next body too, `;;&` goes on
    testing.  `ne`: the last clause selected so far had commands. -/
def caseItems (f : Stmt → Env → Res) (str : Str) : Bool → Bool → Items → Env → Res
  | _, ne, .nil, e => some (.norm, caseDone ne e)
  | force, ne, .cons pats bodyp op rest, e =>
    if force || pats.any (patMatches str) then
      match seqList f bodyp e with
      | none => none
      | some (.norm, e1) =>
        match op with
        | .brk => some (.norm, caseDone (!bodyp.isNil) e1)
        | .fall => caseItems f str true (!bodyp.isNil) rest e1
        | .resume => caseItems f str false (!bodyp.isNil) rest e1
      | some r => some r
    else caseItems f str false ne rest e

/-- A subshell environment: same variables, functions, options, `$?`; traps reset. -/
def subEnv (e : Env) (out : Str) : Env :=
  { e with trapExit := .nil, trapErr := .nil, out := out }

/-- A shell process (the script itself, a subshell, a command substitution, a pipeline stage): run
    the list, then the EXIT trap set in that process; whatever the completion, the process ends. -/
def subRun (f : Stmt → Env → Res) (tr : Prog → Env → Res) (p : Prog) (e : Env) : Res :=
  match seqList f p e with
  | none => none
  | some (_, e1) =>
    match tr e1.trapExit e1 with
    | none => none
    | some (_, e2) => some (.norm, e2)

inductive Task
  | stmt (s : Stmt)
  | cmd (c : Cmd)
  | loop (u : Bool) (c b : Prog) (acc : Nat)  -- `while`/`until` (one iteration per unit of fuel); `acc`: status so far
  | trap (action : Prog)            -- run a trap action

/-- Is the errexit/ERR test made after this command (see the header)? -/
def isChecked : Cmd → Bool
  | .block _ => false
  | .ifc _ _ _ => false
  | .whl _ _ _ => false
  | .forc _ _ _ => false
  | .case _ _ => false
  | .and _ _ => false
  | .or _ _ => false
  | .fn _ _ => false
  | _ => true

/-- The `break`/`continue` builtins themselves (whose failure — count out of range — is that of a
    simple command). -/
def isBrkCont : Cmd → Bool
  | .brk _ => true
  | .cont _ => true
  | _ => false

def status256 (n : Nat) : Nat := n % 256

/-- The context in which a trap action runs: an EXIT action (`exitTrap` set by the caller) or an
    ERR action.  ERR traps run for failures inside an EXIT action, not inside an ERR action. -/
def actionCtx (k : Ctx) (status : Nat) : Ctx :=
  if k.exitTrap then { k with exitTrap := false, inExit := true, trapSt := status, ign := false }
  else { k with inTrap := true, trapSt := status, ign := false }

/-- The ERR action to run after a failed command: bash decides *before* running a command
    whether ERR is trapped (`was_error_trap`), and runs the action current afterwards. -/
def errAction (before after : Env) : Prog :=
  if before.trapErr.isNil then .nil else after.trapErr

def sem : Nat → Ctx → Task → Env → Res
  | 0, _, _, _ => none
  | n + 1, k, .trap action, e =>
    -- a trap action sees `$?` of before, and leaves `$?` as it was unless it exits the shell
    if action.isNil || k.inTrap then some (.norm, e)
    else
      match seqList (fun st => sem n (actionCtx k e.status) (.stmt st)) action e with
      | none => none
      | some (.exit, e1) => some (.exit, e1)
      | some (_, e1) => some (.norm, { e1 with status := e.status })
  | n + 1, k, .stmt (.mk neg c), e =>
    match sem n (if neg then { k with ign := true } else k) (.cmd c) e with
    | none => none
    | some (.norm, e1) =>
      if neg then some (.norm, { e1 with status := if e1.status = 0 then 1 else 0 })
      else if isChecked c && e1.status != 0 && !k.ign then
        -- the command failed where `-e` is not ignored: ERR trap, then exit under `-e`
        match sem n k (.trap (errAction e e1)) e1 with
        | none => none
        | some (.exit, e2) => some (.exit, e2)
        | some (_, e2) => if e2.errexit then some (.exit, e2) else some (.norm, e2)
      else some (.norm, e1)
    -- `! break` / `! continue`: the builtin's status is inverted, the loop is still left/resumed;
    -- `break 0` (status 1) is a failing simple command like any other
    | some (.brk m, e1) =>
      if neg then some (.brk m, { e1 with status := if e1.status = 0 then 1 else 0 })
      else if isBrkCont c && e1.status != 0 && !k.ign then
        match sem n k (.trap (errAction e e1)) e1 with
        | none => none
        | some (.exit, e2) => some (.exit, e2)
        | some (_, e2) => if e2.errexit then some (.exit, e2) else some (.brk m, e2)
      else some (.brk m, e1)
    | some (.cont m, e1) =>
      if neg then some (.cont m, { e1 with status := if e1.status = 0 then 1 else 0 })
      else if isBrkCont c && e1.status != 0 && !k.ign then
        match sem n k (.trap (errAction e e1)) e1 with
        | none => none
        | some (.exit, e2) => some (.exit, e2)
        | some (_, e2) => if e2.errexit then some (.exit, e2) else some (.cont m, e2)
      else some (.cont m, e1)
    | some r => some r
  | n + 1, k, .loop u c b acc, e =>
    -- the condition list already counts as inside the loop for `break`/`continue`
    match seqList (fun st => sem n { k with ign := true, depth := k.depth + 1 } (.stmt st)) c e with
    | none => none
    | some (.norm, e1) =>
      if (e1.status == 0) == u then some (.norm, { e1 with status := acc })
      else
        match seqList (fun st => sem n { k with depth := k.depth + 1 } (.stmt st)) b e1 with
        | none => none
        | some (fl, e2) =>
          match afterBody fl with
          | (true, fl') => some (fl', e2)
          | (false, _) => sem n k (.loop u c b e2.status) e2
    | some (fl, e1) =>
      match afterBody fl with
      | (true, fl') => some (fl', e1)
      | (false, _) => sem n k (.loop u c b e1.status) e1
  | n + 1, k, .cmd c, e =>
    let list (k' : Ctx) (p : Prog) (e' : Env) : Res := seqList (fun st => sem n k' (.stmt st)) p e'
    let sub (k' : Ctx) (p : Prog) (e' : Env) : Res :=
      subRun (fun st => sem n k' (.stmt st)) (fun a e'' => sem n { k' with exitTrap := true } (.trap a) e'') p e'
    match c with
    | .tru => some (.norm, { e with status := 0 })
    | .fls => some (.norm, { e with status := 1 })
    | .echo w => some (.norm, { e with status := 0, out := e.out ++ (expandWord e.vars e.status w ++ [10]) })
    | .test x neg v =>
      some (.norm, { e with status := if (lookupVar e.vars x == v) != neg then 0 else 1 })
    | .assign x w => some (.norm, { e with status := 0, vars := (x, expandWord e.vars e.status w) :: e.vars })
    | .assignSub x p =>
      -- command substitution: a subshell (`inherit_errexit`: `-e` is inherited); the assignment
      -- returns its status
      -- (a command substitution keeps the loop count: `break`/`continue` in it end the substitution)
      match sub k p (subEnv e []) with
      | none => none
      | some (_, e1) => some (.norm, { e with status := e1.status, vars := (x, stripNl e1.out) :: e.vars })
    | .echoSub w1 p w2 =>
      -- a command substitution in an argument: `$?` expanded after it (same command) is its
      -- status; afterwards the status is lost, `echo` returns 0
      match sub k p (subEnv e []) with
      | none => none
      | some (_, e1) =>
        some (.norm, { e with status := 0,
                              out := e.out ++ (expandWord e.vars e.status w1 ++ (stripNl e1.out ++
                                (expandWord e.vars e1.status w2 ++ [10]))) })
    | .exit none => some (.exit, if k.inTrap || k.inExit then { e with status := k.trapSt } else e)
    | .exit (some m) => some (.exit, { e with status := status256 m })
    | .ret m =>
      if k.inFunc then
        match m with
        | none => some (.ret, e)
        | some v => some (.ret, { e with status := status256 v })
      else some (.norm, { e with status := 2 })
    | .brk m =>
      if k.depth = 0 then some (.norm, { e with status := 0 })
      else if optInt m < 1 then some (.brk k.depth, { e with status := 1 })
      else some (.brk (min (optInt m).toNat k.depth), { e with status := 0 })
    | .cont m =>
      if k.depth = 0 then some (.norm, { e with status := 0 })
      else if optInt m < 1 then some (.brk k.depth, { e with status := 1 })
      else some (.cont (min (optInt m).toNat k.depth), { e with status := 0 })
    | .setE on => some (.norm, { e with status := 0, errexit := on })
    | .setPF on => some (.norm, { e with status := 0, pipefail := on })
    | .trapExit a => some (.norm, { e with status := 0, trapExit := a })
    | .trapErr a => some (.norm, { e with status := 0, trapErr := a })
    | .fn f bodyS => some (.norm, { e with status := 0, funcs := (f, bodyS) :: e.funcs })
    | .call f =>
      match lookupFn e.funcs f with
      | none => some (.norm, { e with status := 127 })
      | some bodyS =>
        -- the ERR trap is not inherited by the function; loops are counted afresh
        match sem n { k with inFunc := true, depth := 0 } (.stmt bodyS) { e with trapErr := .nil } with
        | none => none
        | some (fl, e1) =>
          let e2 := if e.trapErr.isNil then e1 else { e1 with trapErr := e.trapErr }
          match fl with
          | .exit => some (.exit, e2)
          | _ => some (.norm, e2)
    | .block p => list k p e
    | .subsh p =>
      match sub { k with depth := 0 } p (subEnv e e.out) with
      | none => none
      | some (_, e1) => some (.norm, { e with status := e1.status, out := e1.out })
    | .and x y =>
      match sem n { k with ign := true } (.stmt x) e with
      | none => none
      | some (.norm, e1) => if e1.status = 0 then sem n k (.stmt y) e1 else some (.norm, e1)
      | some r => some r
    | .or x y =>
      match sem n { k with ign := true } (.stmt x) e with
      | none => none
      | some (.norm, e1) => if e1.status ≠ 0 then sem n k (.stmt y) e1 else some (.norm, e1)
      | some r => some r
    | .pipe x y =>
      -- each stage in its own subshell; only the last stage's output reaches stdout here
      -- (skeleton stages never read their input)
      match sub { k with depth := 0 } (.cons x .nil) (subEnv e []) with
      | none => none
      | some (_, e1) =>
        match sub { k with depth := 0 } (.cons y .nil) (subEnv e e.out) with
        | none => none
        | some (_, e2) =>
          let st := if e.pipefail && e2.status = 0 then e1.status else e2.status
          some (.norm, { e with status := st, out := e2.out })
    | .ifc c t el =>
      match list { k with ign := true } c e with
      | none => none
      | some (.norm, e1) =>
        if e1.status = 0 then list k t e1
        else
          match el with
          | .none => some (.norm, { e1 with status := 0 })
          | .els p => sem n k (.cmd (.block p)) e1
          | .elif c2 t2 e2 => sem n k (.cmd (.ifc c2 t2 e2)) e1
      | some r => some r
    | .whl u c b => sem n k (.loop u c b 0) e
    | .forc x items b =>
      if items.isEmpty then some (.norm, { e with status := 0 })
      else forItems (fun st => sem n { k with depth := k.depth + 1 } (.stmt st)) x b items e
    | .case w is =>
      caseItems (fun st => sem n k (.stmt st)) (expandWord e.vars e.status w) false false is e

/-- A whole script: run it, then the EXIT trap; the script's status is that of the last command,
    unless the trap action calls `exit`. -/
def semFile (fuel : Nat) (p : Prog) : Option (Str × Nat) :=
  match subRun (fun st => sem fuel {} (.stmt st)) (fun a e => sem fuel { exitTrap := true } (.trap a) e) p {} with
  | none => none
  | some (_, e) => some (e.out, e.status)

end ShVerif.L5.Bash
