import ShVerif.Base.Hex
import ShVerif.Model.L1Heap
/-
  C29 — Running a program leaves the tree and Env untouched.  Executable model, core Lean only.

  Part A (Env): `overlayEnviron` chains of interp/vars.go as heap objects, the chain-building
  steps of `Runner.Reset`, `Runner.call`, `Runner.subshell(fg/bg)` and `Runner.handlerCtx`, and
  `overlayEnviron.Set/Get/Each` with the log of every `Set` that reaches the root Environ (the one
  given to `interp.Env`).

  Part B (tree): the code that builds new words out of words of the tree, on the L1 heap of Go
  slices — `syntax.SplitBraces` (syntax/braces.go) applied to a *copied* `Word` header as
  `expand.FieldsSeq` does, the alias splice of `Runner.cmd`, `Runner.flattenAssigns`, the `<<-` line
  splitter of `Runner.hdocString`, and the statement copy of a background statement.

  Part C: the vocabulary of the regenerated write-site table (`Gen/C29.lean`).

  Go panics are `none`.
-/
namespace ShVerif.C29
open ShVerif ShVerif.L1

/-! ## Part A — overlay environments -/

/-- `expand.Variable` as far as `overlayEnviron.Set` looks at it (`kind = 5` is `KeepValue`;
    the value fields travel together as `val`). -/
structure Var where
  set : Bool := false
  loc : Bool := false
  exported : Bool := false
  readOnly : Bool := false
  kind : Nat := 0
  val : Bytes := []
deriving DecidableEq, Repr, Inhabited

def kindKeepValue : Nat := 5

/-- `overlayEnviron.parent`: nil, the root Environ of `interp.Env`, or another overlay. -/
inductive PRef
  | nil
  | base
  | ov (id : Nat)
deriving DecidableEq, Repr, Inhabited

/-- One `*overlayEnviron`.  `values = none` is the nil map. -/
structure Scope where
  parent : PRef := .nil
  funcScope : Bool := false
  values : Option (List (Bytes × Var)) := none
deriving DecidableEq, Repr, Inhabited

/-- The environment heap: the root Environ's variables (read-only data), the overlays, and the
    log of `Set` calls the root Environ has received. -/
structure EnvHeap where
  base : List (Bytes × Var) := []
  scopes : List Scope := []
  rootSets : List Bytes := []
deriving DecidableEq, Repr, Inhabited

def scopeAt (h : EnvHeap) (o : Nat) : Scope := h.scopes[o]?.getD {}

def lookupVals (vs : Option (List (Bytes × Var))) (name : Bytes) : Option Var :=
  match vs with
  | none => none
  | some l => alookup l name

/-- `Environ.Get` through a chain (fuel: chain length). -/
def envGetRef (h : EnvHeap) : Nat → PRef → Bytes → Var
  | _, .nil, _ => {}
  | _, .base, name => (alookup h.base name).getD {}
  | 0, .ov _, _ => {}
  | fuel + 1, .ov o, name =>
    let s := scopeAt h o
    match lookupVals s.values name with
    | some v => v
    | none => envGetRef h fuel s.parent name

def envGet (h : EnvHeap) (o : Nat) (name : Bytes) : Var := envGetRef h (h.scopes.length + 1) (.ov o) name

def setScopeValues (h : EnvHeap) (o : Nat) (vs : List (Bytes × Var)) : EnvHeap :=
  { h with scopes := h.scopes.set o { scopeAt h o with values := some vs } }

/-- Result of `Set`: `err` is the "readonly variable" error. -/
inductive SetRes
  | ok (h : EnvHeap)
  | err (h : EnvHeap)
  | panic
deriving DecidableEq, Repr, Inhabited

/-- The part of `overlayEnviron.Set` after the forwarding test: the write into the overlay's own
    `values` map (`prev` is the previous variable, looked up in the overlay, else in the parent). -/
def envSetLocal (h : EnvHeap) (o : Nat) (name : Bytes) (vr prev : Var) : SetRes :=
  let s := scopeAt h o
  -- `if o.values == nil { o.values = make(...) }`
  let vals : List (Bytes × Var) := s.values.getD []
  let h1 := setScopeValues h o vals
  if vr.kind ≠ kindKeepValue && prev.readOnly then .err h1
  else
    let vr1 : Var := if vr.kind = kindKeepValue then { vr with kind := prev.kind, val := prev.val } else vr
    if !vr1.set then
      if prev.loc then
        .ok (setScopeValues h1 o (aset vals name { vr1 with loc := true }))
      else
        -- delete, then fall through to the final store
        .ok (setScopeValues h1 o (aset (aerase vals name) name { vr1 with loc := prev.loc || vr1.loc }))
    else
      .ok (setScopeValues h1 o (aset vals name { vr1 with loc := prev.loc || vr1.loc }))

/-- `overlayEnviron.Set`, line by line.  A `funcScope` overlay forwards a non-local write to
    `o.parent.(expand.WriteEnviron)`: to the parent overlay, or — if the parent were the root
    Environ — to the root (logged in `rootSets`; a root that is not a WriteEnviron, or a nil
    parent, makes the type assertion panic). -/
def envSet (rootWritable : Bool) : Nat → EnvHeap → Nat → Bytes → Var → SetRes
  | 0, _, _, _, _ => .panic
  | fuel + 1, h, o, name, vr =>
    let s := scopeAt h o
    let prevIn := lookupVals s.values name
    let prev0 : Var := prevIn.getD {}
    if s.funcScope && !vr.loc && !prev0.loc then
      match s.parent with
      | .ov p => envSet rootWritable fuel h p name vr
      | .base => if rootWritable then .ok { h with rootSets := h.rootSets ++ [name] } else .panic
      | .nil => .panic
    else
      let prev : Var :=
        match prevIn, s.parent with
        | some v, _ => v
        | none, .nil => prev0
        | none, p => envGetRef h (h.scopes.length + 1) p name
      envSetLocal h o name vr prev

def envSetTop (rootWritable : Bool) (h : EnvHeap) (o : Nat) (name : Bytes) (vr : Var) : SetRes :=
  envSet rootWritable (h.scopes.length + 1) h o name vr

/-- `Environ.Each` through a chain: parent first, then the overlay's own values (map order is
    not modelled: the own values are given in list order and compared as sorted lists). -/
def envEachRef (h : EnvHeap) : Nat → PRef → List (Bytes × Var)
  | _, .nil => []
  | _, .base => h.base
  | 0, .ov _ => []
  | fuel + 1, .ov o =>
    let s := scopeAt h o
    envEachRef h fuel s.parent ++ (s.values.getD [])

def allocScope (h : EnvHeap) (s : Scope) : EnvHeap × Nat :=
  ({ h with scopes := h.scopes ++ [s] }, h.scopes.length)

/-- `for name, vr := range parent.Each { oenv.Set(name, vr) }` (errors are dropped). -/
def bgCopy (o : Nat) : EnvHeap → List (Bytes × Var) → Option EnvHeap
  | h, [] => some h
  | h, (n, v) :: rest =>
    match envSetTop false h o n v with
    | .ok h' => bgCopy o h' rest
    | .err h' => bgCopy o h' rest
    | .panic => none

/-- `newOverlayEnviron(parent, background)`: a foreground overlay keeps the parent; a background
    one copies every variable of `parent.Each` with `Set` into a parentless overlay. -/
def newOverlay (h : EnvHeap) (parent : PRef) (background : Bool) : Option (EnvHeap × Nat) :=
  if !background then some (allocScope h { parent := parent })
  else if parent = .nil then none       -- `parent.Each` on a nil interface
  else
    let (h1, o) := allocScope h {}
    let vars := envEachRef h (h.scopes.length + 1) parent
    (bgCopy o h1 vars).map fun h2 => (h2, o)

/-- The part of a `Runner` that matters here: its `writeEnv`, the saved `writeEnv`s of the
    function calls in progress, and the enclosing Runners (subshells run and are dropped). -/
structure RunnerEnv where
  writeEnv : Nat := 0
  saved : List Nat := []
deriving DecidableEq, Repr, Inhabited

structure EState where
  h : EnvHeap := {}
  cur : RunnerEnv := {}
  outer : List RunnerEnv := []
  handler : Option Nat := none   -- the overlay last handed to a handler (`HandlerContext.Env`)
deriving DecidableEq, Repr, Inhabited

/-- What a program can make the interpreter do to its environments. -/
inductive EOp
  | reset                         -- `Runner.Reset`: `r.writeEnv = &overlayEnviron{parent: r.Env}`
  | call                          -- function call: `&overlayEnviron{parent: r.writeEnv, funcScope: true}`
  | ret                           -- function return: `r.writeEnv = origEnv`
  | subshell (background : Bool)  -- `r.subshell(background)`; the child becomes the current Runner
  | subEnd                        -- the subshell is finished; back to the parent Runner
  | handler                       -- `r.handlerCtx`: `&overlayEnviron{parent: r.writeEnv}` given to a handler
  | hset (name : Bytes) (v : Var) -- a handler writes its `HandlerContext.Env` (if it treats it as a WriteEnviron)
  | set (name : Bytes) (v : Var)  -- any `r.writeEnv.Set` (setVar, delVar, expandEnv.Set, …)
deriving DecidableEq, Repr, Inhabited

def afterSet (st : EState) : SetRes → Option EState
  | .ok h => some { st with h := h }
  | .err h => some { st with h := h }
  | .panic => none

def estep (rootWritable : Bool) (st : EState) : EOp → Option EState
  | .reset =>
    let (h, o) := allocScope st.h { parent := .base }
    some { st with h := h, cur := { writeEnv := o } }
  | .call =>
    let (h, o) := allocScope st.h { parent := .ov st.cur.writeEnv, funcScope := true }
    some { st with h := h, cur := { writeEnv := o, saved := st.cur.writeEnv :: st.cur.saved } }
  | .ret =>
    match st.cur.saved with
    | [] => some st
    | w :: rest => some { st with cur := { writeEnv := w, saved := rest } }
  | .subshell bg =>
    match newOverlay st.h (.ov st.cur.writeEnv) bg with
    | some (h, o) => some { st with h := h, cur := { writeEnv := o }, outer := st.cur :: st.outer }
    | none => none
  | .subEnd =>
    match st.outer with
    | [] => some st
    | p :: rest => some { st with cur := p, outer := rest }
  | .handler =>
    let (h, o) := allocScope st.h { parent := .ov st.cur.writeEnv }
    some { st with h := h, handler := some o }
  | .hset name v =>
    match st.handler with
    | none => some st
    | some o => afterSet st (envSetTop rootWritable st.h o name v)
  | .set name v => afterSet st (envSetTop rootWritable st.h st.cur.writeEnv name v)

def erun (rootWritable : Bool) (st : EState) : List EOp → Option EState
  | [] => some st
  | op :: ops =>
    match estep rootWritable st op with
    | some st' => erun rootWritable st' ops
    | none => none

/-- `interp.New(interp.Env(base))` followed by the first `Reset`. -/
def einit (base : List (Bytes × Var)) : EState :=
  let (h, o) := allocScope { base := base } { parent := .base }
  { h := h, cur := { writeEnv := o } }

/-! ### free-form chains (the correspondence also drives shapes the Runner never builds) -/

/-- `mk`: a new overlay literal; `setAt`/`getAt`/`eachAt`: the methods on overlay `o`. -/
inductive ChainOp
  | mk (parent : PRef) (funcScope : Bool)
  | bg (parent : PRef)
  | setAt (o : Nat) (name : Bytes) (v : Var)
  | getAt (o : Nat) (name : Bytes)
  | eachAt (o : Nat)
deriving DecidableEq, Repr, Inhabited

/-! ## Part B — words on the L1 heap -/

/-- A `syntax.WordPart` interface value.  A `*Lit` is never written after it has been
    created, so it is represented by its value; every other part of the tree by an identity
    tag; a `*BraceExp` made by `SplitBraces` by its object id. -/
inductive Part
  | nilp
  | lit (v : Bytes)
  | other (tag : Nat)
  | brace (b : Nat)
deriving DecidableEq, Repr

instance : Inhabited Part := ⟨.nilp⟩

/-- `syntax.BraceExp`.  `Elems` is only ever the slice `SplitBraces` itself creates
    (`[]*Word{acc}` and appends to it); it is modelled by the list of `*Word` ids it denotes. -/
structure BraceObj where
  seq : Bool := false
  elems : List Nat := []
deriving DecidableEq, Repr, Inhabited

/-- Word headers (`Word.Parts` slice headers), `BraceExp` objects, backing arrays of parts. -/
structure Heap where
  words : List Slice := []
  braces : List BraceObj := []
  parr : ArrHeap Part := []
deriving DecidableEq, Repr, Inhabited

def wordAt (h : Heap) (w : Nat) : Slice := h.words[w]?.getD Slice.nil
def braceAt (h : Heap) (b : Nat) : BraceObj := h.braces[b]?.getD {}
def partsOf (h : Heap) (w : Nat) : List Part := cells h.parr (wordAt h w)

/-- `&Word{}`. -/
def newWord (h : Heap) (s : Slice := Slice.nil) : Heap × Nat :=
  ({ h with words := h.words ++ [s] }, h.words.length)

/-- `&BraceExp{Elems: []*Word{w}}`. -/
def newBrace (h : Heap) (elems : List Nat) : Heap × Nat :=
  ({ h with braces := h.braces ++ [{ elems := elems }] }, h.braces.length)

def setWord (h : Heap) (w : Nat) (s : Slice) : Heap := { h with words := h.words.set w s }
def setBrace (h : Heap) (b : Nat) (o : BraceObj) : Heap := { h with braces := h.braces.set b o }

/-- `w.Parts = append(w.Parts, p)`. -/
def appendPart (g : Grow) (h : Heap) (w : Nat) (p : Part) : Heap :=
  let r := sliceAppend g h.parr (wordAt h w) p
  setWord { h with parr := r.1 } w r.2

/-- `w.Parts = append(w.Parts, ps...)`. -/
def appendParts (g : Grow) (h : Heap) (w : Nat) (ps : List Part) : Heap :=
  let r := sliceAppendMany g h.parr (wordAt h w) ps
  setWord { h with parr := r.1 } w r.2

/-- `Word.Lit()`: the concatenation of the literal parts, or "" if some part is not a `*Lit`. -/
def litOfParts : List Part → Option Bytes
  | [] => some []
  | .lit v :: rest => (litOfParts rest).map (v ++ ·)
  | _ :: _ => none

def wordLit (h : Heap) (w : Nat) : Bytes := (litOfParts (partsOf h w)).getD []

def cBackslash : UInt8 := 92
def cLBrace : UInt8 := 123
def cRBrace : UInt8 := 125
def cComma : UInt8 := 44
def cDot : UInt8 := 46
def cPlus : UInt8 := 43
def cMinus : UInt8 := 45

def litLeftBrace : Part := .lit [cLBrace]
def litRightBrace : Part := .lit [cRBrace]
def litComma : Part := .lit [cComma]
def litDots : Part := .lit [cDot, cDot]

def isDigit (c : UInt8) : Bool := 48 ≤ c && c ≤ 57
def asciiLetter (c : UInt8) : Bool := (97 ≤ c && c ≤ 122) || (65 ≤ c && c ≤ 90)

def digitsVal (ds : Bytes) : Nat := ds.foldl (fun acc d => acc * 10 + (d.toNat - 48)) 0

/-- `strconv.ParseInt(s, 10, 64)` returns no error. -/
def parseIntOk (s : Bytes) : Bool :=
  let body (neg : Bool) (ds : Bytes) : Bool :=
    !ds.isEmpty && ds.all isDigit &&
      (if neg then digitsVal ds ≤ 9223372036854775808 else digitsVal ds ≤ 9223372036854775807)
  match s with
  | [] => false
  | c :: r => if c = cPlus then body false r else if c = cMinus then body true r else body false s

/-- The local state of `SplitBraces`: `top`, `acc`, `cur` and the `open` stack (innermost first;
    `cur` is its head). -/
structure SB where
  h : Heap
  top : Nat
  acc : Nat
  opn : List Nat
deriving DecidableEq, Repr, Inhabited

def SB.cur (st : SB) : Option Nat := st.opn.head?

def addLit (g : Grow) (st : SB) (p : Part) : SB := { st with h := appendPart g st.h st.acc p }

/-- the closure `addlitidx`: `lit.Value[last:j]` as a new literal, unless empty. -/
def addLitIdx (g : Grow) (st : SB) (v : Bytes) (last j : Nat) : SB :=
  if last = j then st else addLit g st (.lit ((v.drop last).take (j - last)))

/-- the closure `pop`: returns the old `cur`. -/
def pop (st : SB) : Option (SB × Nat) :=
  match st.opn with
  | [] => none                        -- `open[:len(open)-1]` with len 0 panics
  | old :: [] => some ({ st with opn := [], acc := st.top }, old)
  | old :: b :: rest =>
    match (braceAt st.h b).elems.getLast? with
    | none => none                    -- `cur.Elems[len(cur.Elems)-1]` with no elements panics
    | some w => some ({ st with opn := b :: rest, acc := w }, old)

/-- the separator literal written before every element but the first -/
def addSep (g : Grow) (sep : Option Part) (st : SB) (first : Bool) : SB :=
  if first then st else
    match sep with
    | some p => addLit g st p
    | none => st

/-- `acc.Parts = append(acc.Parts, elem.Parts...)` for the elements of a brace, with a separator
    literal between them. -/
def spliceElems (g : Grow) (sep : Option Part) : SB → List Nat → Bool → SB
  | st, [], _ => st
  | st, e :: es, first =>
    let st1 := addSep g sep st first
    let st2 := { st1 with h := appendParts g st1.h st1.acc (partsOf st1.h e) }
    spliceElems g sep st2 es false

/-- A comma inside a sequence: merge the elements seen so far into the first one. -/
def mergeSeq (g : Grow) (h : Heap) (b : Nat) : Option Heap :=
  match (braceAt h b).elems with
  | [] => none
  | merged :: rest =>
    let h1 := rest.foldl (fun h e => appendParts g (appendPart g h merged litDots) merged (partsOf h e)) h
    some (setBrace h1 b { seq := false, elems := [merged] })

/-- start/end of a sequence: `some false` a number, `some true` a letter, `none` neither -/
def seqEndKind (v : Bytes) : Option Bool :=
  if parseIntOk v then some false
  else if v.length = 1 && asciiLetter (v.getD 0 0) then some true
  else none

/-- the `broken` flag of a closed `{x..y[..incr]}` -/
def seqBroken (h : Heap) (elems : List Nat) : Bool :=
  let val (i : Nat) : Bytes := wordLit h (elems.getD i 0)
  let k0 := seqEndKind (val 0)
  let k1 := seqEndKind (val 1)
  let broken0 := k0.isNone || k1.isNone
  let broken1 := if elems.length = 3 then !parseIntOk (val 2) else elems.length > 3
  let broken2 := k0.getD false != k1.getD false
  broken0 || broken1 || broken2

/-- `{x}` and broken sequences go back to literals: `{`, the elements separated by `sep`, `}` -/
def unbrace (g : Grow) (st : SB) (elems : List Nat) (sep : Option Part) : SB :=
  addLit g (spliceElems g sep (addLit g st litLeftBrace) elems true) litRightBrace

/-- the `case '}'` arm after `pop`. -/
def closeBrace (g : Grow) (st : SB) (br : Nat) : SB :=
  let bo := braceAt st.h br
  if bo.elems.length = 1 then unbrace g st bo.elems none
  else if !bo.seq then addLit g st (.brace br)
  else if !seqBroken st.h bo.elems then addLit g st (.brace br)
  else unbrace g st bo.elems (some litDots)

/-- The byte loop over one literal: returns the state and `last`. -/
def lexLit (g : Grow) (v : Bytes) : Nat → Nat → Nat → SB → Option (SB × Nat)
  | 0, _, last, st => some (st, last)
  | fuel + 1, j, last, st =>
    if v.length ≤ j then some (st, last)
    else
      let c := v.getD j 0
      if c = cBackslash then lexLit g v fuel (j + 2) last st
      else if c = cLBrace then
        let st1 := addLitIdx g st v last j
        let (h1, w) := newWord st1.h
        let (h2, b) := newBrace h1 [w]
        lexLit g v fuel (j + 1) (j + 1) { st1 with h := h2, acc := w, opn := b :: st1.opn }
      else if c = cComma then
        match st.cur with
        | none => lexLit g v fuel (j + 1) last st
        | some b =>
          let st1 := addLitIdx g st v last j
          let hm := if (braceAt st1.h b).seq then mergeSeq g st1.h b else some st1.h
          match hm with
          | none => none
          | some h1 =>
            let (h2, w) := newWord h1
            let bo := braceAt h2 b
            let h3 := setBrace h2 b { bo with elems := bo.elems ++ [w] }
            lexLit g v fuel (j + 1) (j + 1) { st1 with h := h3, acc := w }
      else if c = cDot then
        match st.cur with
        | none => lexLit g v fuel (j + 1) last st
        | some b =>
          if v.length ≤ j + 1 || v.getD (j + 1) 0 != cDot then lexLit g v fuel (j + 1) last st
          else
            let bo := braceAt st.h b
            if !bo.seq && bo.elems.length > 1 then lexLit g v fuel (j + 1) last st
            else
              let st1 := addLitIdx g st v last j
              let (h2, w) := newWord st1.h
              let bo := braceAt h2 b
              let h3 := setBrace h2 b { seq := true, elems := bo.elems ++ [w] }
              lexLit g v fuel (j + 2) (j + 2) { st1 with h := h3, acc := w }
      else if c = cRBrace then
        match st.cur with
        | none => lexLit g v fuel (j + 1) last st
        | some _ =>
          let st1 := addLitIdx g st v last j
          match pop st1 with
          | none => none
          | some (st2, br) => lexLit g v fuel (j + 1) (j + 1) (closeBrace g st2 br)
      else lexLit g v fuel (j + 1) last st

/-- The loop over `word.Parts`. -/
def lexParts (g : Grow) : SB → List Part → Option SB
  | st, [] => some st
  | st, .lit v :: rest =>
    match lexLit g v (v.length + 1) 0 0 st with
    | none => none
    | some (st1, last) =>
      -- `if last == 0 { addLit(lit) } else if last < len(lit.Value) { left := *lit; …; addLit(&left) }`:
      -- no empty literal after a trailing brace character (commit "fix: … {,x}")
      let st2 := if last = 0 then addLit g st1 (.lit v)
                 else if last < v.length then addLit g st1 (.lit (v.drop last)) else st1
      lexParts g st2 rest
  | st, p :: rest => lexParts g (addLit g st p) rest

/-- `for acc != top { … }`: braces that were never closed fall back to literals. -/
def closeOpen (g : Grow) : Nat → SB → Option SB
  | 0, st => if st.acc = st.top then some st else none
  | fuel + 1, st =>
    if st.acc = st.top then some st
    else
      match pop st with
      | none => none
      | some (st1, br) =>
        let bo := braceAt st1.h br
        let st2 := addLit g st1 litLeftBrace
        let st3 := spliceElems g (some (if bo.seq then litDots else litComma)) st2 bo.elems true
        closeOpen g fuel st3

def hasBraceLit : List Part → Bool
  | [] => false
  | .lit v :: rest => v.contains cLBrace || hasBraceLit rest
  | _ :: rest => hasBraceLit rest

/-- `syntax.SplitBraces(word)` on the `Word` object `w`: the new heap and the Boolean result
    (as of the commits "SplitBraces reports false and leaves the word alone when it found no brace
    expression" and "no longer appends an empty literal after a closing brace"). -/
def splitBraces (g : Grow) (h : Heap) (w : Nat) : Option (Heap × Bool) :=
  let parts := partsOf h w
  if !hasBraceLit parts then some (h, false)
  else
    let (h1, top) := newWord h
    match lexParts g { h := h1, top := top, acc := top, opn := [] } parts with
    | none => none
    | some st =>
      match closeOpen g (st.opn.length + 1) st with
      | none => none
      | some st1 =>
        -- only malformed braces such as `a{b` or `{x}`: the word is left untouched (the Words and
        -- arrays built so far are garbage)
        if !(partsOf st1.h st1.top).any (fun p => match p with | .brace _ => true | _ => false) then some (st1.h, false)
        else some (setWord st1.h w (wordAt st1.h st1.top), true)   -- `*word = *top`

/-- `expand.FieldsSeq`: `word := *word` (a copy of the header, same backing array), then
    `syntax.SplitBraces(&word)`.  Returns the id of the copy. -/
def fieldsSeqSplit (g : Grow) (h : Heap) (w : Nat) : Option (Heap × Nat × Bool) :=
  let (h1, c) := newWord h (wordAt h w)
  (splitBraces g h1 c).map fun r => (r.1, c, r.2)

/-! ### expand.bracesSeqRec -/

/-- `slices.Concat(…)` of parts: always a fresh array (nil when there is nothing). -/
def concatParts (g : Grow) (h : Heap) (ps : List Part) : Heap × Slice :=
  if ps.isEmpty then (h, Slice.nil)
  else
    let c := newCap g h.parr.length 0 ps.length
    ({ h with parr := h.parr ++ [padTo ps c] }, { arr := h.parr.length, off := 0, len := ps.length, cap := c })

/-- The yield wrapper of `expand`: `w.Parts = slices.Concat(left, w.Parts)` for every yielded word. -/
def prependLeft (g : Grow) (left : Slice) : Heap → List Nat → Heap
  | h, [] => h
  | h, w :: ws =>
    let r := concatParts g h (cells h.parr left ++ partsOf h w)
    prependLeft g left (setWord r.1 w r.2) ws

def intVal (s : Bytes) : Int :=
  match s with
  | [] => 0
  | c :: r => if c = cMinus then -(digitsVal r : Int) else if c = cPlus then digitsVal r else digitsVal s

def natDigits (n : Nat) : Bytes := (Nat.toDigits 10 n).map fun c => c.toNat.toUInt8

/-- `strconv.FormatInt(n, 10)` -/
def formatInt (n : Int) : Bytes := if n < 0 then cMinus :: natDigits n.natAbs else natDigits n.natAbs

/-- `fmt.Sprintf("%0*d", width, n)` -/
def formatPad (width : Nat) (n : Int) : Bytes :=
  let ds := natDigits n.natAbs
  let sign : Bytes := if n < 0 then [cMinus] else []
  sign ++ List.replicate (width - sign.length - ds.length) 48 ++ ds

def hasLeadingZeros (s : Bytes) : Bool :=
  let s' := match s with
    | c :: r => if c = cMinus then r else s
    | [] => s
  s'.length > 1 && s'.getD 0 0 = 48

/-- the values `n` of the sequence loop (at most `fuel` of them) -/
def seqVals (to incr : Int) (upward : Bool) : Nat → Int → List Int
  | 0, _ => []
  | fuel + 1, n => if (upward && n ≤ to) || (!upward && n ≥ to) then n :: seqVals to incr upward fuel (n + incr) else []

/-- The literals a sequence brace `{from..to[..incr]}` expands to (`none`: `fromLit[0]` on an empty
    string panics).  Only the first 16Ki+1 are ever asked for. -/
def seqLits (h : Heap) (bo : BraceObj) : Option (List Bytes) :=
  let fromLit := wordLit h (bo.elems.getD 0 0)
  let toLit := wordLit h (bo.elems.getD 1 0)
  let nums := parseIntOk fromLit && parseIntOk toLit
  if !nums && (fromLit.isEmpty || toLit.isEmpty) then none
  else
    let frm : Int := if nums then intVal fromLit else (fromLit.getD 0 0).toNat
    let to : Int := if nums then intVal toLit else (toLit.getD 0 0).toNat
    let width := if nums && (hasLeadingZeros fromLit || hasLeadingZeros toLit) then max fromLit.length toLit.length else 0
    let upward := frm ≤ to
    let incr0 : Int :=
      if bo.elems.length > 2 then
        let l := wordLit h (bo.elems.getD 2 0)
        let n := if parseIntOk l then (intVal l).natAbs else 0
        if n ≠ 0 then n else 1
      else 1
    let incr := if upward then incr0 else -incr0
    some ((seqVals to incr upward 16385 frm).map fun n =>
      if !nums then [n.toNat.toUInt8] else if width > 0 then formatPad width n else formatInt n)

/-- One alternative of a brace: `next := *word; next.Parts = …; expand(&next)`. -/
def bracesAlt (g : Grow) (rec : Heap → Nat → Option (Heap × List Nat)) (word : Nat) (left : Slice)
    (h : Heap) (mk : Heap → Heap × Slice) : Option (Heap × List Nat) :=
  let (h1, next) := newWord h (wordAt h word)     -- next := *word
  let r := mk h1
  let h2 := setWord r.1 next r.2                  -- next.Parts = …
  match rec h2 next with
  | none => none
  | some (h3, ws) => some (prependLeft g left h3 ws, ws)

/-- the loop over the alternatives (sequence values or list elements) -/
def bracesAlts (g : Grow) (rec : Heap → Nat → Option (Heap × List Nat)) (word : Nat) (left : Slice) :
    Heap → List (Heap → Heap × Slice) → Option (Heap × List Nat)
  | h, [] => some (h, [])
  | h, mk :: mks =>
    match bracesAlt g rec word left h mk with
    | none => none
    | some (h1, ws) =>
      match bracesAlts g rec word left h1 mks with
      | none => none
      | some (h2, ws2) => some (h2, ws ++ ws2)

/-- the loop `for i, wp := range word.Parts` -/
def bracesScan (g : Grow) (rec : Heap → Nat → Option (Heap × List Nat)) (word : Nat) :
    Heap → List Part → Slice → Option (Heap × List Nat)
  | h, [], left =>
    let (h1, w) := newWord h left            -- yield(&syntax.Word{Parts: left})
    some (h1, [w])
  | h, .brace b :: rest, left =>
    let bo := braceAt h b
    if bo.seq then
      match seqLits h bo with
      | none => none
      | some lits =>
        bracesAlts g rec word left h (lits.map fun v => fun h =>
          -- append([]syntax.WordPart{lit}, rest...)
          let r0 := sliceMake h.parr [Part.lit v] 1
          let r1 := sliceAppendMany g r0.1 r0.2 rest
          ({ h with parr := r1.1 }, r1.2))
    else
      bracesAlts g rec word left h (bo.elems.map fun e => fun h => concatParts g h (partsOf h e ++ rest))
  | h, p :: rest, left =>
    let r := sliceAppend g h.parr left p      -- left = append(left, wp)
    bracesScan g rec word { h with parr := r.1 } rest r.2

/-- `bracesSeqRec(word, yield)`: the heap afterwards and the yielded words in order. -/
def bracesRec (g : Grow) : Nat → Heap → Nat → Option (Heap × List Nat)
  | 0, _, _ => none
  | fuel + 1, h, w => bracesScan g (bracesRec g fuel) w h (partsOf h w) Slice.nil

/-- The brace part of `expand.FieldsSeq` for one word of the tree: copy, SplitBraces, and — when it
    split — `BracesSeq`.  Returns the words handed to `expandWord`. -/
def fieldsSeqWords (g : Grow) (fuel : Nat) (h : Heap) (w : Nat) : Option (Heap × List Nat) :=
  match fieldsSeqSplit g h w with
  | none => none
  | some (h1, c, false) => some (h1, [c])
  | some (h1, c, true) => bracesRec g fuel h1 c

/-! ### the other places that build words or statements next to the tree -/

/-- Slices of `*Word` (call arguments), of `*Assign`, and statement objects, for the small sites:
    one generic heap of `Nat` cells is enough (`ArrHeap Nat`), objects are identified by ids. -/
abbrev IdHeap := ArrHeap Nat

/-- `slices.Concat(a, b, c)`: always a fresh array (nil when everything is empty). -/
def sliceConcat (h : IdHeap) (ss : List Slice) : IdHeap × Slice :=
  let cs := ss.flatMap (cells h)
  if cs.isEmpty then (h, Slice.nil) else (h ++ [cs], { arr := h.length, off := 0, len := cs.length, cap := cs.length })

/-- One step of the alias loop of `Runner.cmd`:
    `args = slices.Concat(args[:i], als.args, args[i+1:])`. -/
def aliasSplice (h : IdHeap) (args als : Slice) (i : Nat) : Option (IdHeap × Slice) :=
  match sliceTo args i, sliceFrom args (i + 1) with
  | some a, some b => if i < args.len then some (sliceConcat h [a, als, b]) else none
  | _, _ => none

/-- The alias loop of `Runner.cmd`.  `tbl` is `r.alias` keyed by the word (a word id stands for its
    literal): the alias' argument slice and whether its source ends in a blank.  `fuel` bounds the
    rounds (`len(args) - i` decreases by one per round). -/
def aliasLoop (tbl : List (Nat × Slice × Bool)) : Nat → IdHeap → Slice → Nat → Option (IdHeap × Slice)
  | 0, h, args, _ => some (h, args)
  | fuel + 1, h, args, i =>
    if args.len ≤ i then some (h, args)
    else
      match sliceGet? h args i with
      | none => none
      | some w =>
        match alookup tbl w with
        | none => some (h, args)
        | some (als, blank) =>
          match aliasSplice h args als i with
          | none => none
          | some (h1, args1) => if !blank then some (h1, args1) else aliasLoop tbl fuel h1 args1 (i + als.len)

/-- `flushLine` + `cur = append(cur, lit)`, `n` times: the word `&syntax.Word{Parts: cur}` is
    expanded (read only: its cells are the line that is output), then `cur = cur[:0]` and the array
    is reused.  A literal's k-th line segment is the cell `tag + 1000 * k`. -/
def hdocLines (g : Grow) (tag : Nat) : IdHeap → Slice → List (List Nat) → Nat → Nat → IdHeap × Slice × List (List Nat)
  | h, cur, out, _, 0 => (h, cur, out)
  | h, cur, out, k, n + 1 =>
    let out1 := out ++ [cells h cur]
    let r := sliceAppend g h { cur with len := 0 } (tag + 1000 * k)
    hdocLines g tag r.1 r.2 out1 (k + 1) n

/-- `Runner.hdocString` for `<<-`: `cur = append(cur, wp)` per part, `cur = cur[:0]` per flushed
    line.  `parts` gives for each part of the here-document word its identity tag and 0 for a
    non-literal, k+1 for a literal containing k newlines.  Returns the flushed lines too. -/
def hdocSplit (g : Grow) : IdHeap → Slice → List (List Nat) → List (Nat × Nat) → IdHeap × Slice × List (List Nat)
  | h, cur, out, [] => (h, cur, out ++ [cells h cur])      -- the final flushLine
  | h, cur, out, (tag, k) :: rest =>
    let r0 := sliceAppend g h cur tag
    let r1 := hdocLines g tag r0.1 r0.2 out 1 (k - 1)
    hdocSplit g r1.1 r1.2.1 r1.2.2 rest

/-! ### Runner.flattenAssigns and the background statement copy -/

/-- `syntax.Assign` as far as flattenAssigns touches it: `Name` (a `*Lit` id or nil), `Naked`,
    `Value` (a `*Word` id or nil). -/
structure AssignObj where
  name : Option Nat := none
  naked : Bool := false
  value : Option Nat := none
deriving DecidableEq, Repr, Inhabited

/-- Objects flattenAssigns can create: assignments; literals and words are counted only. -/
structure AHeap where
  assigns : List AssignObj := []
  lits : Nat := 0
  words : Nat := 0
deriving DecidableEq, Repr, Inhabited

/-- One expanded field `name[=value]` of a `declare $x` argument: `as := &syntax.Assign{}`, then
    `as.Name = &syntax.Lit{…}` and `as.Naked = true` or `as.Value = &syntax.Word{…}`. -/
def flattenField (h : AHeap) (hasEq : Bool) : AHeap × Nat :=
  let a := h.assigns.length
  let h1 : AHeap := { h with assigns := h.assigns ++ [{}] }                       -- as := &syntax.Assign{}
  let h2 : AHeap := { h1 with assigns := h1.assigns.set a { (h1.assigns.getD a {}) with name := some h1.lits }, lits := h1.lits + 1 }
  if !hasEq then
    ({ h2 with assigns := h2.assigns.set a { (h2.assigns.getD a {}) with naked := true } }, a)
  else
    ({ h2 with assigns := h2.assigns.set a { (h2.assigns.getD a {}) with value := some h2.words }, lits := h2.lits + 1, words := h2.words + 1 }, a)

/-- `Runner.flattenAssigns(args)`: an argument with a name is yielded as it is; one without is
    expanded to fields (`fields a` = for each field whether it contains `=`), each a new Assign. -/
def flattenAssigns (fields : Nat → List Bool) : AHeap → List Nat → AHeap × List Nat
  | h, [] => (h, [])
  | h, a :: rest =>
    if (h.assigns.getD a {}).name.isSome then
      let r := flattenAssigns fields h rest
      (r.1, a :: r.2)
    else
      let step := (fields a).foldl (fun (acc : AHeap × List Nat) e => let r := flattenField acc.1 e; (r.1, acc.2 ++ [r.2])) (h, [])
      let r := flattenAssigns fields step.1 rest
      (r.1, step.2 ++ r.2)

/-- `syntax.Stmt` as far as `Runner.stmt` touches it. -/
structure StmtObj where
  cmd : Nat := 0
  background : Bool := false
  disown : Bool := false
  redirs : Slice := Slice.nil
deriving DecidableEq, Repr, Inhabited

/-- `st2 := *st; st2.Background = false; st2.Disown = false` — returns the id of `st2`. -/
def bgStmtCopy (h : List StmtObj) (st : Nat) : List StmtObj × Nat :=
  let c := h.length
  let h1 := h ++ [h.getD st {}]
  let h2 := h1.set c { (h1.getD c {}) with background := false }
  let h3 := h2.set c { (h2.getD c {}) with disown := false }
  (h3, c)

/-! ## Part C — vocabulary of the write-site table -/

/-- One syntactic write (assignment, `append`, `copy`, `slices.Insert/Delete`, `clear`, sort) in
    package interp or expand whose target mentions a field of a syntax node. -/
structure WriteSite where
  pkg : String
  func : String
  kind : String     -- assign | append | copy | insert | delete | clear | sort | incdec
  target : String   -- normalised target expression
  base : String     -- provenance of the base identifier: fresh-literal | local-copy | param | field | range | other
deriving DecidableEq, Repr, Inhabited

/-- A construction site of an overlay environment: the `parent:` expression and `funcScope`. -/
structure OverlaySite where
  func : String
  form : String      -- literal | newOverlayEnviron
  parent : String
  funcScope : String   -- source text of the funcScope value ("false" when absent)
deriving DecidableEq, Repr, Inhabited

/-- An assignment to `r.writeEnv` (any receiver): the right-hand side's shape. -/
structure WriteEnvAssign where
  func : String
  rhs : String       -- overlay-literal | newOverlayEnviron | saved-writeEnv | other:<text>
deriving DecidableEq, Repr, Inhabited

end ShVerif.C29
