/-
  C21 — Parameter expansion matches bash.

  Model of
    * expand/param.go     Config.paramExp, removePattern, perElemOps, replaceElems,
                          removePatternElems, caseConvElems, varInd, assignElem, namesByPrefix
    * expand/expand.go    prepareConfig (IFS), ifsJoin, the `*syntax.ParamExp` / single-part
                          `*syntax.DblQuoted` arms of wordFields (with its `splitAdd`/`flush`),
                          listElems, unquotedElemFields, quotedElemFields, sliceElems, findAllIndex
                          (with the loop of regexp.(*Regexp).allMatches)
    * expand/environ.go   Variable.String, indexedVal, indexedKeys, Flags
    * internal/sparse.go  IndexedMax, SetIndexedElem, CanonicalIndexes (for `${a[i]:=w}`)

  Strings are lists of Unicode code points (`List Char`): the code is rune based where it counts
  (`${#x}`, `${x:o:l}`, case conversion) and for valid UTF-8 the byte-based parts (regexp matching,
  string concatenation) commute with decoding.  Go `int` is `Int`.  A Go panic is `Err.panic`.
  A Go `[]string` is `Option (List Str)` where it matters whether the slice is nil
  (wordFields tests `elems != nil`).

  Two things are parameters of the model (`Ext`):
    * `M : Str → Pat` — what `pattern.Regexp` + `regexp.MustCompile` make of a pattern: an error, a
      panic, or a predicate "the whole string matches" (glob ↔ regexp is property C17's business);
    * `Q : Str → Option Str` — `syntax.Quote(s, LangBash)` (property C13's business).
  The line-protocol driver instantiates them with the L3 glob model and the C13 model.
  Core Lean only.
-/
namespace ShVerif.C21

abbrev Str := List Char

/-- A Go `[]string`; `none` is the nil slice. -/
abbrev Sl := Option (List Str)

def Sl.toList : Sl → List Str
  | none => []
  | some l => l

inductive Kind
  | unknown | string | indexed | assoc
  deriving DecidableEq, Repr

/-- `expand.Variable` (without NameRef: no nameref variables in this model). -/
structure Var where
  set : Bool
  kind : Kind
  str : Str
  list : Sl
  idx : Option (List Int)
  map : List (Str × Str)
  ro : Bool
  exported : Bool
  deriving DecidableEq, Repr

def Var.zero : Var := ⟨false, .unknown, [], none, none, [], false, false⟩
def Var.ofStr (s : Str) : Var := { Var.zero with set := true, kind := .string, str := s }
def Var.ofList (l : List Str) : Var := { Var.zero with set := true, kind := .indexed, list := some l }
def Var.ofSparse (l : List Str) (ix : List Int) : Var :=
  { Var.zero with set := true, kind := .indexed, list := some l, idx := some ix }
def Var.ofMap (m : List (Str × Str)) : Var := { Var.zero with set := true, kind := .assoc, map := m }

abbrev Env := List (Str × Var)

def Env.get (e : Env) (n : Str) : Var :=
  match e.find? (fun p => p.1 == n) with
  | some p => p.2
  | none => Var.zero

def Env.put (e : Env) (n : Str) (v : Var) : Env :=
  if e.any (fun p => p.1 == n) then e.map (fun p => if p.1 == n then (n, v) else p)
  else e ++ [(n, v)]

inductive Err
  | unbound                 -- UnsetParameterError "unbound variable" (NoUnset)
  | unsetMsg (msg : Str)    -- UnsetParameterError from `${x:?msg}`
  | indirect                -- "invalid indirect expansion"
  | negIndex                -- "negative array index"
  | substr (len : Int)      -- "<len>: substring expression < 0"
  | assocSubscript          -- "unsupported associative array subscript"
  | quote                   -- the syntax.QuoteError of ${x@Q} / ${x@A} (e.g. a null byte)
  | unsupported
  | panic                   -- a Go run-time panic
  deriving DecidableEq, Repr

/-- What the pattern argument compiles to. -/
inductive Pat
  | err                       -- pattern.Regexp returns an error
  | panic                     -- regexp.MustCompile panics on what Regexp returned
  | ok (m : Str → Bool)       -- `m u`: the pattern matches the whole of `u`

structure Ext where
  M : Str → Pat
  Q : Str → Option Str

/-! ### Go library helpers -/

def sOf (s : String) : Str := s.toList

def joinWith (sep : Str) : List Str → Str
  | [] => []
  | [a] => a
  | a :: rest => a ++ sep ++ joinWith sep rest

/-- `x[i:j]` on runes (no bounds checks: callers stay in range). -/
def sub (s : Str) (i j : Nat) : Str := (s.drop i).take (j - i)

/-- lexicographic `<` on strings (code points; the same order as Go's byte order on UTF-8). -/
def strLt : Str → Str → Bool
  | [], [] => false
  | [], _ :: _ => true
  | _ :: _, [] => false
  | a :: as, b :: bs => if a.toNat < b.toNat then true else if b.toNat < a.toNat then false else strLt as bs

def insertSorted (x : Str) : List Str → List Str
  | [] => [x]
  | y :: ys => if strLt y x then y :: insertSorted x ys else x :: y :: ys

/-- `slices.Sorted` / `slices.Sort` of strings. -/
def sortStrs (l : List Str) : List Str := l.foldr insertSorted []

/-- `slices.Sorted(seq)`: nil when the sequence is empty. -/
def sortedSl (l : List Str) : Sl := if l.isEmpty then none else some (sortStrs l)

/-- The loop of `slices.BinarySearch`, on fuel. -/
def bsearch (xs : List Int) (k : Int) : Nat → Nat → Nat → Nat
  | 0, i, _ => i
  | fuel + 1, i, j =>
    if i < j then
      let h := (i + j) / 2
      if xs.getD h 0 < k then bsearch xs k fuel (h + 1) j else bsearch xs k fuel i h
    else i

def search (xs : List Int) (k : Int) : Nat × Bool :=
  let i := bsearch xs k (xs.length + 1) 0 xs.length
  (i, decide (i < xs.length) && xs.getD i 0 == k)

def insertAt {α : Type} : List α → Nat → α → List α
  | l, 0, a => a :: l
  | [], _ + 1, a => [a]
  | x :: xs, n + 1, a => x :: insertAt xs n a

def iotaFrom (s : Int) : Nat → List Int
  | 0 => []
  | n + 1 => s :: iotaFrom (s + 1) n

def isIotaFrom (s : Int) : List Int → Bool
  | [] => true
  | k :: ks => k == s && isIotaFrom (s + 1) ks

/-- strconv.Itoa -/
def itoa (n : Int) : Str := (toString n).toList

/-! ### Unicode case mapping (`unicode.ToUpper` / `unicode.ToLower`)

  Restricted to the range the generators draw from: U+0000–U+00FF and U+01C4–U+01C6 (a title-case
  triple).  The harness compares this table with the Go functions on the whole range (`casetab`). -/

def inCaseDomain (c : Char) : Bool := c.toNat < 0x100 || (0x1C4 ≤ c.toNat && c.toNat ≤ 0x1C6)

def toUpper (c : Char) : Char :=
  let n := c.toNat
  if 0x61 ≤ n && n ≤ 0x7A then Char.ofNat (n - 32)
  else if n == 0xB5 then Char.ofNat 0x39C
  else if 0xE0 ≤ n && n ≤ 0xFE && n != 0xF7 then Char.ofNat (n - 32)
  else if n == 0xFF then Char.ofNat 0x178
  else if n == 0x1C5 || n == 0x1C6 then Char.ofNat 0x1C4
  else c

def toLower (c : Char) : Char :=
  let n := c.toNat
  if 0x41 ≤ n && n ≤ 0x5A then Char.ofNat (n + 32)
  else if 0xC0 ≤ n && n ≤ 0xDE && n != 0xD7 then Char.ofNat (n + 32)
  else if n == 0x1C4 || n == 0x1C5 then Char.ofNat 0x1C6
  else c

/-! ### expand/environ.go -/

/-- `Variable.indexedVal`; the dense branch indexes `v.List[i]` after testing only
    `i < len(v.List)`, so a negative `i` panics. -/
def Var.indexedVal (v : Var) (i : Int) : Except Err (Str × Bool) :=
  let l := v.list.toList
  match v.idx with
  | some ix =>
    let (pos, found) := search ix i
    if found then
      (if pos < l.length then .ok (l.getD pos [], true) else .error .panic)
    else .ok ([], false)
  | none =>
    if i < (l.length : Int) then
      (if i < 0 then .error .panic else .ok (l.getD i.toNat [], true))
    else .ok ([], false)

/-- `Variable.indexedKeys` (`keys[i] = Itoa(v.Indexes[i])` panics when Indexes is too short). -/
def Var.indexedKeys (v : Var) : Except Err (List Str) :=
  let l := v.list.toList
  match v.idx with
  | some ix => if ix.length < l.length then .error .panic else .ok ((ix.take l.length).map itoa)
  | none => .ok ((List.range l.length).map fun (i : Nat) => itoa (Int.ofNat i))

/-- `Variable.String`. -/
def Var.string (v : Var) : Except Err Str :=
  match v.kind with
  | .string => .ok v.str
  | .indexed => do
    let (s, ok) ← v.indexedVal 0
    pure (if ok then s else [])
  | .assoc => .ok (((v.map.find? (fun p => p.1 == ['0'])).map (·.2)).getD [])   -- v.Map["0"]
  | .unknown => .ok []

/-- `Variable.Flags`. -/
def Var.flags (v : Var) : Str :=
  (match v.kind with | .indexed => ['a'] | .assoc => ['A'] | _ => [])
    ++ (if v.ro then ['r'] else []) ++ (if v.exported then ['x'] else [])

def mapGet (m : List (Str × Str)) (k : Str) : Option Str := (m.find? (fun p => p.1 == k)).map (·.2)

def mapPut (m : List (Str × Str)) (k v : Str) : List (Str × Str) :=
  if m.any (fun p => p.1 == k) then m.map (fun p => if p.1 == k then (k, v) else p) else m ++ [(k, v)]

/-- `IndexedMax`. -/
def indexedMax (list : List Str) (idx : Option (List Int)) : Int :=
  match idx with
  | some (x :: xs) => (x :: xs).getLastD 0
  | _ => (list.length : Int) - 1

def canonical : Option (List Int) → Option (List Int)
  | none => none
  | some ix => if isIotaFrom 0 ix then none else some ix

/-- `internal.SetIndexedElem` for `k ≥ 0` (callers ensure it). -/
def setIndexedElem (list : List Str) (idx : Option (List Int)) (k : Int) (val : Str) :
    Except Err (List Str × Option (List Int)) :=
  let sparse (ix : List Int) : Except Err (List Str × Option (List Int)) :=
    let (pos, found) := search ix k
    if found then
      (if pos < list.length then .ok (list.set pos val, some ix) else .error .panic)
    else if pos ≤ list.length then .ok (insertAt list pos val, canonical (some (insertAt ix pos k)))
    else .error .panic
  match idx with
  | none =>
    if k < 0 then .error .panic
    else if k < (list.length : Int) then .ok (list.set k.toNat val, none)
    else if k == (list.length : Int) then .ok (list ++ [val], none)
    else sparse (iotaFrom 0 list.length)
  | some ix => sparse ix

/-! ### Configuration -/

/-- The syntax of the index: absent, `@`, `*`, or another arithmetic expression given by its source
    text (`isWord`: it is a `*syntax.Word`, which `nodeLit` reads and the associative branch casts to). -/
inductive Idx
  | none | at | star
  | word (text : Str) (isWord : Bool)
  deriving DecidableEq, Repr

def Idx.lit : Idx → Str
  | .none => []
  | .at => ['@']
  | .star => ['*']
  | .word t w => if w then t else []

inductive ExpOp
  | altUnset | altUnsetOrNull | defUnset | defUnsetOrNull | errUnset | errUnsetOrNull
  | asgUnset | asgUnsetOrNull
  | remSmallPre | remLargePre | remSmallSuf | remLargeSuf
  | upperFirst | upperAll | lowerFirst | lowerAll
  | other
  deriving DecidableEq, Repr

inductive Anchor
  | none | pre | suf
  deriving DecidableEq, Repr

/-- `syntax.Replace` after expansion of its words: `orig` is `expand.Pattern(repl.Orig)` (it still
    starts with the `#`/`%` of an anchored form: the code does not look at it), `anchor` records that
    the source had an unquoted leading `#`/`%` (used by the specification only). -/
structure Repl where
  all : Bool
  orig : Str
  with_ : Str
  anchor : Anchor
  deriving DecidableEq, Repr

/-- The fields of `syntax.ParamExp` the Bash variant can set; argument words already expanded. -/
structure PE where
  name : Str
  idx : Idx := .none
  excl : Bool := false
  length : Bool := false
  names : Nat := 0                                  -- 0, 1 = `${!p*}`, 2 = `${!p@}`
  slice : Option (Option Int × Option Int) := none  -- offset, length (already evaluated)
  repl : Option Repl := none
  exp : Option (ExpOp × Str) := none                -- operator, `expand.Literal` of its word
  deriving DecidableEq, Repr

structure Cfg where
  noUnset : Bool := false
  deriving DecidableEq, Repr

/-- `prepareConfig`: `cfg.ifs`. -/
def ifsOf (env : Env) : Except Err Str :=
  let v := env.get (sOf "IFS")
  if v.set then v.string else .ok (sOf " \t\n")

def ifsJoin (ifs : Str) (l : List Str) : Str := joinWith (ifs.take 1) l

def isNameStart (c : Char) : Bool := c.isAlpha || c == '_'
def isNameChar (c : Char) : Bool := c.isAlphanum || c == '_'
def validName : Str → Bool
  | [] => false
  | c :: cs => isNameStart c && cs.all isNameChar

/-- `namesByPrefix`: the names `Env.Each` yields (here: the entries whose name is an identifier). -/
def namesByPrefix (env : Env) (p : Str) : Sl :=
  let ns := (env.filter fun e => validName e.1 && p.isPrefixOf e.1).map (·.1)
  some (sortStrs ns)     -- `names := []string{}`: never nil

/-- Decimal literal with optional leading `-` signs; anything else evaluates to 0 (`atoi` of a
    word that is not a number and does not name a set variable: modelling restriction). -/
def digitsVal : Str → Option Nat
  | [] => none
  | cs => if cs.all Char.isDigit then some (cs.foldl (fun a c => a * 10 + (c.toNat - 48)) 0) else none

def arith : Str → Int
  | '-' :: rest => - arith rest
  | cs => match digitsVal cs with | some n => n | none => 0

/-! ### sliceElems -/

def slicePos (len : Nat) (n : Int) : Nat :=
  if n < 0 then
    (if (len : Int) + n < 0 then len else ((len : Int) + n).toNat)
  else if n > (len : Int) then len else n.toNat

def slDrop (s : Sl) (k : Nat) : Sl := s.map (·.drop k)
def slTake (s : Sl) (k : Nat) : Sl := s.map (·.take k)

/-- `Config.sliceElems`. -/
def sliceElems (env : Env) (pe : PE) (elems : Sl) (indexes : Option (List Int)) (positional : Bool) :
    Except Err Sl :=
  match pe.slice with
  | none => .ok elems
  | some (off, len) => do
    let elems : Sl := if positional then some ((env.get ['0']).str :: elems.toList) else elems
    let elems ← match off with
      | none => pure elems
      | some offset =>
        match indexes with
        | some (i0 :: irest) =>
          let ix := i0 :: irest
          let last := ix.getLastD 0
          let offset := if offset < 0 then (if offset + last + 1 < 0 then last + 1 else offset + last + 1) else offset
          let pos := (search ix offset).1
          if pos ≤ elems.toList.length then pure (slDrop elems pos) else throw Err.panic
        | _ => pure (slDrop elems (slicePos elems.toList.length offset))
    match len with
    | none => pure elems
    | some length => pure (slTake elems (slicePos elems.toList.length length))

/-! ### varInd -/

def Idx.text : Idx → Str
  | .word t _ => t
  | .at => ['@']
  | .star => ['*']
  | .none => []

/-- `varInd` with `idx == nil`. -/
def varIndNone (vr : Var) : Except Err (Str × Bool) :=
  match vr.kind with
  | .indexed => vr.indexedVal 0
  | .assoc => match mapGet vr.map ['0'] with | some s => .ok (s, true) | none => .ok ([], false)
  | _ => do let s ← vr.string; pure (s, vr.set)

def elemOf (vr : Var) (i : Int) : Except Err (Str × Bool) := do
  let (s, ok) ← vr.indexedVal i
  pure (if ok then (s, true) else ([], false))

/-- `varInd` with a subscript. -/
def varIndSome (ifs : Str) (vr : Var) (idx : Idx) : Except Err (Str × Bool) :=
  match vr.kind with
  | .string => if arith idx.text == 0 then .ok (vr.str, vr.set) else .ok ([], false)
  | .indexed =>
    if idx.lit == ['*'] || idx.lit == ['@'] then .ok (joinWith [' '] vr.list.toList, vr.set)
    else
      let i := arith idx.text
      if i < 0 then
        (if i + indexedMax vr.list.toList vr.idx + 1 < 0 then .error .negIndex
         else elemOf vr (i + indexedMax vr.list.toList vr.idx + 1))
      else elemOf vr i
  | .assoc =>
    if idx.lit == ['@'] || idx.lit == ['*'] then
      let strs := sortStrs (vr.map.map (·.2))
      if idx.lit == ['*'] then .ok (ifsJoin ifs strs, vr.set) else .ok (joinWith [' '] strs, vr.set)
    else
      match idx with
      | .word t true => match mapGet vr.map t with | some s => .ok (s, true) | none => .ok ([], false)
      | _ => .error .assocSubscript     -- a subscript such as `-1` that is not a *syntax.Word
  | .unknown => .ok ([], false)

def varInd (ifs : Str) (vr : Var) (idx : Idx) : Except Err (Str × Bool) :=
  match idx with
  | .none => varIndNone vr
  | .at => varIndSome ifs vr .at
  | .star => varIndSome ifs vr .star
  | .word t w => varIndSome ifs vr (.word t w)

/-! ### assignElem -/

def assignElem (env : Env) (name : Str) (vr : Var) (idx : Idx) : Str → Except Err Env := fun val =>
  let arrayWise := idx.lit == ['@'] || idx.lit == ['*']
  let idx := if arrayWise then Idx.none else idx
  if idx == .none && !arrayWise && vr.kind != .indexed && vr.kind != .assoc then
    .ok (env.put name (Var.ofStr val))
  else
    match vr.kind with
    | .assoc =>
      match idx with
      | .none => .ok (env.put name { vr with map := mapPut vr.map ['0'] val, set := true })
      | .word t true => .ok (env.put name { vr with map := mapPut vr.map t val, set := true })
      | _ => .error .assocSubscript
    | _ =>
      let l := vr.list.toList
      let i0 : Except Err Int :=
        match idx with
        | .word t _ =>
          let i := arith t
          if i < 0 then
            (if i + indexedMax l vr.idx + 1 < 0 then .error .negIndex else .ok (i + indexedMax l vr.idx + 1))
          else .ok i
        | _ => .ok 0
      do
        let i ← i0
        let (list, indexes) := if vr.kind == .string then ([vr.str], (none : Option (List Int))) else (l, vr.idx)
        let (list, indexes) ← setIndexedElem list indexes i val
        pure (env.put name { vr with kind := .indexed, str := [], list := some list, idx := indexes, set := true })

/-! ### pattern removal -/

def firstNat (l : List Nat) (p : Nat → Bool) : Option Nat := l.find? p

/-- indices `lo, lo+1, …, hi` -/
def upTo (lo hi : Nat) : List Nat := List.range' lo (hi + 1 - lo)

/-- `removePattern` given the compiled pattern. -/
def removeWith (m : Str → Bool) (s : Str) (fromEnd shortest : Bool) : Str :=
  let n := s.length
  if fromEnd && shortest then
    -- "(?s).*(E)$": the greedy `.*` gives up characters until `E` matches the rest
    match (upTo 0 n).reverse.find? (fun j => m (s.drop j)) with
    | some j => s.take j
    | none => s
  else if fromEnd then
    match (upTo 0 n).find? (fun j => m (s.drop j)) with
    | some j => s.take j
    | none => s
  else if shortest then
    match (upTo 0 n).find? (fun k => m (s.take k)) with
    | some k => s.drop k
    | none => s
  else
    match (upTo 0 n).reverse.find? (fun k => m (s.take k)) with
    | some k => s.drop k
    | none => s

def removePattern (M : Str → Pat) (s pat : Str) (fromEnd shortest : Bool) : Except Err Str :=
  match M pat with
  | .err => .ok s
  | .panic => .error .panic
  | .ok m => .ok (removeWith m s fromEnd shortest)

def mapMExcept {α β : Type} (f : α → Except Err β) : List α → Except Err (List β)
  | [] => .ok []
  | a :: as => do
    let b ← f a
    let bs ← mapMExcept f as
    pure (b :: bs)

def removePatternElems (M : Str → Pat) (op : ExpOp) (arg : Str) (elems : List Str) : Except Err (List Str) :=
  let suffix := op == .remSmallSuf || op == .remLargeSuf
  let small := op == .remSmallPre || op == .remSmallSuf
  mapMExcept (fun e => removePattern M e arg suffix small) elems

/-! ### replacement: findAllIndex = regexp.FindAllStringIndex -/

/-- One `doExecute` from `pos`: leftmost start, then the longest end (greedy quantifiers). -/
def findFrom (m : Str → Bool) (s : Str) (pos : Nat) : Option (Nat × Nat) :=
  (upTo pos s.length).findSome? fun i =>
    ((upTo i s.length).reverse.find? fun j => m (sub s i j)).map fun j => (i, j)

/-- The loop of `(*Regexp).allMatches`; `lim` is `n` (`len+1` for "all"), `cnt` the matches delivered. -/
def allMatches (m : Str → Bool) (s : Str) (lim : Nat) : Nat → Nat → Nat → Option Nat → List (Nat × Nat)
  | 0, _, _, _ => []
  | fuel + 1, pos, cnt, prevEnd =>
    if cnt < lim && pos ≤ s.length then
      match findFrom m s pos with
      | none => []
      | some (a, b) =>
        if b == pos then
          -- an empty match at pos
          let accept := !(prevEnd == some a)
          let pos' := pos + 1
          if accept then (a, b) :: allMatches m s lim fuel pos' (cnt + 1) (some b)
          else allMatches m s lim fuel pos' cnt (some b)
        else (a, b) :: allMatches m s lim fuel b (cnt + 1) (some b)
    else []

def findAll (m : Str → Bool) (s : Str) (all : Bool) : List (Nat × Nat) :=
  allMatches m s (if all then s.length + 1 else 1) (s.length + 2) 0 0 none

/-- The string-builder loop of replaceElems. -/
def spliceLocs (s with_ : Str) : Nat → List (Nat × Nat) → Str
  | last, [] => s.drop last
  | last, (a, b) :: rest => sub s last a ++ with_ ++ spliceLocs s with_ b rest

def replaceElems (M : Str → Pat) (r : Repl) (elems : Sl) : Except Err Sl :=
  if r.orig.isEmpty then .ok elems
  else
    match M r.orig with
    | .panic => if elems.toList.isEmpty then .ok (some []) else .error .panic   -- MustCompile runs per element
    | .err => .ok (some elems.toList)             -- findAllIndex returns nil: every element is copied
    | .ok m => .ok (some (elems.toList.map fun e => spliceLocs e r.with_ 0 (findAll m e r.all)))

/-! ### case conversion -/

def convRunes (f : Char → Char) (hit : Char → Bool) (all : Bool) : Str → Str
  | [] => []
  | c :: cs =>
    let c' := if hit c then f c else c
    if all then c' :: convRunes f hit all cs else c' :: cs

def caseConvElems (M : Str → Pat) (op : ExpOp) (arg : Str) (elems : Sl) : Except Err Sl :=
  let f := if op == .upperFirst || op == .upperAll then toUpper else toLower
  let all := op == .upperAll || op == .lowerAll
  match M arg with
  | .err => .ok elems
  | .panic => .error .panic
  | .ok m =>
    -- rx.MatchString(string(r)) is an unanchored search in a one-rune string
    .ok (some (elems.toList.map (convRunes f (fun c => m [] || m [c]) all)))

def isRemove (op : ExpOp) : Bool :=
  op == .remSmallPre || op == .remLargePre || op == .remSmallSuf || op == .remLargeSuf
def isCase (op : ExpOp) : Bool :=
  op == .upperFirst || op == .upperAll || op == .lowerFirst || op == .lowerAll

/-- `perElemOps`. -/
def perElemOps (x : Ext) (pe : PE) (elems : Sl) : Except Err Sl :=
  match pe.repl with
  | some r => replaceElems x.M r elems
  | none =>
    match pe.exp with
    | some (op, arg) =>
      if isRemove op then (removePatternElems x.M op arg elems.toList).map some
      else if isCase op then caseConvElems x.M op arg elems
      else .ok elems
    | none => .ok elems

/-! ### `${x@E}`: the strconv.UnquoteChar loop is not modelled -/

/-! ### paramExp -/

def overridingUnset (pe : PE) : Bool :=
  match pe.exp with
  | some (op, _) =>
    op == .altUnset || op == .altUnsetOrNull || op == .defUnset || op == .defUnsetOrNull ||
    op == .errUnset || op == .errUnsetOrNull || op == .asgUnset || op == .asgUnsetOrNull
  | none => false

/-- Rune slicing of `${x:o:l}` on a string. -/
def sliceStr (s : Str) (off len : Option Int) : Except Err Str :=
  let s := match off with | some o => s.drop (slicePos s.length o) | none => s
  match len with
  | some l =>
    if l < 0 && (s.length : Int) + l < 0 then .error (.substr l)   -- "substring expression < 0"
    else .ok (s.take (slicePos s.length l))
  | none => .ok s

def upperFirstRune : Str → Str
  | [] => []
  | c :: cs => toUpper c :: cs

/-- The `syntax.OtherParamOps` arm (`${x@op}`). -/
def otherOp (x : Ext) (name : Str) (orig : Var) (set : Bool) (str arg : Str) : Except Err Str :=
  if arg == ['Q'] then
    if !set then .ok str       -- an unset parameter expands to nothing
    else match x.Q str with | some q => .ok q | none => .error .quote
  else if arg == ['E'] then .error .unsupported      -- not modelled (never generated)
  else if arg == ['a'] then .ok orig.flags
  else if arg == ['A'] then
    match x.Q str with
    | none => .error .quote      -- Quote's error is returned
    | some q =>
      let flags := orig.flags
      if flags.isEmpty then .ok (name ++ ['='] ++ q)
      else .ok (sOf "declare -" ++ flags ++ [' '] ++ name ++ ['='] ++ q)
  else if arg == ['P'] then .ok str
  else if arg == ['U'] then .ok (str.map toUpper)
  else if arg == ['u'] then .ok (upperFirstRune str)
  else if arg == ['L'] then .ok (str.map toLower)
  else if arg == ['K'] || arg == ['k'] then .ok str
  else .error .panic

/-- The index the code works with: `$@`/`$*` get a literal `@`/`*` index. -/
def effIdx (pe : PE) : Idx :=
  if pe.name == ['@'] then .at else if pe.name == ['*'] then .star else pe.idx

def isAtStar (i : Idx) : Bool := i.lit == ['@'] || i.lit == ['*']

/-- `Config.paramExp`: the value and the environment (changed by `:=` only). -/
def paramExp (x : Ext) (cfg : Cfg) (env : Env) (pe : PE) : Except Err (Str × Env) := do
  let ifs ← ifsOf env
  let name := pe.name
  let index := effIdx pe
  let join := fun (l : List Str) =>
    if index.lit == ['*'] || pe.names == 1 then ifsJoin ifs l else joinWith [' '] l
  let vr := env.get name
  let orig := vr
  if cfg.noUnset && !vr.set && !overridingUnset pe then throw Err.unbound
  -- the first switch: list expansions of unset variables and indexed arrays
  let positional := name == ['@'] || name == ['*']
  let pre : Except Err (Str × Sl × Bool × Bool × Bool) :=   -- str, elems, indexAllElements, callVarInd, set
    if isAtStar index then
      match vr.kind with
      | .unknown => .ok ([], none, true, true, vr.set)
      | .indexed => do
        let el ← sliceElems env pe vr.list vr.idx positional
        -- like Bash, a list without elements counts as unset
        pure (join el.toList, el, true, false, !el.toList.isEmpty)
      | .assoc =>
        let el := sortedSl (vr.map.map (·.2))
        .ok (join el.toList, el, true, false, !el.toList.isEmpty)
      | .string => .ok ([], none, false, true, vr.set)
    else .ok ([], none, false, true, vr.set)
  let (str0, elems0, indexAll, callVarInd, set0) ← pre
  let (str, set) ← if callVarInd then varInd ifs vr index else pure (str0, set0)
  let elems : Sl := if indexAll then elems0 else some [str]
  if pe.length then
    let n : Nat := if isAtStar index then elems.toList.length else str.length
    return (itoa n, env)
  if pe.excl then
    if pe.names != 0 then
      return (join (namesByPrefix env pe.name).toList, env)
    if indexAll && pe.idx != .none && vr.kind == .indexed then
      let ks ← vr.indexedKeys
      return (join ks, env)
    if isAtStar pe.idx && vr.kind == .assoc then
      return (join (sortStrs (vr.map.map (·.1))), env)
    if !vr.set then throw Err.indirect
    if str.isEmpty then return ([], env)
    let s ← (env.get str).string
    return (join [s], env)
  match pe.slice with
  | some (off, len) =>
    if callVarInd then
      let r ← sliceStr str off len
      return (r, env)
    else return (str, env)
  | none =>
  match pe.repl with
  | some r =>
    if !set && !indexAll then return (str, env)   -- like Bash, nothing is substituted in an unset parameter
    let el ← replaceElems x.M r elems
    return (join el.toList, env)
  | none =>
  match pe.exp with
  | none => return (str, env)
  | some (op, arg) =>
    match op with
    | .altUnsetOrNull => return (if str.isEmpty then str else if set then arg else str, env)
    | .altUnset => return (if set then arg else str, env)
    | .defUnset => return (if set then str else if str.isEmpty then arg else str, env)
    | .defUnsetOrNull => return (if str.isEmpty then arg else str, env)
    | .errUnset =>
      if set then return (str, env)
      else if str.isEmpty then throw (Err.unsetMsg arg) else return (str, env)
    | .errUnsetOrNull =>
      if str.isEmpty then throw (Err.unsetMsg arg) else return (str, env)
    | .asgUnset =>
      if set then return (str, env)
      else if str.isEmpty then
        let env' ← assignElem env name vr index arg
        return (arg, env')
      else return (str, env)
    | .asgUnsetOrNull =>
      if str.isEmpty then
        let env' ← assignElem env name vr index arg
        return (arg, env')
      else return (str, env)
    | .remSmallPre | .remLargePre | .remSmallSuf | .remLargeSuf =>
      let el ← removePatternElems x.M op arg elems.toList
      return (join el, env)
    | .upperFirst | .upperAll | .lowerFirst | .lowerAll =>
      let el ← caseConvElems x.M op arg elems
      return (join el.toList, env)
    | .other =>
      let s ← otherOp x name orig set str arg
      return (s, env)

/-! ### wordFields for a word that is one parameter expansion -/

/-- `listElems`. -/
def listElems (env : Env) (pe : PE) : Except Err (Option (Sl × Bool)) :=
  if pe.name == ['*'] || pe.name == ['@'] then do
    let el ← sliceElems env pe (env.get pe.name).list none true
    pure (some (el, pe.name == ['*']))
  else if isAtStar pe.idx then
    let vr := env.get pe.name
    match vr.kind with
    | .indexed => do
      let el ← sliceElems env pe vr.list vr.idx false
      pure (some (el, pe.idx.lit == ['*']))
    | .assoc => pure (some (some (sortStrs (vr.map.map (·.2))), pe.idx.lit == ['*']))   -- never nil
    | _ => pure none
  else pure none

/-- `unquotedElemFields`. -/
def unquotedElemFields (env : Env) (pe : PE) : Except Err (Option Sl) :=
  if pe.excl || pe.length || pe.repl.isSome || pe.exp.isSome then pure none
  else do
    match ← listElems env pe with
    | some (el, _) => pure (some el)
    | none => pure none

/-- `quotedElemFields`; `none` is the nil result ("treat like any other expansion").  The order of
    `"${!m[@]}"` for an associative array is Go's map iteration order; the model sorts and the
    harness compares up to permutation. -/
def quotedElemFields (x : Ext) (env : Env) (pe : PE) : Except Err Sl := do
  let ifs ← ifsOf env
  if pe.length then return none
  if pe.excl then
    if pe.names == 2 then return namesByPrefix env pe.name
    if pe.names == 1 then return none
    if pe.idx.lit == ['@'] then
      let vr := env.get pe.name
      match vr.kind with
      | .indexed => let ks ← vr.indexedKeys; return some ks
      | .assoc => return some (sortStrs (vr.map.map (·.1)))
      | _ => return none
    return none
  match ← listElems env pe with
  | some (el, star) =>
    let el ← perElemOps x pe el
    if star then return some [ifsJoin ifs el.toList] else return el
  | none =>
    if pe.idx.lit == ['@'] && !(env.get pe.name).set then return some []
    return none

/-- The state of `wordFields`: finished fields, the parts of the current field, and `wsDelim`
    (the last field was ended by IFS white space). -/
structure WF where
  fields : List Str
  cur : List Str
  wsDelim : Bool
  deriving DecidableEq, Repr

def WF.flush (w : WF) : WF :=
  if w.cur.isEmpty then w else { w with fields := w.fields ++ [w.cur.flatten], cur := [] }

/-- `ifsWhitespace`. -/
def ifsWs (ifs : Str) (r : Char) : Bool := (r == ' ' || r == '\t' || r == '\n') && ifs.contains r

/-- `delimit`: end the current field at the IFS character `r` (POSIX 2.6.5). -/
def WF.delimit (ifs : Str) (w : WF) (r : Char) : WF :=
  if !w.cur.isEmpty then { w.flush with wsDelim := ifsWs ifs r }
  else if ifsWs ifs r then w                          -- leading or repeated IFS white space
  else if w.wsDelim then { w with wsDelim := false }  -- white space + one other IFS character: one delimiter
  else { w with fields := w.fields ++ [[]] }          -- another non-white-space IFS character: an empty field

/-- The rune loop of `splitAdd`; `run` is the text since `fieldStart` (`none`: `fieldStart < 0`). -/
def splitLoop (ifs : Str) : WF → Option Str → Str → WF
  | w, none, [] => w
  | w, some run, [] => { w with cur := w.cur ++ [run] }
  | w, run, r :: rest =>
    if ifs.contains r then
      let w := match run with | some t => { w with cur := w.cur ++ [t] } | none => w
      splitLoop ifs (w.delimit ifs r) none rest
    else
      match run with
      | none => splitLoop ifs { w with wsDelim := false } (some [r]) rest
      | some t => splitLoop ifs { w with wsDelim := false } (some (t ++ [r])) rest

def splitAdd (ifs : Str) (w : WF) (val : Str) : WF := splitLoop ifs w none val

/-- The unquoted list loop: the elements are separated as if by the first IFS character
    (a plain flush when IFS is empty). -/
def addElemsSplit (ifs : Str) : WF → Bool → List Str → WF
  | w, _, [] => w
  | w, first, e :: rest =>
    let w := if first then w else
      match ifs with
      | [] => w.flush
      | sep :: _ => w.delimit ifs sep
    addElemsSplit ifs (splitAdd ifs w e) false rest

def addElemsQuoted : WF → Bool → List Str → WF
  | w, _, [] => w
  | w, first, e :: rest =>
    let w := if first then w else w.flush
    addElemsQuoted { w with cur := w.cur ++ [e] } false rest

/-- `expand.Fields` of the word `${…}` (`quoted = false`) or `"${…}"` (`quoted = true`):
    the fields and the environment afterwards. -/
def fields (x : Ext) (cfg : Cfg) (env : Env) (pe : PE) (quoted : Bool) : Except Err (List Str × Env) := do
  let ifs ← ifsOf env
  let w0 : WF := ⟨[], [], false⟩
  if quoted then
    match ← quotedElemFields x env pe with
    | some el => return ((addElemsQuoted w0 true el).flush.fields, env)
    | none =>
      let (val, env') ← paramExp x cfg env pe
      -- allowEmpty: one (possibly empty) field
      return ([val], env')
  else
    match ← unquotedElemFields env pe with
    | some el => return ((addElemsSplit ifs w0 true el.toList).flush.fields, env)
    | none =>
      let (val, env') ← paramExp x cfg env pe
      return ((splitAdd ifs w0 val).flush.fields, env')

/-! ## Specification (what bash does), small and independent of the plumbing above -/

namespace Spec

/-- The three states POSIX distinguishes. -/
inductive St
  | unset | null | set
  deriving DecidableEq, Repr

inductive Outcome
  | param        -- substitute the parameter's value
  | word         -- substitute word
  | assign       -- assign word, substitute it
  | error        -- error, exit
  | null         -- substitute null
  deriving DecidableEq, Repr

/-- POSIX XCU 2.6.2, the table of the eight forms. -/
def table : ExpOp → St → Option Outcome
  | .defUnsetOrNull, .set => some .param | .defUnsetOrNull, .null => some .word | .defUnsetOrNull, .unset => some .word
  | .defUnset, .set => some .param | .defUnset, .null => some .null | .defUnset, .unset => some .word
  | .asgUnsetOrNull, .set => some .param | .asgUnsetOrNull, .null => some .assign | .asgUnsetOrNull, .unset => some .assign
  | .asgUnset, .set => some .param | .asgUnset, .null => some .null | .asgUnset, .unset => some .assign
  | .errUnsetOrNull, .set => some .param | .errUnsetOrNull, .null => some .error | .errUnsetOrNull, .unset => some .error
  | .errUnset, .set => some .param | .errUnset, .null => some .null | .errUnset, .unset => some .error
  | .altUnsetOrNull, .set => some .word | .altUnsetOrNull, .null => some .null | .altUnsetOrNull, .unset => some .null
  | .altUnset, .set => some .word | .altUnset, .null => some .word | .altUnset, .unset => some .null
  | _, _ => none

/-- `${s:off:len}` in bash: characters; a negative offset counts from the end (beyond the start:
    empty result); a negative length is an end position counted from the end of the string, an
    error (`none`) when it lies before the start. -/
def startOf (n : Int) : Option Int → Int
  | none => 0
  | some o => if o ≥ 0 then min o n else if n + o ≥ 0 then n + o else n

def substring (s : Str) (off : Option Int) (len : Option Int) : Option Str :=
  let n : Int := s.length
  let start : Int := startOf n off
  let rest := s.drop start.toNat
  match len with
  | none => some rest
  | some l =>
    if l ≥ 0 then some (rest.take l.toNat)
    else
      let stop := n + l
      if stop < start then none else some (rest.take (stop - start).toNat)

/-- `u` is removed from the front / the back of `s`, leaving `r`. -/
def Removes (fromEnd : Bool) (s u r : Str) : Prop := if fromEnd then s = r ++ u else s = u ++ r

/-- Replace the longest match at the leftmost position, left to right, non-overlapping
    (for a matcher that does not match the empty string). -/
def longestAt (m : Str → Bool) (s : Str) : Option Nat :=
  (upTo 1 s.length).reverse.find? fun k => m (s.take k)

def replAll (m : Str → Bool) (w : Str) : Nat → Str → Str
  | 0, s => s
  | _, [] => []
  | fuel + 1, c :: cs =>
    match longestAt m (c :: cs) with
    | some k => w ++ replAll m w fuel ((c :: cs).drop k)
    | none => c :: replAll m w fuel cs

def replFirst (m : Str → Bool) (w : Str) : Str → Str
  | [] => []
  | c :: cs =>
    match longestAt m (c :: cs) with
    | some k => w ++ (c :: cs).drop k
    | none => c :: replFirst m w cs

/-- bash's `${s/pat/w}`, `${s//pat/w}`, `${s/#pat/w}`, `${s/%pat/w}` for a compiled pattern
    (anchored forms: the longest match at that end). -/
def replace (m : Str → Bool) (a : Anchor) (all : Bool) (w s : Str) : Str :=
  match a with
  | .pre =>
    match (upTo 0 s.length).reverse.find? (fun k => m (s.take k)) with
    | some k => w ++ s.drop k
    | none => s
  | .suf =>
    match (upTo 0 s.length).find? (fun j => m (s.drop j)) with
    | some j => s.take j ++ w
    | none => s
  | .none =>
    if m [] then w     -- a glob that matches the empty string is all stars: one match, everything
    else if all then replAll m w s.length s else replFirst m w s

/-- bash 5.2 `patsub_replacement`: in the (unquoted) replacement text `&` stands for the matched
    text, `\&` for a literal `&`. -/
def ampSubst (matched : Str) : Str → Str
  | [] => []
  | '\\' :: '&' :: rest => '&' :: ampSubst matched rest
  | '&' :: rest => matched ++ ampSubst matched rest
  | c :: rest => c :: ampSubst matched rest

/-- `${s/pat/w}` with that reading of an unquoted replacement `w`. -/
def replFirstAmp (m : Str → Bool) (w : Str) : Str → Str
  | [] => []
  | c :: cs =>
    match longestAt m (c :: cs) with
    | some k => ampSubst ((c :: cs).take k) w ++ (c :: cs).drop k
    | none => c :: replFirstAmp m w cs

/-- `${s^pat}` … `${s,,pat}`: each character (the first only) that matches the pattern — an empty
    pattern is `?` — is converted. -/
def caseConv (f : Char → Char) (hit : Char → Bool) (all : Bool) : Str → Str
  | [] => []
  | c :: cs => (if hit c then f c else c) :: (if all then caseConv f hit all cs else cs)

/-- Field splitting of one expansion result when every IFS character is IFS white space: the
    maximal runs of non-IFS characters. -/
def splitWs (ifs : Str) : Str → Str → List Str
  | [], [] => []
  | run, [] => [run]
  | run, c :: cs =>
    if ifs.contains c then (if run.isEmpty then splitWs ifs [] cs else run :: splitWs ifs [] cs)
    else splitWs ifs (run ++ [c]) cs

end Spec

end ShVerif.C21
