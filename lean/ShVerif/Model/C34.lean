import ShVerif.Base.Hex
/-
  C34 — model of expand/environ.go: listEnviron_ (stable sort by `name=` key, in-place dedup loop),
  listEnviron.Get (Go's slices.BinarySearchFunc with the two-stage comparison), Each, FuncEnviron.
  caseInsensitive = false (what ListEnviron passes on every platform but Windows) is the mode the
  theorems are about; the `…F` definitions at the end carry the name-folding function of
  `listEnviron.compare` as a parameter, so that the case-insensitive mode is executable and tied too
  (ASCII names only: `strings.ToUpper` on non-ASCII text is not modelled).
-/
namespace ShVerif.C34

def eqByte : UInt8 := 61

/-- `strings.Cut(p, "=")`: name and value when `=` is present. -/
def cut : Bytes → Option (Bytes × Bytes)
  | [] => none
  | b :: rest =>
    if b = eqByte then some ([], rest)
    else match cut rest with
      | none => none
      | some (n, v) => some (b :: n, v)

/-- The sort key `a[:isep]`: the name followed by `=`, or empty when there is no `=`. -/
def key (p : Bytes) : Bytes :=
  match cut p with
  | none => []
  | some (n, _) => n ++ [eqByte]

def le (a b : Bytes) : Bool := cmpBytes (key a) (key b) != .gt

/-- Stable insertion (the contract of `slices.SortStableFunc`). -/
def insert (x : Bytes) : List Bytes → List Bytes
  | [] => [x]
  | y :: ys => if le x y then x :: y :: ys else y :: insert x ys

def sortStable (l : List Bytes) : List Bytes := l.foldr insert []

/-- The dedup loop of `listEnviron_`.  `kept` is the already-processed prefix, reversed;
    `none` models the Go panic `slices.Delete(list, -1, 0)`. -/
def dedup (kept : List Bytes) (last : Bytes) : List Bytes → Option (List Bytes)
  | [] => some kept.reverse
  | p :: rest =>
    match cut p with
    | none => dedup kept last rest
    | some (name, _) =>
      if name = [] then dedup kept last rest
      else if cmpBytes last name = .eq then
        match kept with
        | [] => none
        | _ :: kept' => dedup (p :: kept') last rest
      else dedup (p :: kept) name rest

def listEnviron (pairs : List Bytes) : Option (List Bytes) :=
  dedup [] [] (sortStable pairs)

/-- The comparison closure of `listEnviron.Get`. -/
def getCmp (name pair : Bytes) : Int :=
  let eqpos := name.length
  let endpos := name.length + 1
  if pair.length < endpos then ordToInt (cmpBytes pair name)
  else
    let c := ordToInt (cmpBytes (pair.take eqpos) name)
    if c = 0 then
      let eq := pair.getD eqpos 0
      if eq < eqByte then -1 else if eq > eqByte then 1 else 0
    else c

/-- Go's `slices.BinarySearchFunc` loop. -/
def bsearch (cmp : Bytes → Int) (x : Array Bytes) : Nat → Nat → Nat → Nat
  | 0, i, _ => i
  | fuel + 1, i, j =>
    if i < j then
      let h := (i + j) / 2
      if cmp (x.getD h []) < 0 then bsearch cmp x fuel (h + 1) j
      else bsearch cmp x fuel i h
    else i

inductive GetRes
  | unset
  | val (v : Bytes)
  | panic
  deriving DecidableEq, Repr

def get (pairs : List Bytes) (name : Bytes) : GetRes :=
  if name.contains eqByte then .unset else
  let x := pairs.toArray
  let n := x.size
  let i := bsearch (getCmp name) x (n + 1) 0 n
  if i < n ∧ getCmp name (x.getD i []) = 0 then
    let p := x.getD i []
    let endpos := name.length + 1
    if endpos ≤ p.length then .val (p.drop endpos) else .panic
  else .unset

/-- `Each`: name/value of every pair; `none` models the explicit panic on a malformed pair. -/
def each : List Bytes → Option (List (Bytes × Bytes))
  | [] => some []
  | p :: rest =>
    match cut p, each rest with
    | some nv, some r => some (nv :: r)
    | _, _ => none

/-- `FuncEnviron`: empty value means unset. -/
def funcGet (f : Bytes → Bytes) (name : Bytes) : Option Bytes :=
  let v := f name
  if v = [] then none else some v

/-! ### Specification: a map built left to right -/

def validPair (p : Bytes) : Option (Bytes × Bytes) :=
  match cut p with
  | some (n, v) => if n = [] then none else some (n, v)
  | none => none

/-- Last value given for `name`, scanning left to right. -/
def specGet (pairs : List Bytes) (name : Bytes) : Option Bytes :=
  pairs.foldl (fun acc p =>
    match validPair p with
    | some (n, v) => if n = name then some v else acc
    | none => acc) none

/-! ### The same code with `listEnviron.compare`'s folding as a parameter

  `fold = id` is the case-sensitive mode above; `fold = upperAscii` is `caseInsensitive = true`
  restricted to ASCII names.  Note that `compare` folds *both* arguments whole (in `Get`'s
  too-short branch that is the whole pair, value included). -/

def upperAscii (b : Bytes) : Bytes :=
  b.map fun c => if 97 ≤ c && c ≤ 122 then c - 32 else c

def cmpF (fold : Bytes → Bytes) (a b : Bytes) : Ordering := cmpBytes (fold a) (fold b)

def leF (fold : Bytes → Bytes) (a b : Bytes) : Bool := cmpF fold (key a) (key b) != .gt

def insertF (fold : Bytes → Bytes) (x : Bytes) : List Bytes → List Bytes
  | [] => [x]
  | y :: ys => if leF fold x y then x :: y :: ys else y :: insertF fold x ys

def sortStableF (fold : Bytes → Bytes) (l : List Bytes) : List Bytes := l.foldr (insertF fold) []

def dedupF (fold : Bytes → Bytes) (kept : List Bytes) (last : Bytes) : List Bytes → Option (List Bytes)
  | [] => some kept.reverse
  | p :: rest =>
    match cut p with
    | none => dedupF fold kept last rest
    | some (name, _) =>
      if name = [] then dedupF fold kept last rest
      else if cmpF fold last name = .eq then
        match kept with
        | [] => none
        | _ :: kept' => dedupF fold (p :: kept') last rest
      else dedupF fold (p :: kept) name rest

def listEnvironF (fold : Bytes → Bytes) (pairs : List Bytes) : Option (List Bytes) :=
  dedupF fold [] [] (sortStableF fold pairs)

def getCmpF (fold : Bytes → Bytes) (name pair : Bytes) : Int :=
  let eqpos := name.length
  let endpos := name.length + 1
  if pair.length < endpos then ordToInt (cmpF fold pair name)
  else
    let c := ordToInt (cmpF fold (pair.take eqpos) name)
    if c = 0 then
      let eq := pair.getD eqpos 0
      if eq < eqByte then -1 else if eq > eqByte then 1 else 0
    else c

def getF (fold : Bytes → Bytes) (pairs : List Bytes) (name : Bytes) : GetRes :=
  if name.contains eqByte then .unset else
  let x := pairs.toArray
  let n := x.size
  let i := bsearch (getCmpF fold name) x (n + 1) 0 n
  if i < n ∧ getCmpF fold name (x.getD i []) = 0 then
    let p := x.getD i []
    let endpos := name.length + 1
    if endpos ≤ p.length then .val (p.drop endpos) else .panic
  else .unset

/-- The case-insensitive map built left to right: the last value given for a name equal to `name`
    up to ASCII case. -/
def specGetCI (pairs : List Bytes) (name : Bytes) : Option Bytes :=
  pairs.foldl (fun acc p =>
    match validPair p with
    | some (n, v) => if upperAscii n = upperAscii name then some v else acc
    | none => acc) none

end ShVerif.C34
