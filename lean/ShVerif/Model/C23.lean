/-
  C23 — `read` splits lines like bash.

  Model of expand.ReadFields (expand/expand.go), Runner.readLine and the glue of the `read`
  builtin (interp/builtin.go), shaped like the Go code: the same loop over the runes of the line
  with the same state (`fpos`, `runes`, `infield`, `esc`), every index / slice expression written
  as an explicit check that yields `panic` where Go would panic.

  Then the specification: the POSIX `read` algorithm as bash implements it (`specRead`), on the
  line after backslash processing (`unescape`).  Core Lean only.
-/
import ShVerif.Base.Hex
import ShVerif.Base.RuneCodec
namespace ShVerif.C23

deriving instance DecidableEq for Except

/-! ## Model of ReadFields -/

/-- `type pos struct{ start, end int }` (`end` is -1 while the field is open). -/
structure Pos where
  start : Nat
  stop : Int
deriving Repr, DecidableEq

/-- `cfg.ifsRune` : `strings.ContainsRune(cfg.ifs, r)`. -/
def ifsRune (ifs : List Char) (r : Char) : Bool := ifs.contains r

/-- `cfg.ifsWhitespace`. -/
def ifsWhitespace (ifs : List Char) (r : Char) : Bool :=
  (r == ' ' || r == '\t' || r == '\n') && ifsRune ifs r

/-- `fpos[len(fpos)-1].end = e` — index -1 when `fpos` is empty. -/
def setLastEnd : List Pos → Int → Except String (List Pos)
  | [], _ => .error "fpos[len(fpos)-1]"
  | [p], e => .ok [{ p with stop := e }]
  | p :: q :: rest, e =>
    match setLastEnd (q :: rest) e with
    | .ok l => .ok (p :: l)
    | .error m => .error m

structure St where
  fpos : List Pos
  runes : List Char
  infield : Bool
  esc : Bool
deriving Repr, DecidableEq

def St.init : St := ⟨[], [], false, false⟩

/-- First half of the loop body: the `if infield { … } else { … }` statement. -/
def toggle (ifs : List Char) (raw : Bool) (st : St) (r : Char) : Except String St :=
  if st.infield then
    if ifsRune ifs r && (raw || !st.esc) then
      match setLastEnd st.fpos st.runes.length with
      | .ok f => .ok { st with fpos := f, infield := false }
      | .error m => .error m
    else .ok st
  else
    if !ifsRune ifs r && (raw || !st.esc) then
      .ok { st with fpos := st.fpos ++ [⟨st.runes.length, -1⟩], infield := true }
    else .ok st

/-- Second half: `if r == '\\' { if raw || esc { append }; esc = !esc; continue }; append; esc = false`. -/
def push (raw : Bool) (st : St) (r : Char) : St :=
  if r == '\\' then
    { st with runes := if raw || st.esc then st.runes ++ [r] else st.runes, esc := !st.esc }
  else
    { st with runes := st.runes ++ [r], esc := false }

/-- One iteration of `for _, r := range s`. -/
def step (ifs : List Char) (raw : Bool) (st : St) (r : Char) : Except String St :=
  match toggle ifs raw st r with
  | .error m => .error m
  | .ok st1 => .ok (push raw st1 r)

def loop (ifs : List Char) (raw : Bool) : St → List Char → Except String St
  | st, [] => .ok st
  | st, r :: rs =>
    match step ifs raw st r with
    | .ok st' => loop ifs raw st' rs
    | .error m => .error m

/-- `for lo < fpos[0].start && cfg.ifsWhitespace(runes[lo]) { lo++ }` (at most `start` rounds). -/
def loLoop (ifs : List Char) (runes : List Char) (start : Nat) : Nat → Nat → Except String Nat
  | 0, lo => .ok lo
  | fuel + 1, lo =>
    if lo < start then
      match runes[lo]? with
      | none => .error "runes[lo]"
      | some r => if ifsWhitespace ifs r then loLoop ifs runes start fuel (lo + 1) else .ok lo
    else .ok lo

/-- `for hi > fpos[len(fpos)-1].end && cfg.ifsWhitespace(runes[hi-1]) { hi-- }`. -/
def hiLoop (ifs : List Char) (runes : List Char) (stop : Int) : Nat → Except String Nat
  | 0 => if (0 : Int) > stop then .error "runes[hi-1]" else .ok 0
  | hi + 1 =>
    if ((hi + 1 : Nat) : Int) > stop then
      match runes[hi]? with
      | none => .error "runes[hi-1]"
      | some r => if ifsWhitespace ifs r then hiLoop ifs runes stop hi else .ok (hi + 1)
    else .ok (hi + 1)

/-- `string(runes[p.start:p.end])`.  (Go checks the high bound against the capacity, which is the
    byte length of the line; the model checks against the length — stricter, and
    `readfields_safe` shows the check never fires.) -/
def sliceRunes (runes : List Char) (p : Pos) : Except String (List Char) :=
  if p.stop < 0 then .error "runes[start:end] end<0"
  else
    let e := p.stop.toNat
    if e > runes.length then .error "runes[start:end] end>len"
    else if p.start > e then .error "runes[start:end] start>end"
    else .ok ((runes.drop p.start).take (e - p.start))

def sliceAll (runes : List Char) : List Pos → Except String (List (List Char))
  | [] => .ok []
  | p :: ps =>
    match sliceRunes runes p, sliceAll runes ps with
    | .ok f, .ok fs => .ok (f :: fs)
    | .error m, _ => .error m
    | _, .error m => .error m

def lastPos : List Pos → Option Pos
  | [] => none
  | [p] => some p
  | _ :: q :: rest => lastPos (q :: rest)

/-- `fpos[i].end = e` for an in-range `i`. -/
def setEndAt : List Pos → Nat → Int → List Pos
  | [], _, _ => []
  | p :: ps, 0, e => { p with stop := e } :: ps
  | p :: ps, i + 1, e => p :: setEndAt ps i e

/-- The part of ReadFields after the loop. -/
def finish (ifs : List Char) (n : Int) (st : St) : Except String (List (List Char)) :=
  match st.fpos with
  | [] => .ok []                                  -- `return nil`
  | p0 :: _ =>
    -- if infield { fpos[len(fpos)-1].end = len(runes) }
    let fposE : Except String (List Pos) :=
      if st.infield then setLastEnd st.fpos st.runes.length else .ok st.fpos
    match fposE with
    | .error m => .error m
    | .ok fpos =>
      match lastPos fpos with
      | none => .error "fpos[len(fpos)-1]"
      | some pl =>
        if n == 1 then
          match loLoop ifs st.runes p0.start p0.start 0, hiLoop ifs st.runes pl.stop st.runes.length with
          | .ok lo, .ok hi => sliceAll st.runes [⟨lo, hi⟩]
          | .error m, _ => .error m
          | _, .error m => .error m
        else if n != -1 && n < fpos.length then
          -- fpos[n-1].end = fpos[len(fpos)-1].end; fpos = fpos[:n]
          if n - 1 < 0 then .error "fpos[n-1]"
          else sliceAll st.runes ((setEndAt fpos (n - 1).toNat pl.stop).take n.toNat)
        else sliceAll st.runes fpos

/-- `expand.ReadFields(cfg, s, n, raw)` with `cfg.ifs = ifs`, on the runes of `s`. -/
def readFields (ifs : List Char) (line : List Char) (n : Int) (raw : Bool) :
    Except String (List (List Char)) :=
  match loop ifs raw St.init line with
  | .error m => .error m
  | .ok st => finish ifs n st

/-! ## Model of Runner.readLine (bytes) and of the builtin's glue -/

def bsl : UInt8 := 92
def nl : UInt8 := 10

structure LineRes where
  line : Bytes
  rest : Bytes      -- unread input
  eof : Bool        -- `err != nil` (io.EOF): no newline terminated the line
deriving Repr, DecidableEq

/-- The `for { … }` of readLine over the bytes still to be read; `line` and `esc` are its
    variables.  `line = line[:len(line)-1]` panics on an empty `line`. -/
def readLineLoop (raw : Bool) : Bytes → Bytes → Bool → Except String LineRes
  | [], line, _ => .ok ⟨line, [], true⟩
  | b :: rest, line, esc =>
    if !raw && b == bsl then readLineLoop raw rest (line ++ [b]) (!esc)
    else if !raw && b == nl && esc then
      if line.length == 0 then .error "line[:len(line)-1]"
      else readLineLoop raw rest line.dropLast false
    else if b == nl then .ok ⟨line, rest, false⟩
    else readLineLoop raw rest (line ++ [b]) false

def readLine (raw : Bool) (input : Bytes) : Except String LineRes := readLineLoop raw input [] false

/-- Bare `read`: REPLY is the line with backslash escapes discarded (byte loop of builtin.go). -/
def bareReplyLoop : Bytes → Bool → Bytes
  | [], _ => []
  | b :: rest, esc =>
    if b == bsl && !esc then bareReplyLoop rest true
    else b :: bareReplyLoop rest false

def bareReply (raw : Bool) (line : Bytes) : Bytes :=
  if raw then line else bareReplyLoop line false

/-- `for i, name := range args { val := ""; if i < len(values) { val = values[i] } … }`. -/
def assign {α} (k : Nat) (values : List (List α)) : List (List α) :=
  (List.range k).map fun i => (values[i]?).getD []

/-! ## Specification: POSIX `read` as implemented by bash -/

/-- A character of the line after backslash processing, with its "was escaped" mark. -/
abbrev MC := Char × Bool

/-- Backslash processing of `read` without `-r`: `\c` is `c`, protected from IFS treatment.
    (A line cannot end in an unpaired backslash when it was terminated by a newline; at end of
    input POSIX leaves it unspecified — here it is dropped.) -/
def unescape : Bool → List Char → List MC
  | true, cs => cs.map fun c => (c, false)
  | false, [] => []
  | false, [c] => if c == '\\' then [] else [(c, false)]
  | false, c :: d :: rest =>
    if c == '\\' then (d, true) :: unescape false rest
    else (c, false) :: unescape false (d :: rest)

/-- An unescaped IFS character. -/
def isDelim (ifs : List Char) (m : MC) : Bool := !m.2 && ifs.contains m.1
/-- An unescaped IFS white space character (space, tab, newline present in IFS). -/
def isWs (ifs : List Char) (m : MC) : Bool :=
  !m.2 && (m.1 == ' ' || m.1 == '\t' || m.1 == '\n') && ifs.contains m.1

def skipWs (ifs : List Char) (s : List MC) : List MC := s.dropWhile (isWs ifs)

/-- POSIX 2.6.5 (3): one field, then its delimiter — either a run of IFS white space, or one
    non-white-space IFS character together with any adjacent IFS white space.
    (bash `get_word_from_string`.)  Returns the word and the rest after the delimiter. -/
def getWord (ifs : List Char) (s : List MC) : List MC × List MC :=
  let w := s.takeWhile (fun m => !isDelim ifs m)
  match s.dropWhile (fun m => !isDelim ifs m) with
  | [] => (w, [])
  | d :: r1 =>
    let r2 := skipWs ifs r1
    if isWs ifs d then
      match r2 with
      | [] => (w, [])
      | d2 :: r3 => if isDelim ifs d2 then (w, skipWs ifs r3) else (w, r2)
    else (w, r2)

def chars (s : List MC) : List Char := s.map (·.1)

/-- Remove trailing unescaped IFS white space. -/
def stripTrailingWs (ifs : List Char) (s : List MC) : List MC :=
  (s.reverse.dropWhile (isWs ifs)).reverse

/-- Values of `k` names from the (leading-white-space-free) string: each name but the last takes
    one word; the last takes one word if that uses up the input, else all that is left minus
    trailing IFS white space; names beyond the input get the empty string. -/
def specVars (ifs : List Char) : Nat → List MC → List (List Char)
  | 0, _ => []
  | 1, s =>
    if s.isEmpty then [[]]
    else
      let (w, rest) := getWord ifs s
      if rest.isEmpty then [chars w] else [chars (stripTrailingWs ifs s)]
  | k + 2, s =>
    if s.isEmpty then [] :: specVars ifs (k + 1) []
    else
      let (w, rest) := getWord ifs s
      chars w :: specVars ifs (k + 1) rest

/-- All fields (`read -a`): words until the input is used up. -/
def specAll (ifs : List Char) : Nat → List MC → List (List Char)
  | 0, _ => []
  | fuel + 1, s =>
    if s.isEmpty then []
    else
      let (w, rest) := getWord ifs s
      chars w :: specAll ifs fuel rest

/-- What `read` assigns: `some k` for `k ≥ 1` names, `none` for `read -a`. -/
def specRead (ifs : List Char) (line : List Char) (names : Option Nat) (raw : Bool) :
    List (List Char) :=
  let s := skipWs ifs (unescape raw line)
  match names with
  | some k => specVars ifs k s
  | none => specAll ifs (s.length + 1) s

/-! ### The region in which the unchanged code is proved to meet the specification -/

/-- The line ends in an unpaired backslash (only possible at end of input; unspecified by POSIX). -/
def loneBackslash : List Char → Bool
  | [] => false
  | [c] => c == '\\'
  | c :: d :: rest => if c == '\\' then loneBackslash rest else loneBackslash (d :: rest)

inductive Scan
  | start    -- nothing but IFS white space so far
  | afterC   -- the last character that is not IFS white space was a field character
  | afterD   -- … was a non-white-space IFS delimiter
deriving Repr, DecidableEq

/-- Every non-white-space IFS delimiter stands strictly between two field characters, modulo IFS
    white space: no leading, trailing or adjacent non-white-space delimiters (the situations in
    which POSIX field splitting produces an empty field or keeps a delimiter in the last value). -/
def isolated (ifs : List Char) : Scan → List MC → Bool
  | .afterD, [] => false
  | _, [] => true
  | st, m :: s =>
    if isWs ifs m then isolated ifs st s
    else if isDelim ifs m then
      match st with
      | .afterC => isolated ifs .afterD s
      | _ => false
    else isolated ifs .afterC s

/-- Hypothesis of `readfields_spec_partial` (mirrored by `c23Excluded` in harness/c23.go). -/
def Clean (ifs : List Char) (raw : Bool) (line : List Char) : Prop :=
  (raw = true ∨ ifs.contains '\\' = false) ∧
  (raw = true ∨ loneBackslash line = false) ∧
  isolated ifs .start (unescape raw line) = true

instance (ifs : List Char) (raw : Bool) (line : List Char) : Decidable (Clean ifs raw line) := by
  unfold Clean; exact inferInstance

/-- Spec of line reading: without `-r` a backslash-newline pair is removed and any other
    backslash pair is kept (both bytes) for the later processing; the line ends at the first
    newline that is not escaped; with `-r` at the first newline. -/
def specReadLine : Bool → Bytes → LineRes
  | _, [] => ⟨[], [], true⟩
  | true, b :: rest =>
    if b == nl then ⟨[], rest, false⟩
    else let r := specReadLine true rest; { r with line := b :: r.line }
  | false, [b] => if b == nl then ⟨[], [], false⟩ else ⟨[b], [], true⟩
  | false, b :: c :: rest =>
    if b == bsl then
      if c == nl then specReadLine false rest
      else let r := specReadLine false rest; { r with line := b :: c :: r.line }
    else if b == nl then ⟨[], c :: rest, false⟩
    else let r := specReadLine false (c :: rest); { r with line := b :: r.line }

/-- Spec of bare `read`: REPLY is the whole line, each `\c` replaced by `c`, nothing trimmed. -/
def specBareReply : Bool → Bytes → Bytes
  | true, l => l
  | false, [] => []
  | false, [b] => if b == bsl then [] else [b]
  | false, b :: c :: rest =>
    if b == bsl then c :: specBareReply false rest else b :: specBareReply false (c :: rest)

/-! ## The builtin as a whole (bytes in, values out): glue for the correspondence with `interp` -/

inductive Mode
  | names (k : Nat)   -- `read n1 … nk`, k ≥ 1
  | array             -- `read -a arr`
  | bare              -- `read` (REPLY)
deriving Repr, DecidableEq

structure ReadOut where
  status : Nat
  vals : List Bytes
  rest : Bytes
deriving Repr, DecidableEq

def defaultIfs : List Char := [' ', '\t', '\n']

def ifsOf : Option Bytes → List Char
  | none => defaultIfs
  | some b => decodeRunes b

/-- `read` of interp/builtin.go: readLine, then ReadFields / the REPLY loop, then the status. -/
def readBuiltin (ifs : Option Bytes) (raw : Bool) (mode : Mode) (input : Bytes) : Except String ReadOut :=
  match readLine raw input with
  | .error m => .error m
  | .ok lr =>
    let st := if lr.eof then 1 else 0
    match mode with
    | .bare => .ok ⟨st, [bareReply raw lr.line], lr.rest⟩
    | .array =>
      match readFields (ifsOf ifs) (decodeRunes lr.line) (-1) raw with
      | .ok fs => .ok ⟨st, fs.map encodeRunes, lr.rest⟩
      | .error m => .error m
    | .names k =>
      match readFields (ifsOf ifs) (decodeRunes lr.line) k raw with
      | .ok fs => .ok ⟨st, (assign k fs).map encodeRunes, lr.rest⟩
      | .error m => .error m

/-- The same from the specification functions. -/
def specBuiltin (ifs : Option Bytes) (raw : Bool) (mode : Mode) (input : Bytes) : ReadOut :=
  let lr := specReadLine raw input
  let st := if lr.eof then 1 else 0
  match mode with
  | .bare => ⟨st, [specBareReply raw lr.line], lr.rest⟩
  | .array => ⟨st, (specRead (ifsOf ifs) (decodeRunes lr.line) none raw).map encodeRunes, lr.rest⟩
  | .names k => ⟨st, (specRead (ifsOf ifs) (decodeRunes lr.line) (some k) raw).map encodeRunes, lr.rest⟩

end ShVerif.C23
