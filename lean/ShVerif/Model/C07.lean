/-
  C07 — the *unchunked* byte source: the specification the chunked byte source of
  `Model/L2ByteSrc.lean` is compared with.  It has no buffer, no reader and no schedule: it works on
  the logical remaining input `rest` only.  Every primitive is the Go primitive with
  "`fill()` until the bytes needed are there" read as "look at `rest`".

  Ghost fields, used only to *state* the client protocol under which chunked = unchunked:
    `look`   — a lower bound on the number of unread bytes that are certainly in the buffer whatever
               the schedule (raised by `peek`/`peekTwo`, lowered by consumption);
    `behind` — the bytes of the multi-byte rune just read while they are certainly still in the
               buffer right before the cursor (what `newLit` used to re-slice; since cb62b3c `newLit`
               encodes the rune instead and nothing reads this ghost any more);
    `halted` — set when the stop-word test fired (`p.r = runeEOF` with input left): the lexer is
               expected to stop reading;
    `ok`     — cleared by the first operation that steps outside the protocol (the protocol is
               *defined* as "`ok` is still set at the end of the run"):
      - `rune`, `peek`, `peekTwo`, `zshNumRange`, the stop-word test after the stop-word test fired,
      - `zshNumRange` at the end of input (Go panics on `p.bs[p.bsp:]`), and on a numeric range whose closing `>` is more than 64 bytes away
        (the real function gives up after 64 buffered bytes: residual finding C07-zshnumrange-long),
      - `nextPos` after an error, `endLit` with fewer literal bytes than the current rune is wide.
  Core Lean only.
-/
import ShVerif.Model.L2ByteSrc
namespace ShVerif.C07
open ShVerif ShVerif.L2

structure LSt where
  rest : List Byte
  consumed : Nat            -- p.offs + p.bsp
  line : Nat
  col : Nat
  r : Nat
  w : Nat
  lit : Option (List Byte)  -- reversed, as in L2
  openBq : Nat
  openBqDbl : Nat
  lastBqEsc : Nat
  err : Option Err
  stopPat : List Byte
  look : Nat                -- ghost
  behind : Option (List Byte) -- ghost (reversed)
  halted : Bool             -- ghost
  ok : Bool                 -- ghost
deriving Repr

namespace LSt

def init (input : List Byte) (stopPat : List Byte := []) : LSt :=
  { rest := input, consumed := 0, line := 1, col := 1, r := 0, w := 0,
    lit := none, openBq := 0, openBqDbl := 0, lastBqEsc := 0,
    err := none, stopPat, look := 0, behind := none, halted := false, ok := true }

/-- `p.bsp++` over a byte that is there -/
def consume (a : LSt) : LSt :=
  match a.rest with
  | _ :: t => { a with rest := t, consumed := a.consumed + 1, look := a.look - 1 }
  | [] => a

def consumeN : Nat → LSt → LSt
  | 0, a => a
  | n + 1, a => consumeN n a.consume

def litPush (a : LSt) (bs : List Byte) : LSt :=
  match a.lit with
  | none => a
  | some l => { a with lit := some (bs.reverse ++ l) }

/-- forget which bytes lie behind the cursor, and leave the protocol if the lexer was told to
    stop: done by every operation that may refill the buffer -/
def forget (a : LSt) : LSt := { a with behind := none, ok := a.ok && !a.halted }

/-- the state effect of `peek()` -/
def peekEff0 (a : LSt) : LSt := { a with look := max a.look 1 }

def peekEff (a : LSt) : LSt := a.forget.peekEff0

def peek (a : LSt) : Nat × LSt :=
  let a := a.peekEff
  match a.rest with
  | [] => (runeSelf, a)
  | b :: _ => (b.toNat, a)

/-- the state effect of `peekTwo()` -/
def peekTwoEff0 (a : LSt) : LSt := { a with look := max a.look 2 }

def peekTwoEff (a : LSt) : LSt := a.forget.peekTwoEff0

def peekTwo (a : LSt) : Nat × Nat × LSt :=
  let a := a.peekTwoEff
  match a.rest with
  | [] => (runeSelf, runeSelf, a)
  | [b] => (b.toNat, runeSelf, a)
  | b :: c :: _ => (b.toNat, c.toNat, a)

/-- `zshNumRange`: scan the logical input; inside the protocol when a positive answer is already
    decided by the first 64 bytes, and never once `p.r` is `runeEOF` (the cursor is past the buffer
    and `p.bs[p.bsp:]` panics) -/
def zshNum (a : LSt) : Bool × LSt :=
  let a := a.forget
  let yes := St.zshScan a.rest == St.Scan.yes
  (yes, { a with ok := a.ok && a.r != runeEOF && (!yes || St.zshScan (a.rest.take 64) == St.Scan.yes) })

def nextPos (a : LSt) : Int × Nat × Nat :=
  ((a.consumed : Int) - (a.w : Int), a.line, a.col)

/-- the `pos` operation of a client: `nextPos`, outside the protocol after an error -/
def pos (a : LSt) : (Int × Nat × Nat) × LSt :=
  (a.nextPos, { a with ok := a.ok && a.err.isNone })

def errPass (a : LSt) (e : Err) : LSt :=
  match a.err with
  | some _ => a
  | none => { a with err := some e, rest := [], r := runeEOF, w := 1, behind := none, consumed := 0 }

inductive Step where
  | done (a : LSt)
  | retry (bq : Nat) (a : LSt)

def runeTail (b : Byte) (bq : Nat) (a : LSt) : LSt :=
  let a := if b == 96 then { a with lastBqEsc := bq } else a
  let a := a.litPush [b]
  { a with w := 1, r := b.toNat }

def runeAfterEsc (b : Byte) (bq : Nat) (a : LSt) : Step :=
  match a.rest with
  | c :: _ =>
    if a.openBq > 0 && ((bq < a.openBq && St.bquoteEscaped c) || (bq < a.openBqDbl && c == 34)) then
      .retry (bq + 1) { a with col := a.col + 1 }
    else .done (runeTail b bq a)
  | [] => .done (runeTail b bq a)

def runeBackslash (b : Byte) (bq : Nat) (a : LSt) : Step :=
  if a.r == 92 then
    let (_, a) := a.peek
    runeAfterEsc b bq a
  else
    let (pk, a) := a.peek
    if pk == 10 then .done { a.consume with w := 1, r := escNewl }
    else
      let (p1, p2, a) := a.peekTwo
      if p1 == 13 && p2 == 10 then
        .done { (a.consumeN 2) with col := a.col + 1, w := 2, r := escNewl }
      else runeAfterEsc b bq a

def runeAscii (b : Byte) (bq : Nat) (a : LSt) : Step :=
  let a := a.consume
  if b == 0 then .retry bq { a with col := a.col + 1 }
  else if b == 13 then
    let (pk, a) := a.peek
    if pk == 10 then .retry bq { a with col := a.col + 1 } else .done (runeTail b bq a)
  else if b == 92 then runeBackslash b bq a
  else .done (runeTail b bq a)

def runeDecode (a : LSt) : LSt :=
  let (r, w) := decodeRune a.rest
  let a := { a with r }
  let bytes := a.rest.take w
  let a := a.litPush bytes
  let a := a.consumeN w
  let a := { a with behind := some bytes.reverse, w := w }
  if a.r == runeError && w == 1 then
    let (o, l, c) := a.nextPos
    a.errPass (.utf8 o l c)
  else a

/-- `p.bsp = len(p.bs)+1; p.r = runeEOF; p.w = 1` — idempotent -/
def runeAtEOF (a : LSt) : LSt :=
  if a.r == runeEOF then { a with w := 1 }
  else { a with consumed := a.consumed + 1, r := runeEOF, w := 1 }

/-- a byte `b` is at the cursor -/
def runeBody (b : Byte) (bq : Nat) (a : LSt) : Step :=
  let a := { a with look := max a.look 1 }
  if b.toNat < 0x80 then runeAscii b bq a else .done (runeDecode a)

def runeStep (bq : Nat) (a : LSt) : Step :=
  let a := a.forget
  match a.rest with
  | [] => .done (runeAtEOF a)
  | b :: _ => runeBody b bq a

def runeLoop : Nat → Nat → LSt → LSt
  | 0, _, a => a
  | fuel + 1, bq, a =>
    match runeStep bq a with
    | .done a => a
    | .retry bq a => runeLoop fuel bq a

def runePre (a : LSt) : LSt :=
  let a := if a.r == 10 || a.r == escNewl then { a with line := a.line + 1, col := 0 } else a
  { a with col := a.col + a.w }

def rune (a : LSt) : Nat × LSt :=
  let a := a.runePre
  let a := runeLoop (a.rest.length + 2) 0 a
  (a.r, a)

def runesUpTo : Nat → Nat → LSt → Nat × LSt
  | 0, cnt, a => (cnt, a)
  | n + 1, cnt, a =>
    let (r, a) := a.rune
    if r == runeEOF then (cnt + 1, a) else runesUpTo n (cnt + 1) a

def newLit (a : LSt) (r : Nat) : LSt :=
  if r < 0x80 then { a with lit := some [UInt8.ofNat r] }
  else if r == runeEOF || r == escNewl then { a with lit := some [] }
  else { a with lit := some (appendRune r).reverse }

def endLit (a : LSt) : List Byte × LSt :=
  let l := a.lit.getD []
  if a.r == runeEOF || a.r == escNewl then (l.reverse, { a with lit := none })
  else ((l.drop a.w).reverse, { a with lit := none, ok := a.ok && decide (a.w ≤ l.length) })

/-- the stop-word test for the rune `r`: its encoding followed by the logical input starts with
    the stop word.  Nothing matches once `p.r` is `runeEOF` (the cursor is past the buffer). -/
def stopAt (a : LSt) (r : Nat) : Bool × LSt :=
  let enc := if r ≤ 0x10FFFF then encodeRune r else []
  let k := enc.length
  let a := a.forget
  if k > 0 ∧ a.stopPat.length ≥ k ∧ a.stopPat.take k = enc ∧ a.r ≠ runeEOF
      ∧ (a.stopPat.drop k).isPrefixOf a.rest = true then
    (true, { a with r := runeEOF, w := 1, halted := true })
  else (false, a)

end LSt

/-- a client program on the unchunked machine -/
def specRun {α : Type} : Prog α → LSt → α × LSt
  | .ret x, a => (x, a)
  | .rune k, a => let (r, a) := a.rune; specRun (k r) a
  | .peek k, a => let (b, a) := a.peek; specRun (k b) a
  | .peekTwo k, a => let (x, y, a) := a.peekTwo; specRun (k x y) a
  | .zshNum k, a => let (b, a) := a.zshNum; specRun (k b) a
  | .stopAt r k, a => let (b, a) := a.stopAt r; specRun (k b) a
  | .newLit r k, a => specRun k (a.newLit r)
  | .endLit k, a => let (l, a) := a.endLit; specRun (k l) a
  | .pos k, a => let ((o, l, c), a) := a.pos; specRun (k o l c) a
  | .setBquotes o d k, a => specRun k { a with openBq := o, openBqDbl := d }
  | .getRW k, a => specRun (k a.r a.w) a
  | .lastBq k, a => specRun (k a.lastBqEsc) a
  | .litGet k, a => specRun (k (a.lit.map List.reverse)) a
  | .litAppend bs k, a => specRun k { a with lit := some (bs.reverse ++ a.lit.getD []) }
  | .litDrop k, a => specRun k { a with lit := none }
  | .errPass k, a => specRun k (a.errPass .client)
  | .errGet k, a => specRun (k a.err.isSome) a

/-- the client protocol: the run on the unchunked machine never steps outside it -/
def InProtocol {α : Type} (p : Prog α) (input stopPat : List Byte) : Prop :=
  (specRun p (LSt.init input stopPat)).2.ok = true

/-! ### the same, with the two places where the Go code panics under every schedule alike

  `zshNumRange` once the cursor is past the buffer (`p.r == runeEOF`: `p.bs[p.bsp:]` is out of range) and
  `endLit` with fewer literal bytes than the current rune is wide (`p.litBs[:len(p.litBs)-p.w]`) panic
  whatever the schedule: they are outcomes, not schedule dependence. -/

inductive Out (α : Type) where
  | done (v : α) (a : LSt)
  | panic (a : LSt)          -- the state in which the panicking primitive was called

def Out.ok {α : Type} : Out α → Bool
  | .done _ a => a.ok
  | .panic a => a.ok

def Out.result {α : Type} : Out α → Option α
  | .done v _ => some v
  | .panic _ => none

def specRunF {α : Type} : Prog α → LSt → Out α
  | .ret x, a => .done x a
  | .rune k, a => let (r, a) := a.rune; specRunF (k r) a
  | .peek k, a => let (b, a) := a.peek; specRunF (k b) a
  | .peekTwo k, a => let (x, y, a) := a.peekTwo; specRunF (k x y) a
  | .zshNum k, a =>
    if a.r == runeEOF && !a.halted then .panic a
    else let (b, a) := a.zshNum; specRunF (k b) a
  | .stopAt r k, a => let (b, a) := a.stopAt r; specRunF (k b) a
  | .newLit r k, a => specRunF k (a.newLit r)
  | .endLit k, a =>
    if !(a.r == runeEOF || a.r == escNewl) && decide (a.w > (a.lit.getD []).length) then .panic a
    else let (l, a) := a.endLit; specRunF (k l) a
  | .pos k, a => let ((o, l, c), a) := a.pos; specRunF (k o l c) a
  | .setBquotes o d k, a => specRunF k { a with openBq := o, openBqDbl := d }
  | .getRW k, a => specRunF (k a.r a.w) a
  | .lastBq k, a => specRunF (k a.lastBqEsc) a
  | .litGet k, a => specRunF (k (a.lit.map List.reverse)) a
  | .litAppend bs k, a => specRunF k { a with lit := some (bs.reverse ++ a.lit.getD []) }
  | .litDrop k, a => specRunF k { a with lit := none }
  | .errPass k, a => specRunF k (a.errPass .client)
  | .errGet k, a => specRunF (k a.err.isSome) a

/-- the client never (a) reads on after the stop-word test fired, (b) asks for `nextPos` after an
    error, (c) gets a positive `zshNumRange` answer that is not decided by the first 64 bytes -/
def Admissible {α : Type} (p : Prog α) (input stopPat : List Byte) : Prop :=
  (specRunF p (LSt.init input stopPat)).ok = true

end ShVerif.C07
