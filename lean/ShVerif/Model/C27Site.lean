/-
  C27 — the shape of one entry of the regenerated write-site table (core only).
-/
namespace ShVerif.C27

/-- A syntactic write site of the shell state in package interp: file, enclosing function, kind
    (`call`, `assign`, `delete`, `clear`, `lit`), source text, ordinal among equal sites. -/
structure WriteSite where
  file : String
  fn : String
  kind : String
  detail : String
  ord : Nat
deriving DecidableEq, Repr

end ShVerif.C27
