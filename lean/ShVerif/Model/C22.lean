/-
  C22 — Field splitting and quote removal match bash.

  Model of `Config.wordFields` (expand/expand.go) with its helpers `flush`, `splitAdd`, the
  backslash removal of unquoted and double-quoted literals (`wordField`), `ifsJoin`,
  `quotedElemFields` / `unquotedElemFields` for `"$@"`, `"$*"`, `$@`, `$*`, shaped like the Go
  code (state `fields`, `curField`, `allowEmpty`).  Pathname expansion is C19's and is switched
  off (no ReadDir / `set -f`); tilde expansion is C21's: an unquoted literal never starts with `~`.

  Then the specification: POSIX 2.6.5 field splitting + 2.6.7 quote removal (`posixFields`).
  Core Lean only.
-/
import ShVerif.Base.Hex
namespace ShVerif.C22

/-! ## Strings -/

/-- One step of `for i, r := range val`: the rune and the bytes it was decoded from (Go slices the
    original string, so the bytes — even invalid ones — survive). -/
structure Sym where
  r : Char
  bs : Bytes
deriving Repr, DecidableEq

abbrev Str := List Sym

def strBytes (s : Str) : Bytes := s.flatMap (·.bs)

/-- `cfg.ifsRune(r)`: `strings.ContainsRune(cfg.ifs, r)`. -/
def ifsRune (ifs : Str) (r : Char) : Bool := ifs.any (·.r == r)

def wsRune (r : Char) : Bool := r == ' ' || r == '\t' || r == '\n'

/-- `cfg.ifsJoin`: join with the first character (not byte) of IFS; nothing when IFS is empty. -/
def ifsSep (ifs : Str) : Bytes :=
  match ifs with
  | [] => []
  | s :: _ => s.bs

def joinBytes (sep : Bytes) : List Bytes → Bytes
  | [] => []
  | [a] => a
  | a :: b :: rest => a ++ sep ++ joinBytes sep (b :: rest)

/-! ## Words -/

/-- A part inside double quotes. -/
inductive DPart
  | lit (s : Bytes)     -- literal text as written (backslashes still in)
  | exp (v : Str)       -- "$x" / "$(cmd)": the value
  | at                  -- $@
  | star                -- $*
deriving Repr, DecidableEq

inductive Part
  | lit (s : Bytes)     -- unquoted literal as written (backslashes still in)
  | sgl (s : Bytes)     -- 'text'
  | dbl (ps : List DPart)
  | exp (v : Str)       -- unquoted $x / $(cmd): the value
  | at                  -- unquoted $@
  | star                -- unquoted $*
deriving Repr, DecidableEq

structure Env where
  ifs : Str                 -- `cfg.ifs` (" \t\n" when IFS is unset)
  params : List Str         -- positional parameters
deriving Repr, DecidableEq

/-! ## Model of wordFields -/

/-- `quoteLevel`: 0 none, 1 double, 3 single. -/
structure FP where
  val : Bytes
  quote : Nat
deriving Repr, DecidableEq

structure WS where
  fields : List (List FP)
  cur : List FP             -- curField
  allowEmpty : Bool
  wsDelim : Bool            -- the last field was ended by IFS white space
deriving Repr, DecidableEq

def WS.init : WS := ⟨[], [], false, false⟩

/-- `flush := func() { if len(curField) == 0 { return }; fields = append(fields, curField); curField = nil }` -/
def flush (w : WS) : WS :=
  if w.cur.length == 0 then w else { w with fields := w.fields ++ [w.cur], cur := [] }

def addPart (w : WS) (p : FP) : WS := { w with cur := w.cur ++ [p] }

/-- `cfg.ifsWhitespace(r)`. -/
def ifsWs (ifs : Str) (r : Char) : Bool := wsRune r && ifsRune ifs r

/-- `delimit := func(r rune) { switch { … } }`: end the current field at the IFS character `r`
    (POSIX 2.6.5): a field that has begun is flushed; otherwise IFS white space is ignored, a
    non-white-space character completes a delimiter begun by white space, or else makes an empty
    field (`fields = append(fields, nil)`). -/
def delimit (ifs : Str) (w : WS) (r : Char) : WS :=
  if w.cur.length > 0 then { flush w with wsDelim := ifsWs ifs r }
  else if ifsWs ifs r then w
  else if w.wsDelim then { w with wsDelim := false }
  else { w with fields := w.fields ++ [[]] }

/-- The `for i, r := range val` loop of `splitAdd`; `acc = some (val[fieldStart:i])` when
    `fieldStart >= 0`. -/
def splitLoop (ifs : Str) : WS → Option Bytes → Str → WS × Option Bytes
  | w, acc, [] => (w, acc)
  | w, acc, s :: rest =>
    if ifsRune ifs s.r then
      let w1 := match acc with
        | some b => addPart w ⟨b, 0⟩      -- ending a field
        | none => w
      splitLoop ifs (delimit ifs w1 s.r) none rest
    else
      splitLoop ifs { w with wsDelim := false } (some (acc.getD [] ++ s.bs)) rest

def splitAdd (ifs : Str) (w : WS) (val : Str) : WS :=
  match splitLoop ifs w none val with
  | (w1, some b) => addPart w1 ⟨b, 0⟩       -- ending a field without IFS
  | (w1, none) => w1

/-- Backslash removal of an unquoted literal (byte loop of wordFields): `\c` is `c`; a final
    lone backslash is kept. -/
def unbackslash : Bytes → Bytes
  | [] => []
  | [b] => [b]
  | b :: c :: rest => if b == 92 then c :: unbackslash rest else b :: unbackslash (c :: rest)

/-- Backslash removal inside double quotes (wordField, `ql == quoteDouble`): only before
    `"`, `\`, `$` and backquote. -/
def dqUnescape : Bytes → Bytes
  | [] => []
  | [b] => [b]
  | b :: c :: rest =>
    if b == 92 && (c == 34 || c == 92 || c == 36 || c == 96) then c :: dqUnescape rest
    else b :: dqUnescape (c :: rest)

/-- Value of one part inside double quotes on the general path (`wordField`): a literal is
    unescaped and cut at the first NUL; `$@` is joined with spaces, `$*` with the IFS separator. -/
def dpartVal (env : Env) : DPart → Bytes
  | .lit s => (dqUnescape s).takeWhile (· != 0)
  | .exp v => strBytes v
  | .at => joinBytes [32] (env.params.map strBytes)
  | .star => joinBytes (ifsSep env.ifs) (env.params.map strBytes)

/-- `for i, elem := range elems { if i > 0 { flush() }; curField = append(curField, {quoteDouble, elem}) }` -/
def addQuotedElems : WS → Bool → List Bytes → WS
  | w, _, [] => w
  | w, first, e :: rest =>
    let w1 := if first then w else flush w
    addQuotedElems (addPart w1 ⟨e, 1⟩) false rest

/-- `sep, _ := utf8.DecodeRuneInString(cfg.ifs)`
    `for j, elem := range elems { if j > 0 { if cfg.ifs == "" { flush() } else { delimit(sep) } }; splitAdd(elem) }`:
    the elements are separated as if by the first IFS character (as bash does). -/
def addUnquotedElems (ifs : Str) : WS → Bool → List Str → WS
  | w, _, [] => w
  | w, first, e :: rest =>
    let w1 := if first then w else
      match ifs with
      | [] => flush w
      | sep :: _ => delimit ifs w sep.r
    addUnquotedElems ifs (splitAdd ifs w1 e) false rest

/-- One iteration of `for i, wp := range wps` (`first` is `i == 0`). -/
def partStep (env : Env) (w : WS) (_first : Bool) : Part → WS
  | .lit s =>
    -- expandUser returns ("", s) as `s` does not start with `~`: no prefix part; an empty
    -- literal (left by brace expansion) is skipped
    if s.isEmpty then w else addPart w ⟨unbackslash s, 0⟩
  | .sgl s => addPart { w with allowEmpty := true } ⟨s, 3⟩
  | .dbl [.at] => addQuotedElems w true (env.params.map strBytes)
  | .dbl [.star] => addQuotedElems w true [joinBytes (ifsSep env.ifs) (env.params.map strBytes)]
  | .dbl [] => addPart { w with allowEmpty := true } ⟨[], 1⟩    -- `if len(wfield) == 0 { … }`
  | .dbl ps => (ps.map (dpartVal env)).foldl (fun w v => addPart w ⟨v, 1⟩) { w with allowEmpty := true }
  | .exp v => splitAdd env.ifs w v
  | .at => addUnquotedElems env.ifs w true env.params
  | .star => addUnquotedElems env.ifs w true env.params

def partsLoop (env : Env) : WS → Bool → List Part → WS
  | w, _, [] => w
  | w, first, p :: ps => partsLoop env (partStep env w first p) false ps

/-- `cfg.fieldJoin`. -/
def fieldJoin (f : List FP) : Bytes := f.flatMap (·.val)

/-- `wordFields` followed by `fieldJoin` of every field (what `Fields` yields without globbing). -/
def wordFields (env : Env) (parts : List Part) : List Bytes :=
  let w := flush (partsLoop env WS.init true parts)
  let fields := if w.allowEmpty && w.fields.length == 0 then w.fields ++ [w.cur] else w.fields
  fields.map fieldJoin

/-! ## Model of expand.Literal / literalKeepEscapes: no field splitting -/

/-- One part under `wordField(parts, quoteNone, unescape)`: when `unescape` is set (532994e) the
    backslash escapes of an unquoted literal are removed with the same loop as in `wordFields`
    (`unescapeLit`), then the literal is cut at the first NUL. -/
def literalVal (unescape : Bool) (env : Env) : Part → Bytes
  | .lit s => (if unescape then unbackslash s else s).takeWhile (· != 0)
  | .sgl s => s
  | .dbl ps => (ps.map (dpartVal env)).flatten
  | .exp v => strBytes v
  | .at => joinBytes [32] (env.params.map strBytes)
  | .star => joinBytes (ifsSep env.ifs) (env.params.map strBytes)

/-- `expand.Literal(cfg, word)` (assignments, here-strings, `case` words, …): unescapes. -/
def literal (env : Env) (parts : List Part) : Bytes := (parts.map (literalVal true env)).flatten

/-- `literalKeepEscapes(cfg, word)` (unexported: words of `${v:-word}`, `${v/p/repl}`, arithmetic):
    the backslashes of unquoted literals stay. -/
def literalKeepEscapes (env : Env) (parts : List Part) : Bytes :=
  (parts.map (literalVal false env)).flatten

/-- Quote removal without field splitting (POSIX 2.6.7; assignments 2.9.1). -/
def posixLiteralVal (env : Env) : Part → Bytes
  | .lit s => unbackslash s
  | .sgl s => s
  | .dbl ps => (ps.map fun
      | .lit s => dqUnescape s
      | .exp v => strBytes v
      | .at => joinBytes [32] (env.params.map strBytes)
      | .star => joinBytes (ifsSep env.ifs) (env.params.map strBytes)).flatten
  | .exp v => strBytes v
  | .at => joinBytes [32] (env.params.map strBytes)
  | .star => joinBytes (ifsSep env.ifs) (env.params.map strBytes)

def posixLiteral (env : Env) (parts : List Part) : Bytes := (parts.map (posixLiteralVal env)).flatten

/-! ## Specification: POSIX expansion result, field splitting, quote removal -/

/-- The word after expansion and before field splitting. -/
inductive Item
  | lit (b : Bytes)       -- unquoted literal characters: never split; an empty one is nothing
  | quoted (b : Bytes)    -- result of a quoted part: never split; present even when empty
  | u (s : Sym)           -- one character that came from an unquoted expansion: subject to splitting
  | brk                   -- boundary between two positional parameters of `$@` / `"$@"`
deriving Repr, DecidableEq

def containsAt : List DPart → Bool
  | [] => false
  | .at :: _ => true
  | _ :: ps => containsAt ps

/-- `$@` inside double quotes: the first parameter joins what precedes it (`acc`), every boundary
    between two parameters breaks the word, the last parameter is left open (the new `acc`) to
    join what follows; no parameters: nothing at all. -/
def atItems : Option Bytes → List Bytes → List Item × Option Bytes
  | acc, [] => ([], acc)
  | acc, [p] => ([], some (acc.getD [] ++ p))
  | acc, p :: q :: rest =>
    let (its, a) := atItems none (q :: rest)
    (.quoted (acc.getD [] ++ p) :: .brk :: its, a)

/-- Quoted parts: the characters collect into one quoted item (`acc`; `none`: nothing present
    yet), except that `$@` breaks the word between parameters. -/
def dqItems (env : Env) : List DPart → Option Bytes → List Item
  | [], none => []
  | [], some b => [.quoted b]
  | .at :: rest, acc =>
    let (its, a) := atItems acc (env.params.map strBytes)
    its ++ dqItems env rest a
  | p :: rest, acc =>
    let v := match p with
      | .lit s => dqUnescape s
      | .exp v => strBytes v
      | _ => joinBytes (ifsSep env.ifs) (env.params.map strBytes)   -- `$*`
    -- (`acc = none` only in double quotes that contain `$@`: there a word like "$e$@" with
    -- nothing in it expands to nothing, as in bash)
    dqItems env rest (if acc.isNone && v.isEmpty then none else some (acc.getD [] ++ v))

/-- Unquoted `$@` / `$*`: the parameters, separated by the first IFS character, are split as a
    whole (bash; POSIX lets the empty fields this can make be kept or dropped); with an empty IFS
    nothing splits and each parameter is a field of its own. -/
def unquotedElems (ifs : Str) : List Str → List Item
  | [] => []
  | [p] => p.map .u
  | p :: q :: rest =>
    p.map .u ++ (match ifs with | [] => Item.brk | sep :: _ => Item.u sep) :: unquotedElems ifs (q :: rest)

def partItems (env : Env) : Part → List Item
  | .lit s => [.lit (unbackslash s)]
  | .sgl s => [.quoted s]
  | .dbl ps => dqItems env ps (if containsAt ps then none else some [])
  | .exp v => v.map .u
  | .at => unquotedElems env.ifs env.params
  | .star => unquotedElems env.ifs env.params

/-- State of the splitting scan: the fields delimited so far, the current field (`none`: not
    begun), and whether the last delimiter was IFS white space that ended a field (a following
    non-white-space IFS character then belongs to the same delimiter, POSIX 2.6.5 (3)(b)). -/
structure SS where
  out : List Bytes
  cur : Option Bytes
  pend : Bool
deriving Repr, DecidableEq

def SS.init : SS := ⟨[], none, false⟩

def splitStep (ifs : Str) (st : SS) : Item → SS
  | .lit b => if b.isEmpty then st else { st with cur := some (st.cur.getD [] ++ b), pend := false }
  | .quoted b => { st with cur := some (st.cur.getD [] ++ b), pend := false }
  | .brk =>
    match st.cur with
    | some b => ⟨st.out ++ [b], none, false⟩
    | none => { st with pend := false }
  | .u s =>
    if !ifsRune ifs s.r then { st with cur := some (st.cur.getD [] ++ s.bs), pend := false }
    else if wsRune s.r then
      -- IFS white space: ends the current field if there is one; otherwise ignored
      match st.cur with
      | some b => ⟨st.out ++ [b], none, true⟩
      | none => st
    else
      -- any other IFS character delimits a field, empty or not — unless it completes a
      -- delimiter begun by IFS white space
      match st.cur with
      | some b => ⟨st.out ++ [b], none, false⟩
      | none => if st.pend then { st with pend := false } else ⟨st.out ++ [[]], none, false⟩

/-- POSIX field splitting of an expanded word. -/
def posixSplit (ifs : Str) (items : List Item) : List Bytes :=
  let st := items.foldl (splitStep ifs) SS.init
  match st.cur with
  | some b => st.out ++ [b]
  | none => st.out

/-- The fields a word must expand to. -/
def posixFields (env : Env) (parts : List Part) : List Bytes :=
  posixSplit env.ifs (parts.flatMap (partItems env))

/-! ### The words for which the code is proved to meet the specification -/

def dpartOk : DPart → Bool
  | .lit s => !s.contains 0                     -- no NUL byte in source text
  | _ => true

def partOk : Part → Bool
  | .lit _ => true
  | .dbl ps => (!containsAt ps || ps == [.at]) && ps.all dpartOk   -- `$@` inside double quotes stands alone
  | _ => true

/-- A part that neither splits nor breaks the word: literal, single quotes, double quotes
    without `$@`. -/
def plain : Part → Bool
  | .lit _ => true
  | .sgl _ => true
  | .dbl ps => !containsAt ps
  | _ => false

end ShVerif.C22
