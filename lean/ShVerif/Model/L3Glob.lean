import ShVerif.Base.Hex
/-
  L3 — shell patterns (glob) and the regular expressions `pattern.Regexp` turns them into.
  Shared by C17 (Regexp language = bash glob semantics) and C18 (QuoteMeta / HasMeta).

  Contents
    §1  runes, modes, POSIX classes, case folding
    §2  `Regex`: the fragment of RE2 syntax that `pattern.Regexp` emits, its printer (byte-for-byte the
        Go output) and its semantics: the Brzozowski-derivative matcher `rmatch`
    §3  the translator `regexpOf`, shaped like pattern.go: `Regexp` / `regexpNext` / `charClass`
    §4  `quoteMeta`, `hasMeta`, `unescape`, and the wrapper `internal.ExtendedPatternMatcher`
    §5  the reference semantics: `Glob` tokens, the parser `parseGlob` written from bash's rules,
        and the backtracking matcher `globMatch`
    §6  the region where code and reference are known to agree (`supported`)

  Strings are lists of Unicode code points (`Rune = Nat`).  The Go code works on UTF-8 bytes and
  decodes runes one at a time; for valid UTF-8 without NUL this is the same thing, and the
  line-protocol driver does the decoding.  Byte offsets (NegExtGlobGroup) are recomputed by the driver.
  Core Lean only.
-/
namespace ShVerif.L3

abbrev Rune := Nat
abbrev Str := List Nat

/-! ## §1 runes, modes, classes -/

def cBang : Rune := 33    -- !
def cDollar : Rune := 36  -- $
def cLP : Rune := 40      -- (
def cRP : Rune := 41      -- )
def cStar : Rune := 42    -- *
def cPlus : Rune := 43    -- +
def cDash : Rune := 45    -- -
def cDot : Rune := 46     -- .
def cSlash : Rune := 47   -- /
def cColon : Rune := 58   -- :
def cEq : Rune := 61      -- =
def cQuest : Rune := 63   -- ?
def cAt : Rune := 64      -- @
def cLB : Rune := 91      -- [
def cBS : Rune := 92      -- \
def cRB : Rune := 93      -- ]
def cCaret : Rune := 94   -- ^
def cLC : Rune := 123     -- {
def cBar : Rune := 124    -- |
def cRC : Rune := 125     -- }

/-- `pattern.Mode` (bit i of the Go value, in declaration order). -/
structure Mode where
  shortest : Bool
  filenames : Bool
  entire : Bool
  nocase : Bool
  noglobstar : Bool
  dotglob : Bool
  ext : Bool
  deriving DecidableEq, Repr

def Mode.ofNat (n : Nat) : Mode :=
  { shortest := n.testBit 0, filenames := n.testBit 1, entire := n.testBit 2, nocase := n.testBit 3,
    noglobstar := n.testBit 4, dotglob := n.testBit 5, ext := n.testBit 6 }

def strOf (s : String) : Str := s.toList.map Char.toNat

/-- The fourteen POSIX class names `charClass` accepts (the same fourteen Go's regexp accepts). -/
inductive ClassName
  | alnum | alpha | ascii | blank | cntrl | digit | graph | lower | print | punct | space | upper
  | word | xdigit
  deriving DecidableEq, Repr

def ClassName.all : List ClassName :=
  [.alnum, .alpha, .ascii, .blank, .cntrl, .digit, .graph, .lower, .print, .punct, .space, .upper,
   .word, .xdigit]

def ClassName.name : ClassName → Str
  | .alnum => strOf "alnum" | .alpha => strOf "alpha" | .ascii => strOf "ascii"
  | .blank => strOf "blank" | .cntrl => strOf "cntrl" | .digit => strOf "digit"
  | .graph => strOf "graph" | .lower => strOf "lower" | .print => strOf "print"
  | .punct => strOf "punct" | .space => strOf "space" | .upper => strOf "upper"
  | .word => strOf "word" | .xdigit => strOf "xdigit"

def ClassName.ofName (n : Str) : Option ClassName :=
  ClassName.all.find? (fun k => k.name == n)

def isDigit (c : Rune) : Bool := 48 ≤ c && c ≤ 57
def isUpper (c : Rune) : Bool := 65 ≤ c && c ≤ 90
def isLower (c : Rune) : Bool := 97 ≤ c && c ≤ 122

/-- Membership in a POSIX class: the ASCII tables of Go's regexp/syntax (`posixGroup`), which are
    also the C-locale tables of bash. -/
def ClassName.mem (k : ClassName) (c : Rune) : Bool :=
  match k with
  | .alnum => isDigit c || isUpper c || isLower c
  | .alpha => isUpper c || isLower c
  | .ascii => c ≤ 127
  | .blank => c == 9 || c == 32
  | .cntrl => c ≤ 31 || c == 127
  | .digit => isDigit c
  | .graph => 33 ≤ c && c ≤ 126
  | .lower => isLower c
  | .print => 32 ≤ c && c ≤ 126
  | .punct => (33 ≤ c && c ≤ 47) || (58 ≤ c && c ≤ 64) || (91 ≤ c && c ≤ 96) || (123 ≤ c && c ≤ 126)
  | .space => (9 ≤ c && c ≤ 13) || c == 32
  | .upper => isUpper c
  | .word => isDigit c || isUpper c || isLower c || c == 95
  | .xdigit => isDigit c || (65 ≤ c && c ≤ 70) || (97 ≤ c && c ≤ 102)

/-- The case-folding orbit of a rune, as `(?i)` sees it (unicode.SimpleFold): ASCII letters, plus
    the two non-ASCII runes that fold to ASCII letters (KELVIN SIGN → k, LONG S → s).  Other
    non-ASCII letters are treated as caseless (modelling restriction, see notes). -/
def orbit (c : Rune) : List Rune :=
  if c == 75 || c == 107 || c == 0x212A then [75, 107, 0x212A]
  else if c == 83 || c == 115 || c == 0x17F then [83, 115, 0x17F]
  else if isUpper c then [c, c + 32]
  else if isLower c then [c - 32, c]
  else [c]

/-- Runes `x` may stand for when matching with case folding switched on/off. -/
def variants (nc : Bool) (x : Rune) : List Rune := if nc then orbit x else [x]

def chEq (nc : Bool) (c x : Rune) : Bool := (variants nc x).contains c

/-! ## §2 the emitted regular expressions -/

/-- One element between `[` and `]` as pattern.go writes it. -/
inductive CItem
  | raw (c : Rune)             -- written as is (`bsb.WriteRune(c)`)
  | esc (c : Rune)             -- written through regexp.QuoteMeta, `\-` for a dash
  | named (k : ClassName)      -- `[:name:]`
  deriving DecidableEq, Repr

inductive Regex
  | void                        -- matches nothing (only produced by derivatives)
  | eps
  | chr (c : Rune)              -- a literal, printed through regexp.QuoteMeta
  | any                         -- `.`  (with (?s): any rune)
  | set (neg : Bool) (items : List CItem)
  | cat (a b : Regex)
  | alt (a b : Regex)           -- a|b
  | grp (a : Regex)             -- (a)
  | ugrp (a : Regex)            -- "(" a NUL : what regexpNext writes for an unterminated group
  | star (a : Regex)            -- a*
  | plus (a : Regex)            -- a+
  | opt (a : Regex)             -- a?
  deriving DecidableEq, Repr

/-- The fourteen characters regexp.QuoteMeta escapes (also the short-cut test of `Regexp`). -/
def special (c : Rune) : Bool :=
  c == cBS || c == cDot || c == cPlus || c == cStar || c == cQuest || c == cLP || c == cRP ||
  c == cBar || c == cLB || c == cRB || c == cLC || c == cRC || c == cCaret || c == cDollar

def quoteRune (c : Rune) : Str := if special c then [cBS, c] else [c]

def CItem.print : CItem → Str
  | .raw c => [c]
  | .esc c => if c == cDash then [cBS, cDash] else quoteRune c
  | .named k => [cLB, cColon] ++ k.name ++ [cColon, cRB]

def printItems : List CItem → Str
  | [] => []
  | i :: is => i.print ++ printItems is

def Regex.print : Regex → Str
  | .void => []
  | .eps => []
  | .chr c => quoteRune c
  | .any => [cDot]
  | .set neg items => [cLB] ++ (if neg then [cCaret] else []) ++ printItems items ++ [cRB]
  | .cat a b => a.print ++ b.print
  | .alt a b => a.print ++ [cBar] ++ b.print
  | .grp a => [cLP] ++ a.print ++ [cRP]
  | .ugrp a => [cLP] ++ a.print ++ [0]
  | .star a => a.print ++ [cStar]
  | .plus a => a.print ++ [cPlus]
  | .opt a => a.print ++ [cQuest]

/-- What `Regexp` returns on success. -/
structure Top where
  plain : Bool        -- the short-cut: the pattern itself, no `(?s)` prefix
  nocase : Bool
  shortest : Bool
  entire : Bool
  body : Regex
  deriving DecidableEq, Repr

def Top.print (t : Top) : Str :=
  if t.plain then t.body.print
  else strOf "(?s" ++ (if t.nocase then strOf "i" else []) ++ (if t.shortest then strOf "U" else [])
    ++ strOf ")" ++ (if t.entire then strOf "^" else []) ++ t.body.print
    ++ (if t.entire then strOf "$" else [])

/-- UTF-8 encoding of one code point (`strings.Builder.WriteRune`). -/
def encodeRune (c : Rune) : Bytes :=
  if c < 0x80 then [UInt8.ofNat c]
  else if c < 0x800 then [UInt8.ofNat (0xC0 + c / 64), UInt8.ofNat (0x80 + c % 64)]
  else if c < 0x10000 then
    [UInt8.ofNat (0xE0 + c / 4096), UInt8.ofNat (0x80 + c / 64 % 64), UInt8.ofNat (0x80 + c % 64)]
  else
    [UInt8.ofNat (0xF0 + c / 262144), UInt8.ofNat (0x80 + c / 4096 % 64),
     UInt8.ofNat (0x80 + c / 64 % 64), UInt8.ofNat (0x80 + c % 64)]

def encodeStr (s : Str) : Bytes := s.flatMap encodeRune

def utf8Len (c : Rune) : Nat :=
  if c < 0x80 then 1 else if c < 0x800 then 2 else if c < 0x10000 then 3 else 4

def byteLen (s : Str) : Nat := (s.map utf8Len).sum

/-- The printer: the Go output, byte for byte. -/
def Top.printBytes (t : Top) : Bytes := encodeStr t.print

/-! ### How Go's regexp reads a bracket expression (regexp/syntax `parseClass`, Perl flags) -/

inductive CRange
  | range (lo hi : Rune)
  | named (k : ClassName)
  deriving DecidableEq, Repr

def CItem.char : CItem → Rune
  | .raw c => c
  | .esc c => c
  | .named _ => 0

def CItem.isNamed : CItem → Bool
  | .named _ => true
  | _ => false

/-- Left to right: `[:name:]`; `lo-hi` when a raw dash follows `lo` and is not the last item;
    otherwise a single character.  `none`: the class does not compile (`hi < lo`), or the
    item after the dash is a `[:name:]` (Go then reads `[` as `hi`, which this AST cannot say). -/
def parseItems : List CItem → Option (List CRange)
  | [] => some []
  | .named k :: rest => (parseItems rest).map (CRange.named k :: ·)
  | a :: d :: b :: rest' =>
    if d = CItem.raw cDash then
      if b.isNamed then none
      else if a.char ≤ b.char then (parseItems rest').map (CRange.range a.char b.char :: ·)
      else none
    else (parseItems (d :: b :: rest')).map (CRange.range a.char a.char :: ·)
  | a :: rest => (parseItems rest).map (CRange.range a.char a.char :: ·)

def CRange.mem (r : CRange) (x : Rune) : Bool :=
  match r with
  | .range lo hi => lo ≤ x && x ≤ hi
  | .named k => k.mem x

/-- Membership of a rune in a (possibly negated, possibly case-folded) class. -/
def setMem (nc neg : Bool) (items : List CItem) (x : Rune) : Bool :=
  match parseItems items with
  | none => false
  | some rs => neg != (variants nc x).any (fun y => rs.any (·.mem y))

/-! ### Semantics: Brzozowski derivatives -/

def nullable : Regex → Bool
  | .void => false
  | .eps => true
  | .chr _ => false
  | .any => false
  | .set _ _ => false
  | .cat a b => nullable a && nullable b
  | .alt a b => nullable a || nullable b
  | .grp a => nullable a
  | .ugrp _ => false
  | .star _ => true
  | .plus a => nullable a
  | .opt _ => true

def deriv (nc : Bool) (x : Rune) : Regex → Regex
  | .void => .void
  | .eps => .void
  | .chr c => if chEq nc c x then .eps else .void
  | .any => .eps
  | .set neg items => if setMem nc neg items x then .eps else .void
  | .cat a b => if nullable a then .alt (.cat (deriv nc x a) b) (deriv nc x b) else .cat (deriv nc x a) b
  | .alt a b => .alt (deriv nc x a) (deriv nc x b)
  | .grp a => deriv nc x a
  | .ugrp _ => .void
  | .star a => .cat (deriv nc x a) (.star a)
  | .plus a => .cat (deriv nc x a) (.star a)
  | .opt a => deriv nc x a

def derivs (nc : Bool) : Str → Regex → Regex
  | [], r => r
  | x :: s, r => derivs nc s (deriv nc x r)

/-- Does `r` match the whole of `s`? -/
def rmatch (nc : Bool) (r : Regex) (s : Str) : Bool := nullable (derivs nc s r)

/-- `regexp.MatchString(t.print, s)`: anchored when `entire`, otherwise a substring search. -/
def Top.matches (t : Top) (s : Str) : Bool :=
  if t.entire then rmatch t.nocase t.body s
  else rmatch t.nocase (.cat (.star .any) (.cat t.body (.star .any))) s

/-! ### The RE2 subset grammar: when the printed form reads back as the same tree

  regexp   := alt
  alt      := seq ( "|" seq )*          -- only directly inside a group
  seq      := piece*                     -- `cat` may nest either way: printing is associative
  piece    := atom | atom "*" | atom "+" | atom "?"
  atom     := literal | "." | class | "(" alt ")"
  class    := "[" "^"? item+ "]"   with `parseItems` defined, raw `]` only first, raw `^` not first
                                     of a non-negated class, no raw `\`, no raw `[` before raw `:`.
  `level r` computes the lowest of these levels at which the tree `r` stands (none: outside).
-/

def itemsShapeOk : Bool → List CItem → Bool
  | _, [] => true
  | first, i :: rest =>
    (match i with
     | .raw c =>
        c != cBS && c != 0 && (c != cRB || first) &&
        (match rest with
         | .raw d :: _ => !(c == cLB && d == cColon)
         | _ => true)
     | .esc c => c != 0
     | .named _ => true) && itemsShapeOk false rest

def classOk (neg : Bool) (items : List CItem) : Bool :=
  !items.isEmpty && itemsShapeOk true items && (parseItems items).isSome &&
  (neg || items.head? != some (.raw cCaret))

/-- The grammar level of a tree whose printed form reads back as the same tree:
    0 atom, 1 piece, 2 seq, 3 alt; `none` when it does not. -/
def level : Regex → Option Nat
  | .void => none
  | .ugrp _ => none
  | .eps => some 2
  | .chr c => if c != 0 then some 0 else none
  | .any => some 0
  | .set neg items => if classOk neg items then some 0 else none
  | .grp a => if (level a).isSome then some 0 else none
  | .star a => if level a == some 0 then some 1 else none
  | .plus a => if level a == some 0 then some 1 else none
  | .opt a => if level a == some 0 then some 1 else none
  | .cat a b =>
    match level a, level b with
    | some la, some lb => if la ≤ 2 && lb ≤ 2 then some 2 else none
    | _, _ => none
  | .alt a b =>
    match level a, level b with
    | some la, some _ => if la ≤ 2 then some 3 else none
    | _, _ => none

/-- `seq` level or below. -/
def wfSeq (r : Regex) : Bool :=
  match level r with
  | some l => l ≤ 2
  | none => false

/-- The printed form of `t` lies inside the subset grammar (hence compiles, and means `Top.matches`). -/
def Top.wf (t : Top) : Bool := wfSeq t.body

/-- Model of "regexp.Compile succeeds" on the shapes the translator emits: everything except an
    unterminated group and a class whose ranges are reversed. -/
def classCompiles : List CItem → Bool
  | [] => true
  | .named _ :: rest => classCompiles rest
  | a :: d :: b :: rest' =>
    if d = CItem.raw cDash then
      (if b.isNamed then a.char ≤ cLB else a.char ≤ b.char) && classCompiles rest'
    else classCompiles (d :: b :: rest')
  | _ :: rest => classCompiles rest

def goCompiles : Regex → Bool
  | .ugrp _ => false
  | .set _ items => classCompiles items
  | .cat a b => goCompiles a && goCompiles b
  | .alt a b => goCompiles a && goCompiles b
  | .grp a => goCompiles a
  | .star a => goCompiles a
  | .plus a => goCompiles a
  | .opt a => goCompiles a
  | _ => true

/-! ## §3 the translator (pattern.go) -/

inductive ClsErr
  | coll                       -- "collating features not available"
  | unmatched                  -- "[[: was not matched with a closing :]"
  | invalid (name : Str)       -- "invalid character class"
  deriving DecidableEq, Repr

inductive Err
  | trailingBackslash          -- `\ at end of pattern`
  | badRange (lo hi : Rune)    -- "invalid range: lo-hi"
  | cls (e : ClsErr)           -- "charClass invalid"
  | negExt (groups : List (Nat × Nat))   -- NegExtGlobError; offsets counted in runes here
  deriving DecidableEq, Repr

/-- `strings.Cut(s, string([a, b]))`: the text before the first occurrence, and the text after. -/
def cut2 (a b : Rune) : Str → Option (Str × Str)
  | [] => none
  | [_] => none
  | x :: y :: rest =>
    if x = a ∧ y = b then some ([], rest)
    else (cut2 a b (y :: rest)).map (fun (n, r) => (x :: n, r))

/-- `charClass`: length of the element starting just after a `[`, and the error if any. -/
def charClass (s : Str) : Nat × Option ClsErr :=
  match s with
  | [] => (0, none)
  | c :: s1 =>
    if c = cDot ∨ c = cEq then
      match cut2 c cRB s1 with
      | none => (0, some .coll)
      | some (name, _) => (name.length + 3, some .coll)
    else if c = cColon then
      match cut2 cColon cRB s1 with
      | none => (0, some .unmatched)
      | some (name, _) =>
        match ClassName.ofName name with
        | some _ => (name.length + 3, none)
        | none => (name.length + 3, some (.invalid name))
    else (0, none)

/-- The variables of the bracket loop of `regexpNext`. -/
structure BrSt where
  items : List CItem          -- `bsb` after the opening `[` and `^`
  hasSlash : Bool
  deferred : Option Err       -- reported only if the bracket closes
  classErr : Option Err       -- reported even if it does not
  deriving Repr

inductive BrRes
  | literal                                          -- `literalBracket()`
  | closed (neg : Bool) (st : BrSt) (rest : Str)     -- reached the closing `]`
  | err (e : Err)
  deriving Repr

def pushItem (st : BrSt) (i : CItem) (slash : Bool) : BrSt :=
  { st with items := st.items ++ [i], hasSlash := st.hasSlash || slash }

/-- The items written for the text of a `[:name:]` element (`bsb.WriteString(rest[:n])`); for an
    invalid element the text is copied as is (it is never printed: an error is already pending). -/
def classItems (txt : Str) : List CItem :=
  match txt with
  | c :: body =>
    if c = cColon then
      match ClassName.ofName (body.take (body.length - 2)) with
      | some k => [.named k]
      | none => (cLB :: txt).map .raw
    else (cLB :: txt).map .raw
  | [] => [.raw cLB]

/-- The `for { switch c {…}; c = sl.next() }` loop.  `prev` is the rune before the current one
    in the pattern (`sl.last()`), the current rune is the head of the last argument (none = NUL). -/
def brLoop (fn neg : Bool) : Nat → BrSt → Rune → Str → BrRes
  | 0, _, _, _ => .literal
  | _ + 1, st, _, [] =>
    match st.classErr with
    | some e => .err e
    | none => .literal
  | fuel + 1, st, prev, c :: rest =>
    if c = cBS then
      match rest with
      | [] => brLoop fn neg fuel st c []
      | d :: rest' => brLoop fn neg fuel (pushItem st (.esc d) (fn && d == cSlash)) d rest'
    else if c = cDash then
      let e := rest.headD 0
      let st1 := pushItem st (.raw cDash) false
      let st2 := if e ≠ cRB ∧ prev > e ∧ st.deferred.isNone
                 then { st1 with deferred := some (.badRange prev e) } else st1
      brLoop fn neg fuel st2 c rest
    else if c = cRB then .closed neg st rest
    else if c = cLB then
      let (n, ce) := charClass rest
      let classErr := match ce, st.classErr with
        | some e, none => some (Err.cls e)
        | _, old => old
      let deferred := match ce, st.deferred with
        | some _, none => classErr
        | _, old => old
      let txt := rest.take n
      let st1 : BrSt :=
        { items := st.items ++ (if n > 0 then classItems txt else [.raw cLB]),
          hasSlash := st.hasSlash || (fn && n > 0 && txt.contains cSlash),
          deferred := deferred, classErr := classErr }
      brLoop fn neg fuel st1 (if n > 0 then txt.getLastD cLB else cLB) (rest.drop n)
    else
      brLoop fn neg fuel (pushItem st (.raw c) (fn && c == cSlash)) c rest

/-- The bracket case of `regexpNext`, from just after the `[`. -/
def bracket (fn : Bool) (rest0 : Str) : BrRes :=
  let st0 : BrSt := { items := [], hasSlash := false, deferred := none, classErr := none }
  match rest0 with
  | [] => .literal
  | c :: r1 =>
    let neg := c = cBang ∨ c = cCaret
    let s1 := if neg then r1 else rest0
    let prev1 := if neg then c else cLB
    match s1 with
    | [] => .literal
    | c1 :: r2 =>
      if c1 = cRB then
        match r2 with
        | [] => .literal
        | _ => brLoop fn neg (r2.length + 1) { st0 with items := [.raw cRB] } cRB r2
      else brLoop fn neg (s1.length + 1) st0 prev1 s1

def seqRegex : List Regex → Regex
  | [] => .eps
  | r :: rs => .cat r (seqRegex rs)

def altsRegex : List (List Regex) → Regex
  | [] => .eps
  | [a] => seqRegex a
  | a :: as => .alt (seqRegex a) (altsRegex as)

def notSlash : Regex := .set true [.raw cSlash]
def notSlashDot : Regex := .set true [.raw cSlash, .raw cDot]
/-- `([^/.][^/]*)?` -/
def segStar : Regex := .opt (.grp (.cat notSlashDot (.star notSlash)))
/-- `(/|[^/.][^/]*)*` -/
def globStarRe : Regex := .star (.grp (.alt (.chr cSlash) (.cat notSlashDot (.star notSlash))))

def singleStar (m : Mode) (singleBefore : Bool) : Regex :=
  if singleBefore && !m.dotglob then segStar else .star notSlash

def isExtOp (c : Rune) : Bool := c == cBang || c == cQuest || c == cStar || c == cPlus || c == cAt

def wrapOp (op : Rune) (g : Regex) : Regex :=
  if op = cQuest then .opt g else if op = cStar then .star g else if op = cPlus then .plus g else g

/-- Result of one call of `regexpNext`. `prev` is the last rune consumed (for `sl.last()`). -/
inductive Step
  | eof
  | tok (r : Regex) (prev : Rune) (rest : Str)
  | err (e : Err)
  | neg (s e : Nat) (prev : Rune) (rest : Str)     -- NegExtGlobError{Start, End}
  deriving Repr

/-- Result of the `nestedLoop` of an extended operator, including the rune written after it. -/
inductive GStep
  | closed (alts : List (List Regex)) (rest : Str)
  | unterminated (alts : List (List Regex))
  | err (e : Err)
  | neg (s e : Nat) (prev : Rune) (rest : Str)
  deriving Repr

def consAlt (r : Regex) : List (List Regex) → List (List Regex)
  | [] => [[r]]
  | a :: as => (r :: a) :: as

mutual
  /-- `regexpNext`.  `total` is the length of the whole pattern (offsets are `total - remaining`),
      `prev` the previous rune (0 at the start). -/
  def next (m : Mode) (total : Nat) : Nat → Rune → Str → Step
    | 0, _, _ => .eof
    | _ + 1, _, [] => .eof
    | fuel + 1, prev, c :: rest =>
      if m.ext && isExtOp c && rest.head? == some cLP then
        let start := total - (rest.length + 1)
        match group m total fuel cLP rest.tail with
        | .closed alts rest' =>
          if c = cBang then .neg start (total - rest'.length) cRP rest'
          else .tok (wrapOp c (.grp (altsRegex alts))) cRP rest'
        | .unterminated alts =>
          if c = cBang then .neg start total 0 []
          else .tok (wrapOp c (.ugrp (altsRegex alts))) 0 []
        | .err e => .err e
        | .neg s e p r => .neg s e p r
      else if c = cStar then
        if !m.filenames then .tok (.star .any) c rest
        else
          let singleBefore := prev == 0 || prev == cSlash
          match rest with
          | c2 :: rest2 =>
            if c2 = cStar then
              let singleAfter := rest2.isEmpty || rest2.head? == some cSlash
              if !m.noglobstar && singleBefore && singleAfter then
                let body := if !m.dotglob then globStarRe else .star .any
                match rest2 with
                | _ :: rest3 => .tok (.opt (.grp (.cat body (.chr cSlash)))) cSlash rest3
                | [] => .tok body c []
              else .tok (singleStar m singleBefore) c rest2
            else .tok (singleStar m singleBefore) c rest
          | [] => .tok (singleStar m singleBefore) c rest
      else if c = cQuest then
        .tok (if m.filenames then notSlash else .any) c rest
      else if c = cBS then
        match rest with
        | [] => .err .trailingBackslash
        | d :: rest' => .tok (.chr d) d rest'
      else if c = cLB then
        match bracket m.filenames rest with
        | .literal => .tok (.chr cLB) cLB rest
        | .err e => .err e
        | .closed neg st rest' =>
          if st.hasSlash then
            .tok (seqRegex ((cLB :: rest.take (rest.length - rest'.length)).map .chr)) cRB rest'
          else match st.deferred with
            | some e => .err e
            | none => .tok (.set neg st.items) cRB rest'
      else .tok (.chr c) c rest
  /-- `nestedLoop` plus the `sb.WriteRune(sl.next())` after it. -/
  def group (m : Mode) (total : Nat) : Nat → Rune → Str → GStep
    | 0, _, _ => .unterminated [[]]
    | _ + 1, _, [] => .unterminated [[]]
    | fuel + 1, prev, c :: rest =>
      if c = cRP then .closed [[]] rest
      else if c = cBar then
        match group m total fuel cBar rest with
        | .closed alts r => .closed ([] :: alts) r
        | .unterminated alts => .unterminated ([] :: alts)
        | o => o
      else
        match next m total fuel prev (c :: rest) with
        | .eof => .unterminated [[]]
        | .err e => .err e
        | .neg s e p r => .neg s e p r
        | .tok r p' rest' =>
          match group m total fuel p' rest' with
          | .closed alts r' => .closed (consAlt r alts) r'
          | .unterminated alts => .unterminated (consAlt r alts)
          | o => o
end

/-- The `for { regexpNext … }` loop of `Regexp`: the body and the collected `!(…)` groups. -/
def topLoop (m : Mode) (total : Nat) : Nat → Rune → Str → Except Err (Regex × List (Nat × Nat))
  | 0, _, _ => .ok (.eps, [])
  | fuel + 1, prev, rest =>
    match next m total (2 * total + 4) prev rest with
    | .eof => .ok (.eps, [])
    | .err e => .error e
    | .tok r p' rest' =>
      match topLoop m total fuel p' rest' with
      | .ok (b, negs) => .ok (.cat r b, negs)
      | .error e => .error e
    | .neg s e p' rest' =>
      match topLoop m total fuel p' rest' with
      | .ok (b, negs) => .ok (b, (s, e) :: negs)
      | .error e => .error e

/-- `pattern.Regexp`. -/
def regexpOf (m : Mode) (p : Str) : Except Err Top :=
  if !m.entire && !m.nocase && p.all (fun c => !special c) then
    .ok { plain := true, nocase := false, shortest := false, entire := false,
          body := seqRegex (p.map .chr) }
  else
    match topLoop m p.length (p.length + 1) 0 p with
    | .error e => .error e
    | .ok (body, negs) =>
      if negs.isEmpty then
        .ok { plain := false, nocase := m.nocase, shortest := m.shortest, entire := m.entire, body := body }
      else .error (.negExt negs)

/-! ## §4 QuoteMeta, HasMeta, ExtendedPatternMatcher -/

def isQuoteMetaSpecial (c : Rune) : Bool := c == cStar || c == cQuest || c == cLB || c == cBS

/-- `pattern.QuoteMeta` (the short-cut returns the same runes). -/
def quoteMeta : Str → Str
  | [] => []
  | c :: rest => if isQuoteMetaSpecial c then cBS :: c :: quoteMeta rest else c :: quoteMeta rest

def hasMetaAux : Bool → Str → Bool
  | _, [] => false
  | ob, c :: rest =>
    if c = cBS then
      match rest with
      | [] => false
      | _ :: rest' => hasMetaAux ob rest'
    else if c = cStar ∨ c = cQuest then true
    else if c = cLB then hasMetaAux true rest
    else if c = cRB then (if ob then true else hasMetaAux ob rest)
    else hasMetaAux ob rest

/-- `pattern.HasMeta`. -/
def hasMeta (p : Str) : Bool := hasMetaAux false p

/-- The pattern with its escapes removed (a trailing lone backslash is dropped). -/
def unescape : Str → Str
  | [] => []
  | c :: rest =>
    if c = cBS then
      match rest with
      | [] => []
      | d :: rest' => d :: unescape rest'
    else c :: unescape rest

/-- Does the text contain an extended operator that QuoteMeta leaves unescaped (`!`, `+`, `@`)
    directly followed by a parenthesis? -/
def hasExtOpener : Str → Bool
  | c :: d :: r => (isExtOp c && !isQuoteMetaSpecial c && d == cLP) || hasExtOpener (d :: r)
  | _ => false

/-- Does the pattern contain an unescaped extended operator directly followed by a parenthesis? -/
def hasExtGroup : Str → Bool
  | [] => false
  | c :: rest =>
    if c = cBS then
      match rest with
      | [] => false
      | _ :: r => hasExtGroup r
    else (isExtOp c && rest.head? == some cLP) || hasExtGroup rest

inductive MRes
  | panic                          -- Go panics (explicit panic, or regexp.MustCompile)
  | err (e : Err)                  -- error from Regexp
  | unsupported                    -- "multiple groups" / "fixed prefix and suffix" errors
  | ok (f : Str → Bool)

def isPrefixOf (a s : Str) : Bool := a.isPrefixOf s
def isSuffixOf (a s : Str) : Bool := a.isSuffixOf s

/-- `internal.ExtendedPatternMatcher` + `extNegatedMatcher`. -/
def extMatcher (m : Mode) (p : Str) : MRes :=
  if m.ext && !m.entire then .panic
  else match regexpOf m p with
    | .ok t => if goCompiles t.body then .ok t.matches else .panic
    | .error (.negExt groups) =>
      match groups with
      | [(s, e)] =>
        let pre := p.take s
        let suf := p.drop e
        if hasMeta pre || hasMeta suf then .unsupported
        else
          if e - 1 < s + 2 then .panic else     -- pat[Start+2 : End-1]: slice bounds out of range
          let inner := (p.take (e - 1)).drop (s + 2)
          let m2 : Mode := { shortest := false, filenames := false, entire := true, nocase := false,
                             noglobstar := false, dotglob := false, ext := true }
          match regexpOf m2 ([cAt, cLP] ++ inner ++ [cRP]) with
          | .error e => .err e
          | .ok t =>
            if goCompiles t.body then
              .ok (fun name =>
                isPrefixOf pre name && isSuffixOf suf name &&
                decide (pre.length ≤ name.length - suf.length) &&
                !t.matches ((name.take (name.length - suf.length)).drop pre.length))
            else .panic
      | _ => .unsupported
    | .error e => .err e

/-! ## §5 reference semantics: what a pattern matches under bash's rules

  Written from the bash manual ("Pattern Matching"), POSIX 2.13 and bash's behaviour, not from
  pattern.go: the pattern is parsed into `Glob` tokens, and `globMatch` is a backtracking matcher
  over the tokens (continuation-passing: `k` is tried on every way a token can consume a prefix).
-/

/-- An element of a bracket expression. -/
inductive BItem
  | ch (c : Rune)
  | range (lo hi : Rune)
  | cls (k : ClassName)
  deriving DecidableEq, Repr

inductive Glob
  | eps
  | lit (c : Rune)                         -- an ordinary or escaped character
  | any                                    -- ?
  | star                                   -- *
  | globstar (slash : Bool)                -- `**` as a whole path element (`**/` when slash)
  | bracket (neg : Bool) (items : List BItem)
  | seq (a b : Glob)
  | alt (a b : Glob)                       -- the `|` of a pattern-list
  | ext (op : Rune) (g : Glob)             -- ?(…) *(…) +(…) @(…) !(…)
  deriving DecidableEq, Repr

def BItem.mem (i : BItem) (x : Rune) : Bool :=
  match i with
  | .ch c => x == c
  | .range lo hi => lo ≤ x && x ≤ hi
  | .cls k => k.mem x

/-- With case folding, characters and ranges are compared up to case; POSIX classes are not
    (bash: `shopt -s nocasematch; [[ Q == [[:lower:]] ]]` is false). -/
def BItem.memFold (nc : Bool) (i : BItem) (x : Rune) : Bool :=
  match i with
  | .cls k => k.mem x
  | _ => (variants nc x).any (fun y => i.mem y)

def bracketMem (nc neg : Bool) (items : List BItem) (x : Rune) : Bool :=
  neg != items.any (·.memFold nc x)

def BItem.isCls : BItem → Bool
  | .cls _ => true
  | _ => false

/-! ### Parsing -/

/-- Scan state of a bracket expression: elements so far, whether a slash was seen, the first
    error of a kind that only counts when the bracket closes, and the first bad class element
    (which counts even when it does not close — pattern.go's documented choice where bash is
    inconsistent). -/
structure BSt where
  items : List BItem
  slash : Bool
  rangeErr : Option Err
  classErr : Option Err

inductive BScan
  | notBracket                                    -- the `[` is an ordinary character
  | malformed (e : Err)
  | ok (neg : Bool) (items : List BItem) (rest : Str)

/-- A `[:name:]`, `[.x.]` or `[=x=]` element starting after the `[`: its length and validity. -/
def scanClass (s : Str) : Option (Nat × Except ClsErr ClassName) :=
  match s with
  | c :: s1 =>
    if c = cColon then
      match cut2 cColon cRB s1 with
      | none => some (0, .error .unmatched)
      | some (name, _) =>
        match ClassName.ofName name with
        | some k => some (name.length + 3, .ok k)
        | none => some (name.length + 3, .error (.invalid name))
    else if c = cDot ∨ c = cEq then
      match cut2 c cRB s1 with
      | none => some (0, .error .coll)
      | some (name, _) => some (name.length + 3, .error .coll)
    else none
  | [] => none

def BSt.addErr (st : BSt) (e : Err) (isClass : Bool) : BSt :=
  { st with rangeErr := st.rangeErr <|> some e,
            classErr := if isClass then st.classErr <|> some e else st.classErr }

/-- One plain element character at the head of `s` (an escaped character counts as itself):
    the character, whether it was written with a backslash, and the rest. -/
def elemChar (s : Str) : Option (Rune × Bool × Str) :=
  match s with
  | [] => none
  | c :: rest =>
    if c = cBS then
      match rest with
      | [] => none
      | d :: rest' => some (d, true, rest')
    else some (c, false, rest)

/-- The elements of a bracket expression: the scan state at the end, and the rest after the
    closing `]` if there is one. -/
def scanItems (fn : Bool) : Nat → Bool → BSt → Str → BSt × Option Str
  | 0, _, st, _ => (st, none)
  | _ + 1, _, st, [] => (st, none)
  | fuel + 1, first, st, c :: rest =>
    if c = cRB ∧ !first then (st, some rest)
    else
      match (if c = cLB then scanClass rest else none) with
      | some (n, .ok k) =>
        scanItems fn fuel false
          { st with items := st.items ++ [.cls k], slash := st.slash || (fn && (rest.take n).contains cSlash) }
          (rest.drop n)
      | some (n, .error e) =>
        let st1 := st.addErr (.cls e) true
        scanItems fn fuel false
          { st1 with slash := st1.slash || (fn && (rest.take n).contains cSlash) } (rest.drop n)
      | none =>
        match elemChar (c :: rest) with
        | none => (st, none)                                -- a lone backslash at the end
        | some (lo, _, r1) =>
          let sl1 := fn && lo == cSlash
          -- `lo-hi` unless the dash is the last character of the bracket expression
          match r1 with
          | d :: r2 =>
            if d = cDash ∧ r2.head? ≠ some cRB then
              match elemChar r2 with
              | none => (st, none)
              | some (hi, _, r3) =>
                let st1 := { st with items := st.items ++ [.range lo hi],
                                     slash := st.slash || sl1 || (fn && hi == cSlash) }
                scanItems fn fuel false
                  (if hi < lo then st1.addErr (.badRange lo hi) false else st1) r3
            else scanItems fn fuel false { st with items := st.items ++ [.ch lo], slash := st.slash || sl1 } r1
          | [] => (st, none)

/-- A bracket expression, from just after the `[`.  In filename mode a slash before the closing
    bracket makes the `[` an ordinary character (POSIX 2.13.3).  A range with reversed end points,
    or an unknown / unsupported class element, makes the pattern malformed; the latter even when
    the bracket never closes (pattern.go's documented choice where bash is inconsistent). -/
def scanBracket (fn : Bool) (s : Str) : BScan :=
  let neg := s.head? = some cBang ∨ s.head? = some cCaret
  let body := if neg then s.tail else s
  let st0 : BSt := { items := [], slash := false, rangeErr := none, classErr := none }
  match scanItems fn (body.length + 1) true st0 body with
  | (st, some rest) =>
    if st.slash then .notBracket
    else match st.rangeErr with
      | some e => .malformed e
      | none => .ok neg st.items rest
  | (st, none) =>
    match st.classErr with
    | some e => .malformed e
    | none => .notBracket

/-- The extent of a pattern-list, from just after `op(`: the texts of the alternatives and the
    rest after the closing parenthesis.  As in bash, every unescaped parenthesis outside a
    bracket expression nests, `|` separates alternatives only at the outer level, and a bracket
    expression is skipped as a unit (a malformed one makes the pattern malformed).
    `.ok none`: there is no closing parenthesis. -/
def scanGroup (fn : Bool) : Nat → Nat → Str → List Str → Str → Except Err (Option (List Str × Str))
  | 0, _, _, _, _ => .ok none
  | _ + 1, _, _, _, [] => .ok none
  | fuel + 1, depth, cur, alts, c :: rest =>
    if c = cBS then
      match rest with
      | [] => .ok none
      | d :: rest' => scanGroup fn fuel depth (cur ++ [c, d]) alts rest'
    else if c = cLB then
      match scanBracket fn rest with
      | .ok _ _ rest' =>
        scanGroup fn fuel depth (cur ++ c :: rest.take (rest.length - rest'.length)) alts rest'
      | .malformed e => .error e
      | .notBracket => scanGroup fn fuel depth (cur ++ [c]) alts rest
    else if c = cLP then scanGroup fn fuel (depth + 1) (cur ++ [c]) alts rest
    else if c = cRP then
      if depth = 0 then .ok (some (alts ++ [cur], rest))
      else scanGroup fn fuel (depth - 1) (cur ++ [c]) alts rest
    else if c = cBar ∧ depth = 0 then scanGroup fn fuel 0 [] (alts ++ [cur]) rest
    else scanGroup fn fuel depth (cur ++ [c]) alts rest

def altGlob : List Glob → Glob
  | [] => .eps
  | [g] => g
  | g :: gs => .alt g (altGlob gs)

/-- An ordinary (or escaped) character.  In filename mode without dotglob a dot at the start of a
    path component of the subject must be matched by a dot that is the first character of a path
    component of the *pattern* (POSIX 2.13.3; bash and fnmatch make `*` fail in front of a leading
    dot even when it would match nothing, so `*.d` does not match `.d`).  A literal dot elsewhere
    in the pattern therefore behaves like the bracket expression `[.]`: it matches a dot, but not
    a leading one. -/
def litTok (m : Mode) (prev c : Rune) : Glob :=
  if m.filenames && !m.dotglob && c == cDot && !(prev == 0 || prev == cSlash)
  then .bracket false [.ch cDot] else .lit c

/-- `g` followed by the parse of the rest. -/
def andThenG (g : Glob) (r : Except Err Glob) : Except Err Glob :=
  match r with
  | .ok g' => .ok (.seq g g')
  | .error e => .error e

/-- Parse a pattern (or one alternative of a pattern-list).  `prev` is the character before the
    current position (0 at the very start), needed only to decide whether `**` stands alone as a
    path element. -/
def parseSeq (m : Mode) : Nat → Rune → Str → Except Err Glob
  | 0, _, _ => .ok .eps
  | _ + 1, _, [] => .ok .eps
  | fuel + 1, prev, c :: rest =>
    if c = cBS then
      match rest with
      | [] => .error .trailingBackslash
      | d :: rest' => andThenG (litTok m prev d) (parseSeq m fuel d rest')
    else if c = cQuest ∧ !(m.ext && rest.head? == some cLP) then andThenG .any (parseSeq m fuel c rest)
    else if c = cStar ∧ !(m.ext && rest.head? == some cLP) then
      -- `**` alone between slashes (or the ends) is globstar, when enabled
      if m.filenames && !m.noglobstar && (prev == 0 || prev == cSlash) && rest.head? == some cStar
          && (rest.tail.isEmpty || rest.tail.head? == some cSlash) then
        match rest.tail with
        | _ :: rest3 => andThenG (.globstar true) (parseSeq m fuel cSlash rest3)
        | [] => .ok (.seq (.globstar false) .eps)
      else andThenG .star (parseSeq m fuel c rest)
    else if c = cLB then
      match scanBracket m.filenames rest with
      | .notBracket => andThenG (.lit cLB) (parseSeq m fuel cLB rest)
      | .malformed e => .error e
      | .ok neg items rest' => andThenG (.bracket neg items) (parseSeq m fuel cRB rest')
    else if m.ext && isExtOp c && rest.head? == some cLP then
      match scanGroup m.filenames (rest.length + 1) 0 [] [] rest.tail with
      | .error e => .error e
      | .ok none => andThenG (.lit c) (parseSeq m fuel c rest)  -- no closing parenthesis: ordinary characters
      | .ok (some (alts, rest')) =>
        match alts.mapM (parseSeq m fuel cLP) with
        | .error e => .error e
        | .ok gs => andThenG (.ext c (altGlob gs)) (parseSeq m fuel cRP rest')
    else andThenG (litTok m prev c) (parseSeq m fuel c rest)

def parseGlob (m : Mode) (p : Str) : Except Err Glob := parseSeq m (p.length + 1) 0 p

/-! ### Matching -/

/-- May a wildcard (`?`, `*`, a bracket expression) consume `x`?  In filename mode it never
    consumes a slash, nor — unless dotglob — a dot at the start of a path component. -/
def wildOk (m : Mode) (atStart : Bool) (x : Rune) : Bool :=
  !(m.filenames && x == cSlash) && !(m.filenames && !m.dotglob && atStart && x == cDot)

/-- Are we at the start of a path component after consuming `x`? -/
def startAfter (m : Mode) (x : Rune) : Bool := m.filenames && x == cSlash

def starK (m : Mode) (k : Bool → Str → Bool) : Bool → Str → Bool
  | b, [] => k b []
  | b, x :: s => k b (x :: s) || (wildOk m b x && starK m k false s)

/-- `**`: any characters, slashes included, but no path component beginning with a dot. -/
def gstarK (m : Mode) (k : Bool → Str → Bool) : Bool → Str → Bool
  | b, [] => k b []
  | b, x :: s => k b (x :: s) || (!(!m.dotglob && b && x == cDot) && gstarK m k (startAfter m x) s)

/-- Kleene iteration of `step`, at most `n` rounds, every round consuming something. -/
def iterK (step : Bool → Str → (Bool → Str → Bool) → Bool) :
    Nat → Bool → Str → (Bool → Str → Bool) → Bool
  | 0, b, s, k => k b s
  | n + 1, b, s, k =>
    k b s || step b s (fun b' s' => decide (s'.length < s.length) && iterK step n b' s' k)

def splits : Str → List (Str × Str)
  | [] => [([], [])]
  | x :: s => ([], x :: s) :: (splits s).map (fun (a, b) => (x :: a, b))

def ctxAfter (m : Mode) (b : Bool) (s1 : Str) : Bool :=
  match s1.getLast? with
  | none => b
  | some x => startAfter m x

/-- `gmatch m g atStart s k`: can `g` consume a prefix of `s` such that `k` accepts the rest? -/
def gmatch (m : Mode) : Glob → Bool → Str → (Bool → Str → Bool) → Bool
  | .eps, b, s, k => k b s
  | .lit c, _, s, k =>
    match s with
    | x :: s' => chEq m.nocase c x && k (startAfter m x) s'
    | [] => false
  | .any, b, s, k =>
    match s with
    | x :: s' => wildOk m b x && k false s'
    | [] => false
  | .star, b, s, k => starK m k b s
  | .globstar false, b, s, k => gstarK m k b s
  | .globstar true, b, s, k =>
    k b s || gstarK m (fun _ s' => match s' with
                                    | y :: s'' => y == cSlash && k (startAfter m y) s''
                                    | [] => false) b s
  | .bracket neg items, b, s, k =>
    match s with
    | x :: s' => wildOk m b x && bracketMem m.nocase neg items x && k false s'
    | [] => false
  | .seq g1 g2, b, s, k => gmatch m g1 b s (fun b' s' => gmatch m g2 b' s' k)
  | .alt g1 g2, b, s, k => gmatch m g1 b s k || gmatch m g2 b s k
  | .ext op g, b, s, k =>
    if op = cAt then gmatch m g b s k
    else if op = cQuest then k b s || gmatch m g b s k
    else if op = cStar then iterK (gmatch m g) s.length b s k
    else if op = cPlus then gmatch m g b s (fun b' s' => iterK (gmatch m g) s'.length b' s' k)
    else
      -- !(…): any prefix the pattern-list does not match (within one path component)
      (splits s).any (fun (s1, s2) =>
        s1.all (wildOk m false) && (match s1 with
                                     | x :: _ => wildOk m b x
                                     | [] => true) &&
        !gmatch m g b s1 (fun _ r => r.isEmpty) && k (ctxAfter m b s1) s2)

def tails : Str → List Str
  | [] => [[]]
  | x :: s => (x :: s) :: tails s

/-- Does the pattern match the string (all of it with `entire`, some substring otherwise)?
    A malformed pattern matches nothing. -/
def globMatch (m : Mode) (p s : Str) : Bool :=
  match parseGlob m p with
  | .error _ => false
  | .ok g =>
    if m.entire then gmatch m g true s (fun _ r => r.isEmpty)
    else (tails s).any (fun t => gmatch m g true t (fun _ _ => true))

/-- A pattern is malformed when the reference parser rejects it. -/
def malformed (m : Mode) (p : Str) : Option Err :=
  match parseGlob m p with
  | .error e => some e
  | .ok _ => none

/-! ## §6 the region where translator and reference are proved to agree

  `supported m p` is a syntactic, conservative description of the patterns on which pattern.go's
  quirks do not fire.  It leaves out (see props/C17.notes.md for witnesses):
    * bracket expressions in which an unescaped dash is neither a range operator between two
      plain characters nor the last character (pattern.go checks the raw neighbours of every dash);
    * ranges whose end point is escaped or is a `[`;
    * in filename mode: a slash inside a bracket expression, a bracket expression whose set
      contains the slash (negated, range, class), `**(`; without dotglob, `?`, a bracket
      expression or a pattern-list where the pattern alone does not exclude the start of a path
      component, `*` after another wildcard that may have matched nothing, and a literal dot
      after such a `*` (`*.d` matches `.d` in pattern.go);
    * with NoGlobCase, a bracket expression with a POSIX class (Go folds the class as well);
    * unterminated pattern-lists, bare parentheses inside a pattern-list, `!(…)`, and in
      filename mode a slash inside a pattern-list.
-/

/-- Where the cursor can be relative to the path components of the subject, judging from the
    pattern alone. -/
inductive Pos
  | start | mid | unknown
  deriving DecidableEq, Repr

def brSupported (fn : Bool) : Nat → Bool → Str → Bool
  | 0, _, _ => false
  | _ + 1, _, [] => true
  | fuel + 1, first, c :: rest =>
    if c = cRB ∧ !first then true
    else
      match (if c = cLB then scanClass rest else none) with
      | some (n, _) => !(fn && (rest.take n).contains cSlash) && brSupported fn fuel false (rest.drop n)
      | none =>
        match elemChar (c :: rest) with
        | none => true
        | some (lo, esc, r1) =>
          if fn && lo == cSlash then false
          else if c = cDash ∧ !esc then
            -- a dash that is not a range operator: only as the last character
            r1.head? == some cRB && brSupported fn fuel false r1
          else
            match r1 with
            | d :: r2 =>
              if d = cDash ∧ r2.head? ≠ some cRB then
                match r2 with
                | hi :: r3 =>
                  hi != cBS && hi != cLB && hi != cDash && !(fn && hi == cSlash) && brSupported fn fuel false r3
                | [] => true
              else brSupported fn fuel false r1
            | [] => true

def bracketSupported (fn : Bool) (s : Str) : Bool :=
  let neg := s.head? = some cBang ∨ s.head? = some cCaret
  let body := if neg then s.tail else s
  brSupported fn (body.length + 1) true body

def posAfter (c : Rune) : Pos := if c == cSlash then .start else .mid

def supp (m : Mode) (inGroup : Bool) : Nat → Pos → Rune → Str → Bool
  | 0, _, _, _ => false
  | _ + 1, _, _, [] => true
  | fuel + 1, pos, prev, c :: rest =>
    let dotSens := m.filenames && !m.dotglob
    if c = cBS then
      match rest with
      | [] => true
      | d :: rest' =>
        -- after a `*` that may have matched nothing, pattern.go lets a literal dot match a leading dot
        !(dotSens && pos == .unknown && d == cDot) && supp m inGroup fuel (posAfter d) d rest'
    else if m.ext && isExtOp c && rest.head? == some cLP then
      if c = cBang then false
      else
        match scanGroup m.filenames (rest.length + 1) 0 [] [] rest.tail with
        | .error _ => false
        | .ok none => false
        | .ok (some (alts, rest')) =>
          (!dotSens || pos == .mid) &&
          alts.all (fun a => !(m.filenames && a.contains cSlash) && supp m true fuel .mid cLP a) &&
          supp m inGroup fuel (if dotSens then .unknown else .mid) cRP rest'
    else if c = cQuest then (!dotSens || pos == .mid) && supp m inGroup fuel .mid c rest
    else if c = cStar then
      if !m.filenames then supp m inGroup fuel .mid c rest
      else if !m.noglobstar && (prev == 0 || prev == cSlash) && rest.head? == some cStar
          && (rest.tail.isEmpty || rest.tail.head? == some cSlash) then
        match rest.tail with
        | _ :: rest3 => supp m inGroup fuel .start cSlash rest3
        | [] => true
      else
        let after := if pos == .mid then Pos.mid else Pos.unknown
        (!dotSens || pos != .unknown) &&
        -- pattern.go's `**` look-ahead swallows the operator of a following `*(`
        !(m.ext && rest.head? == some cStar && rest.tail.head? == some cLP) &&
        (match rest with
         | c2 :: rest2 => if c2 = cStar then supp m inGroup fuel after c rest2
                          else supp m inGroup fuel after c rest
         | [] => true)
    else if c = cLB then
      bracketSupported m.filenames rest &&
      (match scanBracket m.filenames rest with
       | .ok neg items rest' =>
         -- pattern.go lets a negated bracket, a range or a class that contains `/` match a slash
         !(m.filenames && (neg || items.any (·.mem cSlash))) &&
         -- `(?i)` also folds POSIX classes
         !(m.nocase && items.any (·.isCls)) &&
         (!dotSens || pos == .mid) && supp m inGroup fuel .mid cRB rest'
       | .notBracket => supp m inGroup fuel .mid cLB rest
       | .malformed _ => true)
    else if inGroup && c == cLP then false
    else !(dotSens && pos == .unknown && c == cDot) && supp m inGroup fuel (posAfter c) c rest

/-- The patterns covered by `regexp_language`. -/
def supported (m : Mode) (p : Str) : Bool := supp m false (p.length + 1) .start 0 p

/-! ### flat pattern-lists

  The extra hypothesis of the language theorem for extended operators: every pattern-list is
  *flat* — its alternatives consist of ordinary characters, escaped characters, `?` and `*` only
  (no bracket expression, no nested list).  `flatRest` reads such a list from just after `op(`. -/

def consHead (c : Str) : List Str → List Str
  | [] => [c]
  | a :: as => (c ++ a) :: as

/-- The alternatives of a flat pattern-list and the rest after its closing parenthesis. -/
def flatRest : Str → Option (List Str × Str)
  | [] => none
  | c :: rest =>
    if c = cBS then
      match rest with
      | [] => none
      | d :: rest' => (flatRest rest').map (fun (as, r) => (consHead [c, d] as, r))
    else if c = cLB ∨ c = cLP then none
    else if c = cRP then some ([[]], rest)
    else if c = cBar then (flatRest rest).map (fun (as, r) => ([] :: as, r))
    else (flatRest rest).map (fun (as, r) => (consHead [c] as, r))

/-- Every pattern-list of the pattern is flat. -/
def flatGroups (m : Mode) : Nat → Str → Bool
  | 0, _ => false
  | _ + 1, [] => true
  | fuel + 1, c :: rest =>
    if c = cBS then
      match rest with
      | [] => true
      | _ :: r => flatGroups m fuel r
    else if m.ext && isExtOp c && rest.head? == some cLP then
      match flatRest rest.tail with
      | some (_, rest') => flatGroups m fuel rest'
      | none => false
    else if c = cLB then
      match scanBracket m.filenames rest with
      | .ok _ _ rest' => flatGroups m fuel rest'
      | _ => flatGroups m fuel rest
    else flatGroups m fuel rest

def flatLists (m : Mode) (p : Str) : Bool := flatGroups m (p.length + 1) p

end ShVerif.L3
