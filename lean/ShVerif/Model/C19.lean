import ShVerif.Model.L3Glob
/-
  C19 — Pathname expansion (expand/expand.go: FieldsSeq decision table, wordFields on the quoting
  fragment, escapedGlobField, Config.glob, globDir, the `**` DFS) over an in-memory directory tree.

  §1  directory trees and kernel-style path resolution (what `ReadDir2` answers)
  §2  path strings: pathJoin2, pathSplit, filepath.Clean / filepath.Join
  §3  words of the fragment → field parts (wordFields), escapedGlobField
  §4  Config.glob / globDir — generic in the directory reader `rd` and the per-component matcher `mk`
      (glob ↔ regexp equivalence of the matcher is property C17's)
  §5  FieldsSeq: the per-field decision table; the whole pipeline `fields`
  §6  the specification: bash's componentwise reading of a pattern (`Sel`, executable `specGlob`)

  Strings are lists of code points (`L3.Str`); the Go code works on UTF-8 bytes, which is the same
  thing for `/`- and `\`-splitting and for byte-wise sorting as long as the text is valid UTF-8.
  Core Lean only (L3 is the shared pattern layer).
-/
namespace ShVerif.C19
open ShVerif ShVerif.L3

/-! ## §1 trees -/

inductive Node
  | file
  | dir (es : List (Str × Node))
  | link (target : Str)

inductive Kind | file | dir | link
  deriving DecidableEq, Repr

def Node.kind : Node → Kind
  | .file => .file
  | .dir _ => .dir
  | .link _ => .link

def lookupNode : List (Str × Node) → Str → Option Node
  | [], _ => none
  | (n, k) :: rest, x => if n = x then some k else lookupNode rest x

def Node.child : Node → Str → Option Node
  | .dir es, n => lookupNode es n
  | _, _ => none

/-- The node at a physical path (no symbolic links are followed). -/
def Node.find (t : Node) : List Str → Option Node
  | [] => some t
  | n :: ns =>
    match t.child n with
    | some c => c.find ns
    | none => none

inductive FsErr | noent | notdir | loop
  deriving DecidableEq, Repr

def cDotS : Str := [cDot]
def cDotDotS : Str := [cDot, cDot]

/-- `strings.Split(s, sep)` for a one-rune separator: always at least one element. -/
def splitOn (sep : Rune) : Str → List Str
  | [] => [[]]
  | c :: rest =>
    if c = sep then [] :: splitOn sep rest
    else match splitOn sep rest with
      | h :: t => (c :: h) :: t
      | [] => [[c]]

/-- open(2)-style resolution of the remaining components `comps` from the physical directory
    `rcur` (deepest name first); every symbolic link is followed, at most 40 of them. -/
def resolveAux (root : Node) : Nat → Nat → List Str → List Str → Except FsErr (List Str)
  | _, _, rcur, [] => .ok rcur
  | 0, _, _, _ :: _ => .error .loop
  | fuel + 1, links, rcur, c :: comps =>
    match root.find rcur.reverse with
    | some (.dir es) =>
      if c = [] ∨ c = cDotS then resolveAux root fuel links rcur comps
      else if c = cDotDotS then resolveAux root fuel links rcur.tail comps
      else match lookupNode es c with
        | none => .error .noent
        | some (.link t) =>
          if links ≥ 40 then .error .loop
          else if t = [] then .error .noent
          else resolveAux root fuel (links + 1) (if t.head? = some cSlash then [] else rcur)
                 (splitOn cSlash t ++ comps)
        | some _ => resolveAux root fuel links (c :: rcur) comps
    | some _ => .error .notdir
    | none => .error .noent

def resolveFuel : Nat := 100000

/-- What `ReadDir2(path)` answers on the tree: names with their `Type()`, or the error class. -/
def readDir (root : Node) (path : Str) : Except FsErr (List (Str × Kind)) :=
  if path.head? ≠ some cSlash then .error .noent else
  match resolveAux root resolveFuel 0 [] (splitOn cSlash path) with
  | .error e => .error e
  | .ok rcur =>
    match root.find rcur.reverse with
    | some (.dir es) => .ok (es.map fun (n, k) => (n, k.kind))
    | some _ => .error .notdir
    | none => .error .noent

/-! ## §2 path strings -/

def isAbs (p : Str) : Bool := p.head? == some cSlash

def endsSlash (p : Str) : Bool := p.getLast? == some cSlash

/-- `pathJoin2`. -/
def pathJoin2 (a b : Str) : Str :=
  if a = [] then b else if endsSlash a then a ++ b else a ++ cSlash :: b

def intercalateSlash : List Str → Str
  | [] => []
  | [x] => x
  | x :: rest => x ++ cSlash :: intercalateSlash rest

/-- One step of `filepath.Clean`'s loop on a component; `dd` = number of leading `..` kept. -/
def cleanStep (rooted : Bool) (st : List Str × Nat) (c : Str) : List Str × Nat :=
  let (stack, dd) := st      -- stack: deepest first
  if c = [] ∨ c = cDotS then (stack, dd)
  else if c = cDotDotS then
    if stack.length > dd then (stack.tail, dd)
    else if rooted then (stack, dd)
    else (cDotDotS :: stack, dd + 1)
  else (c :: stack, dd)

/-- `filepath.Clean` (Unix). -/
def clean (p : Str) : Str :=
  if p = [] then cDotS else
  let rooted := isAbs p
  let (stack, _) := (splitOn cSlash p).foldl (cleanStep rooted) ([], 0)
  let body := intercalateSlash stack.reverse
  if rooted then cSlash :: body else if body = [] then cDotS else body

/-- `filepath.Join(a, b)`. -/
def joinPath (a b : Str) : Str :=
  if a ≠ [] then clean (a ++ cSlash :: b)
  else if b ≠ [] then clean b
  else []

/-! ## §3 words and fields -/

inductive Seg
  | unq (raw : Str)     -- unquoted literal, source text
  | sq (v : Str)        -- '…'
  | dq (raw : Str)      -- "…" with literal content, source text
  | par (value : Str)   -- unquoted ${v}
  | ext (text : Str)    -- extended glob node, `@(…)` as text
  deriving DecidableEq, Repr

structure Part where
  val : Str
  quoted : Bool
  deriving DecidableEq, Repr

abbrev Field := List Part

/-- The backslash loop of `wordFields` on an unquoted literal. -/
def unbackslash : Str → Str
  | [] => []
  | c :: rest =>
    if c = cBS then
      match rest with
      | [] => [cBS]
      | d :: rest' => d :: unbackslash rest'
    else c :: unbackslash rest

def cDQ : Rune := 34
def cBQ : Rune := 96
def cTilde : Rune := 126

/-- The backslash loop of `wordField` under quoteDouble. -/
def unescDq : Str → Str
  | [] => []
  | c :: rest =>
    if c = cBS then
      match rest with
      | [] => [cBS]
      | d :: rest' =>
        if d = cDQ ∨ d = cBS ∨ d = cDollar ∨ d = cBQ then d :: unescDq rest'
        else cBS :: unescDq (d :: rest')
    else c :: unescDq rest
termination_by s => s.length

def isIfs (c : Rune) : Bool := c == 32 || c == 9 || c == 10

structure WF where
  fields : List Field     -- finished fields, in order
  cur : Field             -- the field under construction, in order
  allowEmpty : Bool

def WF.flush (s : WF) : WF :=
  if s.cur.isEmpty then s else { s with fields := s.fields ++ [s.cur], cur := [] }

def WF.add (s : WF) (p : Part) : WF := { s with cur := s.cur ++ [p] }

/-- `splitAdd` with the default IFS; `start` = the pending unquoted run (in order). -/
def splitAddAux : WF → Option Str → Str → WF
  | s, none, [] => s
  | s, some run, [] => s.add ⟨run, false⟩
  | s, none, c :: rest =>
    if isIfs c then splitAddAux s.flush none rest else splitAddAux s (some [c]) rest
  | s, some run, c :: rest =>
    if isIfs c then splitAddAux (s.add ⟨run, false⟩).flush none rest
    else splitAddAux s (some (run ++ [c])) rest

def splitAdd (s : WF) (v : Str) : WF := splitAddAux s none v

inductive WErr | extglobOff | outside
  deriving DecidableEq, Repr

def wordStep (extglob : Bool) (first : Bool) (s : WF) : Seg → Except WErr WF
  | .unq raw =>
    if first ∧ raw.head? = some cTilde then .error .outside   -- tilde expansion: not modelled
    else if raw = [] then .ok s      -- an empty literal adds nothing (no tilde prefix either)
    else .ok (s.add ⟨unbackslash raw, false⟩)
  | .sq v => .ok ({ s with allowEmpty := true }.add ⟨v, true⟩)
  | .dq raw =>
    let s := { s with allowEmpty := true }
    -- an empty "" still contributes an (empty, quoted) part
    .ok (if raw = [] then s.add ⟨[], true⟩ else s.add ⟨unescDq raw, true⟩)
  | .par v => .ok (splitAdd s v)
  | .ext t => if extglob then .ok (s.add ⟨t, false⟩) else .error .extglobOff

def wordLoop (extglob : Bool) : Bool → WF → List Seg → Except WErr WF
  | _, s, [] => .ok s
  | first, s, seg :: rest =>
    match wordStep extglob first s seg with
    | .error e => .error e
    | .ok s' => wordLoop extglob false s' rest

/-- `Config.wordFields` on the fragment. -/
def wordFields (extglob : Bool) (segs : List Seg) : Except WErr (List Field) :=
  match wordLoop extglob true ⟨[], [], false⟩ segs with
  | .error e => .error e
  | .ok s =>
    let s := s.flush
    .ok (if s.allowEmpty ∧ s.fields.isEmpty then [s.cur] else s.fields)

def fieldJoin (f : Field) : Str := f.flatMap (·.val)

def hasPatChar (s : Str) : Bool := s.any fun c => c == cStar || c == cQuest || c == cLB

def escapeParts : Field → Str
  | [] => []
  | p :: rest => (if p.quoted then quoteMeta p.val else p.val) ++ escapeParts rest

/-- `Config.escapedGlobField`: the escaped pattern, or none when the field is not to be globbed. -/
def escapedGlobField (f : Field) : Option Str :=
  if f.any (fun p => !p.quoted && hasPatChar p.val) then
    let e := escapeParts f
    if hasMeta e then some e else none
  else none

/-! ## §4 glob -/

structure Cfg where
  dotglob : Bool
  nullglob : Bool
  globstar : Bool
  nocase : Bool
  extglob : Bool
  noglob : Bool
  deriving DecidableEq, Repr

def Cfg.mode (c : Cfg) : Mode :=
  { shortest := false, filenames := true, entire := true, nocase := c.nocase, noglobstar := true,
    dotglob := c.dotglob, ext := c.extglob }

inductive GErr
  | syntax                 -- *pattern.SyntaxError: FieldsSeq keeps the word
  | unsupported            -- the two fmt.Errorf of extNegatedMatcher
  | fs (e : FsErr)         -- ReadDir2 failed in globDir
  | panic
  | fuel                   -- model only: the `**` walk did not finish (directory cycle)
  deriving DecidableEq, Repr

abbrev Reader := Str → Except FsErr (List (Str × Kind))
abbrev Matcher := Mode → Str → MRes

def fullOf (base dir : Str) : Str := if isAbs dir then dir else joinPath base dir

def isOk {ε α} : Except ε α → Bool
  | .ok _ => true
  | .error _ => false

/-- The `wantDir` filter of `globDir` on one entry. -/
def keepEntry (rd : Reader) (full : Str) (wantDir : Bool) (e : Str × Kind) : Bool :=
  if !wantDir then true
  else match e.2 with
    | .link => isOk (rd (joinPath full e.1))
    | .dir => true
    | .file => false

/-- `Config.globDir` (the paths it appends). -/
def globDir (rd : Reader) (base dir : Str) (f : Str → Bool) (wantDir : Bool) : Except FsErr (List Str) :=
  let full := fullOf base dir
  match rd full with
  | .error e => .error e
  | .ok ents =>
    .ok ((ents.filter fun e => keepEntry rd full wantDir e && f e.1).map fun e => pathJoin2 dir e.1)

/-- rxGlobStar / rxGlobStarDotGlob. -/
def starName (dotglob : Bool) (name : Str) : Bool :=
  if dotglob then !name.contains cSlash
  else match name with
    | [] => false
    | c :: rest => c != cSlash && c != cDot && !rest.contains cSlash

/-- The `**` walk: `stack` has its top first; `acc` collects the visited paths in reverse. -/
def starWalk (rd : Reader) (base : Str) (dotglob wantDir : Bool) : Nat → List Str → List Str → Option (List Str)
  | _, [], acc => some acc.reverse
  | 0, _ :: _, _ => none
  | fuel + 1, dir :: stack, acc =>
    let new := match globDir rd base dir (starName dotglob) wantDir with
      | .ok l => l
      | .error _ => []
    starWalk rd base dotglob wantDir fuel (new ++ stack) (dir :: acc)

def walkFuel : Nat := 200000

/-- The literal-component branch on one directory. -/
def literalKeep (rd : Reader) (base dir part : Str) (wantDir : Bool) : Bool :=
  match rd (pathJoin2 (fullOf base dir) part) with
  | .ok _ => true
  | .error .noent => false
  | .error _ => !wantDir

def isSpecialPart (part : Str) : Bool := part = [] || part = cDotS || part = cDotDotS

def mapExcept {α β ε} (f : α → Except ε (List β)) : List α → Except ε (List β)
  | [] => .ok []
  | a :: rest =>
    match f a with
    | .error e => .error e
    | .ok l => match mapExcept f rest with
      | .error e => .error e
      | .ok l' => .ok (l ++ l')

/-- One iteration of the component loop of `Config.glob`. -/
def globPart (rd : Reader) (mk : Matcher) (cfg : Cfg) (base : Str) (wantDir : Bool) (ms0 : List Str)
    (part : Str) : Except GErr (List Str) :=
  if isSpecialPart part then .ok (ms0.map fun d => pathJoin2 d part)
  else if !hasMeta part then
    .ok ((ms0.filter fun d => literalKeep rd base d part wantDir).map fun d => pathJoin2 d part)
  else if part = [cStar, cStar] ∧ cfg.globstar then
    match starWalk rd base cfg.dotglob wantDir walkFuel (ms0.map fun d => pathJoin2 d []) [] with
    | some l => .ok l
    | none => .error .fuel
  else
    match mk cfg.mode part with
    | .panic => .error .panic
    | .unsupported => .error .unsupported
    | .err _ => .error .syntax
    | .ok f =>
      match mapExcept (fun d => globDir rd base d f wantDir) ms0 with
      | .error e => .error (.fs e)
      | .ok l => .ok l

def globLoop (rd : Reader) (mk : Matcher) (cfg : Cfg) (base : Str) : List Str → List Str → Except GErr (List Str)
  | ms0, [] => .ok ms0
  | ms0, part :: rest =>
    match globPart rd mk cfg base (!rest.isEmpty) ms0 part with
    | .error e => .error e
    | .ok m' => globLoop rd mk cfg base m' rest

def strLe : Str → Str → Bool
  | [], _ => true
  | _ :: _, [] => false
  | a :: as, b :: bs => if a < b then true else if b < a then false else strLe as bs

def insertStr (x : Str) : List Str → List Str
  | [] => [x]
  | y :: ys => if strLe x y then x :: y :: ys else y :: insertStr x ys

/-- `slices.Sort` on strings (byte order = code-point order on valid UTF-8). -/
def sortStrs : List Str → List Str
  | [] => []
  | x :: xs => insertStr x (sortStrs xs)

def dropEmptyHead : List Str → List Str
  | [] :: rest => rest
  | l => l

/-- `Config.glob(base, pat)`. -/
def glob (rd : Reader) (mk : Matcher) (cfg : Cfg) (base pat : Str) : Except GErr (List Str) :=
  let parts := splitOn cSlash pat
  let (start, parts) := if isAbs pat then ([[cSlash]], parts.tail) else ([[]], parts)
  match globLoop rd mk cfg base start parts with
  | .error e => .error e
  | .ok m => .ok (dropEmptyHead (sortStrs m))

/-! ## §5 FieldsSeq -/

inductive FErr
  | extglobOff | unsupported | fs (e : FsErr) | panic | fuel | outside
  deriving DecidableEq, Repr

/-- What FieldsSeq does with one field once the glob result is known (the decision table). -/
inductive Outcome
  | keep                    -- yield the joined field
  | expand (ms : List Str)  -- yield the paths found
  | fail (e : FErr)
  deriving DecidableEq, Repr

def decideGlob (nullglob : Bool) (r : Except GErr (List Str)) : Outcome :=
  match r with
  | .error .syntax => .keep
  | .error .unsupported => .fail .unsupported
  | .error (.fs e) => .fail (.fs e)
  | .error .panic => .fail .panic
  | .error .fuel => .fail .fuel
  | .ok ms => if !ms.isEmpty || nullglob then .expand ms else .keep

/-- One field of FieldsSeq. -/
def fieldOutcome (rd : Reader) (mk : Matcher) (cfg : Cfg) (base : Str) (f : Field) : Outcome :=
  match escapedGlobField f with
  | none => .keep
  | some pat => if cfg.noglob then .keep else decideGlob cfg.nullglob (glob rd mk cfg base pat)

def fieldsLoop (rd : Reader) (mk : Matcher) (cfg : Cfg) (base : Str) : List Field → Except FErr (List Str)
  | [] => .ok []
  | f :: rest =>
    match fieldOutcome rd mk cfg base f with
    | .fail e => .error e
    | .keep => (fieldsLoop rd mk cfg base rest).map (fieldJoin f :: ·)
    | .expand ms => (fieldsLoop rd mk cfg base rest).map (ms ++ ·)

/-- `expand.Fields(cfg, word)` on the fragment. -/
def fields (rd : Reader) (mk : Matcher) (cfg : Cfg) (base : Str) (segs : List Seg) : Except FErr (List Str) :=
  match wordFields cfg.extglob segs with
  | .error .extglobOff => .error .extglobOff
  | .error .outside => .error .outside
  | .ok fs => fieldsLoop rd mk cfg base fs

/-! ## §6 specification: the componentwise reading of a pattern

  `Sel parts d r`: the path `r` is obtained from the directory prefix `d` by choosing, for every
  component of the pattern in turn, either the component itself (`.`/`..`/empty components and
  components without pattern characters, the latter only if the path exists) or the name of a
  directory entry that the component matches (entries of non-final components must be directories
  or links to directories).  This is what bash documents for patterns without an active `**`. -/

def isGlobStar (cfg : Cfg) (part : Str) : Bool := part == [cStar, cStar] && cfg.globstar

/-- One component: from prefix `d` to prefix `x`. -/
def Step (rd : Reader) (mk : Matcher) (cfg : Cfg) (base : Str) (wantDir : Bool) (p d x : Str) : Prop :=
  (isSpecialPart p = true ∧ x = pathJoin2 d p) ∨
  (isSpecialPart p = false ∧ hasMeta p = false ∧ literalKeep rd base d p wantDir = true ∧ x = pathJoin2 d p) ∨
  (isSpecialPart p = false ∧ hasMeta p = true ∧
    ∃ f ents e, mk cfg.mode p = .ok f ∧ rd (fullOf base d) = .ok ents ∧ e ∈ ents ∧
      keepEntry rd (fullOf base d) wantDir e = true ∧ f e.1 = true ∧ x = pathJoin2 d e.1)

inductive Sel (rd : Reader) (mk : Matcher) (cfg : Cfg) (base : Str) : List Str → Str → Str → Prop
  | done (d : Str) : Sel rd mk cfg base [] d d
  | step {p : Str} {rest : List Str} {d x r : Str} :
      Step rd mk cfg base (!rest.isEmpty) p d x → Sel rd mk cfg base rest x r →
      Sel rd mk cfg base (p :: rest) d r

/-- A pattern as characters with the flag "escaped by a backslash" (a lone final backslash is kept
    as an unescaped character). -/
def toks : Str → List (Rune × Bool)
  | [] => []
  | c :: rest =>
    if c = cBS then
      match rest with
      | [] => [(cBS, false)]
      | d :: rest' => (d, true) :: toks rest'
    else (c, false) :: toks rest

/-- Does the text end inside an escape (an unpaired final backslash)? -/
def danglingBS : Str → Bool
  | [] => false
  | c :: rest =>
    if c = cBS then
      match rest with
      | [] => true
      | _ :: rest' => danglingBS rest'
    else danglingBS rest

/-- Characters that mean something in a pattern without extended operators. -/
def isPatSpecial (c : Rune) : Bool :=
  c == cStar || c == cQuest || c == cLB || c == cBS || c == cRB || c == cBang || c == cCaret || c == cDash

/-- How the parts of a field should come out of `escapedGlobField`, if the quoted characters in
    `special` are the ones that get a backslash. -/
def partToks (special : Rune → Bool) (p : Part) : List (Rune × Bool) :=
  if p.quoted then p.val.map (fun c => (c, special c)) else toks p.val

/-- The components and the start prefix `Config.glob` derives from the pattern text. -/
def patParts (pat : Str) : List Str := if isAbs pat then (splitOn cSlash pat).tail else splitOn cSlash pat
def patStart (pat : Str) : Str := if isAbs pat then [cSlash] else []

/-! ## §7 the executable specification: what bash does with the word on the tree

  Written from bash's documented behaviour (and validated against bash 5.2 on every run, stream
  `bashspec`), not from expand.go: the word is a sequence of characters that are quoted or not; it is
  split at slashes; a component with an active pattern character is matched against the entries of
  the directory named by the prefix so far (resolved by the kernel, not lexically); any other
  component is taken literally; the path must exist in the end (lstat for a final literal component,
  a directory for a trailing slash).  Slashes are reproduced as written.  Not covered (`outside`):
  active `**` components under globstar, tilde prefixes, `${v}` values that are empty or contain
  white space. -/

structure PC where
  c : Rune
  q : Bool
  deriving DecidableEq, Repr

def unqChars : Str → List PC
  | [] => []
  | c :: rest =>
    if c = cBS then
      match rest with
      | [] => [⟨cBS, false⟩]
      | d :: rest' => ⟨d, true⟩ :: unqChars rest'
    else ⟨c, false⟩ :: unqChars rest

def segChars : Seg → Option (List PC)
  | .unq raw => some (unqChars raw)
  | .sq v => some (v.map (⟨·, true⟩))
  | .dq raw => some ((unescDq raw).map (⟨·, true⟩))
  | .par v => if v = [] ∨ v.any isIfs then none else some (v.map (⟨·, false⟩))
  | .ext t => some (t.map (⟨·, false⟩))

def splitPC : List PC → List (List PC)
  | [] => [[]]
  | x :: rest =>
    if x.c = cSlash then [] :: splitPC rest
    else match splitPC rest with
      | h :: t => (x :: h) :: t
      | [] => [[x]]

/-- The component as pattern text: quoted characters escaped. -/
def compPat (cs : List PC) : Str := cs.flatMap fun x => if x.q then [cBS, x.c] else [x.c]

/-- The characters as they are printed when the word is kept. -/
def pcText (cs : List PC) : Str := cs.map (·.c)

def resolveNode (root : Node) (path : Str) : Except FsErr Node :=
  if path.head? ≠ some cSlash then .error .noent else
  match resolveAux root resolveFuel 0 [] (splitOn cSlash path) with
  | .error e => .error e
  | .ok rcur =>
    match root.find rcur.reverse with
    | some n => .ok n
    | none => .error .noent

def isDirPath (root : Node) (p : Str) : Bool :=
  match resolveNode root p with
  | .ok (.dir _) => true
  | _ => false

/-- lstat(p) succeeds. -/
def lexists (root : Node) (p : Str) : Bool :=
  let comps := splitOn cSlash p
  match comps.getLast? with
  | none => false
  | some last =>
    if last = [] ∨ last = cDotS ∨ last = cDotDotS then isOk (resolveNode root p)
    else match resolveNode root (intercalateSlash comps.dropLast ++ [cSlash]) with
      | .ok (.dir es) => (lookupNode es last).isSome
      | _ => false

def absP (pwd s : Str) : Str := if isAbs s then s else pwd ++ cSlash :: s

/-- The leading-dot rule is applied per directory entry by `specStep` (`leadDot`), so the reference
    matcher is asked without its own dot guard. -/
def specMode (c : Cfg) : Mode :=
  { shortest := false, filenames := true, entire := true, nocase := c.nocase, noglobstar := true,
    dotglob := true, ext := c.extglob }

def compIsPattern (cfg : Cfg) (cs : List PC) : Bool :=
  hasMeta (compPat cs) || (cfg.extglob && hasExtGroup (compPat cs))

/-- Does the pattern ask for a leading dot explicitly?  A literal dot first; under extglob also a
    leading pattern-list one of whose alternatives does (or, for `?(` and `*(`, what follows it). -/
def leadDot (ext : Bool) : Nat → Str → Bool
  | 0, _ => false
  | fuel + 1, p =>
    match p with
    | [] => false
    | c :: rest =>
      if c = cDot then true
      else if c = cBS then rest.head? == some cDot
      else if ext && isExtOp c && rest.head? == some cLP then
        match scanGroup false (rest.length + 1) 0 [] [] rest.tail with
        | .ok (some (alts, rest')) =>
          alts.any (leadDot ext fuel) || ((c == cQuest || c == cStar) && leadDot ext fuel rest')
        | _ => false
      else false

/-- One component applied to one prefix.  `first`: nothing has been written yet. -/
def specStep (root : Node) (cfg : Cfg) (pwd : Str) (first last : Bool) (cs : List PC) (pre : Str) : List Str :=
  let join := fun (n : Str) => if first then n else pre ++ cSlash :: n
  if compIsPattern cfg cs then
    let dir := if first then pwd else absP pwd (pre ++ [cSlash])
    match readDir root dir with
    | .error _ => []
    | .ok ents =>
      -- a name that starts with a dot needs dotglob or a pattern that starts with a literal dot
      let dotOk := fun (n : Str) => n.head? != some cDot || cfg.dotglob ||
        leadDot cfg.extglob ((compPat cs).length + 1) (compPat cs)
      let names := (ents.map (·.1)).filter fun n => dotOk n && globMatch (specMode cfg) (compPat cs) n
      let outs := names.map join
      if last then outs else outs
  else
    let n := unescape (compPat cs)
    let r := join n
    if !last then [r]
    else if n = [] then (if first then [r] else if isDirPath root (absP pwd (pre ++ [cSlash])) then [r] else [])
    else if lexists root (absP pwd r) then [r] else []

def specLoop (root : Node) (cfg : Cfg) (pwd : Str) : Bool → List (List PC) → List Str → List Str
  | _, [], pres => pres
  | first, cs :: rest, pres =>
    specLoop root cfg pwd false rest (pres.flatMap (specStep root cfg pwd first rest.isEmpty cs))

/-- An empty component (`//`) that is not the first or the last one, after a pattern component:
    bash collapses it (it strips the slash that ends a directory part with pattern characters). -/
def emptyAfterPattern (cfg : Cfg) : Bool → Bool → List (List PC) → Bool
  | _, _, [] => false
  | started, patSeen, cs :: rest =>
    (cs.isEmpty && patSeen && !rest.isEmpty && started) ||
      emptyAfterPattern cfg true (patSeen || compIsPattern cfg cs) rest

/-- An extended-glob operator followed by `(` whose group is not closed within the component. -/
def unterminatedExt : Nat → Str → Bool
  | 0, _ => false
  | _ + 1, [] => false
  | fuel + 1, c :: rest =>
    if c = cBS then unterminatedExt fuel rest.tail
    else if isExtOp c && rest.head? == some cLP then
      match scanGroup false (rest.length + 1) 0 [] [] rest.tail with
      | .ok (some _) => unterminatedExt fuel rest
      | _ => true
    else unterminatedExt fuel rest

inductive SpecRes
  | outside
  | ok (fields : List Str)
  deriving DecidableEq, Repr

/-- bash on the fragment: the fields the word expands to. -/
def specFields (root : Node) (cfg : Cfg) (pwd : Str) (segs : List Seg) : SpecRes :=
  match segs with
  | .unq (c :: _) :: _ => if c = cTilde then .outside else go
  | _ => go
where
  go : SpecRes :=
    match segs.mapM segChars with
    | none => .outside
    | some css =>
      let chars := css.flatten
      let comps := splitPC chars
      if cfg.globstar ∧ comps.any (fun cs => compPat cs == [cStar, cStar]) then .outside
      else if emptyAfterPattern cfg false false comps then .outside
      -- bash classifies `@(`, `+(`, `!(` as pattern characters even without extglob (visible with
      -- nocaseglob and in its `//` handling), and reads a pattern-list with quoted parentheses in
      -- its own way: both kept out
      else if !cfg.extglob ∧ hasExtGroup (compPat chars) then .outside
      else if cfg.extglob ∧ hasExtGroup (compPat chars) ∧ chars.any (fun x => x.q && (x.c == cLP || x.c == cRP || x.c == cBar)) then .outside
      else if cfg.extglob ∧ comps.any (fun cs => unterminatedExt ((compPat cs).length + 1) (compPat cs)) then .outside
      else if cfg.noglob ∨ !comps.any (compIsPattern cfg) then .ok [pcText chars]
      else
        let found := sortStrs (specLoop root cfg pwd true comps [[]])
        if found.isEmpty then (if cfg.nullglob then .ok [] else .ok [pcText chars]) else .ok found

end ShVerif.C19
