import ShVerif.Base.Hex
/-
  C16 — Brace expansion matches bash.

  Part 1 (model): `syntax.SplitBraces` (syntax/braces.go: a stack machine over the bytes of a
  literal word), `expand.bracesSeqRec`/`BracesSeq` (expand/braces.go: alternatives, numeric and
  character sequences, Int64 loop arithmetic with wrap-around, the 16384-element limit) and the
  part of `expand.FieldsSeq`/`wordFields` that a literal word reaches (backslash removal, one field
  per non-empty part list).  The model follows the Go code branch by branch, including its quirks.

  Part 2 (spec): `bashBraces`, a direct transcription of bash 5.2 `braces.c`
  (`brace_expand`, `brace_gobbler`, `expand_amble`, `expand_seqterm`, `mkseq`) restricted to
  literal words (no quotes, no command substitution), with ideal (unbounded) integers.

  Core Lean only.
-/
namespace ShVerif.C16

abbrev cLB : UInt8 := 123     -- {
abbrev cRB : UInt8 := 125     -- }
abbrev cComma : UInt8 := 44
abbrev cDot : UInt8 := 46
abbrev cBS : UInt8 := 92      -- backslash
abbrev cDollar : UInt8 := 36
abbrev cMinus : UInt8 := 45
abbrev cPlus : UInt8 := 43
abbrev cZero : UInt8 := 48

def dots : Bytes := [cDot, cDot]

/-! ## Words -/

/-- A word part: only literals and brace expressions matter for this property. -/
inductive Part where
  | lit (v : Bytes) : Part
  | brace (seq : Bool) (elems : List (List Part)) : Part
deriving Repr

abbrev Word := List Part

def Part.isLit : Part → Bool
  | .lit _ => true
  | .brace _ _ => false

def Part.litVal : Part → Bytes
  | .lit v => v
  | .brace _ _ => []

/-- Does the word contain a `BraceExp` part? -/
def hasBrace (w : Word) : Bool := w.any fun p => !p.isLit

/-- `(*Word).Lit()`: the concatenation of the literal values, or "" if any part is not a `Lit`. -/
def litOf (w : Word) : Bytes :=
  if w.all Part.isLit then (w.map Part.litVal).flatten else []

/-- `sep`-joined byte strings. -/
def joinSep (sep : Bytes) : List Bytes → Bytes
  | [] => []
  | [x] => x
  | x :: y :: rest => x ++ sep ++ joinSep sep (y :: rest)

mutual
/-- The printed form of a part: `BraceExp` back to `{a,b}` / `{x..y[..z]}` text. -/
def renderPart : Part → Bytes
  | .lit v => v
  | .brace seq elems => cLB :: (joinSep (if seq then dots else [cComma]) (renderElems elems) ++ [cRB])
def render : List Part → Bytes
  | [] => []
  | p :: ps => renderPart p ++ render ps
def renderElems : List (List Part) → List Bytes
  | [] => []
  | e :: es => render e :: renderElems es
end

/-! ## strconv / fmt helpers -/

def isDigit (b : UInt8) : Bool := decide (48 ≤ b.toNat ∧ b.toNat ≤ 57)

/-- `asciiLetter` of syntax/lexer.go. -/
def asciiLetter (b : UInt8) : Bool :=
  decide ((97 ≤ b.toNat ∧ b.toNat ≤ 122) ∨ (65 ≤ b.toNat ∧ b.toNat ≤ 90))

def digitsVal (ds : Bytes) : Nat := ds.foldl (fun a d => a * 10 + (d.toNat - 48)) 0

def maxI64 : Int := 9223372036854775807
def minI64 : Int := -9223372036854775808

def parseDigits (neg : Bool) (ds : Bytes) : Int × Bool :=
  if ds = [] then (0, false)
  else if !ds.all isDigit then (0, false)
  else
    let n : Int := digitsVal ds
    let v := if neg then -n else n
    if v > maxI64 then (maxI64, false)
    else if v < minI64 then (minI64, false)
    else (v, true)

/-- `strconv.ParseInt(s, 10, 64)`: the returned value and whether `err == nil`
    (syntax error → 0; range error → the nearest limit). -/
def parseInt (s : Bytes) : Int × Bool :=
  match s with
  | [] => (0, false)
  | c :: r =>
    if c = cPlus then parseDigits false r
    else if c = cMinus then parseDigits true r
    else parseDigits false s

def natDigits (n : Nat) : Bytes := (Nat.toDigits 10 n).map fun c => c.toNat.toUInt8

/-- `strconv.FormatInt(n, 10)`. -/
def formatInt (n : Int) : Bytes :=
  if n < 0 then cMinus :: natDigits n.natAbs else natDigits n.natAbs

/-- `fmt.Sprintf("%0*d", width, n)`: zero padding goes after the sign, the sign counts. -/
def formatPad (width : Nat) (n : Int) : Bytes :=
  let ds := natDigits n.natAbs
  let sign : Bytes := if n < 0 then [cMinus] else []
  sign ++ List.replicate (width - sign.length - ds.length) cZero ++ ds

/-- `hasLeadingZeros` of expand/braces.go. -/
def hasLeadingZeros (s : Bytes) : Bool :=
  let s' := match s with
    | c :: r => if c = cMinus then r else s
    | [] => s
  match s' with
  | c :: _ :: _ => c = cZero
  | _ => false

/-- `uint64(x)` of an int64 (and reduction of a uint64 expression): the value modulo 2^64. -/
def u64 (x : Int) : Int := x % 18446744073709551616

/-- `int64(u)` of a uint64 expression: the signed reading of the value modulo 2^64. -/
def i64 (x : Int) : Int :=
  if x % 18446744073709551616 ≥ 9223372036854775808 then x % 18446744073709551616 - 18446744073709551616
  else x % 18446744073709551616

/-! ## syntax.SplitBraces -/

/-- An open `BraceExp` under construction: `Elems = done ++ [cur]`, `acc` points at `cur`. -/
structure Frame where
  seq : Bool
  done : List Word
  cur : Word
deriving Repr

def Frame.elems (f : Frame) : List Word := f.done ++ [f.cur]

/-- `top` word and the stack `open` (innermost first). -/
structure St where
  top : Word
  stack : List Frame
deriving Repr

/-- `acc.Parts = append(acc.Parts, ps...)`. -/
def St.addParts (st : St) (ps : List Part) : St :=
  match st.stack with
  | [] => { st with top := st.top ++ ps }
  | f :: fs => { st with stack := { f with cur := f.cur ++ ps } :: fs }

def St.add (st : St) (p : Part) : St := st.addParts [p]

/-- `addlitidx`: add the pending literal bytes unless empty. -/
def St.flush (st : St) (pend : Bytes) : St :=
  if pend = [] then st else st.add (.lit pend)

/-- `case '{'`. -/
def St.openBrace (st : St) : St :=
  { st with stack := { seq := false, done := [], cur := [] } :: st.stack }

/-- A sequence turned into a list by a comma: elems joined by literal `..` into the first. -/
def mergeDots : List Word → Word
  | [] => []
  | e :: es => e ++ (es.map fun x => Part.lit dots :: x).flatten

/-- `case ','` with `cur != nil`. -/
def St.commaStep (st : St) : St :=
  match st.stack with
  | [] => st
  | f :: fs =>
    if f.seq then
      { st with stack := { seq := false, done := [mergeDots f.elems], cur := [] } :: fs }
    else
      { st with stack := { f with done := f.elems, cur := [] } :: fs }

/-- `case '.'` accepted as the `..` of a sequence. -/
def St.dotsStep (st : St) : St :=
  match st.stack with
  | [] => st
  | f :: fs => { st with stack := { seq := true, done := f.elems, cur := [] } :: fs }

/-- Is one endpoint of `{x..y}` a number (`some false`), a letter (`some true`) or broken? -/
def endpointKind (e : Word) : Option Bool :=
  let val := litOf e
  if (parseInt val).2 then some false
  else match val with
    | [c] => if asciiLetter c then some true else none
    | _ => none

/-- The validity test of a closed `{x..y[..z]}` (the `broken` flag, negated). -/
def seqValid (elems : List Word) : Bool :=
  match elems with
  | e0 :: e1 :: more =>
    match endpointKind e0, endpointKind e1 with
    | some k0, some k1 =>
      (match more with
        | [] => true
        | [e2] => (parseInt (litOf e2)).2
        | _ => false) && (k0 == k1)
    | _, _ => false
  | _ => false

/-- Parts of a brace returned to a non-brace: elems joined by a literal separator. -/
def joinParts (sep : Part) : List Word → List Part
  | [] => []
  | [e] => e
  | e :: e' :: es => e ++ sep :: joinParts sep (e' :: es)

/-- `case '}'` with `cur != nil`: pop, then re-attach as a brace or as literals. -/
def St.closeStep (st : St) : St :=
  match st.stack with
  | [] => st
  | f :: fs =>
    let st' : St := { st with stack := fs }
    match f.done with
    | [] => ((st'.add (.lit [cLB])).addParts f.cur).add (.lit [cRB])
    | _ :: _ =>
      if !f.seq then st'.add (.brace false f.elems)
      else if seqValid f.elems then st'.add (.brace true f.elems)
      else ((st'.add (.lit [cLB])).addParts (joinParts (.lit dots) f.elems)).add (.lit [cRB])

/-- Loop mode: `esc` — the previous byte was a backslash (`j++; continue`); `skip` — the
    previous byte was the first `.` of an accepted `..` (`j++` before `last = j + 1`). -/
inductive Mode where
  | normal
  | esc
  | skip
deriving Repr, DecidableEq

/-- The byte loop of `SplitBraces` over one literal: `pend = lit.Value[last:j]`. -/
def scan : St → Mode → Bytes → Bytes → St × Bytes
  | st, _, pend, [] => (st, pend)
  | st, .esc, pend, c :: rest => scan st .normal (pend ++ [c]) rest
  | st, .skip, _, _ :: rest => scan st .normal [] rest
  | st, .normal, pend, c :: rest =>
    if c = cBS then scan st .esc (pend ++ [c]) rest
    else if c = cLB then
      scan (st.flush pend).openBrace .normal [] rest
    else if c = cComma then
      match st.stack with
      | [] => scan st .normal (pend ++ [c]) rest
      | _ :: _ => scan (st.flush pend).commaStep .normal [] rest
    else if c = cDot then
      match st.stack with
      | [] => scan st .normal (pend ++ [c]) rest
      | f :: _ =>
        if rest.head? = some cDot then
          if !f.seq && f.done.length > 0 then scan st .normal (pend ++ [c]) rest
          else scan (st.flush pend).dotsStep .skip [] rest
        else scan st .normal (pend ++ [c]) rest
    else if c = cRB then
      match st.stack with
      | [] => scan st .normal (pend ++ [c]) rest
      | _ :: _ => scan (st.flush pend).closeStep .normal [] rest
    else scan st .normal (pend ++ [c]) rest

/-- "open braces that were never closed fall back to non-braces": frames are popped innermost
    first; `carry` is what the already-popped inner frames appended to this frame's `acc`. -/
def unwind : List Frame → List Part → Word → Word
  | [], carry, top => top ++ carry
  | f :: fs, carry, top =>
    let sep : Part := if f.seq then .lit dots else .lit [cComma]
    unwind fs (Part.lit [cLB] :: joinParts sep (f.done ++ [f.cur ++ carry])) top

/-- `syntax.SplitBraces` on a word made of one literal.  The rest of the literal after the last
    brace character is added unless empty (`flush`); when no `BraceExp` made it into `top.Parts`
    the word is left untouched and `false` is returned. -/
def splitBraces (w : Bytes) : Word × Bool :=
  if ¬ cLB ∈ w then ([.lit w], false)
  else
    let (st, pend) := scan { top := [], stack := [] } .normal [] w
    let st := st.flush pend
    let top := unwind st.stack [] st.top
    if hasBrace top then (top, true) else ([.lit w], false)

/-! ## expand.bracesSeqRec / BracesSeq -/

def limit : Nat := 16384

inductive Err where
  | limit
  | panic
deriving Repr, DecidableEq

/-- The loop parameters `bracesSeqRec` computes for a sequence. -/
structure SeqParams where
  chars : Bool
  «from» : Int
  to : Int
  width : Nat
  step : Nat
  upward : Bool
deriving Repr

/-- The step computed from the parsed third element `n` (1 when absent), a uint64:
    `if n < 0 { step = -uint64(n) } else if n > 0 { step = uint64(n) }`. -/
def goStep (n : Int) : Nat :=
  if n < 0 then (u64 (-(u64 n))).toNat
  else if n > 0 then (u64 n).toNat
  else 1

/-- The parsed third element of a sequence (`n, _ := strconv.ParseInt(…)`), 1 when absent. -/
def seqRaw (elems : List Word) : Int :=
  match elems with
  | _ :: _ :: e2 :: _ => (parseInt (litOf e2)).1
  | _ => 1

/-- `none`: the Go code panics (index out of range on `br.Elems[1]`, `fromLit[0]`, `toLit[0]`). -/
def seqParams (elems : List Word) : Option SeqParams :=
  match elems with
  | e0 :: e1 :: more =>
    let fromLit := litOf e0
    let toLit := litOf e1
    let p1 := parseInt fromLit
    let p2 := parseInt toLit
    let ends : Option (Bool × Int × Int) :=
      if p1.2 && p2.2 then some (false, p1.1, p2.1)
      else match fromLit, toLit with
        | a :: _, b :: _ => some (true, (a.toNat : Int), (b.toNat : Int))
        | _, _ => none
    match ends with
    | none => none
    | some (chars, fr, to) =>
      let width := if !chars && (hasLeadingZeros fromLit || hasLeadingZeros toLit)
        then max fromLit.length toLit.length else 0
      let upward := decide (fr ≤ to)
      let raw : Int := seqRaw (e0 :: e1 :: more)
      some { chars := chars, «from» := fr, to := to, width := width, step := goStep raw, upward := upward }
  | _ => none

/-- `rune(n)`: conversion of an int64 to int32 keeps the low 32 bits. -/
def wrap32 (n : Int) : Int :=
  let m := n % 4294967296
  if m ≥ 2147483648 then m - 4294967296 else m

/-- `string(rune(n))`: UTF-8 of the code point, U+FFFD for an invalid one. -/
def runeBytes (n : Int) : Bytes :=
  let r := wrap32 n
  if r < 0 ∨ r > 0x10FFFF ∨ (0xD800 ≤ r ∧ r ≤ 0xDFFF) then [0xEF, 0xBF, 0xBD]
  else
    let c := r.toNat
    if c < 0x80 then [c.toUInt8]
    else if c < 0x800 then [(0xC0 + c / 64).toUInt8, (0x80 + c % 64).toUInt8]
    else if c < 0x10000 then
      [(0xE0 + c / 4096).toUInt8, (0x80 + c / 64 % 64).toUInt8, (0x80 + c % 64).toUInt8]
    else
      [(0xF0 + c / 262144).toUInt8, (0x80 + c / 4096 % 64).toUInt8,
       (0x80 + c / 64 % 64).toUInt8, (0x80 + c % 64).toUInt8]

def fmtSeq (sp : SeqParams) (n : Int) : Bytes :=
  if sp.chars then runeBytes n
  else if sp.width > 0 then formatPad sp.width n
  else formatInt n

/-- The values `n` takes in `for n := from; ; { …; if remaining < step { break }; n ± = step }`
    (uint64 arithmetic for the remaining distance and for the update), at most `k` of them. -/
def seqVals (sp : SeqParams) : Nat → Int → List Int
  | 0, _ => []
  | k + 1, n =>
    n :: (if sp.upward then
            (if u64 (u64 sp.to - u64 n) < (sp.step : Int) then []
             else seqVals sp k (i64 (u64 n + sp.step)))
          else
            (if u64 (u64 n - u64 sp.to) < (sp.step : Int) then []
             else seqVals sp k (i64 (u64 n - sp.step))))

/-- `for _, elem := range br.Elems { … expand(&next) … }` with `budget` yields left. -/
def altLoop (f : Nat → Word → Option (List Word)) (rest : List Part) :
    List Word → Nat → Option (List Word)
  | [], _ => some []
  | e :: es, budget =>
    if budget = 0 then some []
    else
      match f budget (e ++ rest) with
      | none => none
      | some r =>
        match altLoop f rest es (budget - r.length) with
        | none => none
        | some r' => some (r ++ r')

/-- Split a word at its first `BraceExp`. -/
def splitAtBrace : List Part → List Part × Option (Bool × List Word × List Part)
  | [] => ([], none)
  | .lit v :: ps =>
    let (l, r) := splitAtBrace ps
    (.lit v :: l, r)
  | .brace seq elems :: ps => ([], some (seq, elems, ps))

/-- `bracesSeqRec`: the first `budget` words, in yield order; `none` is a Go panic (or lack of
    fuel, which `fuel_sufficient` excludes). -/
def bracesRec : Nat → Nat → Word → Option (List Word)
  | 0, _, _ => none
  | fuel + 1, budget, word =>
    match splitAtBrace word with
    | (left, none) => some [left]
    | (left, some (seq, elems, rest)) =>
      let r :=
        if seq then
          match seqParams elems with
          | none => none
          | some sp =>
            -- The loop body is the body of the alternatives loop with `next.Parts = lit :: rest`.
            -- Every iteration yields at least one word, so at most `budget` iterations run.
            altLoop (bracesRec fuel) rest
              ((seqVals sp budget sp.from).map fun n => [Part.lit (fmtSeq sp n)]) budget
        else altLoop (bracesRec fuel) rest elems budget
      match r with
      | none => none
      | some ws => some (ws.map fun w => left ++ w)

mutual
/-- Number of `BraceExp` nodes (fuel for `bracesRec`). -/
def bracesInPart : Part → Nat
  | .lit _ => 0
  | .brace _ elems => 1 + bracesInElems elems
def bracesIn : List Part → Nat
  | [] => 0
  | p :: ps => bracesInPart p + bracesIn ps
def bracesInElems : List (List Part) → Nat
  | [] => 0
  | e :: es => bracesIn e + bracesInElems es
end

/-- `BracesSeq` collected: the words, or the limit error after `limit` words. -/
def bracesSeq (w : Word) : Except Err (List Word) :=
  match bracesRec (bracesIn w + 1) (limit + 1) w with
  | none => .error .panic
  | some r => if r.length > limit then .error .limit else .ok r

def isLimitErr {α : Type} : Except Err α → Bool
  | .error .limit => true
  | _ => false

/-- The result of expanding a split word, as text. -/
def expand (w : Word) : Except Err (List Bytes) :=
  match bracesSeq w with
  | .error e => .error e
  | .ok ws => .ok (ws.map render)

/-! ## Denotation of a split word (what the expansion should be, with ideal integers) -/

/-- `array_concat`-style product: every left string followed by every right string, left-major. -/
def cross (a b : List Bytes) : List Bytes := a.flatMap fun x => b.map fun y => x ++ y

/-- `k` terms of the arithmetic progression `start, start + d, …`. -/
def arith (start d : Int) : Nat → List Int
  | 0 => []
  | k + 1 => start :: arith (start + d) d k

/-- The ideal (unbounded-integer) sequence from `fr` towards `to` in steps of `step`:
    `⌊|to − fr| / step⌋ + 1` terms. -/
def idealSeq (fr to : Int) (step : Nat) : List Int :=
  arith fr (if fr ≤ to then (step : Int) else -(step : Int)) ((to - fr).natAbs / step + 1)

/-- The step a third element `inc` stands for: its absolute value, 1 for 0 (or when absent). -/
def idealStep (inc : Int) : Nat := if inc = 0 then 1 else inc.natAbs

/-- The texts a sequence node stands for: the ideal progression, formatted as Go formats. -/
def seqTexts (elems : List Word) : List Bytes :=
  match seqParams elems with
  | none => []
  | some sp => (idealSeq sp.from sp.to (idealStep (seqRaw elems))).map (fmtSeq sp)

def seqCount (elems : List Word) : Nat :=
  match seqParams elems with
  | none => 0
  | some sp => (sp.to - sp.from).natAbs / idealStep (seqRaw elems) + 1

mutual
/-- Product over the concatenated parts of the union over the alternatives. -/
def denotPart : Part → List Bytes
  | .lit v => [v]
  | .brace seq elems => if seq then seqTexts elems else denotElems elems
def denot : List Part → List Bytes
  | [] => [[]]
  | p :: ps => cross (denotPart p) (denot ps)
def denotElems : List (List Part) → List Bytes
  | [] => []
  | e :: es => denot e ++ denotElems es
end

mutual
/-- Number of results: product over concatenated groups of the sum over alternatives. -/
def countPart : Part → Nat
  | .lit _ => 1
  | .brace seq elems => if seq then seqCount elems else countElems elems
def count : List Part → Nat
  | [] => 1
  | p :: ps => countPart p * count ps
def countElems : List (List Part) → Nat
  | [] => 0
  | e :: es => count e + countElems es
end

mutual
/-- Shape that `bracesSeqRec` relies on: a sequence node passed the validity test of
    `SplitBraces`; a list node has at least one alternative. -/
def wfPart : Part → Bool
  | .lit _ => true
  | .brace seq elems => (if seq then seqValid elems else !elems.isEmpty) && wfElems elems
def wf : List Part → Bool
  | [] => true
  | p :: ps => wfPart p && wf ps
def wfElems : List (List Part) → Bool
  | [] => true
  | e :: es => wf e && wfElems es
end

/-! ## expand.FieldsSeq on a literal word -/

/-- Backslash removal of `wordFields` on an unquoted `Lit`. -/
def unescape : Bytes → Bytes
  | [] => []
  | c :: rest =>
    if c = cBS then
      match rest with
      | [] => [cBS]
      | d :: rest' => d :: unescape rest'
    else c :: unescape rest

/-- `wordFields` on a word of literals: no parts → no field; otherwise exactly one field
    (the tilde-prefix part is always appended for a leading `Lit`).  `none`: unhandled part → panic. -/
def expandWord (w : Word) : Option (List Bytes) :=
  if w.isEmpty then some []
  else if w.all Part.isLit then some [(w.map fun p => unescape p.litVal).flatten]
  else none

def expandWords : List Word → Option (List Bytes)
  | [] => some []
  | w :: ws =>
    match expandWord w, expandWords ws with
    | some a, some b => some (a ++ b)
    | _, _ => none

/-- `expand.Fields(cfg, word)` for a word made of one literal (no `~`, no glob characters). -/
def fields (w : Bytes) : Except Err (List Bytes) :=
  let (t, found) := splitBraces w
  if !found then
    match expandWord [.lit w] with
    | some f => .ok f
    | none => .error .panic
  else
    match bracesSeq t with
    | .error e => .error e
    | .ok ws =>
      match expandWords ws with
      | some f => .ok f
      | none => .error .panic

/-! ## Specification: bash 5.2 braces.c on literal words -/

/-- `brace_gobbler(text, &i, '}')` started just after an opening brace: the amble and the
    postamble, if a closing brace preceded by a top-level `,` or `..` exists. -/
def gobbleClose : Nat → Nat → Bytes → Option (Bytes × Bytes)
  | _, _, [] => none
  | level, commas, c :: rest =>
    let cont (level commas : Nat) : Option (Bytes × Bytes) :=
      match gobbleClose level commas rest with
      | none => none
      | some (a, p) => some (c :: a, p)
    if c = cBS then
      match rest with
      | [] => none
      | d :: rest' =>
        match gobbleClose level commas rest' with
        | none => none
        | some (a, p) => some (c :: d :: a, p)
    else if c = cDollar ∧ rest.head? = some cLB then
      match rest with
      | [] => none
      | d :: rest' =>
        match gobbleClose (level + 1) commas rest' with
        | none => none
        | some (a, p) => some (c :: d :: a, p)
    else if c = cRB ∧ level = 0 ∧ commas > 0 then some ([], rest)
    else if c = cLB then cont (level + 1) commas
    else if c = cRB ∧ level > 0 then cont (level - 1) commas
    else if c = cComma ∧ level = 0 then cont level (commas + 1)
    else if c = cDot ∧ level = 0 ∧ rest.head? = some cDot ∧ rest.tail.head? ≠ some cRB then
      cont level (commas + 1)
    else cont level commas

/-- `brace_gobbler(text, &i, '{')`: the text before the next candidate opening brace and the
    text after it.  `atStart`: the brace would be at index 0 (`{}` and a lone `{` are skipped). -/
def gobbleOpen : Bool → Nat → Bytes → Option (Bytes × Bytes)
  | _, _, [] => none
  | atStart, level, c :: rest =>
    let cont (level : Nat) : Option (Bytes × Bytes) :=
      match gobbleOpen false level rest with
      | none => none
      | some (a, p) => some (c :: a, p)
    if c = cBS then
      match rest with
      | [] => none
      | d :: rest' =>
        match gobbleOpen false level rest' with
        | none => none
        | some (a, p) => some (c :: d :: a, p)
    else if c = cDollar ∧ rest.head? = some cLB then
      match rest with
      | [] => none
      | d :: rest' =>
        match gobbleOpen false (level + 1) rest' with
        | none => none
        | some (a, p) => some (c :: d :: a, p)
    else if c = cLB ∧ level = 0 then
      if atStart ∧ (rest = [] ∨ rest.head? = some cRB) then cont level
      else some ([], rest)
    else if c = cLB then cont (level + 1)
    else if c = cRB ∧ level > 0 then cont (level - 1)
    else cont level

/-- The `do … while` of `brace_expand`: the first opening brace that has a valid closing brace;
    result = (preamble, amble, postamble). -/
def findBrace : Nat → Bool → Bytes → Option (Bytes × Bytes × Bytes)
  | 0, _, _ => none
  | fuel + 1, atStart, text =>
    match gobbleOpen atStart 0 text with
    | none => none
    | some (pre, after) =>
      match gobbleClose 0 0 after with
      | some (amble, post) => some (pre, amble, post)
      | none =>
        match findBrace fuel false after with
        | none => none
        | some (pre', amble, post) => some (pre ++ cLB :: pre', amble, post)

/-- "If the amble does not contain an unquoted BRACE_ARG_SEPARATOR" (any nesting level). -/
def hasComma : Bytes → Bool
  | [] => false
  | c :: rest =>
    if c = cBS then
      match rest with
      | [] => false
      | _ :: rest' => hasComma rest'
    else if c = cComma then true
    else hasComma rest

/-- `expand_amble`: the pieces between top-level commas. -/
def splitAmble : Nat → Bytes → List Bytes
  | _, [] => [[]]
  | level, c :: rest =>
    let cont (level : Nat) : List Bytes :=
      match splitAmble level rest with
      | [] => [[c]]
      | p :: ps => (c :: p) :: ps
    if c = cBS then
      match rest with
      | [] => [[c]]
      | d :: rest' =>
        match splitAmble level rest' with
        | [] => [[c, d]]
        | p :: ps => (c :: d :: p) :: ps
    else if c = cDollar ∧ rest.head? = some cLB then
      match rest with
      | [] => [[c]]
      | d :: rest' =>
        match splitAmble (level + 1) rest' with
        | [] => [[c, d]]
        | p :: ps => (c :: d :: p) :: ps
    else if c = cComma ∧ level = 0 then [] :: splitAmble 0 rest
    else if c = cLB then cont (level + 1)
    else if c = cRB ∧ level > 0 then cont (level - 1)
    else cont level

/-- `strstr(text, "..")`. -/
def findDots : Bytes → Option (Bytes × Bytes)
  | [] => none
  | [_] => none
  | c :: d :: rest =>
    if c = cDot ∧ d = cDot then some ([], rest)
    else match findDots (d :: rest) with
      | none => none
      | some (a, b) => some (c :: a, b)

/-- A sequence term accepted by `expand_seqterm`, with ideal integers. -/
structure SeqSpec where
  chars : Bool
  «from» : Int
  to : Int
  step : Nat         -- |incr|, 1 when incr = 0
  width : Nat        -- 0: no zero padding
deriving Repr

/-- `strtoimax` prefix: optional sign, at least one digit; value (unbounded) and the rest. -/
def numPrefix (s : Bytes) : Option (Int × Bytes) :=
  let (neg, ds) := match s with
    | c :: r => if c = cMinus then (true, r) else if c = cPlus then (false, r) else (false, s)
    | [] => (false, s)
  let digs := ds.takeWhile isDigit
  if digs = [] then none
  else
    let n : Int := digitsVal digs
    some (if neg then -n else n, ds.dropWhile isDigit)

def inI64 (v : Int) : Bool := decide (minI64 ≤ v ∧ v ≤ maxI64)

/-- bash's zero-padding test on one endpoint: `0…` of length > 1 or `-0…` of length > 2. -/
def zeroPadded (s : Bytes) : Bool :=
  match s with
  | c :: d :: rest =>
    (c = cZero) || (c = cMinus && d = cZero && rest ≠ [])
  | _ => false

/-- `expand_seqterm` (validity and parameters; `none` = not a sequence, left literal). -/
def seqTerm (amble : Bytes) : Option SeqSpec :=
  match findDots amble with
  | none => none
  | some (lhs, rhs) =>
    if lhs = [] ∨ rhs = [] then none
    else
      -- lhs: legal_number or a single letter
      let lhsT : Option (Bool × Int) :=
        match numPrefix lhs with
        | some (v, []) => if inI64 v then some (false, v) else none
        | some (_, _ :: _) => none
        | none =>
          match lhs with
          | [c] => if asciiLetter c then some (true, (c.toNat : Int)) else none
          | _ => none
      -- rhs: number or letter, followed by nothing or `..incr`
      let rhsT : Option (Bool × Int × Nat × Bytes) :=   -- chars, value, length of the term, ep
        match numPrefix rhs with
        | some (v, ep) =>
          if inI64 v ∧ (ep = [] ∨ ep.head? = some cDot) then some (false, v, rhs.length - ep.length, ep)
          else none
        | none =>
          match rhs with
          | c :: ep =>
            if asciiLetter c ∧ (ep = [] ∨ ep.head? = some cDot) then some (true, (c.toNat : Int), 1, ep)
            else none
          | [] => none
      match lhsT, rhsT with
      | some (lc, lv), some (rc, rv, rlen, ep) =>
        let incr : Option Int :=
          match ep with
          | [] => some 1
          | a :: b :: more =>
            if a = cDot ∧ b = cDot ∧ more ≠ [] then
              match numPrefix more with
              | some (v, []) => if inI64 v then some v else none
              | _ => none
            else none
          | _ => none
        match incr with
        | none => none
        | some inc =>
          if lc ≠ rc then none
          else
            let rterm := rhs.take rlen
            let width :=
              if !lc && (zeroPadded lhs || zeroPadded rterm) then max lhs.length rlen else 0
            some { chars := lc, «from» := lv, to := rv,
                   step := idealStep inc, width := width }
      | _, _ => none

def SeqSpec.count (s : SeqSpec) : Nat := (s.to - s.from).natAbs / s.step + 1

def SeqSpec.fmt (s : SeqSpec) (n : Int) : Bytes :=
  if s.chars then runeBytes n
  else if s.width > 0 then formatPad s.width n
  else formatInt n

def SeqSpec.list (s : SeqSpec) : List Bytes := (idealSeq s.from s.to s.step).map s.fmt

/-- `brace_expand`. -/
def bashRec : Nat → Bytes → List Bytes
  | 0, text => [text]
  | fuel + 1, text =>
    match findBrace (text.length + 1) true text with
    | none => [text]
    | some (pre, amble, post) =>
      let tack : List Bytes :=
        if hasComma amble then (splitAmble 0 amble).flatMap (bashRec fuel)
        else match seqTerm amble with
          | some s => s.list
          | none => [cLB :: (amble ++ [cRB])]
      let postL : List Bytes := if post = [] then [[]] else bashRec fuel post
      cross (tack.map fun t => pre ++ t) postL

/-- bash's brace expansion of a literal word (before quote removal). -/
def bashBraces (text : Bytes) : List Bytes := bashRec (text.length + 1) text

/-- `(bashBraces text).length`, computed without building the list. -/
def bashCountRec : Nat → Bytes → Nat
  | 0, _ => 1
  | fuel + 1, text =>
    match findBrace (text.length + 1) true text with
    | none => 1
    | some (_, amble, post) =>
      let tack : Nat :=
        if hasComma amble then ((splitAmble 0 amble).map (bashCountRec fuel)).sum
        else match seqTerm amble with
          | some s => s.count
          | none => 1
      let postL : Nat := if post = [] then 1 else bashCountRec fuel post
      tack * postL

def bashCount (text : Bytes) : Nat := bashCountRec (text.length + 1) text

/-- What `printf '%s\n' word` shows: brace expansion, quote removal, empty words dropped. -/
def bashFields (text : Bytes) : List Bytes :=
  ((bashBraces text).map unescape).filter fun f => f ≠ []

/-! ## Well-formed brace expressions (the class `bash_equiv_partial` covers) -/

/-- Bytes that are never special to brace expansion, in Go or in bash. -/
def safeByte (b : UInt8) : Bool :=
  b ≠ cLB && b ≠ cRB && b ≠ cComma && b ≠ cDot && b ≠ cBS && b ≠ cDollar

/-- A non-empty literal of safe bytes. -/
def safeLit (v : Bytes) : Bool := !v.isEmpty && v.all safeByte

/-- A literal inside a group: safe bytes and single dots (a dot is followed by a non-dot byte of
    the same literal). -/
def innerOk : Bytes → Bool
  | [] => true
  | [c] => safeByte c
  | c :: d :: r => (safeByte c || decide (c = cDot ∧ d ≠ cDot)) && innerOk (d :: r)

/-- A non-empty literal of safe bytes and single interior/leading dots. -/
def innerLit (v : Bytes) : Bool := !v.isEmpty && innerOk v

/-- The elems of a sequence node as written `{a..b}` / `{a..b..c}`: single safe literals. -/
def seqShape (elems : List Word) : Bool :=
  elems.all fun e =>
    match e with
    | [.lit v] => safeLit v
    | _ => false

def headIsLit : List Part → Bool
  | .lit _ :: _ => true
  | _ => false

mutual
/-- Well-formed brace expression trees: literals are non-empty, made of safe bytes and never
    adjacent; a list group has at least two alternatives (possibly empty ones); a sequence group
    is `{x..y}` or `{x..y..z}` with endpoints that pass the validity test. -/
def canonPart : Part → Bool
  | .lit v => innerLit v
  | .brace seq elems =>
    if seq then seqValid elems && seqShape elems
    else decide (2 ≤ elems.length) && canonElems elems
def canon : List Part → Bool
  | [] => true
  | p :: ps => canonPart p && canon ps && !(p.isLit && headIsLit ps)
def canonElems : List (List Part) → Bool
  | [] => true
  | e :: es => canon e && canonElems es
end

/-- bash's `expand_seqterm` accepts the text of this sequence node with the parameters that
    `bracesSeqRec` computes (same kind, endpoints, padding width and step). -/
def seqAgree (elems : List Word) : Bool :=
  match seqTerm (joinSep dots (renderElems elems)), seqParams elems with
  | some s, some sp =>
    s.chars == sp.chars && s.from == sp.from && s.to == sp.to && s.width == sp.width &&
      s.step == idealStep (seqRaw elems)
  | _, _ => false

mutual
/-- Every sequence node of the tree satisfies `seqAgree`. -/
def seqsAgreePart : Part → Bool
  | .lit _ => true
  | .brace seq elems => if seq then seqAgree elems else seqsAgreeElems elems
def seqsAgree : List Part → Bool
  | [] => true
  | p :: ps => seqsAgreePart p && seqsAgree ps
def seqsAgreeElems : List (List Part) → Bool
  | [] => true
  | e :: es => seqsAgree e && seqsAgreeElems es
end

end ShVerif.C16
