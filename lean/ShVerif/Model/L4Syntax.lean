/-
  L4 "syntax core" — fragment F0 of the mvdan/sh syntax tree with positions, the model printer
  shaped like syntax/printer.go and the model lexer + parser shaped like syntax/lexer.go and
  syntax/parser.go, restricted to the fragment.  Core Lean only.

  Fragment F0: literal words over a safe alphabet, single quotes, simple commands, `;`/newline
  lists, `&&` `||` `|` `!` `&`, subshell `( )`, block `{ }`.

  Shared by C01 (round trip) and C02 (idempotence); other L4 properties import it read-only.

  Printer.  `P` is the printer state of printer.go restricted to what F0 reads or writes:
  `wantSpace`, `wantNewline`, `mustNewline`, `wroteSemi`, `firstLine`, `line`, `lastLevel`,
  `level`, `levelIncs`, `nestedBinary` and the options.  KeepPadding is not modelled (the model
  is the printer with `keepPadding = false`: `cols.lineStart` and `cols.column` stay zero, so
  `spacePad` degenerates to "write the pending blank").  Comments and here-documents are outside
  F0, so `pendingComments`/`pendingHdocs` are always empty and `flushHeredocs`/`flushComments`
  are no-ops.  Output goes through text/tabwriter in Go; with no unescaped tab ever written
  (indentation tabs are wrapped in tabwriter.Escape and StripEscape removes the escapes) the
  tabwriter is the identity, which the correspondence check validates.

  The model writes *pieces* instead of raw bytes: every `WriteByte/WriteString` of printer.go is
  one `Piece`, a token (`tok`) or layout (`gap`); `render` concatenates them.  The bytes are the
  same; the segmentation is what the proofs use.
-/
import ShVerif.Base.Hex
namespace ShVerif.L4

/-! ## Positions and the F0 tree -/

/-- `syntax.Pos`: offset, line, column.  `Pos{}` (all zero) is the invalid position. -/
structure Pos where
  offs : Nat
  line : Nat
  col : Nat
deriving DecidableEq, Repr, Inhabited

def Pos.zero : Pos := ⟨0, 0, 0⟩

/-- `Pos.IsValid`: `lineCol != 0` (offsets never overflow in the model). -/
def Pos.valid (p : Pos) : Bool := p.line != 0 || p.col != 0

inductive WordPart
  /-- `*Lit{ValuePos, ValueEnd, Value}` -/
  | lit (pos stop : Pos) (val : Bytes)
  /-- `*SglQuoted{Left, Right, Value}` with `Dollar = false` -/
  | sgl (left right : Pos) (val : Bytes)
deriving DecidableEq, Repr, Inhabited

/-- `*Word` -/
structure Word where
  parts : List WordPart
deriving DecidableEq, Repr, Inhabited

/-- `BinCmdOperator` restricted to `&&`, `||`, `|`. -/
inductive BinOp
  | andStmt | orStmt | pipe
deriving DecidableEq, Repr, Inhabited

mutual
/-- `*Stmt{Position, Semicolon, Negated, Background, Cmd}` (no comments, no redirections). -/
inductive Stmt
  | mk (pos semi : Pos) (neg bg : Bool) (cmd : Cmd)
/-- `Command`: `*CallExpr` (no assignments), `*Subshell`, `*Block`, `*BinaryCmd`. -/
inductive Cmd
  | call (args : List Word)
  | subshell (lp rp : Pos) (ss : Stmts)
  | block (lb rb : Pos) (ss : Stmts)
  | binary (opPos : Pos) (op : BinOp) (x y : Stmt)
/-- `[]*Stmt` -/
inductive Stmts
  | nil
  | cons (s : Stmt) (rest : Stmts)
end

/-- `*File` -/
structure File where
  stmts : Stmts

def Stmts.length : Stmts → Nat
  | .nil => 0
  | .cons _ r => r.length + 1

def Stmts.toList : Stmts → List Stmt
  | .nil => []
  | .cons s r => s :: r.toList

def Stmts.ofList : List Stmt → Stmts
  | [] => .nil
  | s :: r => .cons s (Stmts.ofList r)

def Stmts.append : Stmts → Stmts → Stmts
  | .nil, b => b
  | .cons s r, b => .cons s (r.append b)

def Stmts.head? : Stmts → Option Stmt
  | .nil => none
  | .cons s _ => some s

def Stmts.last? : Stmts → Option Stmt
  | .nil => none
  | .cons s .nil => some s
  | .cons _ r => r.last?

/-! ### `Pos()` / `End()` of nodes.nodes.go, lines only where the printer reads only lines -/

def WordPart.pos : WordPart → Pos
  | .lit p _ _ => p
  | .sgl l _ _ => l

/-- `End()`: `Lit.ValueEnd`; `posAddCol(SglQuoted.Right, 1)` (same line). -/
def WordPart.stop : WordPart → Pos
  | .lit _ e _ => e
  | .sgl _ r _ => if r.valid then { r with offs := r.offs + 1, col := if r.col > 0 then r.col + 1 else 0 } else r

/-- `Word.Pos()` = `Parts[0].Pos()`; Go panics on an empty word (index out of range). -/
def Word.pos? (w : Word) : Option Pos := w.parts.head?.map WordPart.pos

def Word.stop? (w : Word) : Option Pos := w.parts.getLast?.map WordPart.stop

def BinOp.str : BinOp → Bytes
  | .andStmt => [38, 38]
  | .orStmt => [124, 124]
  | .pipe => [124]

mutual
/-- `Stmt.Pos()` -/
def Stmt.pos : Stmt → Pos
  | .mk p _ _ _ _ => p
/-- `Command.Pos()`; `none` where Go would panic (`c.Args[0]` of an empty call). -/
def Cmd.pos? : Cmd → Option Pos
  | .call args => match args with
    | [] => none
    | w :: _ => w.pos?
  | .subshell lp _ _ => some lp
  | .block lb _ _ => some lb
  | .binary _ _ x _ => some x.pos
end

mutual
/-- Line of `Stmt.End()`: the semicolon's line if valid, else the command's end line
    (`Negated` only matters when `Cmd == nil`, which F0 excludes). -/
def Stmt.endLine : Stmt → Nat
  | .mk _ semi _ _ cmd => if semi.valid then semi.line else cmd.endLine
def Cmd.endLine : Cmd → Nat
  | .call args => match args.getLast? with
    | some w => match w.stop? with
      | some e => e.line
      | none => 0
    | none => 0
  | .subshell _ rp _ => rp.line
  | .block _ rb _ => rb.line
  | .binary _ _ _ y => y.endLine
end

/-- `stmtsEnd(stmts, nil).Line()` -/
def Stmts.endLine (ss : Stmts) : Nat :=
  match ss.last? with
  | some s => s.endLine
  | none => 0

/-! ## Options and printer state -/

structure Opts where
  indent : Nat := 0
  binNextLine : Bool := false
  swtCaseIndent : Bool := false
  spaceRedirects : Bool := false
  keepPadding : Bool := false
  minify : Bool := false
  singleLine : Bool := false
  funcNextLine : Bool := false
deriving DecidableEq, Repr, Inhabited

/-- `wantSpaceState` -/
inductive WS
  | notRequired | required | written
deriving DecidableEq, Repr, Inhabited

/-- number of trailing backslashes -/
def trailingBackslashes (v : Bytes) : Nat := (v.reverse.takeWhile (· == 92)).length

/-- the bytes `p.wordPart` writes for a part -/
def WordPart.bytes : WordPart → Bytes
  | .lit _ _ v => if trailingBackslashes v % 2 = 1 then v ++ [92] else v
  | .sgl _ _ v => 39 :: (v ++ [39])

/-- the bytes `p.wordParts` writes for a word (nothing is written between the parts in F0) -/
def wordBytes (parts : List WordPart) : Bytes := parts.flatMap WordPart.bytes

/-- One write of the printer: a word (all its parts, written back to back), an operator or
    reserved word, or a piece of layout. -/
inductive Piece
  | word (parts : List WordPart)
  | op (b : Bytes)
  | gap (b : Bytes)
deriving DecidableEq, Repr, Inhabited

def Piece.bytes : Piece → Bytes
  | .word parts => wordBytes parts
  | .op b => b
  | .gap b => b

def render (ps : List Piece) : Bytes := ps.flatMap Piece.bytes

structure P where
  o : Opts
  /-- pieces written so far, most recent first -/
  out : List Piece := []
  wantSpace : WS := .written
  wantNewline : Bool := false
  mustNewline : Bool := false
  wroteSemi : Bool := false
  firstLine : Bool := true
  line : Nat := 0
  lastLevel : Nat := 0
  level : Nat := 0
  levelIncs : List Bool := []
  nestedBinary : Bool := false
  /-- set where Go would panic (index out of range on `levelIncs`, `Parts[0]`, `Args[0]`) -/
  panicked : Bool := false
deriving Repr, Inhabited

/-- `Printer.reset` (which also clears `wroteSemi`). -/
def P.init (o : Opts) : P := { o := o, firstLine := !o.minify }

def P.tok (p : P) (b : Bytes) : P := { p with out := .op b :: p.out }
def P.gapw (p : P) (b : Bytes) : P := { p with out := .gap b :: p.out }
def P.panic (p : P) : P := { p with panicked := true }

/-- `p.space()` -/
def P.space (p : P) : P := { p.gapw [32] with wantSpace := .written }

/-- `p.spacePad(pos)` with `keepPadding = false`. -/
def P.spacePad (p : P) : P :=
  if p.wantSpace = .required then { p.gapw [32] with wantSpace := .written } else p

/-- `p.wantsNewline(pos, escapingNewline)`; `posLine` is `pos.Line()`. -/
def P.wantsNewline (p : P) (posLine : Nat) (escapingNewline : Bool) : Bool :=
  if p.mustNewline then true
  else if p.o.singleLine then false
  else if escapingNewline && p.o.minify then false
  else p.wantNewline || posLine > p.line

def P.advanceLine (p : P) (line : Nat) : P := { p with line := max p.line line }

/-- `p.indent()` -/
def P.indent (p : P) : P :=
  if p.o.minify then p
  else
    let p := { p with lastLevel := p.level }
    if p.level = 0 then p
    else if p.o.indent = 0 then p.gapw (List.replicate p.level 9)
    else p.gapw (List.replicate (p.o.indent * p.level) 32)

/-- `p.bslashNewl()` -/
def P.bslashNewl (p : P) : P :=
  let p := if p.wantSpace = .required then p.space else p
  let p := p.gapw [92, 10]
  ({ p with line := p.line + 1 }).indent

/-- `p.spacedString(s, pos)` -/
def P.spacedString (p : P) (s : Bytes) : P :=
  { (p.spacePad.tok s) with wantSpace := .required }

/-- `p.spacedToken(s, pos)` -/
def P.spacedToken (p : P) (s : Bytes) : P :=
  if p.o.minify then { (p.tok s) with wantSpace := .notRequired }
  else { (p.spacePad.tok s) with wantSpace := .required }

/-- `p.incLevel()` -/
def P.incLevel (p : P) : P :=
  if p.level ≤ p.lastLevel || p.levelIncs.isEmpty then
    { p with level := p.level + 1, levelIncs := true :: p.levelIncs }
  else match p.levelIncs with
    | true :: rest => { p with levelIncs := true :: false :: rest }
    | _ => { p with levelIncs := false :: p.levelIncs }

/-- `p.decLevel()`; Go panics on an empty `levelIncs`. -/
def P.decLevel (p : P) : P :=
  match p.levelIncs with
  | [] => p.panic
  | inc :: rest => { p with level := if inc then p.level - 1 else p.level, levelIncs := rest }

/-- `p.newline(pos)` (no pending here-documents or comments in F0) -/
def P.newline (p : P) (posLine : Nat) : P :=
  ({ p.gapw [10] with wantSpace := .written, wantNewline := false, mustNewline := false }).advanceLine posLine

/-- `p.newlines(pos)` -/
def P.newlines (p : P) (posLine : Nat) : P :=
  if p.firstLine then { p with firstLine := false }
  else if !p.wantsNewline posLine false then p
  else
    let p := { p.gapw [10] with wantSpace := .written, wantNewline := false, mustNewline := false }
    let p := if posLine > p.line + 1 && !p.o.minify then p.gapw [10] else p
    (p.advanceLine posLine).indent

/-- `p.rightParen(pos)` -/
def P.rightParen (p : P) (posLine : Nat) : P :=
  let p := if !p.o.minify then p.newlines posLine else p
  { (p.tok [41]) with wantSpace := .required }

/-- `p.semiRsrv(s, pos)` -/
def P.semiRsrv (p : P) (s : Bytes) (posLine : Nat) : P :=
  let p :=
    if p.wantsNewline posLine false then p.newlines posLine
    else
      let p := if !p.wroteSemi then p.tok [59] else p
      if !p.o.minify then p.spacePad else p
  { (p.tok s) with wantSpace := .required }

/-! ## Words -/

/-- the line bookkeeping of `p.wordPart(wp, next)` followed by `p.advanceLine(wp.End().Line())`
    (the bytes are written by `P.wordParts` in one piece) -/
def P.wordPart (p : P) (wp : WordPart) : P :=
  match wp with
  | .lit _ e _ => p.advanceLine e.line
  | .sgl _ r _ => (p.advanceLine r.line).advanceLine wp.stop.line

/-- the loop of `p.wordParts(wps, false)` -/
def P.wordPartsLoop (p : P) : List WordPart → P
  | [] => p
  | wp :: rest => (p.wordPart wp).wordPartsLoop rest

/-- `p.wordParts(wps, quoted=false)`; Go panics on `wps[0]` when empty. -/
def P.wordParts (p : P) (wps : List WordPart) : P :=
  match wps with
  | [] => p.panic
  | wp :: _ =>
    let p := if !p.o.singleLine && wp.pos.line > p.line then p.bslashNewl else p
    ({ p with out := .word wps :: p.out }).wordPartsLoop wps

/-- `p.word(w)` -/
def P.word (p : P) (w : Word) : P := { (p.wordParts w.parts) with wantSpace := .required }

/-- the loop of `p.wordJoin(ws)` with its local `anyNewline` -/
def P.wordJoinLoop (p : P) (anyNewline : Bool) : List Word → P × Bool
  | [] => (p, anyNewline)
  | w :: rest =>
    match w.pos? with
    | none => (p.panic, anyNewline)
    | some pos =>
      let (p, anyNewline) :=
        if pos.line > p.line && !p.o.singleLine then
          let p := if !anyNewline then p.incLevel else p
          (p.bslashNewl, true)
        else (p, anyNewline)
      (p.spacePad.word w).wordJoinLoop anyNewline rest

/-- `p.wordJoin(ws)` -/
def P.wordJoin (p : P) (ws : List Word) : P :=
  let (p, anyNewline) := p.wordJoinLoop false ws
  if anyNewline then p.decLevel else p

/-! ## Statements and commands -/

mutual
/-- `startsWithLparen(node)` for `*Stmt` -/
def Stmt.startsWithLparen : Stmt → Bool
  | .mk _ _ _ _ cmd => cmd.startsWithLparen
def Cmd.startsWithLparen : Cmd → Bool
  | .binary _ _ x _ => x.startsWithLparen
  | .subshell _ _ _ => true
  | _ => false
end

mutual
/-- `endsWithRparen(node)` for `*Stmt` (no redirections in F0) -/
def Stmt.endsWithRparen : Stmt → Bool
  | .mk _ _ _ bg cmd => if bg then false else cmd.endsWithRparen
def Cmd.endsWithRparen : Cmd → Bool
  | .binary _ _ _ y => y.endsWithRparen
  | .subshell _ _ _ => true
  | _ => false
end

def Cmd.isBinary : Cmd → Bool
  | .binary _ _ _ _ => true
  | _ => false

/-- `_, ok := s.Cmd.(*BinaryCmd)` -/
def Stmt.isBinaryCmd : Stmt → Bool
  | .mk _ _ _ _ c => c.isBinary

/-- `p.closingParen(stmts, nil, openPos, closePos)` before its `rightParen` call:
    the `wantSpace` decision. -/
def P.closingParenSpace (p : P) (ss : Stmts) (openLine closeLine : Nat) : P :=
  let single := match ss with
    | .cons s .nil => s.endsWithRparen
    | _ => false
  let p := { p with wantSpace := .notRequired }
  let p := if single && (p.o.singleLine || openLine == closeLine) then { p with wantSpace := .required } else p
  p.spacePad

/-- `p.stmtList(stmts, nil)` around its loop (`loop` prints the statements) -/
def P.stmtListWith (p : P) (ss : Stmts) (loop : P → P) : P :=
  let sep := p.wantNewline || (match ss with
    | .nil => false
    | .cons s _ => s.pos.line > p.line)
  let p := loop p
  match ss with
  | .cons _ .nil => if !sep then { p with wantNewline := false } else p
  | _ => p

/-- `p.nestedStmts(stmts, nil, closing)` around the statement loop -/
def P.nestedStmtsWith (p : P) (ss : Stmts) (closing : Pos) (loop : P → P) : P :=
  let p := p.incLevel
  let p :=
    if ss.length > 1 then { p with wantNewline := true }
    else if closing.line > p.line && ss.length > 0 && ss.endLine < closing.line then { p with wantNewline := true }
    else p
  let p := p.stmtListWith ss loop
  p.decLevel

/-! The recursive printer functions are split into their non-recursive segments (`stmtPre`,
    `stmtEnd`, `subshellOpen`, `binaryOp`, `binaryEnd`, `stmtSep`), so that each segment has its
    own lemmas; `P.stmt`, `P.command`, `P.stmtListLoop` only chain them. -/

/-- `p.stmt(s)` up to the `p.command` call -/
def P.stmtPre (p : P) (neg : Bool) : P :=
  let p := { p with wroteSemi := false }
  if neg then p.spacedString [33] else p

/-- `p.stmt(s)` after the `p.command` call (no redirections in F0) -/
def P.stmtEnd (p : P) (semi : Pos) (bg : Bool) : P :=
  let p := p.incLevel
  let sep := semi.valid && semi.line > p.line && !p.o.singleLine
  let p :=
    if sep || bg then
      let p := if sep then p.bslashNewl else if !p.o.minify then p.space else p
      let p := if bg then p.tok [38] else p.tok [59]
      { p with wroteSemi := true, wantSpace := .required }
    else
      -- a terminator written for a nested statement (`{ a & }`) says nothing about this one
      { p with wroteSemi := false }
  p.decLevel

/-- `case *Subshell:` up to the `nestedStmts` call -/
def P.subshellOpen (p : P) (lp : Pos) (ss : Stmts) : P :=
  let p := p.tok [40]
  let p :=
    match ss with
    | .nil => { p with wantSpace := .required }
    | .cons s rest =>
      if s.startsWithLparen then
        let p := { p with wantSpace := .required }
        if (lp.line != s.pos.line || rest.length > 0) && !p.o.singleLine then
          let p := { p with wantSpace := .notRequired }
          if p.o.minify then { p with mustNewline := true } else p
        else p
      else { p with wantSpace := .notRequired }
  p.spacePad

/-- `case *BinaryCmd:` between `p.stmt(cmd.X)` and `p.stmt(cmd.Y)`; the Boolean is the local
    `indent` (false on the same-line path, which leaves `nestedBinary` untouched) -/
def P.binaryOp (p : P) (opPos : Pos) (op : BinOp) (yLine : Nat) (yIsBinary : Bool) : P × Bool × Bool :=
  if p.o.minify || p.o.singleLine || yLine ≤ p.line then
    (((p.spacedToken op.str).advanceLine yLine), false, false)
  else
    let indent := !p.nestedBinary
    let p := if indent then p.incLevel else p
    let p :=
      if p.o.binNextLine then p.bslashNewl.spacedToken op.str
      else (((p.spacedToken op.str).advanceLine opPos.line).newline 0).indent
    let p := p.advanceLine yLine
    ({ p with nestedBinary := yIsBinary }, indent, true)

/-- `case *BinaryCmd:` after `p.stmt(cmd.Y)`; `multi` says whether the multi-line path was taken -/
def P.binaryEnd (p : P) (indent multi : Bool) : P :=
  if multi then
    let p := if indent then p.decLevel else p
    { p with nestedBinary := false }
  else p

/-- the body of the `stmtList` loop up to the `p.stmt(s)` call -/
def P.stmtSep (p : P) (first : Bool) (posLine : Nat) : P :=
  let p :=
    if !first && p.o.singleLine && p.wantNewline && !p.wroteSemi then
      { (p.tok [59]) with wantSpace := .required }
    else p
  let p := if p.mustNewline || !p.o.minify || p.wantSpace = .required then p.newlines posLine else p
  p.advanceLine posLine

mutual
/-- `p.stmt(s)` -/
def P.stmt (p : P) : Stmt → P
  | .mk _ semi neg bg cmd => (((p.stmtPre neg).command cmd).stmtEnd semi bg)

/-- `p.command(cmd, nil)` -/
def P.command (p : P) : Cmd → P
  | .call args =>
    match args with
    | [] => p.panic
    | w :: rest =>
      match w.pos? with
      | none => p.panic
      | some pos =>
        let p := (p.advanceLine pos.line).spacePad
        -- `p.assigns(cmd.Assigns)` with no assignments is `incLevel(); decLevel()`, which is
        -- not neutral: it can take over the enclosing increment and undo it early
        let p := p.incLevel.decLevel
        if rest.isEmpty then p.wordJoin [w]
        else (p.wordJoin [w]).wordJoin rest
  | .block lb rb ss =>
    let p := (p.advanceLine lb.line).spacePad
    let p := p.tok [123]
    let p := { p with wroteSemi := true, wantSpace := .required }
    let p := { p with wantNewline := p.wantNewline || p.o.funcNextLine }
    let p := p.nestedStmtsWith ss rb (fun q => q.stmtListLoop true ss)
    -- `{}` is a word
    let p := if p.o.minify && ss.length == 0 then p.space else p
    p.semiRsrv [125] rb.line
  | .subshell lp rp ss =>
    let p := (p.advanceLine lp.line).spacePad
    let p := p.subshellOpen lp ss
    let p := p.nestedStmtsWith ss rp (fun q => q.stmtListLoop true ss)
    let p := p.closingParenSpace ss lp.line rp.line
    p.rightParen rp.line
  | .binary opPos op x y =>
    let p := (p.advanceLine x.pos.line).spacePad
    let p := p.stmt x
    let r := p.binaryOp opPos op y.pos.line y.isBinaryCmd
    (r.1.stmt y).binaryEnd r.2.1 r.2.2

/-- the loop of `p.stmtList(stmts, nil)`; `first` is `i == 0` -/
def P.stmtListLoop (p : P) (first : Bool) : Stmts → P
  | .nil => p
  | .cons s rest =>
    let p := (p.stmtSep first s.pos.line).stmt s
    let p := { p with wantNewline := true }
    p.stmtListLoop false rest
end

/-- `p.stmtList(stmts, nil)` -/
def P.stmtList (p : P) (ss : Stmts) : P := p.stmtListWith ss (fun q => q.stmtListLoop true ss)

/-- `p.nestedStmts(stmts, nil, closing)` -/
def P.nestedStmts (p : P) (ss : Stmts) (closing : Pos) : P :=
  p.nestedStmtsWith ss closing (fun q => q.stmtListLoop true ss)

/-! ## `Printer.Print` -/

inductive PrintErr
  /-- "Minify and SingleLine together are not supported yet" -/
  | minifySingleLine
  /-- a Go panic (`index out of range`) -/
  | panic
deriving DecidableEq, Repr, Inhabited

def P.finish (p : P) : Except PrintErr Bytes :=
  if p.panicked then .error .panic else .ok (render p.out.reverse)

def refuse (o : Opts) : Bool := o.minify && o.singleLine

/-- `Print(w, *File)` -/
def printFile (o : Opts) (f : File) : Except PrintErr Bytes :=
  if refuse o then .error .minifySingleLine
  else (((P.init o).stmtList f.stmts).newline 0).finish

/-- `Print(w, *Stmt)` : `p.stmtList([]*Stmt{node}, nil)` -/
def printStmt (o : Opts) (s : Stmt) : Except PrintErr Bytes :=
  if refuse o then .error .minifySingleLine
  else ((P.init o).stmtList (.cons s .nil)).finish

/-- `Print(w, Command)` : `p.command(node, nil)` -/
def printCmd (o : Opts) (c : Cmd) : Except PrintErr Bytes :=
  if refuse o then .error .minifySingleLine
  else (({ (P.init o) with firstLine := false }).command c).finish

/-- `Print(w, *Word)` : `p.line = node.Pos().Line(); p.word(node)` -/
def printWord (o : Opts) (w : Word) : Except PrintErr Bytes :=
  if refuse o then .error .minifySingleLine
  else match w.pos? with
    | none => .error .panic
    | some pos => (({ (P.init o) with line := pos.line }).word w).finish


/-! ## Lexer (syntax/lexer.go restricted to F0)

  The fragment needs no lexer modes: inside F0 every byte is lexed in the `noState` quote state,
  and a single-quoted string is read in one go.  Whatever the fragment does not cover — any byte
  outside the safe alphabet, `\r`, NUL, comments, `;;`, `&>`, `|&`, `((`, `()`, a word glued to
  `(`, an escaped newline inside a word, reserved words other than `{ } !` in command position —
  makes the model answer `outside`; the harness then counts the input as out-of-fragment. -/

/-- Literal bytes with no special meaning to the lexer in any variant: letters, digits and
    `% + , - . / : @ ^ _`. -/
def isSafe (b : UInt8) : Bool :=
  (97 ≤ b && b ≤ 122) || (65 ≤ b && b ≤ 90) || (48 ≤ b && b ≤ 57) ||
  b == 37 || b == 43 || b == 44 || b == 45 || b == 46 || b == 47 || b == 58 || b == 64 || b == 94 || b == 95

/-- Bytes allowed between single quotes in F0: printable ASCII except `'` and `\`, and newline. -/
def isSglSafe (b : UInt8) : Bool :=
  (32 ≤ b && b ≤ 126 && b != 39 && b != 92) || b == 10

/-- Bytes that end a word: blank, tab, newline, `;`, `&`, `|`, `)`. -/
def isDelim (b : UInt8) : Bool :=
  b == 32 || b == 9 || b == 10 || b == 59 || b == 38 || b == 124 || b == 41

/-- `nextPos` after reading byte `b` at `p` (`rune()`: a newline bumps the line and resets the
    column for the *next* byte). -/
def Pos.adv (p : Pos) (b : UInt8) : Pos :=
  if b == 10 then ⟨p.offs + 1, p.line + 1, 1⟩ else ⟨p.offs + 1, p.line, p.col + 1⟩

inductive Tok
  | eof | newl | semi | amp | andAnd | orOr | pipe | lparen | rparen
  /-- a whole word; `lit` is its value when it is a single literal (`_LitWord`) -/
  | word (w : Word) (lit : Option Bytes)
  /-- something outside F0 -/
  | outside
  /-- `reached EOF without closing quote '` -/
  | unclosedQuote
deriving DecidableEq, Repr, Inhabited

inductive LexMode
  | idle
  | lit (start : Pos) (acc : Bytes)
  | sgl (left : Pos) (acc : Bytes)
deriving Repr, Inhabited

inductive WordLex
  | done (parts : List WordPart) (stop : Pos) (rest : Bytes)
  | outside
  | unclosedQuote
deriving Repr, Inhabited

/-- closes the literal being read, if any; `acc` holds the parts in reverse -/
def closeLit (mode : LexMode) (pos : Pos) (acc : List WordPart) : List WordPart :=
  match mode with
  | .lit st a => .lit st pos a.reverse :: acc
  | _ => acc

/-- Reads one word (`wordParts` + `advanceLitNone` + the `sglQuote` case of `wordPart`). -/
def lexWord : Bytes → Pos → LexMode → List WordPart → WordLex
  | [], pos, .idle, acc => .done acc.reverse pos []
  | [], pos, .lit st a, acc => .done (WordPart.lit st pos a.reverse :: acc).reverse pos []
  | [], _, .sgl _ _, _ => .unclosedQuote
  | b :: rest, pos, .sgl left a, acc =>
    if b == 39 then lexWord rest (pos.adv b) .idle (.sgl left pos a.reverse :: acc)
    else if isSglSafe b then lexWord rest (pos.adv b) (.sgl left (b :: a)) acc
    else .outside
  | b :: rest, pos, .lit st a, acc =>
    if isSafe b then lexWord rest (pos.adv b) (.lit st (b :: a)) acc
    else if b == 39 then lexWord rest (pos.adv b) (.sgl pos []) (.lit st pos a.reverse :: acc)
    else if isDelim b then .done (WordPart.lit st pos a.reverse :: acc).reverse pos (b :: rest)
    else .outside
  | b :: rest, pos, .idle, acc =>
    if isSafe b then lexWord rest (pos.adv b) (.lit pos [b]) acc
    else if b == 39 then lexWord rest (pos.adv b) (.sgl pos []) acc
    else if isDelim b then .done acc.reverse pos (b :: rest)
    else .outside

/-- The blank-skipping loop at the start of `next()`; `skipNl` is `p.tok == _Newl` (consecutive
    newline tokens are merged). -/
def skipSpace (skipNl : Bool) : Bytes → Pos → Bytes × Pos
  | [], p => ([], p)
  | b :: rest, p =>
    if b == 32 || b == 9 then skipSpace skipNl rest (p.adv b)
    else if b == 10 && skipNl then skipSpace skipNl rest (p.adv b)
    else if b == 92 then
      match rest with
      | 10 :: rest' => skipSpace skipNl rest' ⟨p.offs + 2, p.line + 1, 1⟩
      | _ => (b :: rest, p)
    else (b :: rest, p)

def litWord? (parts : List WordPart) : Option Bytes :=
  match parts with
  | [.lit _ _ v] => some v
  | _ => none

/-- What `next()` leaves in `p.tok`/`p.pos`: token, its position, the unread input and the
    position of its first byte. -/
structure Lexed where
  tok : Tok
  pos : Pos
  rest : Bytes
  rpos : Pos
deriving Repr, Inhabited

def eofOrDelim : Bytes → Bool
  | [] => true
  | b :: _ => isDelim b

/-- `p.next()` -/
def nextTok (skipNl : Bool) (src : Bytes) (spos : Pos) : Lexed :=
  match skipSpace skipNl src spos with
  | ([], p) => ⟨.eof, p, [], p⟩
  | (b :: rest, p) =>
    let one (t : Tok) : Lexed := ⟨t, p, rest, p.adv b⟩
    let two (t : Tok) (r : Bytes) : Lexed := ⟨t, p, r, (p.adv b).adv b⟩
    if b == 10 then one .newl
    else if b == 59 then
      match rest with
      | 59 :: _ | 38 :: _ | 124 :: _ => one .outside
      | _ => one .semi
    else if b == 38 then
      match rest with
      | 38 :: r => two .andAnd r
      | 62 :: _ | 124 :: _ | 33 :: _ => one .outside
      | _ => one .amp
    else if b == 124 then
      match rest with
      | 124 :: r => two .orOr r
      | 38 :: _ => one .outside
      | _ => one .pipe
    else if b == 40 then
      match rest with
      | 40 :: _ | 41 :: _ => one .outside
      | _ => one .lparen
    else if b == 41 then one .rparen
    else if b == 123 || b == 125 || b == 33 then
      -- `{`, `}`, `!` are in F0 only as whole words
      if eofOrDelim rest then one (.word ⟨[.lit p (p.adv b) [b]]⟩ (some [b])) else one .outside
    else if isSafe b || b == 39 then
      match lexWord (b :: rest) p .idle [] with
      | .done parts stop r => ⟨.word ⟨parts⟩ (litWord? parts), p, r, stop⟩
      | .outside => one .outside
      | .unclosedQuote => one .unclosedQuote
    else one .outside

/-! ## Parser (syntax/parser.go restricted to F0) -/

/-- Language variant.  F0 is lexed and parsed identically in all five variants: everything
    variant-dependent (empty lists, `((`, `[[`, `function` …) is outside the fragment. -/
inductive Lang
  | bash | posix | mksh | bats | zsh
deriving DecidableEq, Repr, Inhabited

inductive ParseErr
  /-- the input uses something outside F0 -/
  | outside
  /-- a syntax error, with the Go error text it corresponds to -/
  | syntax (msg : String)
  | outOfFuel
deriving DecidableEq, Repr, Inhabited

/-! ### Token stream

  Inside F0 the lexer needs no feedback from the parser (there are no lexer modes), so `p.next()`
  is modelled in two layers: `lexAll` runs `nextTok` to the end of the input, and the parser walks
  the token list.  The only state `next()` carries from one token to the next is "the previous
  token was a newline" (newline tokens are merged). -/

abbrev TokPos := Tok × Pos

/-- all tokens of the input, ending in `eof` (or in the first `outside` / `unclosedQuote`) -/
def lexAllF : Nat → Bool → Bytes → Pos → List TokPos
  | 0, _, _, _ => []
  | fuel + 1, skipNl, src, spos =>
    let l := nextTok skipNl src spos
    match l.tok with
    | .eof => [(.eof, l.pos)]
    | .outside => [(.outside, l.pos)]
    | .unclosedQuote => [(.unclosedQuote, l.pos)]
    | t => (t, l.pos) :: lexAllF fuel (t == .newl) l.rest l.rpos

/-- every token consumes at least one byte, so `|src| + 1` steps reach the end (`lexAll_fuel`) -/
def lexAll (src : Bytes) : List TokPos := lexAllF (src.length + 1) false src ⟨0, 1, 1⟩

/-- parser state: the unread tokens; the current token `p.tok` is the head -/
structure PS where
  toks : List TokPos
deriving Repr, Inhabited

def PS.tok (ps : PS) : Tok :=
  match ps.toks with
  | [] => .eof
  | (t, _) :: _ => t

def PS.pos (ps : PS) : Pos :=
  match ps.toks with
  | [] => Pos.zero
  | (_, p) :: _ => p

/-- `p.next()` -/
def PS.next (ps : PS) : PS := ⟨ps.toks.tail⟩

/-- `p.got(_Newl)` -/
def PS.gotNewl (ps : PS) : Bool × PS := if ps.tok == .newl then (true, ps.next) else (false, ps)

/-- Reserved words that start a construct outside F0 when they are the first word of a command
    (in some variant). -/
def outsideKeywords : List String :=
  ["if", "then", "elif", "else", "fi", "while", "until", "do", "done", "for", "case", "esac",
   "select", "function", "[[", "]]", "let", "declare", "local", "export", "readonly", "typeset",
   "nameref", "time", "coproc", "@test", "{}"]

def isOutsideKeyword (v : Bytes) : Bool := outsideKeywords.any fun k => bytesOfString k == v

/-- the token is the literal word `v` (`p.tok == _LitWord && p.val == v`) -/
def Tok.isLit (t : Tok) (v : Bytes) : Bool :=
  match t with
  | .word _ (some v') => v' == v
  | _ => false

/-- `p.stopToken()` -/
def Tok.isStop : Tok → Bool
  | .eof | .newl | .semi | .amp | .pipe | .andAnd | .orOr | .rparen => true
  | _ => false

/-- The argument loop of `callExpr`; structurally recursive on a fuel that bounds the number of
    words.  Returns the words in order and the state at the first token that is not a word. -/
def callArgs : Nat → Bool → PS → List Word → Except ParseErr (List Word × PS)
  | 0, _, _, _ => .error .outOfFuel
  | fuel + 1, inSub, ps, acc =>
    match ps.tok with
    | .eof | .newl | .semi | .amp | .pipe | .andAnd | .orOr => .ok (acc.reverse, ps)
    | .rparen =>
      if inSub then .ok (acc.reverse, ps)
      else .error (.syntax "a command can only contain words and redirects")
    | .word w lit =>
      match lit with
      | some v =>
        if v == [123] || v == [125] || v == [33] then .error .outside
        else callArgs fuel inSub ps.next (w :: acc)
      | none => callArgs fuel inSub ps.next (w :: acc)
    | .lparen => .error .outside
    | .outside => .error .outside
    | .unclosedQuote => .error (.syntax "reached EOF without closing quote '")

def mkStmt (pos : Pos) (neg : Bool) (cmd : Cmd) : Stmt := .mk pos Pos.zero neg false cmd

def Stmt.negated : Stmt → Bool
  | .mk _ _ n _ _ => n
def Stmt.setNeg : Stmt → Bool → Stmt
  | .mk p s _ b c, n => .mk p s n b c
def Stmt.setEnd : Stmt → Pos → Bool → Stmt
  | .mk p _ n _ c, semi, bg => .mk p semi n bg c
def Stmt.semi : Stmt → Pos
  | .mk _ s _ _ _ => s

mutual
/-- `p.stmts(…)`: the statement loop.  `inSub` is `p.quote == subCmd`, `stopBrace` says whether
    `}` is a stop word, `gotEnd` is the loop variable of the same name. -/
def stmtsF : Nat → Bool → Bool → Bool → PS → List Stmt → Except ParseErr (List Stmt × PS)
  | 0, _, _, _, _, _ => .error .outOfFuel
  | fuel + 1, inSub, stopBrace, gotEnd, ps, acc =>
    if ps.tok == .eof then .ok (acc.reverse, ps)
    else
      let (newLine, ps) := ps.gotNewl
      -- the switch on p.tok
      if ps.tok.isLit [125] then
        if stopBrace then .ok (acc.reverse, ps)
        else .error (.syntax "`}` can only be used to close a block")
      else if ps.tok == .rparen && inSub then .ok (acc.reverse, ps)
      else if !newLine && !gotEnd then .error (.syntax "statements must be separated by &, ; or a newline")
      else if ps.tok == .eof then .ok (acc.reverse, ps)
      else
        match getStmtF fuel inSub true false ps with
        | .error e => .error e
        | .ok (none, ps') =>
          match ps'.tok with
          | .outside => .error .outside
          | .unclosedQuote => .error (.syntax "reached EOF without closing quote '")
          | _ => .error (.syntax "not a valid start for a statement")
        | .ok (some s, ps') => stmtsF fuel inSub stopBrace s.semi.valid ps' (s :: acc)

/-- `p.getStmt(readEnd, binCmd, false)` -/
def getStmtF : Nat → Bool → Bool → Bool → PS → Except ParseErr (Option Stmt × PS)
  | 0, _, _, _, _ => .error .outOfFuel
  | fuel + 1, inSub, readEnd, binCmd, ps =>
    let pos := ps.pos
    let neg := ps.tok.isLit [33]
    let ps := if neg then ps.next else ps
    if neg && ps.tok.isStop then .error (.syntax "`!` cannot form a statement alone")
    else if neg && ps.tok.isLit [33] then
      .error (.syntax "cannot negate a command multiple times")
    else
      match gotStmtPipeF fuel inSub pos neg false ps with
      | .error e => .error e
      | .ok (none, ps) => .ok (none, ps)
      | .ok (some s, ps) =>
        match andOrF fuel inSub binCmd s ps with
        | .error e => .error e
        | .ok (s, ps) =>
          if readEnd then
            match ps.tok with
            | .semi => .ok (some (s.setEnd ps.pos false), ps.next)
            | .amp => .ok (some (s.setEnd ps.pos true), ps.next)
            | _ => .ok (some s, ps)
          else .ok (some s, ps)

/-- the `for p.tok == andAnd || p.tok == orOr` loop of `getStmt` -/
def andOrF : Nat → Bool → Bool → Stmt → PS → Except ParseErr (Stmt × PS)
  | 0, _, _, _, _ => .error .outOfFuel
  | fuel + 1, inSub, binCmd, s, ps =>
    let op? : Option BinOp := match ps.tok with
      | .andAnd => some .andStmt
      | .orOr => some .orStmt
      | _ => none
    match op? with
    | none => .ok (s, ps)
    | some op =>
      if binCmd then .ok (s, ps)
      else
        let opPos := ps.pos
        let ps := ps.next
        let ps := ps.gotNewl.2
        match getStmtF fuel inSub false true ps with
        | .error e => .error e
        | .ok (none, ps') =>
          match ps'.tok with
          | .outside => .error .outside
          | _ => .error (.syntax "must be followed by a statement")
        | .ok (some y, ps') =>
          andOrF fuel inSub binCmd (mkStmt s.pos false (.binary opPos op s y)) ps'

/-- `p.gotStmtPipe(s, binCmd)`; `pos`/`neg` are `s.Position`/`s.Negated` on entry -/
def gotStmtPipeF : Nat → Bool → Pos → Bool → Bool → PS → Except ParseErr (Option Stmt × PS)
  | 0, _, _, _, _, _ => .error .outOfFuel
  | fuel + 1, inSub, pos, neg, binCmd, ps =>
    match firstCmdF fuel inSub pos neg ps with
    | .error e => .error e
    | .ok (none, ps) => .ok (none, ps)
    | .ok (some s, ps) =>
      match pipeF fuel inSub binCmd s ps with
      | .error e => .error e
      | .ok (s, ps) => .ok (some s, ps)

/-- the `switch p.tok` of `gotStmtPipe`: one simple or compound command -/
def firstCmdF : Nat → Bool → Pos → Bool → PS → Except ParseErr (Option Stmt × PS)
  | 0, _, _, _, _ => .error .outOfFuel
  | fuel + 1, inSub, pos, neg, ps =>
    match ps.tok with
    | .word w lit =>
      match lit with
      | some v =>
        if v == [123] then
          -- p.block(s)
          let lb := ps.pos
          let ps := ps.next
          if ps.tok == .semi then .error .outside -- `{;` : an error or an empty list by variant
          else
            match stmtsF fuel inSub true true ps [] with
            | .error e => .error e
            | .ok (ss, ps) =>
              if ss.isEmpty then .error .outside -- `{ }` : an error or an empty list by variant
              else
                if ps.tok.isLit [125] then .ok (some (mkStmt pos neg (.block lb ps.pos (Stmts.ofList ss))), ps.next)
                else if ps.tok == .outside then .error .outside
                else .error (.syntax "reached EOF without matching `{` with `}`")
        else if v == [125] then .error (.syntax "`}` can only be used to close a block")
        else if v == [33] then
          if !neg then .error (.syntax "`!` can only be used in full statements") else .error .outside
        else if isOutsideKeyword v then .error .outside
        else
          match callArgs (fuel + 1) inSub ps.next [w] with
          | .error e => .error e
          | .ok (args, ps) => .ok (some (mkStmt pos neg (.call args)), ps)
      | none =>
        match callArgs (fuel + 1) inSub ps.next [w] with
        | .error e => .error e
        | .ok (args, ps) => .ok (some (mkStmt pos neg (.call args)), ps)
    | .lparen =>
      -- p.subshell(s)
      let lp := ps.pos
      let ps := ps.next
      if ps.tok == .semi then .error .outside
      else
        match stmtsF fuel true false true ps [] with
        | .error e => .error e
        | .ok (ss, ps) =>
          if ss.isEmpty then .error .outside -- `( )` : an error or an empty list by variant
          else
            match ps.tok with
            | .rparen => .ok (some (mkStmt pos neg (.subshell lp ps.pos (Stmts.ofList ss))), ps.next)
            | .outside => .error .outside
            | _ => .error (.syntax "reached EOF without matching `(` with `)`")
    | .outside => .error .outside
    | .unclosedQuote => .error (.syntax "reached EOF without closing quote '")
    | _ => .ok (none, ps)

/-- the `for p.tok == or` loop of `gotStmtPipe` -/
def pipeF : Nat → Bool → Bool → Stmt → PS → Except ParseErr (Stmt × PS)
  | 0, _, _, _, _ => .error .outOfFuel
  | fuel + 1, inSub, binCmd, s, ps =>
    if ps.tok == .pipe then
      if binCmd then .ok (s, ps)
      else
        let opPos := ps.pos
        let ps := ps.next
        let ps := ps.gotNewl.2
        match gotStmtPipeF fuel inSub ps.pos false true ps with
        | .error e => .error e
        | .ok (none, ps') =>
          match ps'.tok with
          | .outside => .error .outside
          | _ => .error (.syntax "must be followed by a statement")
        | .ok (some y, ps') =>
          -- in "! x | y", the bang applies to the entire pipeline
          pipeF fuel inSub binCmd (mkStmt s.pos s.negated (.binary opPos .pipe (s.setNeg false) y)) ps'
    else .ok (s, ps)
end

/-- `Parser.Parse` on a token list, with explicit fuel -/
def parseToksF (fuel : Nat) (toks : List TokPos) : Except ParseErr File :=
  match stmtsF fuel false false true ⟨toks⟩ [] with
  | .error e => .error e
  | .ok (ss, ps) =>
    match ps.tok with
    | .eof => .ok ⟨Stmts.ofList ss⟩
    | .outside => .error .outside
    | _ => .error (.syntax "unexpected token")

/-- fuel that is never used up: every level of the recursion consumes a token
    (theorem `fuel_sufficient`) -/
def parseFuelFor (toks : List TokPos) : Nat := 6 * toks.length + 8

def parseToks (toks : List TokPos) : Except ParseErr File := parseToksF (parseFuelFor toks) toks

/-- `Parser.Parse` -/
def parse (_l : Lang) (src : Bytes) : Except ParseErr File := parseToks (lexAll src)


/-! ## `norm`: the tree without positions

  Erases every position (including whether a statement had a `;`), and merges adjacent literals
  of a word (the trace an escaped newline leaves).  The other documented rewrites concern
  constructs outside F0. -/

inductive NPart
  | lit (v : Bytes)
  | sgl (v : Bytes)
deriving DecidableEq, Repr, Inhabited

/-- adjacent literals merged -/
def normParts : List WordPart → List NPart
  | [] => []
  | .sgl _ _ v :: rest => .sgl v :: normParts rest
  | .lit _ _ v :: rest =>
    match normParts rest with
    | .lit v' :: r => .lit (v ++ v') :: r
    | r => .lit v :: r

def Word.norm (w : Word) : List NPart := normParts w.parts

mutual
inductive NStmt
  | mk (neg bg : Bool) (cmd : NCmd)
inductive NCmd
  | call (args : List (List NPart))
  | subshell (ss : NStmts)
  | block (ss : NStmts)
  | binary (op : BinOp) (x y : NStmt)
inductive NStmts
  | nil
  | cons (s : NStmt) (rest : NStmts)
end

mutual
def NStmt.beq : NStmt → NStmt → Bool
  | .mk n1 b1 c1, .mk n2 b2 c2 => n1 == n2 && b1 == b2 && c1.beq c2
def NCmd.beq : NCmd → NCmd → Bool
  | .call a1, .call a2 => a1 == a2
  | .subshell s1, .subshell s2 => s1.beq s2
  | .block s1, .block s2 => s1.beq s2
  | .binary o1 x1 y1, .binary o2 x2 y2 => o1 == o2 && x1.beq x2 && y1.beq y2
  | _, _ => false
def NStmts.beq : NStmts → NStmts → Bool
  | .nil, .nil => true
  | .cons s1 r1, .cons s2 r2 => s1.beq s2 && r1.beq r2
  | _, _ => false
end

mutual
def Stmt.norm : Stmt → NStmt
  | .mk _ _ neg bg cmd => .mk neg bg cmd.norm
def Cmd.norm : Cmd → NCmd
  | .call args => .call (args.map Word.norm)
  | .subshell _ _ ss => .subshell ss.norm
  | .block _ _ ss => .block ss.norm
  | .binary _ op x y => .binary op x.norm y.norm
def Stmts.norm : Stmts → NStmts
  | .nil => .nil
  | .cons s r => .cons s.norm r.norm
end

def File.norm (f : File) : NStmts := f.stmts.norm


/-! ## The property's own statement, executable (used by the `spec` ops of the drivers) -/

/-- C01 on one input: parse, print with `o`, parse again, compare norms. -/
def specRoundTrip (o : Opts) (l : Lang) (src : Bytes) : String :=
  match parse l src with
  | .error .outside => "outside"
  | .error _ => "noparse-src"
  | .ok t =>
    match printFile o t with
    | .error .minifySingleLine => "refused"
    | .error .panic => "panic"
    | .ok b =>
      match parse l b with
      | .error _ => "reparse-fail"
      | .ok t' => if t'.norm.beq t.norm then "same" else "diff"

/-- C02 on one input: the second formatting pass reproduces the first. -/
def specIdempotent (o : Opts) (l : Lang) (src : Bytes) : String :=
  match parse l src with
  | .error .outside => "outside"
  | .error _ => "noparse-src"
  | .ok t =>
    match printFile o t with
    | .error .minifySingleLine => "refused"
    | .error .panic => "panic"
    | .ok b =>
      match parse l b with
      | .error _ => "reparse-fail"
      | .ok t' =>
        match printFile o t' with
        | .ok b' => if b' == b then "stable" else "unstable"
        | .error _ => "panic"

end ShVerif.L4
