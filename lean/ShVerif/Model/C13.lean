import ShVerif.Base.Hex
import ShVerif.Model.C13IsPrint
/-
  C13 — model of syntax/quote.go `Quote` and of the inverse direction: how the lexer/parser
  (`Parser.Words`) reads back the four word shapes Quote produces (bare, '…', "…", $'…') and how
  `expand.Literal` (wordField with quoteNone, `Format`/formatInto for $'…') expands them.

  Everything is over bytes (`Bytes = List UInt8`); runes are `Nat`.
  * `decodeRune` mirrors Go's `utf8.DecodeRuneInString` (invalid byte → (RuneError, 1)).
  * `encodeRune` mirrors `utf8.AppendRune` (`strings.Builder.WriteRune`).
  * `isPrint` is `unicode.IsPrint` as a range table (Model/C13IsPrint.lean, checked against the
    toolchain on every run).
  * `langIn l m` is `LangVariant.in`: `l&m == l` — the legacy zero value is "in" every set, which is
    why Quote first maps it to LangBash (`quote` = guard + `quoteCore`).
-/
namespace ShVerif.C13

/-! ## Language variants (bit set, as `syntax.LangVariant`) -/

abbrev Lang := Nat
def langBash : Lang := 1
def langPOSIX : Lang := 2
def langMksh : Lang := 4
def langBats : Lang := 8
def langZsh : Lang := 16
def langAuto : Lang := 32

/-- `func (l LangVariant) in(l2 LangVariant) bool { return l&l2 == l }`. -/
def langIn (l m : Lang) : Bool := (l &&& m) == l

/-- What `syntax.Variant` accepts: the five variants and the legacy zero value. -/
def validLang (l : Lang) : Bool := l == 0 || l == 1 || l == 2 || l == 4 || l == 8 || l == 16

/-- `syntax.Variant`: the legacy zero value means Bash. -/
def resolve (l : Lang) : Lang := if l = 0 then langBash else l

/-! ## UTF-8 -/

def runeError : Nat := 0xFFFD
def maxRune : Nat := 0x10FFFF

/-- `acceptRanges[first[b0]>>4]` for the second byte of 3- and 4-byte sequences. -/
def accLo (b0 : Nat) : Nat := if b0 = 0xE0 then 0xA0 else if b0 = 0xF0 then 0x90 else 0x80
def accHi (b0 : Nat) : Nat := if b0 = 0xED then 0x9F else if b0 = 0xF4 then 0x8F else 0xBF

/-- `utf8.DecodeRuneInString`: (rune, width).  The `first[]`/`acceptRanges` tables of the Go
    source are written out as the byte ranges they encode. -/
def decodeRune : Bytes → Nat × Nat
  | [] => (runeError, 0)
  | s0 :: rest =>
    let b0 := s0.toNat
    if b0 < 0x80 then (b0, 1)                       -- as
    else if b0 < 0xC2 then (runeError, 1)           -- xx
    else if b0 < 0xE0 then                          -- s1: size 2, accept 80..BF
      match rest with
      | s1 :: _ =>
        if 0x80 ≤ s1.toNat ∧ s1.toNat ≤ 0xBF then ((b0 - 0xC0) * 64 + (s1.toNat - 0x80), 2)
        else (runeError, 1)
      | [] => (runeError, 1)
    else if b0 < 0xF0 then                          -- s2 (E0: A0..BF), s3, s4 (ED: 80..9F)
      match rest with
      | s1 :: s2 :: _ =>
        if accLo b0 ≤ s1.toNat ∧ s1.toNat ≤ accHi b0 then
          if 0x80 ≤ s2.toNat ∧ s2.toNat ≤ 0xBF then
            ((b0 - 0xE0) * 4096 + (s1.toNat - 0x80) * 64 + (s2.toNat - 0x80), 3)
          else (runeError, 1)
        else (runeError, 1)
      | _ => (runeError, 1)
    else if b0 < 0xF5 then                          -- s5 (F0: 90..BF), s6, s7 (F4: 80..8F)
      match rest with
      | s1 :: s2 :: s3 :: _ =>
        if accLo b0 ≤ s1.toNat ∧ s1.toNat ≤ accHi b0 then
          if 0x80 ≤ s2.toNat ∧ s2.toNat ≤ 0xBF then
            if 0x80 ≤ s3.toNat ∧ s3.toNat ≤ 0xBF then
              ((b0 - 0xF0) * 262144 + (s1.toNat - 0x80) * 4096 + (s2.toNat - 0x80) * 64 +
                (s3.toNat - 0x80), 4)
            else (runeError, 1)
          else (runeError, 1)
        else (runeError, 1)
      | _ => (runeError, 1)
    else (runeError, 1)                             -- xx

/-- `utf8.AppendRune` / `strings.Builder.WriteRune` (argument taken as uint32: negative int32
    values are > MaxRune there and become RuneError too). -/
def encodeRune (r : Nat) : Bytes :=
  if r < 0x80 then [UInt8.ofNat r]
  else if r < 0x800 then [UInt8.ofNat (0xC0 + r / 64), UInt8.ofNat (0x80 + r % 64)]
  else if r > maxRune ∨ (0xD800 ≤ r ∧ r ≤ 0xDFFF) then [0xEF, 0xBF, 0xBD]
  else if r < 0x10000 then
    [UInt8.ofNat (0xE0 + r / 4096), UInt8.ofNat (0x80 + r / 64 % 64), UInt8.ofNat (0x80 + r % 64)]
  else
    [UInt8.ofNat (0xF0 + r / 262144), UInt8.ofNat (0x80 + r / 4096 % 64),
     UInt8.ofNat (0x80 + r / 64 % 64), UInt8.ofNat (0x80 + r % 64)]

/-- One iteration of `for rem := s; len(rem) > 0; { r, size := DecodeRuneInString(rem); … ;
    rem = rem[size:] }`: the rune, its width, and the bytes `rem[:size]`. -/
structure Tok where
  r : Nat
  size : Nat
  raw : Bytes
deriving DecidableEq, Repr

/-- The sequence of decode steps of such a loop (fuel = number of remaining bytes; every step
    consumes at least one byte). -/
def runesF : Nat → Bytes → List Tok
  | 0, _ => []
  | _ + 1, [] => []
  | n + 1, s0 :: rest =>
    let d := decodeRune (s0 :: rest)
    ⟨d.1, d.2, (s0 :: rest).take d.2⟩ :: runesF n ((s0 :: rest).drop d.2)

def runes (s : Bytes) : List Tok := runesF s.length s

/-- `unicode.IsPrint`. -/
def isPrint (r : Nat) : Bool := printRanges.any fun p => p.1 ≤ r && r ≤ p.2

/-! ## Quote -/

inductive ErrKind
  | null    -- quoteErrNull  "shell strings cannot contain null bytes"
  | posix   -- quoteErrPOSIX "POSIX shell lacks escape sequences"
  | range   -- quoteErrRange "rune out of range"
  | mksh    -- quoteErrMksh  "mksh cannot escape codepoints above 16 bits"
deriving DecidableEq, Repr

structure QErr where
  offs : Nat
  kind : ErrKind
deriving DecidableEq, Repr

instance : DecidableEq (Except QErr Bytes) := fun a b =>
  match a, b with
  | .ok x, .ok y => if h : x = y then isTrue (by rw [h]) else isFalse (fun e => h (by cases e; rfl))
  | .error x, .error y =>
    if h : x = y then isTrue (by rw [h]) else isFalse (fun e => h (by cases e; rfl))
  | .ok _, .error _ => isFalse (fun e => by cases e)
  | .error _, .ok _ => isFalse (fun e => by cases e)

/-- The first `switch r` of Quote: characters that force quoting. -/
def isShellChar (r : Nat) : Bool :=
  -- ; " ' ( ) $ | & > < `   space \t \r \n   \   #   {   ~   * ? [   =
  [0x3b, 0x22, 0x27, 0x28, 0x29, 0x24, 0x7c, 0x26, 0x3e, 0x3c, 0x60,
   0x20, 0x09, 0x0d, 0x0a, 0x5c, 0x23, 0x7b, 0x7e, 0x2a, 0x3f, 0x5b, 0x3d].contains r

/-- `r == utf8.RuneError || !unicode.IsPrint(r)`. -/
def nonPrint (r : Nat) : Bool := r == runeError || !isPrint r

/-- The first loop of Quote: `(shellChars, nonPrintable)` or the error it returns. -/
def scan (l : Lang) : List Tok → Nat → Bool → Bool → Except QErr (Bool × Bool)
  | [], _, sc, np => .ok (sc, np)
  | t :: ts, offs, sc, np =>
    if t.r = 0 then .error ⟨offs, .null⟩
    else if nonPrint t.r then
      if langIn l langPOSIX then .error ⟨offs, .posix⟩
      else scan l ts (offs + t.size) (sc || isShellChar t.r) true
    else scan l ts (offs + t.size) (sc || isShellChar t.r) np

/-- `IsKeyword` (syntax/parser.go). -/
def keywords : List Bytes := [
  [0x21],                                   -- !
  [0x5b, 0x5b], [0x5d, 0x5d],               -- [[ ]]
  [0x63, 0x61, 0x73, 0x65],                 -- case
  [0x63, 0x6f, 0x70, 0x72, 0x6f, 0x63],     -- coproc
  [0x64, 0x6f],                             -- do
  [0x64, 0x6f, 0x6e, 0x65],                 -- done
  [0x65, 0x6c, 0x69, 0x66],                 -- elif
  [0x65, 0x6c, 0x73, 0x65],                 -- else
  [0x65, 0x73, 0x61, 0x63],                 -- esac
  [0x66, 0x69],                             -- fi
  [0x66, 0x6f, 0x72],                       -- for
  [0x66, 0x75, 0x6e, 0x63, 0x74, 0x69, 0x6f, 0x6e], -- function
  [0x69, 0x66],                             -- if
  [0x69, 0x6e],                             -- in
  [0x73, 0x65, 0x6c, 0x65, 0x63, 0x74],     -- select
  [0x74, 0x68, 0x65, 0x6e],                 -- then
  [0x74, 0x69, 0x6d, 0x65],                 -- time
  [0x75, 0x6e, 0x74, 0x69, 0x6c],           -- until
  [0x77, 0x68, 0x69, 0x6c, 0x65],           -- while
  [0x7b], [0x7d]]                           -- { }

def isKeyword (s : Bytes) : Bool := keywords.contains s

def hexDigitByte (n : Nat) : UInt8 :=
  if n < 10 then UInt8.ofNat (48 + n) else UInt8.ofNat (87 + n)

/-- `%02x` of a byte. -/
def hex2 (v : Nat) : Bytes := [hexDigitByte (v / 16 % 16), hexDigitByte (v % 16)]
/-- `%04x` of a value < 0x10000 (guaranteed by the branch that uses it). -/
def hex4 (v : Nat) : Bytes :=
  [hexDigitByte (v / 4096 % 16), hexDigitByte (v / 256 % 16), hexDigitByte (v / 16 % 16),
   hexDigitByte (v % 16)]
/-- `%08x` of a value < 2^32. -/
def hex8 (v : Nat) : Bytes :=
  [hexDigitByte (v / 268435456 % 16), hexDigitByte (v / 16777216 % 16),
   hexDigitByte (v / 1048576 % 16), hexDigitByte (v / 65536 % 16),
   hexDigitByte (v / 4096 % 16), hexDigitByte (v / 256 % 16), hexDigitByte (v / 16 % 16),
   hexDigitByte (v % 16)]

/-- `isHex` of quote.go. -/
def isHexRune (r : Nat) : Bool :=
  (0x30 ≤ r && r ≤ 0x39) || (0x61 ≤ r && r ≤ 0x66) || (0x41 ≤ r && r ≤ 0x46)

/-- The `case r == '\a': … case r == '\v':` arms of the `$'…'` loop: the escape letter. -/
def ctlLetter (r : Nat) : Option UInt8 :=
  if r = 0x07 then some 0x61        -- \a
  else if r = 0x08 then some 0x62   -- \b
  else if r = 0x0c then some 0x66   -- \f
  else if r = 0x0a then some 0x6e   -- \n
  else if r = 0x0d then some 0x72   -- \r
  else if r = 0x09 then some 0x74   -- \t
  else if r = 0x0b then some 0x76   -- \v
  else none

/-- One iteration of the `$'…'` loop: the bytes written and `nextRequoteIfHex`, or the error. -/
def piece (l : Lang) (lastRequoteIfHex : Bool) (t : Tok) : Except ErrKind (Bytes × Bool) :=
  if t.r = 0x27 ∨ t.r = 0x5c then .ok (0x5c :: encodeRune t.r, false)
  else if isPrint t.r = true ∧ t.r ≠ runeError then
    .ok ((if lastRequoteIfHex && isHexRune t.r then [0x27, 0x24, 0x27] else []) ++
      encodeRune t.r, false)
  else
    match ctlLetter t.r with
    | some c => .ok ([0x5c, c], false)
    | none =>
      if t.r < 0x80 ∨ (t.r = runeError ∧ t.size = 1) then
        -- fmt.Fprintf(&b, "\\x%02x", rem[0])
        .ok ([0x5c, 0x78] ++ hex2 (t.raw.headD 0).toNat, langIn l langMksh)
      else if t.r > maxRune then .error .range
      else if langIn l langMksh = true ∧ t.r > 0xFFFD then .error .mksh
      else if t.r < 0x10000 then .ok ([0x5c, 0x75] ++ hex4 t.r, false)
      else .ok ([0x5c, 0x55] ++ hex8 t.r, false)

/-- The `$'…'` loop: everything written between `$'` and the final `'`. -/
def dollarBody (l : Lang) : List Tok → Nat → Bool → Except QErr Bytes
  | [], _, _ => .ok []
  | t :: ts, offs, last =>
    match piece l last t with
    | .error k => .error ⟨offs, k⟩
    | .ok (p, nxt) =>
      match dollarBody l ts (offs + t.size) nxt with
      | .error e => .error e
      | .ok rest => .ok (p ++ rest)

/-- The double-quote loop `for _, r := range s { switch r { case '"','\\','`','$': '\\' }; WriteRune }`. -/
def dqBody : List Tok → Bytes
  | [] => []
  | t :: ts =>
    (if t.r = 0x22 ∨ t.r = 0x5c ∨ t.r = 0x60 ∨ t.r = 0x24 then [0x5c] else []) ++
      encodeRune t.r ++ dqBody ts

/-- The body of `syntax.Quote` after the legacy-zero guard, for an arbitrary bit set `l`. -/
def quoteCore (l : Lang) (s : Bytes) : Except QErr Bytes :=
  if s = [] then .ok [0x27, 0x27]
  else
    let ts := runes s
    match scan l ts 0 false false with
    | .error e => .error e
    | .ok (shellChars, nonPrintable) =>
      if !shellChars && !nonPrintable && !isKeyword s then .ok s
      else if nonPrintable then
        match dollarBody l ts 0 false with
        | .error e => .error e
        | .ok body => .ok ([0x24, 0x27] ++ body ++ [0x27])
      else if !s.contains 0x27 then .ok ([0x27] ++ s ++ [0x27])
      else .ok ([0x22] ++ dqBody ts ++ [0x22])

/-- `syntax.Quote(s, l)`: `if lang == langBashLegacy { lang = LangBash }`, then the body. -/
def quote (l : Lang) (s : Bytes) : Except QErr Bytes := quoteCore (resolve l) s

/-! ## expand.Format with nil arguments (`$'…'` escapes; formatInto with `args == nil`) -/

def isHexByte (c : UInt8) : Bool :=
  (0x30 ≤ c.toNat && c.toNat ≤ 0x39) || (0x61 ≤ c.toNat && c.toNat ≤ 0x66) ||
    (0x41 ≤ c.toNat && c.toNat ≤ 0x46)

def hexValByte (c : UInt8) : Nat :=
  if c.toNat ≤ 0x39 then c.toNat - 0x30 else if c.toNat ≤ 0x46 then c.toNat - 55 else c.toNat - 87

/-- `readDigits(max, hex)`: the digits read and the remaining input.  With `hex = false` the Go
    closure still accepts '8' and '9' (only the a–f ranges are guarded by `hex`). -/
def readDigits : Nat → Bool → Bytes → Bytes × Bytes
  | 0, _, s => ([], s)
  | _ + 1, _, [] => ([], [])
  | n + 1, hex, c :: rest =>
    if (0x30 ≤ c.toNat && c.toNat ≤ 0x39) || (hex && isHexByte c) then
      let (d, r) := readDigits n hex rest
      (c :: d, r)
    else ([], c :: rest)

def hexValue (ds : Bytes) : Nat := ds.foldl (fun acc c => acc * 16 + hexValByte c) 0

/-- `n, _ := strconv.ParseUint(digits, 8, 8)`: 0 on a syntax error ('8'/'9'), 255 on overflow. -/
def octValue (ds : Bytes) : Nat :=
  if ds.any (fun c => c.toNat > 0x37) then 0
  else
    let v := ds.foldl (fun acc c => acc * 8 + (c.toNat - 0x30)) 0
    if v > 255 then 255 else v

/-- The single-character escapes of formatInto's `switch c = format[i]`. -/
def simpleEscape (e : UInt8) : Option UInt8 :=
  if e = 0x61 then some 0x07                 -- \a
  else if e = 0x62 then some 0x08            -- \b
  else if e = 0x65 ∨ e = 0x45 then some 0x1b -- \e \E
  else if e = 0x66 then some 0x0c            -- \f
  else if e = 0x6e then some 0x0a            -- \n
  else if e = 0x72 then some 0x0d            -- \r
  else if e = 0x74 then some 0x09            -- \t
  else if e = 0x76 then some 0x0b            -- \v
  else if e = 0x5c ∨ e = 0x27 ∨ e = 0x22 ∨ e = 0x3f then some e  -- \\ \' \" \?
  else none

/-- formatInto after a backslash: `e` is the escape character, `rest` what follows it. -/
def fmtEscape (e : UInt8) (rest : Bytes) : Bytes × Bytes :=
  match simpleEscape e with
  | some b => ([b], rest)
  | none =>
    if 0x30 ≤ e.toNat ∧ e.toNat ≤ 0x37 then
      let dr := readDigits 3 false (e :: rest)
      ([UInt8.ofNat (octValue dr.1)], dr.2)
    else if e = 0x78 ∨ e = 0x75 ∨ e = 0x55 then
      let dr := readDigits (if e = 0x75 then 4 else if e = 0x55 then 8 else 2) true rest
      if dr.1 = [] then ([0x5c, e], rest)            -- no digit: `\x` stays as it is
      else if e = 0x78 then ([UInt8.ofNat (hexValue dr.1)], dr.2)
      else (encodeRune (hexValue dr.1), dr.2)
    else ([0x5c, e], rest)                           -- no escape sequence

/-- One iteration of the `for i := 0; i < len(format); i++` loop of formatInto with `args == nil`
    at `c = format[i]`, `rest = format[i+1:]`: the bytes written and the input left for the next
    iteration. -/
def fmtStep (c : UInt8) (rest : Bytes) : Bytes × Bytes :=
  if c = 0x5c then
    match rest with
    | [] => ([0x5c], [])                               -- trailing backslash
    | e :: rest' => fmtEscape e rest'
  else ([c], rest)

/-- `formatInto(sb, format, nil)` (fuel = remaining length). -/
def fmtEscF : Nat → Bytes → Bytes
  | 0, _ => []
  | _ + 1, [] => []
  | n + 1, c :: rest =>
    let st := fmtStep c rest
    st.1 ++ fmtEscF n st.2

def fmtEsc (s : Bytes) : Bytes := fmtEscF s.length s

/-- `strings.Cut(s, "\x00")` (first component). -/
def cutNul : Bytes → Bytes
  | [] => []
  | c :: rest => if c = 0 then [] else c :: cutNul rest

/-! ## The lexer/parser on the word shapes Quote produces (`Parser.Words`)

  The modelled fragment: input without NUL, CR, LF (the lexer drops NULs, merges CR LF, treats
  backslash-newline specially); words made of bare literal chunks, '…', "…" without expansions,
  $'…'; blanks between words; `#` comments.  Anything else (`$x`, backquotes, operators,
  backslashes outside quotes, `[`, extended globs …) gives `outside`. -/

inductive Part
  | lit (v : Bytes)                 -- *syntax.Lit
  | sgl (dollar : Bool) (v : Bytes) -- *syntax.SglQuoted
  | dbl (v : Bytes)                 -- *syntax.DblQuoted with one Lit part (none when v = [])
deriving DecidableEq, Repr

abbrev Word := List Part

inductive Res (α : Type)
  | ok (a : α)
  | err        -- the parser reports an error
  | outside    -- outside the modelled fragment
deriving DecidableEq, Repr

/-- `'…'`: the value and what follows the closing quote; `none` = reached EOF without closing quote. -/
def scanSgl : Bytes → Option (Bytes × Bytes)
  | [] => none
  | c :: rest =>
    if c = 0x27 then some ([], rest)
    else match scanSgl rest with
      | none => none
      | some (v, r) => some (c :: v, r)

/-- `$'…'`: a backslash makes the parser skip the next rune (byte-wise this is the same: the
    continuation bytes of a skipped multi-byte rune are never `'` or `\`). -/
def scanDollarSgl : Bytes → Option (Bytes × Bytes)
  | [] => none
  | c :: rest =>
    if c = 0x27 then some ([], rest)
    else if c = 0x5c then
      match rest with
      | [] => none
      | d :: rest' =>
        match scanDollarSgl rest' with
        | none => none
        | some (v, r) => some (c :: d :: v, r)
    else match scanDollarSgl rest with
      | none => none
      | some (v, r) => some (c :: v, r)

/-- `"…"` read by `advanceLitDquote`: the literal (backslashes kept) up to the closing quote. -/
def scanDq : Bytes → Res (Bytes × Bytes)
  | [] => .err
  | c :: rest =>
    if c = 0x22 then .ok ([], rest)
    else if c = 0x24 ∨ c = 0x60 then .outside
    else if c = 0x5c then
      match rest with
      | [] => .err
      | d :: rest' =>
        match scanDq rest' with
        | .ok (v, r) => .ok (c :: d :: v, r)
        | .err => .err
        | .outside => .outside
    else match scanDq rest with
      | .ok (v, r) => .ok (c :: v, r)
      | .err => .err
      | .outside => .outside

/-- Bytes that `advanceLitNone` keeps inside an unquoted literal and that need no further
    treatment (no NUL/CR/LF by the fragment; `[` `\` and the token characters are excluded). -/
def isBareByte (c : UInt8) : Bool :=
  !([0x00, 0x09, 0x0a, 0x0d, 0x20, 0x22, 0x24, 0x26, 0x27, 0x28, 0x29, 0x3b, 0x3c, 0x3e, 0x5b,
     0x5c, 0x60, 0x7c] : List UInt8).contains c

def spanBare : Bytes → Bytes × Bytes
  | [] => ([], [])
  | c :: rest =>
    if isBareByte c then
      let (v, r) := spanBare rest
      (c :: v, r)
    else ([], c :: rest)

/-- `p.lang.in(langBashLike | LangMirBSDKorn | LangZsh)`: does the lexer know `$'`? -/
def dollSglOK (l : Lang) : Bool := langIn l (langBash ||| langBats ||| langMksh ||| langZsh)

def finish (ws : List Word) (cur : Word) : List Word := if cur = [] then ws else ws ++ [cur]

/-- `WordsSeq`: `cur` = parts of the word being read (empty between words), `ws` = finished words. -/
def lexF (l : Lang) : Nat → Bytes → Word → List Word → Res (List Word)
  | 0, _, _, _ => .outside
  | _ + 1, [], cur, ws => .ok (finish ws cur)
  | n + 1, c :: rest, cur, ws =>
    if c = 0x20 ∨ c = 0x09 then lexF l n rest [] (finish ws cur)
    else if c = 0x23 ∧ cur = [] then .ok ws        -- comment up to the end (no newlines here)
    else if c = 0x27 then
      match scanSgl rest with
      | none => .err
      | some (v, r) => lexF l n r (cur ++ [.sgl false v]) ws
    else if c = 0x22 then
      match scanDq rest with
      | .ok (v, r) => lexF l n r (cur ++ [.dbl v]) ws
      | .err => .err
      | .outside => .outside
    else if c = 0x24 then
      match rest with
      | d :: rest' =>
        if d = 0x27 ∧ dollSglOK l then
          match scanDollarSgl rest' with
          | none => .err
          | some (v, r) => lexF l n r (cur ++ [.sgl true v]) ws
        else .outside
      | [] => .outside
    else if isBareByte c then
      let (v, r) := spanBare rest
      lexF l n r (cur ++ [.lit (c :: v)]) ws
    else .outside

def validUTF8 (q : Bytes) : Bool := (runes q).all fun t => !(t.r == runeError && t.size == 1)

def inFragment (q : Bytes) : Bool := !(q.contains 0x00 || q.contains 0x0a || q.contains 0x0d)

/-- `syntax.NewParser(Variant(l)).Words(q)`. -/
def lexWords (l : Lang) (q : Bytes) : Res (List Word) :=
  if !inFragment q then .outside
  else if !validUTF8 q then .err       -- "invalid UTF-8 encoding"
  else lexF l (q.length + 1) q [] []

/-! ## expand.Literal on such words (wordField with quoteNone) -/

/-- The quoteDouble branch of wordField for a Lit: drop a backslash before `"` `\` `$` `` ` ``. -/
def dqUnescape : Bytes → Bytes
  | [] => []
  | [c] => [c]
  | c :: d :: rest =>
    if c = 0x5c ∧ (d = 0x22 ∨ d = 0x5c ∨ d = 0x24 ∨ d = 0x60) then d :: dqUnescape rest
    else c :: dqUnescape (d :: rest)

def expandPart (first : Bool) : Part → Res Bytes
  | .lit v => if first ∧ v.head? = some 0x7e then .outside  -- tilde expansion
              else .ok (cutNul v)
  | .sgl false v => .ok v
  | .sgl true v => .ok (cutNul (fmtEsc v))
  | .dbl v => .ok (cutNul (dqUnescape v))

def expandParts : Bool → List Part → Res Bytes
  | _, [] => .ok []
  | first, p :: ps =>
    match expandPart first p with
    | .ok a =>
      match expandParts false ps with
      | .ok b => .ok (a ++ b)
      | .err => .err
      | .outside => .outside
    | .err => .err
    | .outside => .outside

/-- `expand.Literal(nil, w)`. -/
def expandLit (w : Word) : Res Bytes := expandParts true w

/-- Parse `q` as words and expand it when it is exactly one word: `Words` + `expand.Literal`. -/
def unquote (l : Lang) (q : Bytes) : Res Bytes :=
  match lexWords l q with
  | .ok [w] => expandLit w
  | .ok _ => .err
  | .err => .err
  | .outside => .outside

/-! ## The quoted text as a whole program (command position)

  `Parser.Parse` on the same fragment, when the input is a single word: `gotStmtPipe` gives some
  literal first words a statement-level meaning, and `hasValidIdent` turns a first literal of the
  form `name=…` / `name+=…` into an assignment. -/

def isNameStart (c : UInt8) : Bool :=
  c == 0x5f || (0x41 ≤ c.toNat && c.toNat ≤ 0x5a) || (0x61 ≤ c.toNat && c.toNat ≤ 0x7a)

def isNameByte (c : UInt8) : Bool := isNameStart c || (0x30 ≤ c.toNat && c.toNat ≤ 0x39)

/-- `syntax.ValidName`. -/
def validName : Bytes → Bool
  | [] => false
  | c :: rest => isNameStart c && rest.all isNameByte

/-- `p.eqlOffs` of a literal: the index of its first `=`. -/
def firstEq : Bytes → Option Nat
  | [] => none
  | c :: rest => if c = 0x3d then some 0 else (firstEq rest).map (· + 1)

/-- `p.lang.in(langBashLike | LangMirBSDKorn | LangZsh)`. -/
def kshLike (l : Lang) : Bool := langIn l (langBash ||| langBats ||| langMksh ||| langZsh)

/-- `hasValidIdent` for a first literal `v` (the `name[` form needs `[`, outside the fragment). -/
def assignLit (l : Lang) (v : Bytes) : Bool :=
  match firstEq v with
  | some e =>
    if e = 0 then false
    else
      let e' := if v.getD (e - 1) 0 = 0x2b ∧ kshLike l = true then e - 1 else e  -- a+=x
      validName (v.take e')
  | none => false

/-- First words that are builtins of the shell but clauses of this parser (`let`, the declaration
    builtins, bats' `@test`): not reserved words, `IsKeyword` does not list them. -/
def clauseWord (l : Lang) (v : Bytes) : Bool :=
  (kshLike l && [[0x6c, 0x65, 0x74],                                  -- let
                 [0x6c, 0x6f, 0x63, 0x61, 0x6c],                      -- local
                 [0x65, 0x78, 0x70, 0x6f, 0x72, 0x74],                -- export
                 [0x72, 0x65, 0x61, 0x64, 0x6f, 0x6e, 0x6c, 0x79],    -- readonly
                 [0x74, 0x79, 0x70, 0x65, 0x73, 0x65, 0x74],          -- typeset
                 [0x6e, 0x61, 0x6d, 0x65, 0x72, 0x65, 0x66]].contains v) ||  -- nameref
  (langIn l (langBash ||| langBats ||| langZsh) &&
    v == [0x64, 0x65, 0x63, 0x6c, 0x61, 0x72, 0x65]) ||               -- declare
  (langIn l langBats && v == [0x40, 0x74, 0x65, 0x73, 0x74])           -- @test

def elifWord : Bytes := [0x65, 0x6c, 0x69, 0x66]

/-- The `case _LitWord: switch p.val` of `gotStmtPipe`: a lone literal word that is not a
    one-word simple command (block/clause openers, closers, `!`, the clauses above, zsh `{}`). -/
def stmtWord (l : Lang) (v : Bytes) : Bool :=
  [[0x21], [0x63, 0x61, 0x73, 0x65], [0x64, 0x6f], [0x64, 0x6f, 0x6e, 0x65], [0x65, 0x73, 0x61, 0x63],
   [0x66, 0x69], [0x66, 0x6f, 0x72], [0x69, 0x66], [0x74, 0x68, 0x65, 0x6e],
   [0x75, 0x6e, 0x74, 0x69, 0x6c], [0x77, 0x68, 0x69, 0x6c, 0x65], [0x7b], [0x7d],
   elifWord].contains v ||                       -- ! case do done esac fi for if then until while { } elif
  (kshLike l && [[0x5b, 0x5b], [0x5d, 0x5d], [0x66, 0x75, 0x6e, 0x63, 0x74, 0x69, 0x6f, 0x6e],
                 [0x73, 0x65, 0x6c, 0x65, 0x63, 0x74], [0x74, 0x69, 0x6d, 0x65]].contains v) ||
                                                -- [[ ]] function select time
  (langIn l (langBash ||| langBats) && v == [0x63, 0x6f, 0x70, 0x72, 0x6f, 0x63]) ||  -- coproc
  (langIn l langZsh && v == [0x7b, 0x7d]) ||     -- {}
  clauseWord l v

inductive CmdRes
  | simple (w : Word)   -- one statement: a CallExpr with no assignment and exactly this word
  | assign              -- a CallExpr with one assignment and no word
  | special             -- a clause, a block, or a parse error caused by a reserved first word
  | err                 -- parse error of the word itself
  | outside
deriving DecidableEq, Repr

/-- `Parser.Parse(q)` when `q` is a single word of the fragment. -/
def cmdPos (l : Lang) (q : Bytes) : CmdRes :=
  match lexWords l q with
  | .ok [w] =>
    match w with
    | [] => .outside
    | .lit v :: rest =>
      if rest = [] ∧ stmtWord l v = true then .special   -- `_LitWord`: the literal is the whole word
      else if assignLit l v then .assign
      else .simple w
    | _ => .simple w
  | .ok _ => .outside
  | .err => .err
  | .outside => .outside

/-! ## The property's own words (specification) -/

/-- A string the variant cannot represent, in the property's wording: a NUL anywhere; in POSIX a
    non-printable rune or invalid UTF-8; in mksh a non-printable code point above U+FFFD.
    `l` is the variant as the rest of the package understands it (zero value = Bash). -/
def specFails (l : Lang) (s : Bytes) : Bool :=
  s.contains 0x00 ||
  (resolve l == langPOSIX && (runes s).any fun t => nonPrint t.r) ||
  (resolve l == langMksh && (runes s).any fun t => t.r > 0xFFFD && !isPrint t.r)

/-- The same set phrased with `LangVariant.in`, as the body of Quote tests it, for an arbitrary
    bit set (`lang.in(...)` is true of the zero value for every set — hence the guard in `quote`). -/
def codeFails (l : Lang) (s : Bytes) : Bool :=
  s.contains 0x00 ||
  (langIn l langPOSIX && (runes s).any fun t => nonPrint t.r) ||
  (langIn l langMksh && (runes s).any fun t => t.r > 0xFFFD && !isPrint t.r)

end ShVerif.C13
