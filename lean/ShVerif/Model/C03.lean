/-
  C03 — "formatting never changes what a script does", the concrete half.

  Composition of the two shared models: the L4 syntax core (printer, lexer, parser of fragment F0;
  tied to syntax/ by C01's and C02's correspondence streams) and the L5 interpreter skeleton
  (`interp.Runner`'s control flow; tied to interp/ by C26's streams).  What this file adds is the
  *reading* of an F0 tree as an L5 program, `toL5`, the way `Runner.call` would classify the simple
  commands by their first field:

      true  :  false  exit [n]  echo args…  set -e/+e  set -o/+o pipefail
      lists, `&&` `||` `|` `!`, `( … )`, `{ …; }`

  Anything else (`&`, unknown command names, `echo -n`, `exit 99999` …) is outside the
  intersection and `toL5` answers `none`.

  `toL5` is defined on the *normal form* of the tree (no positions, no `;` presence, adjacent
  literals merged): that the real interpreter reads none of what the normal form erases is
  `interp_ignores_cosmetics` (regenerated table) plus the `run` correspondence stream of the C03
  check, which compares `interp.Runner` on the source text with `runFile (toL5 (parse src))`.
  Core Lean only.
-/
import ShVerif.Model.L4Syntax
import ShVerif.Model.L5Run
import ShVerif.Base.Hex
namespace ShVerif.C03
open ShVerif

abbrev Bytes := ShVerif.Bytes

def toStr (b : Bytes) : L5.Str := b.map UInt8.toNat

/-- quote removal on a normal-form word of F0: literals and single-quoted strings stand for
    their bytes -/
def fieldOf : List L4.NPart → Bytes
  | [] => []
  | .lit v :: r => v ++ fieldOf r
  | .sgl v :: r => v ++ fieldOf r

/-- the same on a tree word (before `norm`) -/
def fieldOfParts : List L4.WordPart → Bytes
  | [] => []
  | .lit _ _ v :: r => v ++ fieldOfParts r
  | .sgl _ _ v :: r => v ++ fieldOfParts r

def bytesOf (s : String) : Bytes := s.toUTF8.toList

/-- decimal value of a short digit string (`strconv.Atoi` on what `exit` accepts here) -/
def decimal? (b : Bytes) : Option Nat :=
  if b.isEmpty || b.length > 4 then none
  else if b.all (fun c => 48 ≤ c && c ≤ 57) then
    some (b.foldl (fun acc c => acc * 10 + (c.toNat - 48)) 0)
  else none

def joinSp : List Bytes → Bytes
  | [] => []
  | [a] => a
  | a :: r => a ++ [32] ++ joinSp r

/-- `Runner.call` on the fields of a simple command, for the builtins of the intersection. -/
def classify (fields : List Bytes) : Option L5.Cmd :=
  match fields with
  | [] => none
  | f :: args =>
    if f == bytesOf "true" || f == bytesOf ":" then
      some .tru                        -- both ignore their arguments
    else if f == bytesOf "false" then
      some .fls
    else if f == bytesOf "exit" then
      match args with
      | [] => some (.exit none)
      | [a] => (decimal? a).map (fun n => .exit (some n))
      | _ => none
    else if f == bytesOf "echo" then
      match args with
      | [] => some (.echo [])
      | a :: _ =>
        -- a first argument starting with `-` may be an option; backslashes cannot occur in F0
        if a.head? == some 45 then none
        else some (.echo [.lit (toStr (joinSp args))])
    else if f == bytesOf "set" then
      if args == [bytesOf "-e"] then some (.setE true)
      else if args == [bytesOf "+e"] then some (.setE false)
      else if args == [bytesOf "-o", bytesOf "pipefail"] then some (.setPF true)
      else if args == [bytesOf "+o", bytesOf "pipefail"] then some (.setPF false)
      else none
    else none

mutual
def stmtToL5 : L4.NStmt → Option L5.Stmt
  | .mk neg bg cmd =>
    if bg then none else
    match cmdToL5 cmd with
    | none => none
    | some c => some (.mk neg c)
def cmdToL5 : L4.NCmd → Option L5.Cmd
  | .call args => classify (args.map fieldOf)
  | .subshell ss => (stmtsToL5 ss).map .subsh
  | .block ss => (stmtsToL5 ss).map .block
  | .binary op x y =>
    match stmtToL5 x, stmtToL5 y with
    | some a, some b =>
      some (match op with
        | .andStmt => .and a b
        | .orStmt => .or a b
        | .pipe => .pipe a b)
    | _, _ => none
def stmtsToL5 : L4.NStmts → Option L5.Prog
  | .nil => some .nil
  | .cons s r =>
    match stmtToL5 s, stmtsToL5 r with
    | some a, some b => some (.cons a b)
    | _, _ => none
end

/-- the F0 file as an L5 program -/
def toL5 (f : L4.File) : Option L5.Prog := stmtsToL5 f.norm

/-- what running the file prints and returns (`none`: outside the intersection, or out of fuel) -/
def runL4 (fuel : Nat) (f : L4.File) : Option (L5.Str × Nat) :=
  (toL5 f).bind (L5.runFile fuel)

/-- observable behaviour of source text: parse with the L4 parser, read as L5, run -/
inductive Obs
  | outside                      -- not F0 / not in the intersection
  | parseError
  | fuel
  | ran (out : L5.Str) (status : Nat)
deriving DecidableEq, Repr, Inhabited

def runSrc (fuel : Nat) (l : L4.Lang) (src : Bytes) : Obs :=
  match L4.parse l src with
  | .error .outside => .outside
  | .error _ => .parseError
  | .ok f =>
    match toL5 f with
    | none => .outside
    | some p =>
      match L5.runFile fuel p with
      | none => .fuel
      | some (o, st) => .ran o st

def Obs.show : Obs → String
  | .outside => "outside"
  | .parseError => "error"
  | .fuel => "fuel"
  | .ran o st => "ran " ++ toHex (o.map fun n => UInt8.ofNat n) ++ " " ++ toString st

/-- C03 on one input, executable (the `specfmt` op): parse, format with `o`, parse the formatted
    text, run both as L5 programs, compare output and status. -/
def specFormat (fuel : Nat) (o : L4.Opts) (l : L4.Lang) (src : Bytes) : String :=
  match L4.parse l src with
  | .error .outside => "outside"
  | .error _ => "noparse-src"
  | .ok t =>
    match L4.printFile o t with
    | .error .minifySingleLine => "refused"
    | .error .panic => "panic"
    | .ok b =>
      match L4.parse l b with
      | .error _ => "reparse-fail"
      | .ok t' =>
        match toL5 t, toL5 t' with
        | none, _ => "outside"
        | some _, none => "differ formatted-left-the-fragment"
        | some p, some p' =>
          match L5.runFile fuel p, L5.runFile fuel p' with
          | some r, some r' => if r == r' then "same" else "differ"
          | none, none => "fuel"
          | _, _ => "differ fuel"

end ShVerif.C03
