import ShVerif.Base.Hex
/-
  C04 — model of syntax/simplify.go (`syntax.Simplify`, used by `shfmt -s` / `-mn`).

  Layer A (tied to the Go code on every run): a generic positions-erased syntax tree `Node`
  (type tag, numeric attributes, one byte-string payload, children) and `simp`, a top-down pure
  recursion that reproduces the mutate-while-walking order of `Simplify`: `visit` rewrites the
  *children* of a node (exactly the field updates of `simplifier.visit`), and only then are the
  (new) children visited, as `Preorder`/`Walk` read a node's fields after the callback returned.
  Sibling order is irrelevant: `visit` touches only the node's own sub-tree and `modified` is an
  OR-accumulator.

  Layer B (small typed fragments with a semantics, related to layer A by proved embedding
  theorems in Proofs/C04Bridge.lean): arithmetic expressions, `[[ ]]` expressions, double-quoted
  literals, nested subshells.

  Tree layout produced by harness/c04.go (`c04Dump`), kids in fixed positions, absent = `nil` node:
    Word [] - parts…            Lit [] value            SglQuoted [dollar] value
    DblQuoted [dollar] - parts…
    ParamExp [short excl length width isset split globsubst rcexpand names hasSlice hasRepl replAll
              hasExp expOp dollarValid] - [flags param nested index (L modifiers) off len orig with expword]
    ArithmExp [bracket unsigned] - [x]   ArithmCmd [unsigned] - [x]   ParenArithm [] - [x]
    BinaryArithm [op] - [x y]            UnaryArithm [op post] - [x]
    TestClause [] - [x]  ParenTest [] - [x]  BinaryTest [op] - [x y]  UnaryTest [op] - [x]
    Subshell [] - stmts…                 CmdSubst [backquotes tempfile replyvar] - stmts…
    Stmt [negated background coprocess disown] - [cmd (L redirs)]
    Assign [append naked] - [name value index array]
    anything else: `other name`, opaque scalar fingerprint in the payload, every Node-typed field
    as a kid (lists wrapped in an `L` node).  Comments are not part of the tree.
-/
namespace ShVerif.C04

inductive Ty
  | nil | list | word | lit | sgl | dbl | paramExp
  | arithmExp | arithmCmd | parenArithm | binaryArithm | unaryArithm
  | testClause | parenTest | binaryTest | unaryTest
  | subshell | cmdSubst | stmt | assign
  | other (name : String)
  deriving DecidableEq, Repr, Inhabited

inductive Node
  | mk (ty : Ty) (attrs : List Nat) (val : Bytes) (kids : List Node)
  deriving Repr, Inhabited

namespace Node
def ty : Node → Ty | mk t _ _ _ => t
def attrs : Node → List Nat | mk _ a _ _ => a
def val : Node → Bytes | mk _ _ v _ => v
def kids : Node → List Node | mk _ _ _ k => k
def setKids (n : Node) (ks : List Node) : Node := mk n.ty n.attrs n.val ks
end Node

def nilNode : Node := .mk .nil [] [] []

mutual
def size : Node → Nat
  | .mk _ _ _ ks => 1 + sizeList ks
def sizeList : List Node → Nat
  | [] => 0
  | k :: ks => size k + sizeList ks
end

/-! ### Test operators: canonical codes chosen by the harness from the symbolic Go constants. -/
def tsNot : Nat := 1
def tsEmpStr : Nat := 2
def tsNempStr : Nat := 3
def tsMatch : Nat := 4
def tsNoMatch : Nat := 5
def tsMatchShort : Nat := 6
def tsReMatch : Nat := 7
def tsAnd : Nat := 8
def tsOr : Nat := 9

/-! ### `syntax.ValidName` on bytes (ASCII letters, `_`, digits after the first). -/
def isLetter (b : UInt8) : Bool := (65 ≤ b && b ≤ 90) || (97 ≤ b && b ≤ 122)
def isDigit (b : UInt8) : Bool := 48 ≤ b && b ≤ 57
def nameRest : Bytes → Bool
  | [] => true
  | b :: bs => (isLetter b || b == 95 || isDigit b) && nameRest bs
def validName : Bytes → Bool
  | [] => false
  | b :: bs => (isLetter b || b == 95) && nameRest bs

/-! ### `simplifyWord`: the escape scanner over a double-quoted literal.
  Go ranges over runes; every rune it tests is ASCII and all others are copied unchanged, so on
  valid UTF-8 (which the parser guarantees) the byte loop is the same function.
  `none` = `continue parts` (the literal cannot be single-quoted). -/
def dqScan : Bool → Bytes → Option Bytes
  | _, [] => some []
  | escaped, b :: bs =>
    if b = 92 then                      -- backslash
      if !escaped then dqScan true bs   -- escaped = true; continue (nothing written)
      else (dqScan false bs).map (b :: ·)
    else if b = 39 then none            -- single quote
    else if b = 36 || b = 34 || b = 96 then   -- $ " `
      (dqScan false bs).map (b :: ·)
    else if escaped then none
    else (dqScan false bs).map (b :: ·)

def dqToSq (lit : Bytes) : Option Bytes := dqScan false lit

/-- The `parts:` loop: a leading run of double-quoted single literals is considered; the loop
    *breaks* at the first part that is not one (a `$"…"` string is not one, since fix 16d3528), or
    whose rewritten value is unchanged. -/
def simplifyWord : List Node → List Node × Bool
  | [] => ([], false)
  | p :: rest =>
    match p with
    | .mk .dbl dattrs _ [.mk .lit _ v []] =>
      if dattrs.getD 0 0 != 0 then (p :: rest, false)   -- dq.Dollar: `$"…"` is left alone (break)
      else
      match dqToSq v with
      | none =>
        let r := simplifyWord rest
        (p :: r.1, r.2)
      | some nv =>
        if nv = v then (p :: rest, false)
        else
          let r := simplifyWord rest
          (.mk .sgl dattrs nv [] :: r.1, true)
    | _ => (p :: rest, false)

/-! ### Arithmetic helpers -/

/-- `removeParensArithm`, with explicit fuel (the nesting depth is < size). -/
def removeParensArithm : Nat → Node → Node × Bool
  | 0, x => (x, false)
  | f+1, x =>
    match x with
    | .mk .parenArithm _ _ [y] => ((removeParensArithm f y).1, true)
    | _ => (x, false)

/-- `ParamExp.simple()` on the dumped layout. -/
def peSimple (pe : Node) : Bool :=
  match pe with
  | .mk .paramExp [_short, excl, length, width, isset, split, globsubst, rcexpand, names,
                   hasSlice, hasRepl, _replAll, hasExp, _expOp, _dollarValid] _
        [flags, param, nested, index, mods, _off, _len, _orig, _with, _expw] =>
    param.ty != .nil && flags.ty == .nil &&
    excl == 0 && length == 0 && width == 0 && isset == 0 &&
    split == 0 && globsubst == 0 && rcexpand == 0 &&
    nested.ty == .nil && index.ty == .nil &&
    mods.kids.isEmpty && hasSlice == 0 && hasRepl == 0 && names == 0 && hasExp == 0
  | _ => false

def peParam (pe : Node) : Node :=
  match pe.kids with
  | _ :: p :: _ => p
  | _ => nilNode

def inlineSimpleParams (x : Node) : Node × Bool :=
  match x with
  | .mk .word _ _ [pe] =>
    if pe.ty == .paramExp && (peParam pe).ty == .lit && validName (peParam pe).val && peSimple pe then
      (.mk .word [] [] [peParam pe], true)
    else (x, false)
  | _ => (x, false)

/-! ### Subshell helper -/
def plainStmtSubshell (st : Node) : Option (List Node) :=
  match st with
  | .mk .stmt [0, 0, 0, 0] _ [.mk .subshell _ _ stmts, .mk .list _ _ []] => some stmts
  | _ => none

def inlineSubshell : Nat → List Node → List Node × Bool
  | 0, stmts => (stmts, false)
  | f+1, stmts =>
    match stmts with
    | [st] =>
      match plainStmtSubshell st with
      | some inner => ((inlineSubshell f inner).1, true)
      | none => (stmts, false)
    | _ => (stmts, false)

/-! ### Test helpers -/
def unquoteParams (x : Node) : Node × Bool :=
  match x with
  | .mk .word a v [.mk .dbl _ _ [pe]] =>
    -- since fix 2e8be01: not when the expansion carries a word (`pe.Exp != nil || pe.Repl != nil`)
    if pe.ty == .paramExp && pe.attrs.getD 12 0 == 0 && pe.attrs.getD 10 0 == 0 then
      (.mk .word a v [pe], true)
    else (x, false)
  | _ => (x, false)

def removeParensTest : Nat → Node → Node × Bool
  | 0, x => (x, false)
  | f+1, x =>
    match x with
    | .mk .parenTest _ _ [y] => ((removeParensTest f y).1, true)
    | _ => (x, false)

def removeNegateTest (x : Node) : Node × Bool :=
  match x with
  | .mk .unaryTest [op] _ [y] =>
    if op = tsNot then
      match y with
      | .mk .unaryTest [yop] yv [yx] =>
        if yop = tsEmpStr then (.mk .unaryTest [tsNempStr] yv [yx], true)
        else if yop = tsNempStr then (.mk .unaryTest [tsEmpStr] yv [yx], true)
        else if yop = tsNot then (yx, true)
        else (x, false)
      | .mk .binaryTest [yop] yv yk =>
        if yop = tsMatch then (.mk .binaryTest [tsNoMatch] yv yk, true)
        else if yop = tsNoMatch then (.mk .binaryTest [tsMatch] yv yk, true)
        else (x, false)
      | _ => (x, false)
    else (x, false)
  | _ => (x, false)

/-! ### `simplifier.visit`: the field updates of one node; fuel `f` bounds the paren loops. -/
def arithTop (f : Nat) (x : Node) : Node × Bool :=
  let a := removeParensArithm f x
  let b := inlineSimpleParams a.1
  (b.1, a.2 || b.2)

def testTop (f : Nat) (x : Node) : Node × Bool :=
  let a := removeParensTest f x
  let b := removeNegateTest a.1
  (b.1, a.2 || b.2)

def visit (f : Nat) (n : Node) : Node × Bool :=
  match n with
  | .mk .assign a v [nm, value, index, arr] =>
    let i := removeParensArithm f index
    (.mk .assign a v [nm, value, i.1, arr], i.2)
  | .mk .paramExp a v [flags, param, nested, index, mods, off, len, orig, wth, expw] =>
    let i := removeParensArithm f index
    if a.getD 9 0 = 0 then   -- node.Slice == nil
      (.mk .paramExp a v [flags, param, nested, i.1, mods, off, len, orig, wth, expw], i.2)
    else
      let o := arithTop f off
      let l := arithTop f len
      (.mk .paramExp a v [flags, param, nested, i.1, mods, o.1, l.1, orig, wth, expw], i.2 || o.2 || l.2)
  | .mk .arithmExp a v [x] => let r := arithTop f x; (.mk .arithmExp a v [r.1], r.2)
  | .mk .arithmCmd a v [x] => let r := arithTop f x; (.mk .arithmCmd a v [r.1], r.2)
  | .mk .parenArithm a v [x] => let r := arithTop f x; (.mk .parenArithm a v [r.1], r.2)
  | .mk .binaryArithm a v [x, y] =>
    let rx := inlineSimpleParams x
    let ry := inlineSimpleParams y
    (.mk .binaryArithm a v [rx.1, ry.1], rx.2 || ry.2)
  | .mk .cmdSubst a v stmts => let r := inlineSubshell f stmts; (.mk .cmdSubst a v r.1, r.2)
  | .mk .subshell a v stmts => let r := inlineSubshell f stmts; (.mk .subshell a v r.1, r.2)
  | .mk .word a v parts => let r := simplifyWord parts; (.mk .word a v r.1, r.2)
  | .mk .testClause a v [x] => let r := testTop f x; (.mk .testClause a v [r.1], r.2)
  | .mk .parenTest a v [x] => let r := testTop f x; (.mk .parenTest a v [r.1], r.2)
  | .mk .binaryTest [op] v [x, y] =>
    let x1 := unquoteParams x
    let x2 := removeNegateTest x1.1
    let short := op = tsMatchShort
    let op' := if short then tsMatch else op
    let y1 := if op' = tsMatch || op' = tsNoMatch || op' = tsReMatch then (y, false) else unquoteParams y
    let y2 := removeNegateTest y1.1
    (.mk .binaryTest [op'] v [x2.1, y2.1], x1.2 || x2.2 || short || y1.2 || y2.2)
  | .mk .unaryTest a v [x] => let r := unquoteParams x; (.mk .unaryTest a v [r.1], r.2)
  | _ => (n, false)

/-- `Simplify`: visit the node, then walk its (rewritten) children.  Fuel bounds the depth;
    `simplify` supplies `2 * size n + 1`; any fuel above the weight of the tree (≤ 2·size) gives
    the same result (`simp_fuel_irrelevant`), so the fuel never runs out. -/
def simp : Nat → Node → Node × Bool
  | 0, n => (n, false)
  | f+1, n =>
    let r := visit (f+1) n
    let ks := r.1.kids.map (simp f)
    (.mk r.1.ty r.1.attrs r.1.val (ks.map Prod.fst), r.2 || ks.any Prod.snd)

def simplify (n : Node) : Node × Bool := simp (2 * size n + 1) n

/-! ## Layer B — typed fragments with a semantics -/

/-! ### B1. Double-quoted literals -/

/-- The string a double-quoted literal denotes (bash / POSIX 2.2.3): inside double quotes a
    backslash is removed only before `$`, `` ` ``, `"`, `\` and (together with it) a newline.
    An unescaped `$` in a `Lit` is literal (the parser turns expansions into other nodes).
    `none`: dangling backslash, which no parsed literal has. -/
def dqValue : Bytes → Option Bytes
  | [] => some []
  | [b] => if b = 92 then none else some [b]
  | b :: c :: rest =>
    if b = 92 then
      if c = 36 || c = 96 || c = 34 || c = 92 then (dqValue rest).map (c :: ·)
      else if c = 10 then dqValue rest
      else (dqValue rest).map (fun r => b :: c :: r)
    else (dqValue (c :: rest)).map (b :: ·)

def isOct (b : UInt8) : Bool := 48 ≤ b && b ≤ 55
def hexDig (b : UInt8) : Option Nat :=
  if 48 ≤ b && b ≤ 57 then some (b.toNat - 48)
  else if 97 ≤ b && b ≤ 102 then some (b.toNat - 87)
  else if 65 ≤ b && b ≤ 70 then some (b.toNat - 55)
  else none

/-- ANSI-C quoting `$'…'` (bash manual 3.1.2.4), fuel = length.  Modelled: the single-character
    escapes, `\nnn` (1–3 octal digits), `\xH[H]`; `\u`, `\U`, `\c` are left as they are (they do
    not occur in the theorems' witnesses). -/
def ansiC : Nat → Bytes → Bytes
  | 0, _ => []
  | _, [] => []
  | _, [b] => [b]
  | f+1, b :: c :: rest =>
    if b = 92 then
      if c = 110 then 10 :: ansiC f rest          -- \n
      else if c = 116 then 9 :: ansiC f rest      -- \t
      else if c = 114 then 13 :: ansiC f rest     -- \r
      else if c = 97 then 7 :: ansiC f rest       -- \a
      else if c = 98 then 8 :: ansiC f rest       -- \b
      else if c = 101 || c = 69 then 27 :: ansiC f rest  -- \e \E
      else if c = 102 then 12 :: ansiC f rest     -- \f
      else if c = 118 then 11 :: ansiC f rest     -- \v
      else if c = 92 || c = 39 || c = 34 || c = 63 then c :: ansiC f rest
      else if isOct c then
        match rest with
        | d :: rest' =>
          if isOct d then
            match rest' with
            | e :: rest'' =>
              if isOct e then
                UInt8.ofNat (((c.toNat - 48) * 64 + (d.toNat - 48) * 8 + (e.toNat - 48)) % 256) :: ansiC f rest''
              else UInt8.ofNat ((c.toNat - 48) * 8 + (d.toNat - 48)) :: ansiC f rest'
            | [] => [UInt8.ofNat ((c.toNat - 48) * 8 + (d.toNat - 48))]
          else UInt8.ofNat (c.toNat - 48) :: ansiC f rest
        | [] => [UInt8.ofNat (c.toNat - 48)]
      else if c = 120 then
        match rest with
        | d :: rest' =>
          match hexDig d with
          | some hd =>
            match rest' with
            | e :: rest'' =>
              match hexDig e with
              | some he => UInt8.ofNat (hd * 16 + he) :: ansiC f rest''
              | none => UInt8.ofNat hd :: ansiC f rest'
            | [] => [UInt8.ofNat hd]
          | none => b :: c :: ansiC f rest
        | [] => [b, c]
      else b :: c :: ansiC f rest
    else b :: ansiC f (c :: rest)

/-- Value of `'v'` (`dollar = false`) and `$'v'` (`dollar = true`). -/
def sqValue (dollar : Bool) (v : Bytes) : Bytes :=
  if dollar then ansiC (v.length + 1) v else v

/-- What `simplifyWord` does to one `"lit"` (`dollar = false`) / `$"lit"` part: `some nv` = replaced
    by `'nv'`; a `$"…"` string is never rewritten. -/
def rewriteDq (dollar : Bool) (lit : Bytes) : Option Bytes :=
  if dollar then none else
  match dqToSq lit with
  | some nv => if nv = lit then none else some nv
  | none => none

/-! ### B2. Arithmetic -/

inductive Arith
  | lit (v : Bytes)                        -- Word [Lit v]: a number or a bare name
  | dollar (braces : Bool) (name : Bytes)  -- Word [$name] / Word [${name}]
  | paren (x : Arith)
  | unary (op : Nat) (post : Bool) (x : Arith)
  | binary (op : Nat) (x y : Arith)        -- any BinaryArithm except the `?:` pair
  | tern (c a b : Arith)                   -- BinaryArithm{TernQuest, c, BinaryArithm{TernColon, a, b}}
  deriving Repr, DecidableEq, Inhabited

namespace Arith

def strip : Arith → Arith
  | paren x => strip x
  | e => e

def inline : Arith → Arith
  | dollar b n => if validName n then lit n else dollar b n
  | e => e

mutual
/-- `removeParensArithm` + `inlineSimpleParams` + walk: what happens to the expression held by an
    `ArithmExp`, `ArithmCmd`, `ParenArithm`, `Slice.Offset/Length`. -/
def top : Arith → Arith
  | paren x => top x
  | lit v => lit v
  | dollar b n => inline (dollar b n)
  | unary op p x => unary op p (walk x)
  | binary op x y => binary op (walkInl x) (walkInl y)
  | tern c a b => tern (walkInl c) (walkInl a) (walkInl b)
/-- The expression is visited as a node (its parent did not rewrite it). -/
def walk : Arith → Arith
  | paren x => paren (top x)
  | lit v => lit v
  | dollar b n => dollar b n
  | unary op p x => unary op p (walk x)
  | binary op x y => binary op (walkInl x) (walkInl y)
  | tern c a b => tern (walkInl c) (walkInl a) (walkInl b)
/-- An operand of a `BinaryArithm`: inlined, then visited. -/
def walkInl : Arith → Arith
  | paren x => paren (top x)
  | lit v => lit v
  | dollar b n => inline (dollar b n)
  | unary op p x => unary op p (walk x)
  | binary op x y => binary op (walkInl x) (walkInl y)
  | tern c a b => tern (walkInl c) (walkInl a) (walkInl b)
end

end Arith

/-- The operator facts the evaluators need; the theorems hold for every instance. -/
structure Prims where
  atoi : Bytes → Int
  fmt : Int → Bytes
  bin : Nat → Int → Int → Option Int
  un : Nat → Int → Option Int
  assignOp : Nat → Option (Int → Int → Option Int)   -- `=`, `+=`, …: old value, argument ↦ new value
  incDec : Nat → Option Int                          -- `++` ↦ 1, `--` ↦ -1
  isAnd : Nat → Bool
  isOr : Nat → Bool

abbrev Env := Bytes → Bytes
def Env.set (env : Env) (n v : Bytes) : Env := fun m => if m = n then v else env m

/-- The name-resolution loop of `expand.Arithm` on a `*Word`:
    `for ValidName(str) { val := env(str); if val == "" {break}; if i++; i >= 100 {break}; str = val }`.
    The first argument is `100 - i`. -/
def deref (env : Env) : Nat → Bytes → Bytes
  | 0, str => str
  | k+1, str =>
    if validName str then
      let val := env str
      if val = [] then str
      else if k = 0 then str
      else deref env k val
    else str

def maxNameRefDepth : Nat := 100

def b2i (b : Bool) : Int := if b then 1 else 0

/-- `expand.Arithm` (the interpreter): `$name` is expanded when the operand is evaluated. -/
def evalI (P : Prims) : Env → Arith → Option (Int × Env)
  | env, .lit v => some (P.atoi (deref env maxNameRefDepth v), env)
  | env, .dollar _ n => some (P.atoi (deref env maxNameRefDepth (env n)), env)
  | env, .paren x => evalI P env x
  | env, .unary op post x =>
    match P.incDec op with
    | some d =>
      match x with
      | .lit name =>
        let old := P.atoi (env name)
        let val := old + d
        some (if post then old else val, env.set name (P.fmt val))
      | _ => none    -- Go: type assertion on `expr.X.(*syntax.Word)` / the parser rejects it
    | none =>
      match evalI P env x with
      | some (v, env') => (P.un op v).map (·, env')
      | none => none
  | env, .binary op x y =>
    match P.assignOp op with
    | some f =>
      match x with
      | .lit name =>
        match evalI P env y with
        | some (arg, env') =>
          -- Go reads the old value *before* evaluating the right-hand side
          match f (P.atoi (env name)) arg with
          | some val => some (val, env'.set name (P.fmt val))
          | none => none
        | none => none
      | _ => none
    | none =>
      if P.isAnd op then
        match evalI P env x with
        | some (l, env') =>
          if l = 0 then some (0, env')
          else match evalI P env' y with
            | some (r, env'') => some (b2i (r ≠ 0), env'')
            | none => none
        | none => none
      else if P.isOr op then
        match evalI P env x with
        | some (l, env') =>
          if l ≠ 0 then some (1, env')
          else match evalI P env' y with
            | some (r, env'') => some (b2i (r ≠ 0), env'')
            | none => none
        | none => none
      else
        match evalI P env x with
        | some (l, env') =>
          match evalI P env' y with
          | some (r, env'') => (P.bin op l r).map (·, env'')
          | none => none
        | none => none

  | env, .tern c a b =>
    match evalI P env c with
    | some (v, env') => if v ≠ 0 then evalI P env' a else evalI P env' b
    | none => none

/-- Facts about Go's `atoi` / `strconv.FormatInt` the arithmetic theorems rely on: a valid name is
    not a number (`atoi` gives 0 as for the empty string), a formatted integer is not a name. -/
structure Prims.Lawful (P : Prims) : Prop where
  atoi_name : ∀ n, validName n = true → P.atoi n = P.atoi []
  fmt_not_name : ∀ k, validName (P.fmt k) = false

/-- No variable holds a string that is itself a valid name (true when variables hold integers). -/
def Env.NoNames (env : Env) : Prop := ∀ m, validName (env m) = false

def Arith.size : Arith → Nat
  | .lit _ => 1
  | .dollar _ _ => 1
  | .paren x => x.size + 1
  | .unary _ _ x => x.size + 1
  | .binary _ x y => x.size + y.size + 1
  | .tern c a b => c.size + a.size + b.size + 1

/-- What the parser guarantees (`isArithName`): assignments and `++`/`--` apply to a bare name. -/
def Arith.WF (P : Prims) : Arith → Prop
  | .lit _ => True
  | .dollar _ _ => True
  | .paren x => x.WF P
  | .unary op _ x => ((P.incDec op).isSome → ∃ n, x = .lit n) ∧ x.WF P
  | .binary op x y => ((P.assignOp op).isSome → ∃ n, x = .lit n) ∧ x.WF P ∧ y.WF P
  | .tern c a b => c.WF P ∧ a.WF P ∧ b.WF P

/-- bash, with integer-valued variables: every `$name` is replaced by the value the variable has
    *before* the expression is evaluated (`env0`), bare names are read when evaluated (`env`). -/
abbrev IEnv := Bytes → Int
def IEnv.set (env : IEnv) (n : Bytes) (v : Int) : IEnv := fun m => if m = n then v else env m

def evalB (P : Prims) (env0 : IEnv) : IEnv → Arith → Option (Int × IEnv)
  | env, .lit v => some (if validName v then env v else P.atoi v, env)
  | env, .dollar _ n => some (env0 n, env)
  | env, .paren x => evalB P env0 env x
  | env, .unary op post x =>
    match P.incDec op with
    | some d =>
      match x with
      | .lit name =>
        let old := env name
        let val := old + d
        some (if post then old else val, env.set name val)
      | _ => none
    | none =>
      match evalB P env0 env x with
      | some (v, env') => (P.un op v).map (·, env')
      | none => none
  | env, .binary op x y =>
    match P.assignOp op with
    | some f =>
      match x with
      | .lit name =>
        match evalB P env0 env y with
        | some (arg, env') =>
          -- like the interpreter, bash uses the value the name had before the right-hand side
          match f (env name) arg with
          | some val => some (val, env'.set name val)
          | none => none
        | none => none
      | _ => none
    | none =>
      if P.isAnd op then
        match evalB P env0 env x with
        | some (l, env') =>
          if l = 0 then some (0, env')
          else match evalB P env0 env' y with
            | some (r, env'') => some (b2i (r ≠ 0), env'')
            | none => none
        | none => none
      else if P.isOr op then
        match evalB P env0 env x with
        | some (l, env') =>
          if l ≠ 0 then some (1, env')
          else match evalB P env0 env' y with
            | some (r, env'') => some (b2i (r ≠ 0), env'')
            | none => none
        | none => none
      else
        match evalB P env0 env x with
        | some (l, env') =>
          match evalB P env0 env' y with
          | some (r, env'') => (P.bin op l r).map (·, env'')
          | none => none
        | none => none

  | env, .tern c a b =>
    match evalB P env0 env c with
    | some (v, env') => if v ≠ 0 then evalB P env0 env' a else evalB P env0 env' b
    | none => none

def evalBash (P : Prims) (env : IEnv) (e : Arith) : Option (Int × IEnv) := evalB P env env e

/-- Names occurring as `$name` / `${name}` operands. -/
def Arith.dollars : Arith → List Bytes
  | .lit _ => []
  | .dollar _ n => [n]
  | .paren x => x.dollars
  | .unary _ _ x => x.dollars
  | .binary _ x y => x.dollars ++ y.dollars
  | .tern c a b => c.dollars ++ a.dollars ++ b.dollars

/-- Names assigned by `=`, `op=`, `++`, `--`. -/
def Arith.assigned (P : Prims) : Arith → List Bytes
  | .lit _ => []
  | .dollar _ _ => []
  | .paren x => x.assigned P
  | .unary op _ x =>
    (match P.incDec op, x with
     | some _, .lit n => [n]
     | _, _ => []) ++ x.assigned P
  | .binary op x y =>
    (match P.assignOp op, x with
     | some _, .lit n => [n]
     | _, _ => []) ++ x.assigned P ++ y.assigned P
  | .tern c a b => c.assigned P ++ a.assigned P ++ b.assigned P

/-! ### B3. `[[ ]]` expressions -/

/-- The word shapes `unquoteParams` distinguishes; `p` identifies a parameter expansion. -/
inductive TWord
  | bare (p : Nat)       -- $p / ${p} / ${#p} / ${p[i]} … unquoted: an expansion without operator word
  | quoted (p : Nat)     -- the same inside double quotes: a Word holding one DblQuoted holding one ParamExp
  | bareW (p : Nat)      -- ${p:-word} / ${p#word} / ${p/pat/repl} … unquoted (ParamExp.Exp or .Repl set)
  | quotedW (p : Nat)    -- "${p:-word}" …
  | other (w : Nat)      -- any other word
  deriving Repr, DecidableEq, Inhabited

/-- `[[ ]]` expressions as the parser builds them: the operand of `!`, `&&`, `||` and of parentheses
    is an expression, the operands of every other operator are words. -/
inductive Test
  | word (w : TWord)
  | paren (x : Test)
  | not (x : Test)                    -- UnaryTest{TsNot}
  | un (op : Nat) (w : TWord)         -- UnaryTest{op ≠ TsNot}: -z -n -e -v …
  | logic (isAnd : Bool) (x y : Test) -- BinaryTest{AndTest / OrTest}
  | bin (op : Nat) (a b : TWord)      -- BinaryTest{any other op}: == != = =~ -eq < …
  deriving Repr, DecidableEq, Inhabited

namespace Test

def strip : Test → Test
  | paren x => strip x
  | e => e

/-- `unquoteParams`: only an expansion without operator word loses its quotes. -/
def unqW : TWord → TWord
  | .quoted p => .bare p
  | w => w

/-- `unquoteParams` on an operand that may be a word. -/
def unquote : Test → Test
  | word w => word (unqW w)
  | e => e

def removeNegate : Test → Test
  | not (un yop w) =>
    if yop = tsEmpStr then un tsNempStr w
    else if yop = tsNempStr then un tsEmpStr w
    else not (un yop w)
  | not (not x) => x
  | not (bin yop a b) =>
    if yop = tsMatch then bin tsNoMatch a b
    else if yop = tsNoMatch then bin tsMatch a b
    else not (bin yop a b)
  | e => e

def noUnquoteRhs (op : Nat) : Bool := op = tsMatch || op = tsNoMatch || op = tsReMatch

/-- One `visit` of a test node followed by the visits of its children; `fuel` bounds the depth. -/
def walk : Nat → Test → Test
  | 0, e => e
  | _, word w => word w
  | f+1, paren x => paren (walk f (removeNegate (strip x)))
  | f+1, not x => not (walk f (unquote x))
  | _, un op w => un op (unqW w)
  | f+1, logic c x y => logic c (walk f (removeNegate (unquote x))) (walk f (removeNegate (unquote y)))
  | _, bin op a b =>
    let op' := if op = tsMatchShort then tsMatch else op
    bin op' (unqW a) (if noUnquoteRhs op' then b else unqW b)

def depth : Test → Nat
  | word _ => 1
  | paren x => depth x + 1
  | not x => depth x + 1
  | un _ _ => 1
  | logic _ x y => max (depth x) (depth y) + 1
  | bin _ _ _ => 1

/-- What `Simplify` does to the expression of a `TestClause`. -/
def top (x : Test) : Test := walk (depth x + 1) (removeNegate (strip x))

end Test

/-- Abstract `[[ ]]` semantics: strings, emptiness, a pattern-match oracle, opaque other operators. -/
structure TSem where
  /-- value of an expansion without operator word: in `[[ ]]` there is no splitting or globbing,
      so it is the same string with and without the double quotes. -/
  sval : Nat → Bytes
  /-- value of an expansion with an operator word inside double quotes (`true`) / unquoted
      (`false`): the *word* of `${p:-'x'}`, `${p:-~}`, `${p:-\x}` is processed differently. -/
  pval : Bool → Nat → Bytes
  /-- value of any other word -/
  wval : Nat → Bytes
  /-- pattern of any other word on the right of `==`/`!=`/`=~` -/
  wpat : Nat → Bytes × Bool
  /-- `==`: does the string match the pattern; the Bool says whether the pattern text is active
      (unquoted) or literal (quoted) -/
  patMatch : Bytes × Bool → Bytes → Bool
  reMatch : Bytes × Bool → Bytes → Bool
  unOp : Nat → Bytes → Bool
  binOp : Nat → Bytes → Bytes → Bool

namespace TSem
variable (S : TSem)

def value : TWord → Bytes
  | .bare p => S.sval p
  | .quoted p => S.sval p
  | .bareW p => S.pval false p
  | .quotedW p => S.pval true p
  | .other w => S.wval w

/-- The right-hand side of `==`, `!=`, `=~`: a quoted expansion is literal text, an unquoted one is
    an active pattern / regular expression. -/
def pattern : TWord → Bytes × Bool
  | .bare p => (S.sval p, true)
  | .quoted p => (S.sval p, false)
  | .bareW p => (S.pval false p, true)
  | .quotedW p => (S.pval true p, false)
  | .other w => S.wpat w

def eval : Test → Bool
  | .word w => S.value w != []
  | .paren x => eval x
  | .not x => !eval x
  | .un op w =>
    if op = tsEmpStr then S.value w == []
    else if op = tsNempStr then S.value w != []
    else S.unOp op (S.value w)
  | .logic c x y => if c then eval x && eval y else eval x || eval y
  | .bin op a b =>
    if op = tsMatch || op = tsMatchShort then S.patMatch (S.pattern b) (S.value a)
    else if op = tsNoMatch then !S.patMatch (S.pattern b) (S.value a)
    else if op = tsReMatch then S.reMatch (S.pattern b) (S.value a)
    else S.binOp op (S.value a) (S.value b)

end TSem

/-! ### B4. Nested subshells: a tiny status/output model -/

mutual
inductive Cmd
  | echo (w : Bytes)              -- writes w, status 0
  | setv (n v : Bytes)            -- assignment, status 0
  | echov (n : Bytes)             -- writes the variable
  | exit (k : Nat)                -- leaves the innermost (sub)shell with status k
  | status (k : Nat)              -- `true`/`false`/…: sets the status
  | sub (body : List Stmt)        -- ( body )
inductive Stmt
  | mk (negated : Bool) (quiet : Bool) (c : Cmd)   -- `! c`, `c >/dev/null`
end

structure ShState where
  vars : Bytes → Bytes
  out : Bytes
  status : Nat

mutual
/-- Runs a command; the Bool says that `exit` was executed (the enclosing shell must stop). -/
def runCmd : Cmd → ShState → ShState × Bool
  | .echo w, s => ({ s with out := s.out ++ w, status := 0 }, false)
  | .setv n v, s => ({ s with vars := fun m => if m = n then v else s.vars m, status := 0 }, false)
  | .echov n, s => ({ s with out := s.out ++ s.vars n, status := 0 }, false)
  | .exit k, s => ({ s with status := k }, true)
  | .status k, s => ({ s with status := k }, false)
  | .sub body, s =>
    -- the subshell works on a copy: only its output and status come back, `exit` stops only it
    let r := runStmts body s
    ({ s with out := r.1.out, status := r.1.status }, false)
def runStmt : Stmt → ShState → ShState × Bool
  | .mk neg quiet c, s =>
    let r := runCmd c s
    let s1 := if quiet then { r.1 with out := s.out } else r.1
    let s2 := if neg && !r.2 then { s1 with status := if s1.status = 0 then 1 else 0 } else s1
    (s2, r.2)
def runStmts : List Stmt → ShState → ShState × Bool
  | [], s => (s, false)
  | st :: rest, s =>
    let r := runStmt st s
    if r.2 then r else runStmts rest r.1
end

/-- `inlineSubshell` on the model: `( ( body ) )` → `( body )` when the only statement is a plain
    subshell. -/
def inlineSub : Nat → List Stmt → List Stmt
  | 0, stmts => stmts
  | f+1, stmts =>
    match stmts with
    | [.mk false false (.sub inner)] => inlineSub f inner
    | _ => stmts

/-- `$( stmts )`: the captured output and the status. -/
def cmdSubst (stmts : List Stmt) (s : ShState) : Bytes × Nat :=
  let r := runStmts stmts { s with out := [] }
  (r.1.out, r.1.status)

/-! ## Embedding of the typed fragments into the dumped tree (layer B ↪ layer A)
  `Proofs/C04Bridge.lean` proves that `simp` acts on the embedded trees exactly as the typed
  simplifiers `Arith.top` / `Test.top` do. -/

def litWord (v : Bytes) : Node := .mk .word [] [] [.mk .lit [] v []]

/-- `$name` (`braces = false`) / `${name}`: the only non-zero attributes are `short` and `dollarValid`. -/
def simplePE (braces : Bool) (n : Bytes) : Node :=
  .mk .paramExp [if braces then 0 else 1, 0, 0, 0, 0, 0, 0, 0, 0, 0, 0, 0, 0, 0, 1] []
    [nilNode, .mk .lit [] n [], nilNode, nilNode, .mk .list [] [] [], nilNode, nilNode, nilNode, nilNode, nilNode]

/-- `q`, `c`: the numeric values of `TernQuest` and `TernColon`. -/
def Arith.toNode (q c : Nat) : Arith → Node
  | .lit v => litWord v
  | .dollar b n => .mk .word [] [] [simplePE b n]
  | .paren x => .mk .parenArithm [] [] [x.toNode q c]
  | .unary op post x => .mk .unaryArithm [op, if post then 1 else 0] [] [x.toNode q c]
  | .binary op x y => .mk .binaryArithm [op] [] [x.toNode q c, y.toNode q c]
  | .tern x a b => .mk .binaryArithm [q] [] [x.toNode q c, .mk .binaryArithm [c] [] [a.toNode q c, b.toNode q c]]

def Arith.depth : Arith → Nat
  | .lit _ => 1
  | .dollar _ _ => 1
  | .paren x => x.depth + 1
  | .unary _ _ x => x.depth + 1
  | .binary _ x y => max x.depth y.depth + 1
  | .tern x a b => max x.depth (max a.depth b.depth + 1) + 1

/-- `${n:-x}`: `hasExp` (attribute 12) is set and the word is the last kid. -/
def wordPE (n : Bytes) : Node :=
  .mk .paramExp [0, 0, 0, 0, 0, 0, 0, 0, 0, 0, 0, 0, 1, 0, 1] []
    [nilNode, .mk .lit [] n [], nilNode, nilNode, .mk .list [] [] [], nilNode, nilNode, nilNode, nilNode, litWord [120]]

def TWord.toNode : TWord → Node
  | .bare p => .mk .word [] [] [simplePE false [UInt8.ofNat p]]
  | .quoted p => .mk .word [] [] [.mk .dbl [0] [] [simplePE false [UInt8.ofNat p]]]
  | .bareW p => .mk .word [] [] [wordPE [UInt8.ofNat p]]
  | .quotedW p => .mk .word [] [] [.mk .dbl [0] [] [wordPE [UInt8.ofNat p]]]
  | .other w => litWord [UInt8.ofNat w]

def Test.toNode : Test → Node
  | .word w => w.toNode
  | .paren x => .mk .parenTest [] [] [x.toNode]
  | .not x => .mk .unaryTest [tsNot] [] [x.toNode]
  | .un op w => .mk .unaryTest [op] [] [w.toNode]
  | .logic c x y => .mk .binaryTest [if c then tsAnd else tsOr] [] [x.toNode, y.toNode]
  | .bin op a b => .mk .binaryTest [op] [] [a.toNode, b.toNode]

/-- Operator codes are used as the parser uses them: `un` never carries `!`. -/
def Test.WF : Test → Prop
  | .word _ => True
  | .paren x => x.WF
  | .not x => x.WF
  | .un op _ => op ≠ tsNot
  | .logic _ x y => x.WF ∧ y.WF
  | .bin _ _ _ => True

/-! ### Concrete primitives, used for the witnesses and non-vacuity examples in Props/C04.lean.
  (A decimal `atoi` without base prefixes, `strconv.FormatInt(_, 10)`, `+ - *` and `=`/`+=`.) -/

def atoiNat (s : Bytes) : Nat := s.foldl (fun acc d => acc * 10 + (d.toNat - 48)) 0

def atoiDec (s : Bytes) : Int :=
  match s with
  | [] => 0
  | b :: rest =>
    if b = 45 then (if rest.all isDigit && !rest.isEmpty then - (atoiNat rest : Int) else 0)
    else if s.all isDigit then (atoiNat s : Int) else 0

def fmtNatAux : Nat → Nat → Bytes → Bytes
  | 0, _, acc => acc
  | f+1, n, acc =>
    let acc' := UInt8.ofNat (48 + n % 10) :: acc
    if n < 10 then acc' else fmtNatAux f (n / 10) acc'

def fmtNat (n : Nat) : Bytes := fmtNatAux (n + 1) n []

def fmtInt (k : Int) : Bytes := if k < 0 then 45 :: fmtNat k.natAbs else fmtNat k.natAbs

def opAdd : Nat := 0
def opSub : Nat := 1
def opMul : Nat := 2
def opAssgn : Nat := 10
def opAddAssgn : Nat := 11
def opInc : Nat := 20
def opDec : Nat := 21
def opNeg : Nat := 30

def demoPrims : Prims where
  atoi := atoiDec
  fmt := fmtInt
  bin := fun op x y => if op = opAdd then some (x + y) else if op = opSub then some (x - y)
    else if op = opMul then some (x * y) else none
  un := fun op x => if op = opNeg then some (-x) else none
  assignOp := fun op => if op = opAssgn then some (fun _ a => some a)
    else if op = opAddAssgn then some (fun o a => some (o + a)) else none
  incDec := fun op => if op = opInc then some 1 else if op = opDec then some (-1) else none
  isAnd := fun _ => false
  isOr := fun _ => false

end ShVerif.C04
