/-
  C31 — Cancelling the context stops any program promptly.

  Part 1: a small skeleton model of how `Runner.stmt/cmd/call`, the loops and `stmts` consult
          `Runner.stop` (interp/runner.go).  Expansions and commands are opaque: an atom is one
          simple command (`Runner.call`), its status comes from an oracle.  The context may become
          cancelled at any step boundary: after a given number of model steps (`cancelAt`) or while
          a given atom runs (`cancelAtom`, what the harness does from a CallHandler).
          The model mirrors the code as it is: the word-list `for` checks `stop()` at the top of
          every iteration (since 7ead8d8; before, it walked through its remaining items); the
          C-style `for` leaves through `!r.exit.ok()`; `while`/`until` leave at the loop head.
  Part 2: shapes of the regenerated table of blocking operations in package interp and the
          wait-for reasoning over it.
  Core Lean only.
-/
namespace ShVerif.C31

/-! ## Part 1 — skeleton programs -/

inductive Sk where
  | atom (id : Nat)                    -- simple command: stmt → cmd → call
  | seq (a b : Sk)                     -- stmts
  | ifc (c t e : Sk)                   -- IfClause
  | whileL (u : Bool) (c b : Sk)       -- WhileClause (u = until): cmd's stop check, then the loop
  | whileIter (u : Bool) (c b : Sk)    -- `for !r.stop(ctx) { … }`                       (internal)
  | forW (n : Nat) (b : Sk)            -- ForClause/WordIter with n items: cmd's stop check, items expanded
  | forItems (k : Nat) (b : Sk)        -- `for _, field := range items` with k items left  (internal)
  | forC (n : Nat) (b : Sk)            -- ForClause/CStyleLoop `for ((i=0;i<n;i++))`: cmd's stop check, Init
  | forCIter (i n : Nat) (b : Sk)      -- `for Cond != 0 { if !ok || body… break; Post }`  (internal)
  | sub (b : Sk)                       -- Subshell / Block / function body: stop check, then the body
  deriving DecidableEq, Repr

structure St where
  now : Nat                 -- model steps so far
  after : Nat               -- model steps taken while the context was already cancelled
  log : List Nat            -- atoms executed, most recent first
  items : Nat               -- word-list `for` iterations started (each prints one xtrace line)
  ok : Bool                 -- r.exit.ok()
  fatal : Bool              -- r.exit.fatalExit (set by stop() when it sees ctx.Err())
  deriving DecidableEq, Repr

def St.init : St := { now := 0, after := 0, log := [], items := 0, ok := true, fatal := false }

structure Env where
  cancelAt : Nat            -- cancelled once this many model steps have been taken
  cancelAtom : Nat          -- cancelled once this many atoms have run (the k-th atom cancels)
  oracle : Nat → Bool       -- status of the i-th executed atom (true = success)

/-- `ctx.Err() != nil` as `Runner.stop` would see it now -/
def cancelled (e : Env) (st : St) : Bool :=
  decide (e.cancelAt ≤ st.now) || decide (e.cancelAtom ≤ st.log.length)

/-- one model step -/
def tick (e : Env) (st : St) : St :=
  { st with now := st.now + 1, after := if cancelled e st then st.after + 1 else st.after }

/-- `stop()` saw the cancellation: `r.exit.fatal(err)` (code 1, exiting, fatalExit), return -/
def halt (e : Env) (st : St) : St := tick e { st with ok := false, fatal := true }

/-- `exitStatus.clear()`: no-op once returning/exiting/fatal -/
def clear (st : St) : St := if st.fatal then st else { st with ok := true }

def runAtom (e : Env) (id : Nat) (st : St) : St :=
  tick e { st with log := id :: st.log, ok := e.oracle st.log.length }

/-- big-step execution on fuel; `none` = still running when the fuel ran out -/
def exec (e : Env) : Nat → Sk → St → Option St
  | 0, _, _ => none
  | _ + 1, .atom id, st =>
      if cancelled e st then some (halt e st) else some (runAtom e id st)
  | f + 1, .seq a b, st =>
      match exec e f a st with
      | none => none
      | some st1 => exec e f b st1
  | f + 1, .ifc c t el, st =>
      if cancelled e st then some (halt e st) else
      match exec e f c (tick e st) with
      | none => none
      | some st1 => if st1.ok then exec e f t st1 else exec e f el (clear st1)
  | f + 1, .whileL u c b, st =>
      if cancelled e st then some (halt e st) else exec e f (.whileIter u c b) (tick e st)
  | f + 1, .whileIter u c b, st =>
      if cancelled e st then some (halt e st) else
      match exec e f c (tick e st) with
      | none => none
      | some st1 =>
        if st1.ok == u then some (clear st1) else
        match exec e f b (clear st1) with
        | none => none
        | some st2 => exec e f (.whileIter u c b) st2
  | f + 1, .forW n b, st =>
      -- stmt's `r.exit = exitStatus{}`: an empty item list leaves status 0
      if cancelled e st then some (halt e st) else exec e f (.forItems n b) (tick e { st with ok := true })
  | _ + 1, .forItems 0 _, st => some st
  | f + 1, .forItems (k + 1) b, st =>
      -- `if r.stop(ctx) { break }` at the top of every iteration (since 7ead8d8), then
      -- setVarString + trace line + body
      if cancelled e st then some (halt e st) else
      match exec e f b (tick e { st with items := st.items + 1 }) with
      | none => none
      | some st1 => exec e f (.forItems k b) st1
  | f + 1, .forC n b, st =>
      if cancelled e st then some (halt e st) else exec e f (.forCIter 0 n b) (tick e { st with ok := true })
  | f + 1, .forCIter i n b, st =>
      let st1 := tick e st                       -- r.arithm(y.Cond)
      if i < n then
        if !st1.ok then some st1 else            -- `!r.exit.ok()` → break
        match exec e f b st1 with
        | none => none
        | some st2 => exec e f (.forCIter (i + 1) n b) (tick e st2)   -- r.arithm(y.Post)
      else some st1
  | f + 1, .sub b, st =>
      if cancelled e st then some (halt e st) else exec e f b (tick e st)

/-- `Run` returns the context's error: `stop()` recorded it, or (since 7cff692) the context is
    cancelled at the end of the run and the last status is success (`if r.exit.ok() { r.exit.fatal(ctx.Err()) }`) -/
def reported (e : Env) (st : St) : Bool := st.fatal || (cancelled e st && st.ok)

/-- programs as the harness writes them: no internal constructors -/
def userLevel : Sk → Bool
  | .atom _ => true
  | .seq a b => userLevel a && userLevel b
  | .ifc c t e => userLevel c && userLevel t && userLevel e
  | .whileL _ c b => userLevel c && userLevel b
  | .forW _ b => userLevel b
  | .forC _ b => userLevel b
  | .sub b => userLevel b
  | _ => false

/-- the first thing the program does is a stop check -/
def lead : Sk → Bool
  | .atom _ => true
  | .seq a _ => lead a
  | .ifc _ _ _ => true
  | .whileL _ _ _ => true
  | .whileIter _ _ _ => true
  | .forW _ _ => true
  | .forItems _ _ => false
  | .forC _ _ => true
  | .forCIter _ _ _ => false
  | .sub _ => true

/-- every C-style loop body starts with a stop check (a loop body has at least one statement) -/
def wf : Sk → Bool
  | .atom _ => true
  | .seq a b => wf a && wf b
  | .ifc c t e => wf c && wf t && wf e
  | .whileL _ c b => wf c && wf b
  | .whileIter _ c b => wf c && wf b
  | .forW _ b => wf b
  | .forItems _ b => wf b
  | .forC _ b => wf b && lead b
  | .forCIter _ _ b => wf b && lead b
  | .sub b => wf b

/-- static bound on the model steps a program can still take once the context is cancelled -/
def unwind : Sk → Nat
  | .atom _ => 1
  | .seq a b => unwind a + unwind b
  | .ifc c t e => 1 + unwind c + unwind t + unwind e
  | .whileL _ c b => 1 + (unwind c + unwind b + 2)
  | .whileIter _ c b => unwind c + unwind b + 2
  | .forW _ b => 1 + (unwind b + 2)
  | .forItems _ b => unwind b + 2
  | .forC _ b => 1 + (2 * unwind b + 6)
  | .forCIter _ _ b => 2 * unwind b + 6
  | .sub b => 1 + unwind b

/-- fuel that certainly suffices once the context is cancelled -/
def depth : Sk → Nat
  | .atom _ => 1
  | .seq a b => 1 + max (depth a) (depth b)
  | .ifc c t e => 1 + max (depth c) (max (depth t) (depth e))
  | .whileL _ _ _ => 2
  | .whileIter _ _ _ => 1
  | .forW _ _ => 2
  | .forItems _ _ => 1
  | .forC _ b => 4 + depth b
  | .forCIter _ _ b => 3 + depth b
  | .sub b => 1 + depth b

/-! ## Part 2 — blocking operations -/

/-- one blocking operation found by the go/ast scan of package interp -/
structure Block where
  file : String
  func : String        -- enclosing function (Recv.Name or Name); "+closure" inside a func literal, "+go" inside `go func(){…}()`
  kind : String        -- chan-recv | wait | copy | read | write | openfile | scan | readpassword | parse | select | sleep | other:…
  operand : String     -- what is waited on (source text of the channel / receiver / arguments)
  deriving DecidableEq, Repr

/-- why a blocked operation is released after cancellation -/
inductive Release where
  | deadline                  -- SetReadDeadline from a context.AfterFunc
  | context                   -- the operation takes the context itself (exec.CommandContext + Cancel/WaitDelay)
  | peer (on : List String)   -- released when the named peers terminate (or arrive)
  | external                  -- blocks only on an I/O object supplied by the embedder or named by the script
  | unreleased                -- nothing releases it: known finding
  deriving DecidableEq, Repr

structure Expected where
  func : String
  kind : String
  operand : String
  owner : String       -- the activity (peer) that executes this operation
  rel : Release
  why : String

def Expected.key (x : Expected) : String := x.func ++ "|" ++ x.kind ++ "|" ++ x.operand
def Block.key (b : Block) : String := b.func ++ "|" ++ b.kind ++ "|" ++ b.operand

/-- an activity of the wait-for graph: a goroutine kind; it ends when none of the operations it owns
    is stuck and none of the peers it runs into (`alsoNeeds`) is stuck -/
structure Peer where
  name : String
  alsoNeeds : List String

/-- one round: operations waiting on a stuck peer, and peers owning a stuck operation or needing a
    stuck peer, become stuck -/
def stuckStep (ex : List Expected) (peers : List Peer) (s : List String) : List String :=
  let ops := (ex.filter fun x => match x.rel with
    | .peer on => on.any s.contains
    | _ => false).map (·.key)
  let ps := (peers.filter fun p =>
    p.alsoNeeds.any s.contains || ex.any (fun x => x.owner = p.name && s.contains x.key)).map (·.name)
  (s ++ ops ++ ps).eraseDups

def stuckFix (ex : List Expected) (peers : List Peer) : Nat → List String → List String
  | 0, s => s
  | n + 1, s => stuckFix ex peers n (stuckStep ex peers s)

/-- operations and activities that may stay blocked forever after cancellation: the least set
    containing the unreleased operations and closed under "waits for".  Everything else is released
    (the dynamic spawn tree is well founded: a parent waits for its children, never the reverse). -/
def stuck (ex : List Expected) (peers : List Peer) : List String :=
  stuckFix ex peers (ex.length + peers.length + 1)
    ((ex.filter fun x => x.rel = .unreleased).map (·.key))

end ShVerif.C31
