/-
  C30 — Runner reuse is equivalent to a fresh runner.

  Part 1: shapes of the tables regenerated from /repo/interp (struct Runner, Runner.Reset, every
          write site of a Runner field) and the checks that give a field classification meaning.
  Part 2: an abstract interpretation of the regenerated Reset table (`resetAbs`), used to state
          that Reset's result only depends on the stable (configuration) fields.
  Part 3: a small executable model of `Runner.Run` on a file vs. one `Run` per top-level statement
          (`runFile` / `runIncr`), mirroring interp/api.go `Run`, `Exited`, runner.go `stop`,
          `stmt`, `stmts`, `trapCallback` for a tiny statement language.
  Core Lean only.
-/
namespace ShVerif.C30

/-! ## Part 1 — table shapes -/

/-- shape of a value written to a field: `self` = receiver field `field`, `self0` = receiver field
    sliced to length 0, `const`, `make` (fresh empty map), `fresh` (new composite value),
    `appendSelf` (append to receiver field `field`), `clear`, `other` -/
structure Val where
  kind : String
  field : String
  deps : List String
  deriving DecidableEq, Repr

structure Write where
  field : String
  op : String            -- assign | clear | incdec | unknown-stmt
  val : Val
  guards : List String   -- notDidReset | isNil:F | notNil:F | cond:… | else:… | loop | closure
  deriving DecidableEq, Repr

structure Call where
  name : String
  guards : List String
  deriving DecidableEq, Repr

structure Site where
  field : String          -- "*" = whole-struct overwrite
  func : String           -- Recv.Name or Name
  kind : String           -- assign | assign-elem | clear | incdec | literal | whole | addr
  base : String           -- runner | unknown
  notDidReset : Bool
  inClosure : Bool
  deriving DecidableEq, Repr

/-- what Reset does with a field -/
inductive Class where
  | zeroed                              -- absent from the literal, never given a non-zero value afterwards
  | restoredFromOrig (orig : String)    -- literal value is the receiver's `orig` field, itself kept
  | config                              -- literal value is the receiver's own field, never touched afterwards
  | clearedBacking                      -- own backing store kept but emptied (map cleared, slice[:0]) then re-seeded from stable fields
  | rebuilt                             -- absent from the literal, unconditionally given a fresh value computed from stable fields
  deriving DecidableEq, Repr

structure ResetTable where
  fields : List String
  whole : Bool
  nLiterals : Nat
  literal : List (String × Val)
  pre : List Write
  post : List Write
  preCalls : List Call
  postCalls : List Call

def lookup {α} (k : String) : List (String × α) → Option α
  | [] => none
  | (a, v) :: r => if a = k then some v else lookup k r

def classOf (ex : List (String × Class × String)) (f : String) : Option Class :=
  (lookup f ex).map (·.1)

def isStable (ex : List (String × Class × String)) (f : String) : Bool :=
  classOf ex f = some .config

/-- fields whose value after the literal is a function of stable fields only -/
def isSettled (ex : List (String × Class × String)) (f : String) : Bool :=
  match classOf ex f with
  | some .config => true
  | some (.restoredFromOrig _) => true
  | _ => false

def postOf (t : ResetTable) (f : String) : List Write := t.post.filter (·.field = f)
def preOf (t : ResetTable) (f : String) : List Write := t.pre.filter (·.field = f)

def litIs (t : ResetTable) (f kind src : String) : Bool :=
  match lookup f t.literal with
  | some v => v.kind = kind && v.field = src
  | none => false

/-- a post-literal write that cannot make a zero/empty field non-empty -/
def keepsEmpty (f : String) (w : Write) : Bool :=
  w.op = "clear" || (w.op = "assign" && w.val.kind = "self0" && w.val.field = f)

def fieldOk (ex : List (String × Class × String)) (t : ResetTable) (f : String) : Class → Bool
  | .zeroed =>
      (lookup f t.literal).isNone && (postOf t f).all (keepsEmpty f)
  | .restoredFromOrig o =>
      litIs t f "self" o && litIs t o "self" o && (postOf t f).isEmpty && isStable ex o
      -- the orig field is captured from this very field, once, before the first literal
      && (preOf t o).any (fun w => w.op = "assign" && w.val.kind = "self" && w.val.field = f && w.guards = ["notDidReset"])
  | .config =>
      litIs t f "self" f && (postOf t f).isEmpty
      && (preOf t f).all (fun w => w.guards.head? = some "notDidReset")
  | .clearedBacking =>
      -- emptied: either the literal slices it to 0, or it is kept and cleared (made when nil)
      (litIs t f "self0" f
        || (litIs t f "self" f
            && (postOf t f).any (fun w => w.op = "clear" && w.guards = ["notNil:" ++ f])
            && (postOf t f).any (fun w => w.op = "assign" && w.val.kind = "make" && w.guards = ["isNil:" ++ f])))
      -- afterwards only cleared / made / re-seeded from settled fields, unconditionally
      && (postOf t f).all (fun w =>
            (w.op = "clear" && w.guards = ["notNil:" ++ f])
            || (w.op = "assign" && w.val.kind = "make" && w.guards = ["isNil:" ++ f])
            || (w.op = "assign" && w.val.kind = "appendSelf" && w.val.field = f && w.guards = []
                && w.val.deps.all (isSettled ex)))
  | .rebuilt =>
      (lookup f t.literal).isNone && !(postOf t f).isEmpty
      && (postOf t f).all (fun w =>
            w.op = "assign" && w.guards = [] && (w.val.kind = "fresh" || w.val.kind = "const")
            && w.val.deps.all (isSettled ex))

def fieldClassified (ex : List (String × Class × String)) (t : ResetTable) (f : String) : Bool :=
  match classOf ex f with
  | some c => fieldOk ex t f c
  | none => false

def noDup : List String → Bool
  | [] => true
  | a :: r => !r.contains a && noDup r

/-- global shape of Reset: one literal, assigned to `*r`, all keys are fields, nothing the scan did
    not understand, only the allowed helper calls after the literal, none before -/
def resetFrameOk (t : ResetTable) (allowedCalls : List String) : Bool :=
  t.whole && t.nLiterals = 1
  && t.literal.all (fun (k, _) => t.fields.contains k)
  && noDup (t.literal.map (·.1)) && noDup t.fields
  && (t.pre ++ t.post).all (fun w => w.op ≠ "unknown-stmt" && t.fields.contains w.field)
  && t.preCalls.isEmpty
  && t.postCalls.all (fun c => allowedCalls.contains c.name)

/-! ### write sites of stable fields -/

def siteOk (options : List (String × String)) (foreign : List (String × String))
    (ctors : List String) (s : Site) : Bool :=
  (s.kind = "literal" && ctors.contains s.func)
  || (s.kind = "whole" && s.func = "Runner.Reset")
  || (s.kind = "assign" && s.base = "runner" && s.func = "Runner.Reset" && s.notDidReset)
  || (s.kind = "assign" && s.base = "runner" && s.inClosure && options.contains (s.func, s.field))
  || (s.base = "unknown" && foreign.contains (s.func, s.field))

/-! ## Part 2 — abstract interpretation of the Reset table -/

inductive AVal where
  | zero
  | atom (n : Nat)                         -- an opaque value of the pre-state
  | empty (backing : AVal)                 -- own store, emptied
  | built (tag : String) (args : List AVal)
  deriving Repr

abbrev AState := String → AVal

def evalVal (s : AState) (cur : AState) (f : String) (v : Val) : AVal :=
  match v.kind with
  | "self" => s v.field
  | "self0" => .empty (s v.field)
  | "const" => .built ("const:" ++ v.field) []
  | "make" => .empty .zero
  | "clear" => .empty (cur f)
  | "fresh" => .built "fresh" (v.deps.map cur)
  | "appendSelf" => .built "append" (cur v.field :: v.deps.map cur)
  | _ => .built "other" (v.deps.map cur)

/-- the state right after `*r = Runner{…}` -/
def afterLiteral (t : ResetTable) (s : AState) : AState := fun f =>
  match lookup f t.literal with
  | some v => evalVal s s f v
  | none => .zero

/-- Observable content: backing stores of emptied values are not observable. -/
def AVal.obs : AVal → AVal
  | .zero => .zero
  | .atom n => .atom n
  | .empty _ => .empty .zero
  | .built t as => .built t (obsList as)
where obsList : List AVal → List AVal
  | [] => []
  | a :: r => a.obs :: obsList r

/-! ## Part 3 — whole-file run vs one Run per top-level statement -/

/-- simple commands (also the alphabet of EXIT-trap bodies) -/
inductive Simple where
  | assign (x v : String)     -- x=v
  | unset (x : String)        -- unset x
  | echo (w : String)         -- echo w
  | echoVar (x : String)      -- echo "$x"
  | echoStatus                -- echo $?
  | echo0                     -- echo $0
  | status (n : Nat)          -- (exit n): a command with status n that does not exit the shell
  | exit (n : Option Nat)     -- exit [n]
  | setE (on : Bool)          -- set -e / set +e
  | setN                      -- set -n
  deriving DecidableEq, Repr

inductive Stmt where
  | simple (c : Simple)
  | trapExit (body : List Simple)   -- trap '<body>' EXIT   ([] = trap - EXIT)
  deriving DecidableEq, Repr

structure Exit where
  code : Nat
  exiting : Bool
  deriving DecidableEq, Repr

structure St where
  vars : List (String × String)   -- set variables, most recent binding first
  out : List String               -- lines written to stdout
  exit : Exit                     -- r.exit
  lastExit : Exit                 -- r.lastExit
  errexit : Bool                  -- r.opts[optErrExit]
  noexec : Bool                   -- r.opts[optNoExec]
  trap : List Simple              -- r.callbackExit ("" ↔ [])
  filename : String               -- r.filename
  handlingTrap : Bool
  deriving DecidableEq, Repr

def Exit.zero : Exit := ⟨0, false⟩

def St.fresh : St :=
  { vars := [], out := [], exit := .zero, lastExit := .zero, errexit := false, noexec := false,
    trap := [], filename := "", handlingTrap := false }

def getVar (vs : List (String × String)) (x : String) : String := (lookup x vs).getD ""

def delVar (vs : List (String × String)) (x : String) : List (String × String) :=
  vs.filter (·.1 ≠ x)

def setVar (vs : List (String × String)) (x v : String) : List (String × String) :=
  (x, v) :: delVar vs x

/-- `Runner.stop` with a context that is never cancelled -/
def stop (s : St) : Bool :=
  (!s.handlingTrap && s.exit.exiting) || s.noexec

/-- `$0`: the file name when the node was a File with a name, else "gosh" (vars.go lookupVar) -/
def arg0 (s : St) : String := if s.filename ≠ "" then s.filename else "gosh"

/-- status of `exit [n]`: `exit = r.lastExit` without an argument, else `uint8(n)` -/
def exitCode (s : St) : Option Nat → Nat
  | none => s.lastExit.code
  | some n => n % 256

/-- `Runner.cmd` for a simple command; `s.exit` is the zero value on entry -/
def cmdSimple (s : St) : Simple → St
  | .assign x v => { s with vars := setVar s.vars x v }
  | .unset x => { s with vars := delVar s.vars x }
  | .echo w => { s with out := s.out ++ [w] }
  | .echoVar x => { s with out := s.out ++ [getVar s.vars x] }
  | .echoStatus => { s with out := s.out ++ [toString s.lastExit.code] }
  | .echo0 => { s with out := s.out ++ [arg0 s] }
  | .status n => { s with exit := { s.exit with code := n % 256 } }
  | .exit n => { s with exit := ⟨exitCode s n, true⟩ }
  | .setE on => { s with errexit := on }
  | .setN => { s with noexec := true }

/-- `r.exit = exitStatus{}` at the start of a statement -/
def zeroExit (s : St) : St := { s with exit := .zero }

/-- `stmtSync`: a failing command makes the shell exit under errexit (no ERR trap modelled) -/
def errx (s : St) : St :=
  if s.exit.code ≠ 0 && s.errexit then { s with exit := { s.exit with exiting := true } } else s

/-- `r.lastExit = r.exit` -/
def fixLast (s : St) : St := { s with lastExit := s.exit }

/-- `Runner.stmt` + `stmtSync` for a simple command (no redirections, not negated, no ERR trap) -/
def stmtSimple (s : St) (c : Simple) : St :=
  if stop s then s else fixLast (errx (cmdSimple (zeroExit s) c))

def stmtsSimple (s : St) : List Simple → St
  | [] => s
  | c :: r => stmtsSimple (stmtSimple s c) r

/-- the `trap` builtin setting the EXIT callback -/
def setTrap (s : St) (body : List Simple) : St := { s with trap := body }

def stmt (s : St) : Stmt → St
  | .simple c => stmtSimple s c
  | .trapExit body => if stop s then s else fixLast (setTrap (zeroExit s) body)

def stmts (s : St) : List Stmt → St
  | [] => s
  | c :: r => stmts (stmt s c) r

def enterTrap (s : St) : St := { s with handlingTrap := true, lastExit := s.exit }

/-- `r.exit, r.lastExit = oldExit, oldLastExit` and the deferred `r.handlingTrap = false` -/
def leaveTrap (old s : St) : St := { s with exit := old.exit, lastExit := old.lastExit, handlingTrap := false }

/-- `Runner.trapCallback(ctx, r.callbackExit, "exit")` -/
def trapCallback (s : St) : St :=
  if s.trap = [] then s else
  if s.handlingTrap then s else
  leaveTrap s (stmtsSimple (enterTrap s) s.trap)

/-- prologue of `Run`: `r.exit = exitStatus{}; r.filename = …` -/
def pro (n : String) (s : St) : St := { s with exit := .zero, filename := n }

/-- `Runner.Run(ctx, node)`: `file = some name` for a *syntax.File, `none` for a *syntax.Stmt -/
def run (s : St) (file : Option String) (body : List Stmt) : St :=
  let t := fixLast (stmts (pro (file.getD "") s) body)
  if file.isSome || t.exit.exiting then trapCallback t else t

/-- the Runner fields the model's `run` writes by itself on every call (`pro`: exit, filename;
    `fixLast`: lastExit) — compared with the regenerated table of `Runner.Run` in Props (`run_prologue_model`) -/
def modelRunWrites : List String := ["exit", "filename", "lastExit"]

/-- one `Run` of the whole file -/
def runFile (name : String) (ss : List Stmt) (s : St) : St := run s (some name) ss

/-- one `Run` per top-level statement, stopping once `Exited()` -/
def runIncr : List Stmt → St → St
  | [], s => s
  | c :: r, s =>
    let s := run s none [c]
    if s.exit.exiting then s else runIncr r s

/-- what the property observes: output, variables, final status (`Run`'s error) -/
structure Obs where
  out : List String
  vars : List (String × String)
  status : Nat
  deriving DecidableEq, Repr

def St.obs (s : St) : Obs := ⟨s.out, s.vars, s.exit.code⟩

/-- The property's own statement, executable: the whole-file semantics in which the EXIT trap at the
    normal end of the file (the one only a whole-file run triggers) is left out. -/
def specIncr (name : String) (ss : List Stmt) (s : St) : Obs :=
  let t := fixLast (stmts (pro name s) ss)
  (if t.exit.exiting then trapCallback t else t).obs

def usesArg0Simple : Simple → Bool
  | .echo0 => true
  | _ => false

def usesArg0 : Stmt → Bool
  | .simple c => usesArg0Simple c
  | .trapExit body => body.any usesArg0Simple

end ShVerif.C30
