import ShVerif.Base.Hex
/-
  C24 — model of expand/expand.go `formatInto` / `Format`, of the `printf` and `echo` builtins in
  interp/builtin.go, of the part of `fmt.Fprintf` and `strconv.ParseInt/ParseUint` they delegate
  to — and (second half, `namespace Spec`) a declarative description of what bash's `printf` /
  `echo -e` do on the directive set the property names.

  Conventions.  Positions in the format string are represented by *suffixes*: where the Go code
  is at index `i`, the model holds `format[i:]` (or, inside an escape, `format[i+1:]`).  Every Go
  index / slice expression that is not syntactically guarded is modelled by an `Option`
  (`idx?`, `slice?`) whose `none` becomes `Res.panic`; `Props/C24.lean` proves it unreachable.
  Byte values are written as decimal ASCII codes (92 = backslash, 37 = percent, …).
-/
namespace ShVerif.C24

/-! ## Go runtime checks made explicit -/

/-- `s[i]` — `none` is the Go panic "index out of range". -/
def idx? (s : List α) (i : Nat) : Option α := s[i]?

/-- `s[lo:hi]` — `none` is the Go panic "slice bounds out of range". -/
def slice? (s : List α) (lo hi : Nat) : Option (List α) :=
  if lo ≤ hi ∧ hi ≤ s.length then some ((s.drop lo).take (hi - lo)) else none

/-! ## strconv.ParseUint / ParseInt (internal/strconv/atoi.go, go1.26) -/

inductive NumErr | ok | syntax | range
  deriving DecidableEq, Repr

def maxU64 : Nat := 18446744073709551615
def two63 : Nat := 9223372036854775808
def two64 : Nat := 18446744073709551616

/-- `lower(c) = c | ('x' - 'X')`. -/
def lower (c : UInt8) : UInt8 := c ||| 32

/-- The digit switch of the ParseUint loop. -/
def digitVal (c : UInt8) : Option Nat :=
  if 48 ≤ c ∧ c ≤ 57 then some (c.toNat - 48)
  else if 97 ≤ lower c ∧ lower c ≤ 122 then some ((lower c).toNat - 97 + 10)
  else none

/-- The `for _, c := range []byte(s)` loop of ParseUint.  Result: value, error of an early
    return, whether an underscore was seen.  (`n*base + d > maxVal` covers both Go tests
    `n1 < n` (wrap-around of uint64) and `n1 > maxVal`, because `n < cutoff` gives
    `n*base ≤ maxUint64` and `maxVal ≤ maxUint64`.) -/
def parseUintLoop (base : Nat) (base0 : Bool) (cutoff maxVal : Nat) :
    Bytes → Nat → Bool → Nat × NumErr × Bool
  | [], n, us => (n, .ok, us)
  | c :: rest, n, us =>
    if c = 95 ∧ base0 = true then parseUintLoop base base0 cutoff maxVal rest n true
    else match digitVal c with
      | none => (0, .syntax, us)
      | some d =>
        if d ≥ base then (0, .syntax, us)
        else if n ≥ cutoff then (maxVal, .range, us)
        else if n * base + d > maxVal then (maxVal, .range, us)
        else parseUintLoop base base0 cutoff maxVal rest (n * base + d) us

def isDec (c : UInt8) : Bool := 48 ≤ c && c ≤ 57
def isHexLetter (c : UInt8) : Bool := 97 ≤ lower c && lower c ≤ 102

/-- `underscoreOK`, number-proper loop; `saw` is one of `^`=94, `0`=48, `_`=95, `!`=33. -/
def underscoreOKLoop (hex : Bool) : Bytes → UInt8 → Bool
  | [], saw => saw != 95
  | c :: rest, saw =>
    if isDec c || (hex && isHexLetter c) then underscoreOKLoop hex rest 48
    else if c = 95 then (if saw != 48 then false else underscoreOKLoop hex rest 95)
    else if saw = 95 then false
    else underscoreOKLoop hex rest 33

def isBasePrefixLetter (c : UInt8) : Bool := lower c = 98 || lower c = 111 || lower c = 120

def underscoreOK (s : Bytes) : Bool :=
  let s := match s with
    | c :: t => if c = 45 ∨ c = 43 then t else s
    | [] => s
  match s with
  | c0 :: c1 :: t =>
    if c0 = 48 ∧ isBasePrefixLetter c1 then underscoreOKLoop (lower c1 = 120) t 48
    else underscoreOKLoop false s 94
  | _ => underscoreOKLoop false s 94

/-- `strconv.ParseUint(s, base, bitSize)` for `base ∈ {0, 2..36}`, `bitSize ∈ 0..64`. -/
def parseUint (s : Bytes) (base bitSize : Nat) : Nat × NumErr :=
  if s = [] then (0, .syntax) else
  let base0 := base == 0
  let bs : Nat × Bytes :=
    if base = 0 then
      match s with
      | c0 :: t =>
        if c0 = 48 then
          match t with
          | c1 :: t2 =>
            if s.length ≥ 3 ∧ lower c1 = 98 then (2, t2)
            else if s.length ≥ 3 ∧ lower c1 = 111 then (8, t2)
            else if s.length ≥ 3 ∧ lower c1 = 120 then (16, t2)
            else (8, t)
          | [] => (8, t)
        else (10, s)
      | [] => (10, s)
    else (base, s)
  let bitSize := if bitSize = 0 then 64 else bitSize
  let cutoff := maxU64 / bs.1 + 1
  let maxVal := 2 ^ bitSize - 1
  match parseUintLoop bs.1 base0 cutoff maxVal bs.2 0 false with
  | (n, .ok, us) => if us ∧ ¬ underscoreOK s then (0, .syntax) else (n, .ok)
  | (n, e, _) => (n, e)

/-- `strconv.ParseInt(s, 0, 0)` on a 64-bit platform. -/
def parseInt (s : Bytes) : Int × NumErr :=
  if s = [] then (0, .syntax) else
  let ns : Bool × Bytes := match s with
    | c :: t => if c = 43 then (false, t) else if c = 45 then (true, t) else (false, s)
    | [] => (false, s)
  match parseUint ns.2 0 0 with
  | (_, .syntax) => (0, .syntax)
  | (un, _) =>
    if ns.1 = false ∧ un ≥ two63 then (Int.ofNat (two63 - 1), .range)
    else if ns.1 = true ∧ un > two63 then (- Int.ofNat two63, .range)
    else (if ns.1 then - Int.ofNat un else Int.ofNat un, .ok)

/-- Go conversion `uint(n)` of an `int64`. -/
def toU64 (n : Int) : Nat := (n % (two64 : Int)).toNat

/-! ## unicode/utf8 -/

/-- `utf8.AppendRune(nil, rune(n))` for `n < 2^32` (`i = uint32(r) = n`). -/
def appendRune (n : Nat) : Bytes :=
  if n ≤ 0x7F then [UInt8.ofNat n]
  else if n ≤ 0x7FF then [UInt8.ofNat (0xC0 + n / 64), UInt8.ofNat (0x80 + n % 64)]
  else if n < 0xD800 ∨ (0xDFFF < n ∧ n ≤ 0xFFFF) then
    [UInt8.ofNat (0xE0 + n / 4096), UInt8.ofNat (0x80 + n / 64 % 64), UInt8.ofNat (0x80 + n % 64)]
  else if 0xFFFF < n ∧ n ≤ 0x10FFFF then
    [UInt8.ofNat (0xF0 + n / 262144), UInt8.ofNat (0x80 + n / 4096 % 64),
     UInt8.ofNat (0x80 + n / 64 % 64), UInt8.ofNat (0x80 + n % 64)]
  else [0xEF, 0xBF, 0xBD]

def isCont (c : UInt8) : Bool := 0x80 ≤ c && c ≤ 0xBF

/-- Width in bytes of the rune `for range s` decodes at the head of a non-empty string
    (invalid or truncated sequences have width 1): the `first`/`acceptRanges` tables of utf8.go. -/
def runeWidth (s : Bytes) : Nat :=
  match s with
  | [] => 1
  | b0 :: t =>
    if b0 < 0x80 then 1
    else if b0 < 0xC2 then 1
    else if b0 ≤ 0xDF then
      (match t with | b1 :: _ => if isCont b1 then 2 else 1 | _ => 1)
    else if b0 ≤ 0xEF then
      let lo : UInt8 := if b0 = 0xE0 then 0xA0 else 0x80
      let hi : UInt8 := if b0 = 0xED then 0x9F else 0xBF
      (match t with
       | b1 :: b2 :: _ => if lo ≤ b1 ∧ b1 ≤ hi ∧ isCont b2 then 3 else 1
       | _ => 1)
    else if b0 ≤ 0xF4 then
      let lo : UInt8 := if b0 = 0xF0 then 0x90 else 0x80
      let hi : UInt8 := if b0 = 0xF4 then 0x8F else 0xBF
      (match t with
       | b1 :: b2 :: b3 :: _ => if lo ≤ b1 ∧ b1 ≤ hi ∧ isCont b2 ∧ isCont b3 then 4 else 1
       | _ => 1)
    else 1

def runeCountFuel : Nat → Bytes → Nat
  | 0, _ => 0
  | _, [] => 0
  | fuel + 1, s => 1 + runeCountFuel fuel (s.drop (runeWidth s))

/-- `utf8.RuneCountInString`. -/
def runeCount (s : Bytes) : Nat := runeCountFuel s.length s

/-! ## The part of fmt.Fprintf reachable from formatInto -/

inductive FArg
  | int (v : Int)     -- Go `int`
  | uint (v : Nat)    -- Go `uint`
  | str (s : Bytes)
  deriving DecidableEq, Repr

structure Flags where
  plus : Bool := false
  minus : Bool := false
  space : Bool := false
  zero : Bool := false
  deriving DecidableEq, Repr

def natDigits (base n : Nat) : Bytes := (Nat.toDigits base n).map fun c => UInt8.ofNat c.toNat

/-- `(*fmt).writePadding` + `pad`/`padString`: `n` is the rune count of `b`. -/
def pad (fl : Flags) (wid : Option Nat) (n : Nat) (b : Bytes) : Bytes :=
  match wid with
  | none => b
  | some w =>
    if w = 0 then b else
    let padByte : UInt8 := if fl.zero ∧ ¬ fl.minus then 48 else 32
    let padding := List.replicate (w - n) padByte
    if ¬ fl.minus then padding ++ b else b ++ padding

/-- `(*fmt).fmtInteger(u, base, isSigned, verb, ldigits)` without precision and without `#`. -/
def fmtInteger (fl : Flags) (wid : Option Nat) (u : Nat) (base : Nat) (isSigned : Bool) : Bytes :=
  let negative := isSigned && decide (u ≥ two63)
  let u := if negative then two64 - u else u
  let prec : Nat := match wid with
    | some w => if fl.zero ∧ ¬ fl.minus then (if negative ∨ fl.plus ∨ fl.space then w - 1 else w) else 0
    | none => 0
  let ds := natDigits base u
  let ds := List.replicate (prec - ds.length) 48 ++ ds
  let signed : Bytes := if negative then 45 :: ds else if fl.plus then 43 :: ds else if fl.space then 32 :: ds else ds
  pad { fl with zero := false } wid signed.length signed

/-- `(*fmt).fmtS` without precision. -/
def fmtS (fl : Flags) (wid : Option Nat) (s : Bytes) : Bytes := pad fl wid (runeCount s) s

/-- `(*pp).printArg(arg, verb)` for the (type, verb) pairs formatInto produces; `none` = a
    combination outside the modelled fragment (Go would print `%!verb(type=…)`). -/
def printArg (fl : Flags) (wid : Option Nat) (arg : FArg) (verb : UInt8) : Option Bytes :=
  match arg with
  | .int v =>
    if verb = 100 ∨ verb = 118 then some (fmtInteger fl wid (toU64 v) 10 true) else none
  | .uint v =>
    if verb = 100 ∨ verb = 118 then some (fmtInteger fl wid v 10 false)
    else if verb = 111 then some (fmtInteger fl wid v 8 false)
    else if verb = 120 then some (fmtInteger fl wid v 16 false)
    else none
  | .str s => if verb = 115 ∨ verb = 118 then some (fmtS fl wid s) else none

/-- The flag loop of doPrintf (`#` is outside the fragment). -/
def parseFlags (fl : Flags) : Bytes → Flags × Bytes
  | [] => (fl, [])
  | c :: rest =>
    if c = 48 then parseFlags { fl with zero := true } rest
    else if c = 43 then parseFlags { fl with plus := true } rest
    else if c = 45 then parseFlags { fl with minus := true } rest
    else if c = 32 then parseFlags { fl with space := true } rest
    else (fl, c :: rest)

/-- `parsenum`; `none` = the `tooLarge` exit `(0, false, end)`. -/
def parsenum : Bytes → Nat → Bool → Option (Nat × Bool × Bytes)
  | [], num, isnum => some (num, isnum, [])
  | c :: rest, num, isnum =>
    if 48 ≤ c ∧ c ≤ 57 then
      if num > 1000000 then none else parsenum rest (num * 10 + (c.toNat - 48)) true
    else some (num, isnum, c :: rest)

def typeName : FArg → Bytes
  | .int _ => [105, 110, 116]            -- "int"
  | .uint _ => [117, 105, 110, 116]      -- "uint"
  | .str _ => [115, 116, 114, 105, 110, 103] -- "string"

def noVerb : Bytes := [37, 33, 40, 78, 79, 86, 69, 82, 66, 41]        -- "%!(NOVERB)"
def extraOpen : Bytes := [37, 33, 40, 69, 88, 84, 82, 65, 32]         -- "%!(EXTRA "

/-- `%!(NOVERB)%!(EXTRA type=value)`: what doPrintf prints when the width is absurdly long. -/
def noVerbExtra (arg : FArg) : Option Bytes :=
  match printArg {} none arg 118 with
  | some v => some (noVerb ++ extraOpen ++ typeName arg ++ [61] ++ v ++ [41])
  | none => none

/-- `fmt.Fprintf(sb, string(fmts), farg)` for `fmts = % flag* digit* verb`; `none` = outside the
    modelled fragment of package fmt (proved unreachable from formatInto). -/
def goFprintf (fmts : Bytes) (arg : FArg) : Option Bytes :=
  match fmts with
  | [] => none
  | p :: rest =>
    if p ≠ 37 then none else
    match parseFlags {} rest with
    | (_, []) => noVerbExtra arg
    | (fl, c :: rest2) =>
      if 97 ≤ c ∧ c ≤ 122 then
        -- fast path: simple verb directly after the flags
        if rest2 = [] then printArg fl none arg c else none
      else
        match parsenum (c :: rest2) 0 false with
        | none => noVerbExtra arg
        | some (_, _, []) => noVerbExtra arg
        | some (num, isnum, v :: rest3) =>
          if v = 46 ∨ v = 42 ∨ v = 91 ∨ v = 37 ∨ v ≥ 128 ∨ rest3 ≠ [] then none
          else printArg fl (if isnum then some num else none) arg v

/-! ## formatInto -/

inductive Err
  | invalidChar (c : UInt8)   -- "invalid format char: %c"
  | missingChar               -- "missing format char"
  deriving DecidableEq, Repr

inductive Res
  | ok (out : Bytes) (argsLeft : Nat)
  | err (out : Bytes) (e : Err)   -- `out` = what was already written to the builder
  | panic                         -- Go runtime panic
  | unmodelled                    -- package fmt behaviour outside the model
  deriving DecidableEq, Repr

def Res.prepend (o : Bytes) : Res → Res
  | .ok out n => .ok (o ++ out) n
  | .err out e => .err (o ++ out) e
  | r => r

/-- The test inside `readDigits`. -/
def isDigitChar (hex : Bool) (c : UInt8) : Bool :=
  (48 ≤ c && c ≤ 57) || (hex && 97 ≤ c && c ≤ 102) || (hex && 65 ≤ c && c ≤ 70)

/-- The `for ; j < max && i+j < len(format); j++` loop of `readDigits`; `s = format[i:]`. -/
def countDigits (hex : Bool) : Nat → Bytes → Nat
  | 0, _ => 0
  | _, [] => 0
  | max + 1, c :: rest => if isDigitChar hex c then 1 + countDigits hex max rest else 0

/-- `readDigits(max, hex)` with `s = format[i:]`: the digits `format[i:i+j]` and `j`. -/
def readDigits (max : Nat) (hex : Bool) (s : Bytes) : Option (Bytes × Nat) :=
  let j := countDigits hex max s
  match slice? s 0 j with
  | some d => some (d, j)
  | none => none

/-- The escape switch: `format[i] == '\\'`, `rest = format[i+1:]`.  Result: bytes written and
    how many bytes of `rest` were consumed.  `none` = panic. -/
def escape (rest : Bytes) : Option (Bytes × Nat) :=
  match rest with
  | [] => some ([92], 0)
  | c :: after =>
    if c = 97 then some ([7], 1)
    else if c = 98 then some ([8], 1)
    else if c = 101 ∨ c = 69 then some ([27], 1)
    else if c = 102 then some ([12], 1)
    else if c = 110 then some ([10], 1)
    else if c = 114 then some ([13], 1)
    else if c = 116 then some ([9], 1)
    else if c = 118 then some ([11], 1)
    else if c = 92 ∨ c = 39 ∨ c = 34 ∨ c = 63 then some ([c], 1)
    else if 48 ≤ c ∧ c ≤ 55 then
      match readDigits 3 false (c :: after) with
      | none => none
      | some (digits, j) =>
        -- i += j - 1 with j ≥ 1 here; n, _ := ParseUint(digits, 8, 8); byte(n)
        if j = 0 then none else
        some ([UInt8.ofNat (parseUint digits 8 8).1], j)
    else if c = 120 ∨ c = 117 ∨ c = 85 then
      let max := if c = 117 then 4 else if c = 85 then 8 else 2
      match readDigits max true after with
      | none => none
      | some (digits, j) =>
        if digits.length > 0 then
          let n := (parseUint digits 16 32).1
          if c = 120 then some ([UInt8.ofNat n], 1 + j) else some (appendRune n, 1 + j)
        else some ([92, c], 1)
    else some ([92, c], 1)

structure St where
  fmts : Bytes
  args : List Bytes
  deriving DecidableEq, Repr

inductive Step
  | cont (o : Bytes) (st : St) (skip : Nat)
  | stop (r : Res)

/-- `arg, args = args[0], args[1:]` under `if len(args) > 0`. -/
def popArg (args : List Bytes) : Option (Bytes × List Bytes) :=
  if args.length > 0 then
    match idx? args 0, slice? args 1 args.length with
    | some a, some r => some (a, r)
    | _, _ => none
  else some ([], args)

def isNumVerb (c : UInt8) : Bool := c = 100 || c = 105 || c = 117 || c = 111 || c = 120

/-- One iteration of the `for i := 0; i < len(format); i++` loop: `c = format[i]`,
    `rest = format[i+1:]`.  `nested` is `none` when `args == nil`, otherwise the recursive
    `formatInto(sb, arg, nil)` used by `%b`. -/
def step (nested : Option (Bytes → Res)) (c : UInt8) (rest : Bytes) (st : St) : Step :=
  if c = 92 then
    match escape rest with
    | none => .stop .panic
    | some (o, k) => .cont o st k
  else if st.fmts.length > 0 then
    if c = 37 then .cont [37] { st with fmts := [] } 0
    else if c = 99 then
      if st.args.length > 0 then
        match popArg st.args with
        | none => .stop .panic
        | some (arg, args') =>
          if arg.length > 0 then
            match idx? arg 0 with
            | some b => .cont [b] { fmts := [], args := args' } 0
            | none => .stop .panic
          else .cont [0] { fmts := [], args := args' } 0
      else .cont [0] { st with fmts := [] } 0
    else if c = 43 ∨ c = 45 ∨ c = 32 then
      if st.fmts.length > 1 then .stop (.err [] (.invalidChar c))
      else .cont [] { st with fmts := st.fmts ++ [c] } 0
    else if 48 ≤ c ∧ c ≤ 57 then .cont [] { st with fmts := st.fmts ++ [c] } 0
    else if c = 115 ∨ c = 98 ∨ isNumVerb c then
      match popArg st.args with
      | none => .stop .panic
      | some (arg, args') =>
        if c = 98 then
          match nested with
          | none => .stop .unmodelled   -- fmts is never set when args == nil
          | some f =>
            match f arg with
            | .ok o _ => .cont o { fmts := [], args := args' } 0
            | .err o e => .stop (.err o e)
            | r => .stop r
        else
          let farg : FArg :=
            if c = 115 then .str arg
            else if c = 105 ∨ c = 100 then .int (parseInt arg).1
            else .uint (toU64 (parseInt arg).1)
          let c' : UInt8 := if c = 105 ∨ c = 117 then 100 else c
          match goFprintf (st.fmts ++ [c']) farg with
          | some o => .cont o { fmts := [], args := args' } 0
          | none => .stop .unmodelled
    else .stop (.err [] (.invalidChar c))
  else if nested.isSome ∧ c = 37 then .cont [] { st with fmts := [c] } 0
  else .cont [c] st 0

/-- The loop of formatInto over `format[i:]`; `skip` = bytes already consumed by an escape. -/
def go (nested : Option (Bytes → Res)) : Bytes → Nat → St → Res
  | [], _, st => if st.fmts.length > 0 then .err [] .missingChar else .ok [] st.args.length
  | _ :: rest, skip + 1, st => go nested rest skip st
  | c :: rest, 0, st =>
    match step nested c rest st with
    | .cont o st' k => (go nested rest k st').prepend o
    | .stop r => r

/-- `formatInto(sb, format, nil)`. -/
def formatNil (format : Bytes) : Res := go none format 0 { fmts := [], args := [] }

/-- `formatInto(sb, format, args)` with a non-nil `args`. -/
def formatArgs (format : Bytes) (args : List Bytes) : Res :=
  go (some formatNil) format 0 { fmts := [], args := args }

/-- What the hook `expand.VerifFormatInto(format, args, argsNil)` observes. -/
structure Obs where
  out : Bytes
  consumed : Nat
  err : Option Err
  deriving DecidableEq, Repr

inductive HookRes
  | obs (o : Obs)
  | panic
  | unmodelled
  deriving DecidableEq, Repr

def formatInto (format : Bytes) (args : List Bytes) (argsNil : Bool) : HookRes :=
  let args := if argsNil then [] else args
  match (if argsNil then formatNil format else formatArgs format args) with
  | .ok out left => .obs { out := out, consumed := args.length - left, err := none }
  | .err out e => .obs { out := out, consumed := 0, err := some e }
  | .panic => .panic
  | .unmodelled => .unmodelled

/-- `expand.Format`: the partial output is dropped on error. -/
def format (fmt : Bytes) (args : List Bytes) (argsNil : Bool) : HookRes :=
  match formatInto fmt args argsNil with
  | .obs o => if o.err.isSome then .obs { out := [], consumed := 0, err := o.err } else .obs o
  | r => r

/-! ## The builtins (interp/builtin.go) -/

structure BuiltinRes where
  out : Bytes
  status : Nat
  deriving DecidableEq, Repr

inductive BRes
  | done (r : BuiltinRes)
  | panic
  | unmodelled
  | outOfFuel
  deriving DecidableEq, Repr

/-- The `for { … }` loop of the `printf` builtin; `acc` = bytes already written by `r.out`. -/
def printfLoop : Nat → Bytes → List Bytes → Bytes → BRes
  | 0, _, _, _ => .outOfFuel
  | fuel + 1, fmt, args, acc =>
    match format fmt args false with
    | .panic => .panic
    | .unmodelled => .unmodelled
    | .obs o =>
      if o.err.isSome then .done { out := acc, status := 1 }
      else
        match slice? args o.consumed args.length with
        | none => .panic
        | some args' =>
          if o.consumed = 0 ∨ args'.length = 0 then .done { out := acc ++ o.out, status := 0 }
          else printfLoop fuel fmt args' (acc ++ o.out)

/-- `printf` builtin: `args` are the words after the command name. -/
def printfBuiltin (args : List Bytes) : BRes :=
  match args with
  | [] => .done { out := [], status := 2 }
  | fmt :: rest => printfLoop (rest.length + 1) fmt rest []

def optN : Bytes := [45, 110]
def optE : Bytes := [45, 101]
def optBigE : Bytes := [45, 69]

/-- The `echoOpts` loop: returns (newline, doExpand, remaining args). -/
def echoOpts : List Bytes → Bool → Bool → Bool × Bool × List Bytes
  | [], nl, ex => (nl, ex, [])
  | a :: rest, nl, ex =>
    if a = optN then echoOpts rest false ex
    else if a = optE then echoOpts rest nl true
    else if a = optBigE then echoOpts rest nl ex
    else (nl, ex, a :: rest)

def echoArg (doExpand : Bool) (arg : Bytes) : Option Bytes :=
  if doExpand then
    match format arg [] true with
    | .obs o => some o.out
    | _ => none
  else some arg

def echoBody (doExpand : Bool) : List Bytes → Bool → Option Bytes
  | [], _ => some []
  | a :: rest, first =>
    match echoArg doExpand a, echoBody doExpand rest false with
    | some x, some r => some ((if first then [] else [32]) ++ x ++ r)
    | _, _ => none

/-- `echo` builtin. -/
def echoBuiltin (args : List Bytes) : BRes :=
  match echoOpts args true false with
  | (nl, ex, rest) =>
    match echoBody ex rest true with
    | some b => .done { out := b ++ (if nl then [10] else []), status := 0 }
    | none => .panic

/-! # Specification: what bash's `printf` and `echo` builtins do

  Written from bash 5.2's documentation and `builtins/printf.def`, `builtins/echo.def`,
  `lib/sh/strtrans.c` (UTF-8 locale, `xpg_echo` off), restricted to the directive set the property
  names: `%[flags][width]{s,b,c,d,i,u,o,x}` with flags from `-`, `+`, space, `0` in any order and
  number, `%%`, and the backslash escapes.  Everything else (precision, `#`, `*`, other
  conversions, an incomplete directive, `printf -v`) is `outside`.  The harness validates this
  specification against the real bash on every run (`bashprintf` / `bashecho` ops). -/
namespace Spec

/-- Where an escape sequence is expanded: a `printf` format, a `%b` argument, an `echo -e` argument. -/
inductive Mode | format | pctB | echo
  deriving DecidableEq, Repr

def isOct (c : UInt8) : Bool := 48 ≤ c && c ≤ 55

def hexVal (c : UInt8) : Option Nat :=
  if 48 ≤ c ∧ c ≤ 57 then some (c.toNat - 48)
  else if 97 ≤ c ∧ c ≤ 102 then some (c.toNat - 87)
  else if 65 ≤ c ∧ c ≤ 70 then some (c.toNat - 55)
  else none

def octVal (c : UInt8) : Option Nat := if isOct c then some (c.toNat - 48) else none

/-- Reads at most `max` leading digits: (value, number of digits). -/
def takeDigits (base : Nat) (val : UInt8 → Option Nat) : Nat → Bytes → Nat → Nat × Nat
  | 0, _, acc => (acc, 0)
  | _, [], acc => (acc, 0)
  | max + 1, c :: rest, acc =>
    match val c with
    | some d => let r := takeDigits base val max rest (acc * base + d); (r.1, r.2 + 1)
    | none => (acc, 0)

/-- bash's `u32toutf8`: the generalised (up to 6 byte) UTF-8 form, nothing above 0x7FFFFFFF. -/
def utf8Ext (n : Nat) : Bytes :=
  if n < 0x80 then [UInt8.ofNat n]
  else if n < 0x800 then [UInt8.ofNat (0xC0 + n / 64), UInt8.ofNat (0x80 + n % 64)]
  else if n < 0x10000 then
    [UInt8.ofNat (0xE0 + n / 4096), UInt8.ofNat (0x80 + n / 64 % 64), UInt8.ofNat (0x80 + n % 64)]
  else if n < 0x200000 then
    [UInt8.ofNat (0xF0 + n / 262144), UInt8.ofNat (0x80 + n / 4096 % 64),
     UInt8.ofNat (0x80 + n / 64 % 64), UInt8.ofNat (0x80 + n % 64)]
  else if n < 0x4000000 then
    [UInt8.ofNat (0xF8 + n / 16777216), UInt8.ofNat (0x80 + n / 262144 % 64),
     UInt8.ofNat (0x80 + n / 4096 % 64), UInt8.ofNat (0x80 + n / 64 % 64), UInt8.ofNat (0x80 + n % 64)]
  else if n < 0x80000000 then
    [UInt8.ofNat (0xFC + n / 1073741824), UInt8.ofNat (0x80 + n / 16777216 % 64),
     UInt8.ofNat (0x80 + n / 262144 % 64), UInt8.ofNat (0x80 + n / 4096 % 64),
     UInt8.ofNat (0x80 + n / 64 % 64), UInt8.ofNat (0x80 + n % 64)]
  else []

/-- Result of one escape sequence: bytes written, bytes used after the backslash, and whether it
    was `\c` (stop all output). -/
structure Esc where
  out : Bytes
  used : Nat
  stop : Bool := false
  deriving DecidableEq, Repr

/-- The single-character escapes shared by all three modes. -/
def simpleEscape (c : UInt8) : Option UInt8 :=
  if c = 97 then some 7          -- \a
  else if c = 98 then some 8     -- \b
  else if c = 101 ∨ c = 69 then some 27 -- \e \E
  else if c = 102 then some 12   -- \f
  else if c = 110 then some 10   -- \n
  else if c = 114 then some 13   -- \r
  else if c = 116 then some 9    -- \t
  else if c = 118 then some 11   -- \v
  else if c = 92 then some 92    -- \\
  else none

/-- An escape sequence; `s` is the text after the backslash.  An unrecognised sequence writes the
    backslash and uses nothing (the next character is then treated normally). -/
def escape (m : Mode) (s : Bytes) : Esc :=
  match s with
  | [] => { out := [92], used := 0 }
  | c :: after =>
    match simpleEscape c with
    | some b => { out := [b], used := 1 }
    | none =>
      if c = 39 ∨ c = 34 ∨ c = 63 then
        -- \' \" \? : the character in a format; kept with the backslash in %b and echo -e
        if m = .format then { out := [c], used := 1 } else { out := [92, c], used := 1 }
      else if c = 48 then
        -- \0: format: up to 3 digits in all; %b and echo -e: up to 3 digits after the 0
        let r := takeDigits 8 octVal (if m = .format then 2 else 3) after 0
        { out := [UInt8.ofNat (r.1 % 256)], used := 1 + r.2 }
      else if isOct c then
        -- \1 … \7: up to 3 digits; not an escape for echo -e
        if m = .echo then { out := [92], used := 0 }
        else
          let r := takeDigits 8 octVal 2 after (c.toNat - 48)
          { out := [UInt8.ofNat (r.1 % 256)], used := 1 + r.2 }
      else if c = 120 then
        let r := takeDigits 16 hexVal 2 after 0
        if r.2 = 0 then { out := [92], used := 0 } else { out := [UInt8.ofNat r.1], used := 1 + r.2 }
      else if c = 117 ∨ c = 85 then
        let r := takeDigits 16 hexVal (if c = 117 then 4 else 8) after 0
        if r.2 = 0 then { out := [92], used := 0 } else { out := utf8Ext r.1, used := 1 + r.2 }
      else if c = 99 ∧ m ≠ .format then { out := [], used := 1, stop := true }
      else { out := [92], used := 0 }

/-- Result of expanding all escapes of a `%b` / `echo -e` argument. -/
structure Expanded where
  out : Bytes
  stop : Bool
  deriving DecidableEq, Repr

def Expanded.prepend (o : Bytes) (e : Expanded) : Expanded := { e with out := o ++ e.out }

/-- Expands the escapes of a `%b` or `echo -e` argument (`skip` = bytes already used). -/
def expand (m : Mode) : Bytes → Nat → Expanded
  | [], _ => { out := [], stop := false }
  | _ :: rest, k + 1 => expand m rest k
  | c :: rest, 0 =>
    if c = 92 then
      let e := escape m rest
      if e.stop then { out := e.out, stop := true }
      else (expand m rest e.used).prepend e.out
    else (expand m rest 0).prepend [c]

/-- A conversion specification. -/
structure Dir where
  minus : Bool := false
  plus : Bool := false
  space : Bool := false
  zero : Bool := false
  width : Nat := 0
  verb : UInt8
  deriving DecidableEq, Repr

def isVerb (c : UInt8) : Bool :=
  c = 115 || c = 98 || c = 99 || c = 100 || c = 105 || c = 117 || c = 111 || c = 120

/-- Parses `[flags][width]verb` (the text after `%`): the directive and its length; `none` =
    outside the property's directive set. -/
def parseDir : Bytes → Dir → Bool → Nat → Option (Dir × Nat)
  | [], _, _, _ => none
  | c :: rest, d, inWidth, n =>
    if ¬ inWidth ∧ c = 45 then parseDir rest { d with minus := true } false (n + 1)
    else if ¬ inWidth ∧ c = 43 then parseDir rest { d with plus := true } false (n + 1)
    else if ¬ inWidth ∧ c = 32 then parseDir rest { d with space := true } false (n + 1)
    else if ¬ inWidth ∧ c = 48 then parseDir rest { d with zero := true } false (n + 1)
    else if 48 ≤ c ∧ c ≤ 57 then parseDir rest { d with width := d.width * 10 + (c.toNat - 48) } true (n + 1)
    else if isVerb c then some ({ d with verb := c }, n + 1)
    else none

def isSpace (c : UInt8) : Bool := c = 32 || (9 ≤ c && c ≤ 13)

/-- Digits of the longest numeric prefix in the given base: (value, rest, any digit seen). -/
def scanDigits (base : Nat) : Bytes → Nat → Bool → Nat × Bytes × Bool
  | [], acc, any => (acc, [], any)
  | c :: rest, acc, any =>
    match hexVal c with
    | some d => if d < base then scanDigits base rest (acc * base + d) true else (acc, c :: rest, any)
    | none => (acc, c :: rest, any)

/-- `strtoimax(s, &ep, 0)` / `strtoumax` before range handling: sign, magnitude, the unparsed
    rest `ep` (the whole string when there is no digit). -/
structure Scan where
  neg : Bool
  mag : Nat
  rest : Bytes
  deriving DecidableEq, Repr

def scanNum (s : Bytes) : Scan :=
  let t := s.dropWhile isSpace
  let (neg, u) : Bool × Bytes := match t with
    | c :: r => if c = 45 then (true, r) else if c = 43 then (false, r) else (false, t)
    | [] => (false, t)
  let none_ : Scan := { neg := false, mag := 0, rest := s }
  match u with
  | c0 :: r0 =>
    if c0 = 48 then
      match r0 with
      | c1 :: r1 =>
        if c1 = 120 ∨ c1 = 88 then
          -- 0x must be followed by a hex digit, otherwise only the "0" is a number
          match scanDigits 16 r1 0 false with
          | (v, rest, true) => { neg := neg, mag := v, rest := rest }
          | _ => { neg := neg, mag := 0, rest := r0 }
        else
          let r := scanDigits 8 r0 0 true
          { neg := neg, mag := r.1, rest := r.2.1 }
      | [] => { neg := neg, mag := 0, rest := [] }
    else
      match scanDigits 10 u 0 false with
      | (v, rest, true) => { neg := neg, mag := v, rest := rest }
      | _ => none_
  | [] => none_

/-- Value of a numeric argument and whether bash reports "invalid number" (status 1). -/
structure Num where
  val : Int
  bad : Bool
  deriving DecidableEq, Repr

/-- `'c` / `"c`: the code of the character after the quote (single bytes only here). -/
def quoteCode (s : Bytes) : Option Int :=
  match s with
  | q :: r => if q = 39 ∨ q = 34 then (match r with | c :: _ => some (Int.ofNat c.toNat) | [] => some 0) else none
  | [] => none

/-- Signed argument (`%d %i`): clamped to the int64 range. -/
def signedArg (s : Bytes) : Num :=
  match quoteCode s with
  | some v => { val := v, bad := false }
  | none =>
    let sc := scanNum s
    let v : Int := if sc.neg then - Int.ofNat sc.mag else Int.ofNat sc.mag
    let v := if v > 9223372036854775807 then 9223372036854775807
             else if v < -9223372036854775808 then -9223372036854775808 else v
    { val := v, bad := sc.rest ≠ [] }

/-- Unsigned argument (`%u %o %x`): modulo 2^64 for negatives, 2^64-1 on overflow. -/
def unsignedArg (s : Bytes) : Num :=
  match quoteCode s with
  | some v => { val := v, bad := false }
  | none =>
    let sc := scanNum s
    let v : Nat := if sc.mag > maxU64 then maxU64
                   else if sc.neg then (two64 - sc.mag) % two64 else sc.mag
    { val := Int.ofNat v, bad := sc.rest ≠ [] }

def spaces (n : Nat) : Bytes := List.replicate n 32
def zeros (n : Nat) : Bytes := List.replicate n 48

/-- Field-width padding with spaces (bytes are counted). -/
def padTo (minus : Bool) (w : Nat) (body : Bytes) : Bytes :=
  if minus then body ++ spaces (w - body.length) else spaces (w - body.length) ++ body

/-- C's `%d`-family rule: sign, then zero padding (flag `0` without `-`) or space padding. -/
def fmtNum (d : Dir) (sign digits : Bytes) : Bytes :=
  if d.zero ∧ ¬ d.minus then sign ++ zeros (d.width - sign.length - digits.length) ++ digits
  else padTo d.minus d.width (sign ++ digits)

def fmtSigned (d : Dir) (v : Int) : Bytes :=
  let sign : Bytes := if v < 0 then [45] else if d.plus then [43] else if d.space then [32] else []
  fmtNum d sign (natDigits 10 v.natAbs)

def fmtUnsigned (d : Dir) (base : Nat) (v : Nat) : Bytes := fmtNum d [] (natDigits base v)

/-- What one directive writes: bytes, conversion error, `\c` seen. -/
structure DirOut where
  out : Bytes
  bad : Bool := false
  stop : Bool := false
  deriving DecidableEq, Repr

/-- Semantics of one directive applied to its argument (`[]` when the arguments ran out). -/
def runDir (d : Dir) (arg : Bytes) : DirOut :=
  if d.verb = 115 then { out := padTo d.minus d.width arg }
  else if d.verb = 99 then { out := padTo d.minus d.width [arg.headD 0] }
  else if d.verb = 98 then
    let e := expand .pctB arg 0
    { out := padTo d.minus d.width e.out, stop := e.stop }
  else if d.verb = 100 ∨ d.verb = 105 then
    let n := signedArg arg
    { out := fmtSigned d n.val, bad := n.bad }
  else
    let n := unsignedArg arg
    let base := if d.verb = 111 then 8 else if d.verb = 120 then 16 else 10
    { out := fmtUnsigned d base n.val.toNat, bad := n.bad }

/-- Result of one pass over the format. -/
inductive Pass
  | ok (out : Bytes) (argsLeft : List Bytes) (bad : Bool) (stop : Bool)
  | outside
  deriving DecidableEq, Repr

def Pass.prepend (o : Bytes) (b : Bool) : Pass → Pass
  | .ok out a bad stop => .ok (o ++ out) a (b || bad) stop
  | .outside => .outside

/-- One pass over the format string (`skip` = bytes already used by the previous item). -/
def pass : Bytes → Nat → List Bytes → Pass
  | [], _, args => .ok [] args false false
  | _ :: rest, k + 1, args => pass rest k args
  | c :: rest, 0, args =>
    if c = 92 then
      let e := escape .format rest
      (pass rest e.used args).prepend e.out false
    else if c = 37 then
      match rest with
      | [] => .outside
      | c1 :: _ =>
        if c1 = 37 then (pass rest 1 args).prepend [37] false
        else
          match parseDir rest { verb := 0 } false 0 with
          | none => .outside
          | some (d, used) =>
            let r := runDir d (args.headD [])
            if r.stop then .ok r.out (args.drop 1) r.bad true
            else (pass rest used (args.drop 1)).prepend r.out r.bad
    else (pass rest 0 args).prepend [c] false

inductive Res
  | res (out : Bytes) (status : Nat)
  | outside
  | outOfFuel
  deriving DecidableEq, Repr

/-- The format is reused while arguments remain and the last pass consumed at least one. -/
def printfLoop : Nat → Bytes → List Bytes → Bytes → Bool → Res
  | 0, _, _, _, _ => .outOfFuel
  | fuel + 1, fmt, args, acc, bad =>
    match pass fmt 0 args with
    | .outside => .outside
    | .ok out left b stop =>
      let acc := acc ++ out
      let bad := bad || b
      -- `\c` returns at once, before the "invalid number" status is folded in
      if stop then .res acc 0
      else if left = [] ∨ left.length = args.length then .res acc (if bad then 1 else 0)
      else printfLoop fuel fmt left acc bad

def printfRun (words : List Bytes) : Res :=
  match words with
  | [] => .res [] 2            -- usage
  | fmt :: args => printfLoop (args.length + 1) fmt args [] false

/-- `printf word…`: `--` ends the options, any other `-x…` word is an invalid option (usage
    message, status 2; `-v var` is outside this specification), then the loop. -/
def printf (words : List Bytes) : Res :=
  match words with
  | [] => .res [] 2
  | w :: rest =>
    if w = [45, 45] then printfRun rest
    else match w with
      | 45 :: c :: _ => if c = 118 then .outside else .res [] 2
      | _ => printfRun words

/-- Is the word an option word of `echo`: `-` followed by one or more of `n`, `e`, `E`? -/
def isEchoOpt (w : Bytes) : Bool :=
  match w with
  | 45 :: c :: rest => (c :: rest).all fun x => x = 110 || x = 101 || x = 69
  | _ => false

/-- Leading option words: (newline, expand, remaining words). -/
def echoOpts : List Bytes → Bool → Bool → Bool × Bool × List Bytes
  | [], nl, ex => (nl, ex, [])
  | w :: rest, nl, ex =>
    if isEchoOpt w then
      let st := (w.drop 1).foldl (fun (st : Bool × Bool) c =>
        if c = 110 then (false, st.2) else if c = 101 then (st.1, true) else (st.1, false)) (nl, ex)
      echoOpts rest st.1 st.2
    else (nl, ex, w :: rest)

/-- The words separated by single spaces, escapes expanded when `-e`; `\c` stops everything. -/
def echoBody (ex : Bool) : List Bytes → Bool → Expanded
  | [], _ => { out := [], stop := false }
  | w :: rest, first =>
    let sep : Bytes := if first then [] else [32]
    let e : Expanded := if ex then expand .echo w 0 else { out := w, stop := false }
    if e.stop then { out := sep ++ e.out, stop := true }
    else (echoBody ex rest false).prepend (sep ++ e.out)

def echo (words : List Bytes) : Res :=
  match echoOpts words true false with
  | (nl, ex, rest) =>
    let b := echoBody ex rest true
    .res (b.out ++ (if nl ∧ ¬ b.stop then [10] else [])) 0

end Spec

end ShVerif.C24
