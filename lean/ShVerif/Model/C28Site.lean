/-
  C28 — the record type of the panic-site table (shared by the regenerated Gen/C28Sites.lean and
  the reviewed Expect/C28Sites.lean).  Core only.
-/
namespace ShVerif.C28

/-- One explicit `panic(` call (`kind = "panic"`, `detail` = its message literal or argument) or
    one unchecked type assertion (`kind = "assert"`, `detail` = the expression), or one shift whose
    count is not syntactically non-negative — neither an integer literal nor a conversion to an
    unsigned type — and could therefore panic with "negative shift amount" (`kind = "shift"`), identified by
    package, file, enclosing function and an ordinal among equal sites — never by line number. -/
structure Site where
  pkg : String
  file : String
  func : String
  kind : String
  detail : String
  ord : Nat
  deriving DecidableEq, Repr

end ShVerif.C28
