/-
  C05 — Formatting keeps every comment.

  Comment skeleton of `syntax/printer.go`: everything the printer does with comments
  (`Printer.comments`, `flushComments`, `pendingComments`, `flushHeredocs`, `newline(s)`,
  `stmtList`, `nestedStmts`, `stmt`, every `command` case, `ifClause`, case items, `elemJoin`,
  `cmdSubst`, `Minify`) is modelled branch by branch, together with the pieces of printer state
  those branches read: `line`, `wantNewline`, `mustNewline`, `firstLine`, `pendingComments`,
  `pendingHdocs`.  Words, arithmetic and test expressions are abstracted to *items*: the
  sequence of effects they have on `p.line` (`LItem`) plus the nested statement lists they
  contain (command/process substitutions, array literals).  The ghost output is `emitted`: the
  list of comments written by `flushComments` (and by the "`# inline comment`" special case of
  `cmdSubst`, and by the Minify shebang branch of `comments`).

  Scope of the model: heredoc bodies are *flat* (contain no command/process substitution), so
  that `flushHeredocs` does not re-enter the statement printer.  Core Lean only.
-/
namespace ShVerif.C05

/-! ## Positions and comments -/

/-- `syntax.Pos`: `valid` is `IsValid()`, `offs` is `Offset()` (0 when invalid). -/
structure Pos where
  valid : Bool
  offs : Nat
  line : Nat
  col : Nat
deriving DecidableEq, Repr, Inhabited

/-- `Pos{}`. -/
def Pos.none : Pos := ⟨false, 0, 0, 0⟩

/-- `p.After(q)`: false for an invalid `p`, else a comparison of offsets. -/
def Pos.after (p q : Pos) : Bool := p.valid && decide (q.offs < p.offs)

/-- `syntax.Comment`: `pos` is `Hash`, `endOffs` the offset of `End()`, `text` the bytes of `Text`. -/
structure Com where
  pos : Pos
  endOffs : Nat
  text : List UInt8
deriving DecidableEq, Repr, Inhabited

/-- `c.End().After(q)`. -/
def Com.endAfter (c : Com) (q : Pos) : Bool := c.pos.valid && decide (q.offs < c.endOffs)

/-- The printer options that influence which comments are written and in which order. -/
structure Opts where
  minify : Bool := false
  singleLine : Bool := false
  binNextLine : Bool := false
  funcNextLine : Bool := false
  swtCaseIndent : Bool := false
  /-- `indentSpaces == 0` -/
  tabIndent : Bool := true
deriving DecidableEq, Repr, Inhabited

/-! ## Comment text: trailing white space and the shebang test -/

/-- One step of `strings.TrimRightFunc(s, unicode.IsSpace)` on the reversed UTF-8 bytes:
    drops one trailing white-space rune if there is one.  The white-space runes are
    U+0009–U+000D, U+0020, U+0085, U+00A0, U+1680, U+2000–U+200A, U+2028, U+2029, U+202F,
    U+205F, U+3000. -/
def dropSpaceRev : List UInt8 → Option (List UInt8)
  | 0x85 :: 0xC2 :: r => some r
  | 0xA0 :: 0xC2 :: r => some r
  | 0x80 :: 0x9A :: 0xE1 :: r => some r
  | 0xA8 :: 0x80 :: 0xE2 :: r => some r
  | 0xA9 :: 0x80 :: 0xE2 :: r => some r
  | 0xAF :: 0x80 :: 0xE2 :: r => some r
  | 0x9F :: 0x81 :: 0xE2 :: r => some r
  | 0x80 :: 0x80 :: 0xE3 :: r => some r
  | b :: 0x80 :: 0xE2 :: r => if 0x80 ≤ b ∧ b ≤ 0x8A then some r else none
  | b :: r => if (9 ≤ b ∧ b ≤ 13) ∨ b = 32 then some r else none
  | [] => none

def trimRev : Nat → List UInt8 → List UInt8
  | 0, l => l
  | n + 1, l => match dropSpaceRev l with
    | some r => trimRev n r
    | none => l

/-- `strings.TrimRightFunc(text, unicode.IsSpace)` on valid UTF-8. -/
def trimRight (t : List UInt8) : List UInt8 := (trimRev t.length t.reverse).reverse

def isBlank (b : UInt8) : Bool := b = 32 || b = 9

/-- `\s` of Go's regexp: `[\t\n\f\r ]`. -/
def isReSpace (b : UInt8) : Bool := b = 9 || b = 10 || b = 12 || b = 13 || b = 32

def dropBlanks : List UInt8 → List UInt8
  | [] => []
  | b :: r => if isBlank b then dropBlanks r else b :: r

def stripPrefix : List UInt8 → List UInt8 → Option (List UInt8)
  | [], l => some l
  | _ :: _, [] => none
  | a :: as, b :: bs => if a = b then stripPrefix as bs else none

def optPrefix (p l : List UInt8) : List UInt8 :=
  match stripPrefix p l with
  | some r => r
  | none => l

def endOrSpace : List UInt8 → Bool
  | [] => true
  | b :: _ => isReSpace b

/-- `sh`, `dash`, `bash`, `mksh`, `bats`, `zsh` (as bytes, so that the kernel can evaluate) -/
def shellNames : List (List UInt8) :=
  [[0x73, 0x68], [0x64, 0x61, 0x73, 0x68], [0x62, 0x61, 0x73, 0x68], [0x6D, 0x6B, 0x73, 0x68],
   [0x62, 0x61, 0x74, 0x73], [0x7A, 0x73, 0x68]]

/-- `usr/` -/
def bUsr : List UInt8 := [0x75, 0x73, 0x72, 0x2F]
/-- `bin/` -/
def bBin : List UInt8 := [0x62, 0x69, 0x6E, 0x2F]
/-- `env` -/
def bEnv : List UInt8 := [0x65, 0x6E, 0x76]

/-- `fileutil.Shebang([]byte("#"+text)) != ""`, i.e. a match of
    `^#![ \t]*/(usr/)?bin/(env[ \t]+)?(sh|dash|bash|mksh|bats|zsh)(\s|$)`; `text` excludes `#`. -/
def isShebang (text : List UInt8) : Bool :=
  match text with
  | 0x21 :: r =>
    match stripPrefix [0x2F] (dropBlanks r) with
    | none => false
    | some r1 =>
      let r2 := optPrefix bUsr r1
      match stripPrefix bBin r2 with
      | none => false
      | some r3 =>
        let plain := shellNames.any fun n =>
          match stripPrefix n r3 with
          | some r4 => endOrSpace r4
          | none => false
        let viaEnv :=
          match stripPrefix bEnv r3 with
          | some (b :: r4) =>
            isBlank b && shellNames.any fun n =>
              match stripPrefix n (dropBlanks r4) with
              | some r5 => endOrSpace r5
              | none => false
          | _ => false
        plain || viaEnv
  | _ => false

/-! ## The skeleton tree -/

/-- Effects on `p.line` of printing a piece of a word. -/
inductive LItem
  /-- `p.advanceLine(l)` (also the loop `for p.line < l { p.line++ }` of `dblQuoted`). -/
  | adv (l : Nat)
  /-- `if !p.singleLine && l > p.line { p.bslashNewl() }` (`wordParts`, `wordJoin`). -/
  | bsl (l : Nat)
  /-- `for quoted && !p.singleLine && l > p.line { p.line++ }` (`wordParts`). -/
  | qnl (l : Nat)
deriving DecidableEq, Repr, Inhabited

/-- A pending heredoc (`Redirect` with `Op == Hdoc || Op == DashHdoc`), flat body. -/
structure Hdoc where
  dash : Bool
  hasBody : Bool
  /-- `p.wordParts(r.Hdoc.Parts, true)` -/
  body : List LItem
  /-- `p.unquotedWord(r.Word)` -/
  wordU : List LItem
  /-- `r.Hdoc.End().Line()` -/
  endLine : Nat
deriving DecidableEq, Repr, Inhabited

inductive SubKind
  | dollar | backquote | tempFile | replyVar | proc
deriving DecidableEq, Repr, Inhabited

mutual
  inductive Item
    | li (x : LItem)
    /-- `if p.wantsNewline(pos, true) { p.bslashNewl() }` (`assigns`, `casePatternJoin`). -/
    | bslw (p : Pos)
    /-- `testExpr`: `if pos.Line() > p.line { p.newlines(pos) }`. -/
    | tnl (p : Pos)
    /-- `CmdSubst` / `ProcSubst`: `swl` is `startsWithLparen(stmts[0])`, `endLine` is
        `stmtsEnd(stmts, last).Line()`. -/
    | sub (kind : SubKind) (swl : Bool) (endLine : Nat) (left right : Pos) (stmts : List Stmt) (last : List Com)
    /-- `ArrayExpr` inside `assigns`. -/
    | arr (rparen : Pos) (elems : List Elem) (last : List Com)
  inductive Elem
    | mk (pos : Pos) (coms : List Com) (items : List Item)
  inductive Stmt
    /-- `cmdPos = Cmd.Pos()`, `cmdEnd = Cmd.End()`, `semi = Semicolon`; `redirs` are the redirects
        that `stmt` itself prints (`s.Redirs[startRedirs:]`). -/
    | mk (pos cmdPos cmdEnd semi : Pos) (coms : List Com) (cmd : Cmd) (redirs : List Redir)
  inductive Redir
    | mk (opPos : Pos) (hd : Option Hdoc) (word : List Item)
  inductive Cmd
    /-- `s.Cmd == nil` -/
    | none
    /-- `CallExpr` (with the redirects printed early by `printRedirsUntil`), `ArithmCmd`,
        `TestClause`, `DeclClause`, `LetClause`: only items. -/
    | flat (items : List Item)
    | block (rbrace : Pos) (endLine : Nat) (stmts : List Stmt) (last : List Com)
    /-- `firstLine = stmts[0].Pos().Line()` -/
    | subshell (swl : Bool) (firstLine : Nat) (lparen rparen : Pos) (endLine : Nat) (stmts : List Stmt) (last : List Com)
    | ifc (fi : Pos) (ic : IfC)
    | whilec (doPos donePos : Pos) (condEnd : Nat) (cond : List Stmt) (condLast : List Com)
        (doEnd : Nat) (body : List Stmt) (doLast : List Com)
    | forc (doPos donePos : Pos) (loop : List Item) (doEnd : Nat) (body : List Stmt) (doLast : List Com)
    | binary (opPos : Pos) (x y : Stmt)
    | func (body : Stmt)
    | casec (inLine : Nat) (esac : Pos) (word : List Item) (items : List CaseItem) (last : List Com)
    /-- `TimeClause`, `CoprocClause`, `TestDecl`: items, then `p.stmt(inner)`. -/
    | wrap (pre : List Item) (inner : Option Stmt)
  inductive IfC
    /-- `hasThen = ThenPos.IsValid()` (false for the `else` pseudo clause). -/
    | mk (position : Pos) (hasThen : Bool) (thenPos : Pos)
        (condEnd : Nat) (cond : List Stmt) (condLast : List Com)
        (thenEnd : Nat) (thn : List Stmt) (thenLast : List Com)
        (last : List Com) (els : Option IfC)
  inductive CaseItem
    /-- `opBreak = (ci.Op == Break)` (`;;`) -/
    | mk (pos opPos : Pos) (opBreak : Bool) (endLine : Nat) (coms : List Com) (pats : List Item)
        (stmts : List Stmt) (last : List Com)
end

structure File where
  stmts : List Stmt
  last : List Com

def Stmt.pos : Stmt → Pos
  | .mk pos _ _ _ _ _ _ => pos
def Stmt.coms : Stmt → List Com
  | .mk _ _ _ _ coms _ _ => coms
def Stmt.cmdEnd : Stmt → Pos
  | .mk _ _ cmdEnd _ _ _ _ => cmdEnd
def IfC.position : IfC → Pos
  | .mk position _ _ _ _ _ _ _ _ _ _ => position
def IfC.hasThen : IfC → Bool
  | .mk _ hasThen _ _ _ _ _ _ _ _ _ => hasThen
/-- the `else` pseudo clause has no condition and no further `else` -/
def IfC.elseShape : IfC → Bool
  | .mk _ _ _ _ cond condLast _ _ _ _ els => cond.isEmpty && condLast.isEmpty && els.isNone
def Cmd.isNone : Cmd → Bool
  | .none => true
  | _ => false
/-- `s.Cmd != nil` -/
def Stmt.hasCmd : Stmt → Bool
  | .mk _ _ _ _ _ cmd _ => !cmd.isNone

/-- `s.Cmd != nil && c.End().After(s.Cmd.End())` -/
def isEndCom (cmdEnd : Pos) (hasCmd : Bool) (c : Com) : Bool := hasCmd && c.endAfter cmdEnd

/-! ## Specification side: the comment fields of the tree, in the canonical field order -/

def beforeOf (pos cmdEnd : Pos) (hasCmd : Bool) (cs : List Com) : List Com :=
  cs.filter fun c => !isEndCom cmdEnd hasCmd c && !c.pos.after pos
def midOf (pos cmdEnd : Pos) (hasCmd : Bool) (cs : List Com) : List Com :=
  cs.filter fun c => !isEndCom cmdEnd hasCmd c && c.pos.after pos
def endOf (cmdEnd : Pos) (hasCmd : Bool) (cs : List Com) : List Com :=
  cs.filter fun c => isEndCom cmdEnd hasCmd c

mutual
  def acItem : Item → List Com
    | .li _ => []
    | .bslw _ => []
    | .tnl _ => []
    | .sub _ _ _ _ _ stmts last => acStmts stmts ++ last
    | .arr _ elems last => acElems elems ++ last
  def acItems : List Item → List Com
    | [] => []
    | i :: is => acItem i ++ acItems is
  def acElems : List Elem → List Com
    | [] => []
    | .mk pos coms items :: es =>
      coms.filter (fun c => !c.pos.after pos) ++ acItems items ++ coms.filter (fun c => c.pos.after pos) ++ acElems es
  /-- comments below a statement, not counting `s.Comments` -/
  def acStmt : Stmt → List Com
    | .mk _ _ _ _ _ cmd redirs => acCmd cmd ++ acRedirs redirs
  def acRedirs : List Redir → List Com
    | [] => []
    | .mk _ _ word :: rs => acItems word ++ acRedirs rs
  /-- a statement list: each statement with its own comments around it -/
  def acStmts : List Stmt → List Com
    | [] => []
    | s :: ss =>
      beforeOf s.pos s.cmdEnd s.hasCmd s.coms ++ midOf s.pos s.cmdEnd s.hasCmd s.coms
        ++ acStmt s ++ endOf s.cmdEnd s.hasCmd s.coms ++ acStmts ss
  def acCmd : Cmd → List Com
    | .none => []
    | .flat items => acItems items
    | .block _ _ stmts last => acStmts stmts ++ last
    | .subshell _ _ _ _ _ stmts last => acStmts stmts ++ last
    | .ifc _ ic => acIf ic
    | .whilec _ _ _ cond condLast _ body doLast => acStmts cond ++ condLast ++ acStmts body ++ doLast
    | .forc _ _ loop _ body doLast => acItems loop ++ acStmts body ++ doLast
    | .binary _ x y => x.coms ++ acStmt x ++ y.coms ++ acStmt y
    | .func body => body.coms ++ acStmt body
    | .casec _ _ word items last => acItems word ++ acCaseItems items ++ last
    | .wrap pre inner => acItems pre ++ (match inner with
      | none => []
      | some s => acStmt s ++ s.coms)
  def acIf : IfC → List Com
    | .mk _ _ _ _ cond condLast _ thn thenLast last els =>
      acStmts cond ++ condLast ++ acStmts thn ++ thenLast ++ last ++ (match els with
        | none => []
        | some e => acIf e)
  def acCaseItems : List CaseItem → List Com
    | [] => []
    | .mk pos _ _ _ coms pats stmts last :: rest =>
      coms.filter (fun c => !c.pos.after pos) ++ acItems pats ++ acStmts stmts ++ last
        ++ coms.filter (fun c => c.pos.after pos) ++ acCaseItems rest
end

/-! ## Printer state -/

structure St where
  line : Nat := 0
  wantNewline : Bool := false
  mustNewline : Bool := false
  firstLine : Bool := true
  pending : List Com := []
  hdocs : List Hdoc := []
  /-- ghost: comments written to the output, in order -/
  emitted : List Com := []
  /-- ghost: number of comments written by the "`# inline comment`" special case of `cmdSubst` -/
  inlineN : Nat := 0
  /-- ghost: number of times a branch was taken that loses or reorders comments *depending on the
      printer state*: `BinaryCmd` printed on one line with a non-empty `Y.Comments` queued after
      the comments inside `Y`; an inline backquote comment written while other comments were
      pending. -/
  lossD : Nat := 0
deriving Repr, Inhabited

/-- `emitted ++ pending`: every comment handed to the printer so far, in order. -/
def St.acc (σ : St) : List Com := σ.emitted ++ σ.pending

def advLine (l : Nat) (σ : St) : St := { σ with line := max σ.line l }

/-- `p.bslashNewl()` -/
def bslashNewl (σ : St) : St := { σ with line := σ.line + 1 }

/-- `p.wantsNewline(pos, escapingNewline)` -/
def wantsNewline (o : Opts) (σ : St) (p : Pos) (esc : Bool) : Bool :=
  if σ.mustNewline then true
  else if o.singleLine && σ.pending.isEmpty then false
  else if esc && o.minify then false
  else σ.wantNewline || decide (σ.line < p.line)

def runL (o : Opts) (x : LItem) (σ : St) : St :=
  match x with
  | .adv l => advLine l σ
  | .bsl l => if !o.singleLine && decide (σ.line < l) then bslashNewl σ else σ
  | .qnl l => if !o.singleLine then advLine l σ else σ

def runLs (o : Opts) (xs : List LItem) (σ : St) : St := xs.foldl (fun σ x => runL o x σ) σ

/-- The loop of `flushComments` over a list of comments (without the leading `flushHeredocs`). -/
def emitComs (cs : List Com) (σ : St) : St :=
  cs.foldl (fun σ c =>
    { σ with firstLine := false, line := max σ.line c.pos.line, emitted := σ.emitted ++ [c],
             wantNewline := true, mustNewline := true }) σ

/-- One iteration of the loop over `hdocs` in `flushHeredocs`. -/
def runHdoc (o : Opts) (σ : St) (h : Hdoc) : St :=
  let σ := { σ with line := σ.line + 1, wantNewline := false, mustNewline := false }
  let σ :=
    if h.dash && o.tabIndent && !o.minify then σ -- body printed by the nested `tabsPrinter`
    else if h.hasBody then runLs o h.body σ
    else σ
  let σ := runLs o h.wordU σ
  if h.hasBody then advLine h.endLine σ else σ

/-- the loop over `hdocs` in `flushHeredocs` -/
def hdocBodies (o : Opts) (hs : List Hdoc) (σ : St) : St := hs.foldl (runHdoc o) σ

/-- `p.flushHeredocs()`: a pending comment on the current line is written before the bodies (the
    inner `flushComments` finds no pending heredocs), the others are queued again afterwards. -/
def flushHeredocs (o : Opts) (σ : St) : St :=
  match σ.hdocs with
  | [] => σ
  | h :: hs =>
    let σ1 : St := { σ with hdocs := [], pending := [] }
    match σ.pending with
    | c :: rest =>
      if c.pos.line = σ.line then
        { hdocBodies o (h :: hs) (emitComs [c] { σ1 with mustNewline := false }) with
            pending := rest, mustNewline := true }
      else
        { hdocBodies o (h :: hs) σ1 with pending := c :: rest, mustNewline := true }
    | [] => { hdocBodies o (h :: hs) σ1 with pending := [], mustNewline := true }

/-- `p.flushComments()` -/
def flushComments (o : Opts) (σ : St) : St :=
  let σ := if σ.pending.isEmpty then σ else flushHeredocs o σ
  { emitComs σ.pending σ with pending := [] }

def shebangAt11 (c : Com) : Bool := isShebang c.text && c.pos.col = 1 && c.pos.line = 1

/-- `p.comments(cs...)` -/
def comments (o : Opts) (cs : List Com) (σ : St) : St :=
  if o.minify then
    cs.foldl (fun σ c =>
      if shebangAt11 c then { σ with emitted := σ.emitted ++ [c], line := σ.line + 1 } else σ) σ
  else { σ with pending := σ.pending ++ cs }

/-- `p.newline(pos)` -/
def newline (o : Opts) (p : Pos) (σ : St) : St :=
  let σ := flushComments o (flushHeredocs o σ)
  advLine p.line { σ with wantNewline := false, mustNewline := false }

/-- `p.newlines(pos)` -/
def newlines (o : Opts) (p : Pos) (σ : St) : St :=
  if σ.firstLine && σ.pending.isEmpty then { σ with firstLine := false }
  else if !wantsNewline o σ p false then σ
  else
    let σ := flushComments o (flushHeredocs o σ)
    advLine p.line { σ with wantNewline := false, mustNewline := false }

/-- `p.semiRsrv(s, pos)` -/
def semiRsrv (o : Opts) (p : Pos) (σ : St) : St :=
  if wantsNewline o σ p false then newlines o p σ else σ

/-- `p.semiOrNewl(s, pos)` -/
def semiOrNewl (o : Opts) (p : Pos) (σ : St) : St :=
  if wantsNewline o σ Pos.none false || !σ.hdocs.isEmpty then newline o p σ
  else advLine p.line σ

/-- `p.rightParen(pos)` -/
def rightParen (o : Opts) (p : Pos) (σ : St) : St :=
  if !σ.hdocs.isEmpty || !o.minify then newlines o p σ else σ

/-- The head of `nestedStmts`: decides `p.wantNewline`. -/
def nestedPre (n : Nat) (endLine : Nat) (closing : Pos) (σ : St) : St :=
  if decide (1 < n) then { σ with wantNewline := true }
  else if decide (σ.line < closing.line) && decide (0 < n) && decide (endLine < closing.line) then
    { σ with wantNewline := true }
  else if !σ.pending.isEmpty && decide (0 < n) then { σ with wantNewline := true }
  else σ

/-- The tail of `nestedStmts`. -/
def nestedPost (o : Opts) (closing : Pos) (σ : St) : St :=
  if closing.valid then flushComments o σ else σ

/-- The comment loop at the top of the `stmtList` body, for the two tests `isEnd`
    (`s.Cmd != nil && c.End().After(s.Cmd.End())`) and `isMid` (`c.Pos().After(pos)`): comments
    before the statement, comments between its start and the end of the command, the first
    comment after the command, and the comments the `break` never looks at. -/
def classifyP (isEnd isMid : Com → Bool) : List Com → List Com × List Com × List Com × List Com
  | [] => ([], [], [], [])
  | c :: cs =>
    if isEnd c then ([], [], [c], cs)
    else
      let r := classifyP isEnd isMid cs
      if isMid c then (r.1, c :: r.2.1, r.2.2.1, r.2.2.2) else (c :: r.1, r.2.1, r.2.2.1, r.2.2.2)


def classify (pos cmdEnd : Pos) (hasCmd : Bool) (cs : List Com) :=
  classifyP (isEndCom cmdEnd hasCmd) (fun c => c.pos.after pos) cs

/-- The loops in `elemJoin` and in the `else` branch of `ifClause`: comments up to the first one
    after `pos` are queued at once, that one is kept for later, the rest is never looked at. -/
def splitLeft (pos : Pos) : List Com → List Com × List Com × List Com
  | [] => ([], [], [])
  | c :: cs =>
    if c.pos.after pos then ([], [c], cs)
    else
      let (b, l, d) := splitLeft pos cs
      (c :: b, l, d)

/-- The loop over `ci.Comments` in the `CaseClause` branch: everything from the first comment
    after `pos` on is kept for later. -/
def splitCase (pos : Pos) : List Com → List Com × List Com
  | [] => ([], [])
  | c :: cs =>
    if c.pos.after pos then ([], c :: cs)
    else
      let (b, l) := splitCase pos cs
      (c :: b, l)

/-- The "`# inline comment`" branch of `cmdSubst`. -/
def emitInline (c : Com) (σ : St) : St :=
  { σ with emitted := σ.emitted ++ [c], inlineN := σ.inlineN + 1,
           lossD := if σ.pending.isEmpty then σ.lossD else σ.lossD + 1 }

/-- The guard of the "`# inline comment`" branch: `cs.Backquotes && len(cs.Stmts) == 0 &&
    len(cs.Last) == 1 && !p.minify && cs.Right.Line() == p.line`. -/
def inlineCand (o : Opts) (noStmts : Bool) (last : List Com) (right : Pos) (σ : St) : Option Com :=
  match last with
  | [c] => if noStmts && !o.minify && right.line = σ.line then some c else none
  | _ => none

/-- `sep` at the head of `stmtList` -/
def sepOf (stmts : List Stmt) (σ : St) : Bool :=
  σ.wantNewline || (match stmts with
    | s :: _ => decide (σ.line < s.pos.line)
    | [] => false)

/-- the tail of `stmtList`, after the loop -/
def listPost (o : Opts) (n : Nat) (sep : Bool) (last : List Com) (σ : St) : St :=
  let σ := if n = 1 && !sep then { σ with wantNewline := false } else σ
  comments o last σ

/-! ## The printer -/

mutual
  /-- word parts, `assigns` (array literals), test expressions -/
  def prItem (o : Opts) : Item → St → St
    | .li x, σ => runL o x σ
    | .bslw p, σ => if wantsNewline o σ p true then bslashNewl σ else σ
    | .tnl p, σ => if decide (σ.line < p.line) then newlines o p σ else σ
    | .sub kind swl endLine _left right stmts last, σ =>
      match kind with
      | .tempFile =>
        let σ := nestedPre stmts.length endLine right σ
        let sep := sepOf stmts σ
        let σ := listPost o stmts.length sep last (prStmtLoop o true stmts σ)
        semiRsrv o right (nestedPost o right σ)
      | .replyVar =>
        let σ := nestedPre stmts.length endLine right σ
        let sep := sepOf stmts σ
        let σ := listPost o stmts.length sep last (prStmtLoop o false stmts σ)
        semiRsrv o right (nestedPost o right σ)
      | .proc =>
        let σ := nestedPre stmts.length endLine right σ
        let sep := sepOf stmts σ
        let σ := listPost o stmts.length sep last (prStmtLoop o false stmts σ)
        rightParen o right (nestedPost o right σ)
      | .backquote =>
        match inlineCand o stmts.isEmpty last right σ with
        | some c => emitInline c σ
        | none =>
          let σ := nestedPre stmts.length endLine right σ
          let sep := sepOf stmts σ
          let σ := listPost o stmts.length sep last (prStmtLoop o swl stmts σ)
          rightParen o right (nestedPost o right σ)
      | .dollar =>
        let σ := nestedPre stmts.length endLine right σ
        let sep := sepOf stmts σ
        let σ := listPost o stmts.length sep last (prStmtLoop o swl stmts σ)
        rightParen o right (nestedPost o right σ)
    | .arr rparen elems last, σ =>
      let σ := prElems o elems σ
      let σ := if last.isEmpty then σ else flushComments o (comments o last σ)
      rightParen o rparen σ

  def prItems (o : Opts) : List Item → St → St
    | [], σ => σ
    | i :: is, σ => prItems o is (prItem o i σ)

  /-- the loop of `elemJoin` -/
  def prElems (o : Opts) : List Elem → St → St
    | [], σ => σ
    | .mk pos coms items :: es, σ =>
      let sp := splitLeft pos coms
      let σ := comments o sp.1 σ
      let σ := if decide (σ.line < pos.line) then newlines o pos σ else σ
      let σ := prItems o items σ
      let σ := comments o sp.2.1 σ
      prElems o es σ

  /-- `p.stmt(s)` -/
  def prStmt (o : Opts) : Stmt → St → St
    | .mk _pos cmdPos _cmdEnd semi _coms cmd redirs, σ =>
      let σ := if cmd.isNone then σ else prCmd o cmd (advLine cmdPos.line σ)
      let σ := prRedirs o redirs σ
      if semi.valid && decide (σ.line < semi.line) && !o.singleLine then bslashNewl σ else σ

  /-- the loop over `s.Redirs[startRedirs:]` in `stmt` -/
  def prRedirs (o : Opts) : List Redir → St → St
    | [], σ => σ
    | .mk opPos hd word :: rs, σ =>
      let σ := if wantsNewline o σ opPos true then bslashNewl σ else σ
      let σ := prItems o word σ
      let σ := match hd with
        | some h => { σ with hdocs := σ.hdocs ++ [h] }
        | none => σ
      prRedirs o rs σ

  /-- The loop of `stmtList`; `req` stands for `p.wantSpace == spaceRequired`, which only matters
      with Minify (true for every statement but the first of a list). -/
  def prStmtLoop (o : Opts) (req : Bool) : List Stmt → St → St
    | [], σ => σ
    | s :: ss, σ =>
      let cl := classify s.pos s.cmdEnd s.hasCmd s.coms
      let σ := comments o cl.1 σ
      let σ := if σ.mustNewline || !o.minify || req then newlines o s.pos σ else σ
      let σ := advLine s.pos.line σ
      let σ := comments o cl.2.1 σ
      let σ := prStmt o s σ
      let σ := comments o cl.2.2.1 σ
      prStmtLoop o true ss { σ with wantNewline := true }

  /-- `p.command(cmd, redirs)` after `p.advanceLine(cmd.Pos().Line())` -/
  def prCmd (o : Opts) : Cmd → St → St
    | .none, σ => σ
    | .flat items, σ => prItems o items σ
    | .block rbrace endLine stmts last, σ =>
      let σ := { σ with wantNewline := σ.wantNewline || o.funcNextLine }
      let σ := nestedPre stmts.length endLine rbrace σ
      let sep := sepOf stmts σ
      let σ := listPost o stmts.length sep last (prStmtLoop o true stmts σ)
      semiRsrv o rbrace (nestedPost o rbrace σ)
    | .subshell swl firstLine lparen rparen endLine stmts last, σ =>
      let σ :=
        if swl && (lparen.line != firstLine || decide (1 < stmts.length)) && !o.singleLine && o.minify
        then { σ with mustNewline := true } else σ
      let σ := nestedPre stmts.length endLine rparen σ
      let sep := sepOf stmts σ
      let σ := listPost o stmts.length sep last (prStmtLoop o false stmts σ)
      rightParen o rparen (nestedPost o rparen σ)
    | .ifc fi ic, σ => prIf o fi ic σ
    | .whilec doPos donePos condEnd cond condLast doEnd body doLast, σ =>
      let σ := nestedPre cond.length condEnd Pos.none σ
      let sep := sepOf cond σ
      let σ := listPost o cond.length sep condLast (prStmtLoop o true cond σ)
      let σ := semiOrNewl o doPos σ
      let σ := nestedPre body.length doEnd donePos σ
      let sep := sepOf body σ
      let σ := listPost o body.length sep doLast (prStmtLoop o true body σ)
      semiRsrv o donePos (nestedPost o donePos σ)
    | .forc doPos donePos loop doEnd body doLast, σ =>
      let σ := prItems o loop σ
      let σ := semiOrNewl o doPos σ
      let σ := nestedPre body.length doEnd donePos σ
      let sep := sepOf body σ
      let σ := listPost o body.length sep doLast (prStmtLoop o true body σ)
      semiRsrv o donePos (nestedPost o donePos σ)
    | .binary opPos x y, σ =>
      let σ := prStmt o x σ
      if o.minify || o.singleLine || decide (y.pos.line ≤ σ.line) then
        -- `cmd.Y.Comments` is queued after `Y` on this branch: out of field order when `Y` itself
        -- contains comments
        let σ := if y.coms.isEmpty || (acStmt y).isEmpty then σ else { σ with lossD := σ.lossD + 1 }
        comments o y.coms (prStmt o y (advLine y.pos.line σ))
      else
        let σ :=
          if o.binNextLine then
            let σ := if σ.hdocs.isEmpty then bslashNewl σ else σ
            if y.coms.isEmpty then σ
            else newline o Pos.none (comments o y.coms (newline o y.pos σ))
          else newline o Pos.none (comments o y.coms (advLine opPos.line σ))
        prStmt o y (advLine y.pos.line σ)
    | .func body, σ =>
      let σ := if o.funcNextLine then newline o Pos.none σ else σ
      let σ := advLine body.pos.line σ
      let σ := comments o body.coms σ
      prStmt o body σ
    | .casec inLine esac word items last, σ =>
      let σ := prItems o word σ
      let σ := advLine inLine σ
      let σ := if items.isEmpty then { σ with mustNewline := true } else σ
      let σ := prCaseItems o items σ
      let σ := comments o last σ
      let σ := if o.swtCaseIndent then flushComments o σ else σ
      semiRsrv o esac σ
    | .wrap pre inner, σ =>
      let σ := prItems o pre σ
      match inner with
      | none => σ
      | some s => comments o s.coms (prStmt o s σ)

  /-- `p.ifClause(ic, elif)` -/
  def prIf (o : Opts) (fi : Pos) : IfC → St → St
    | .mk _position _hasThen thenPos condEnd cond condLast thenEnd thn thenLast last els, σ =>
      let σ := nestedPre cond.length condEnd Pos.none σ
      let sep := sepOf cond σ
      let σ := listPost o cond.length sep condLast (prStmtLoop o true cond σ)
      let σ := semiOrNewl o thenPos σ
      let closing := match els with
        | none => fi
        | some e => e.position
      let σ := nestedPre thn.length thenEnd closing σ
      let sep := sepOf thn σ
      let σ := listPost o thn.length sep thenLast (prStmtLoop o true thn σ)
      let σ := nestedPost o closing σ
      match els with
      | none => semiRsrv o fi (comments o last σ)
      | some e =>
        if e.hasThen then
          prIf o fi e (semiRsrv o e.position (comments o last σ))
        else
          let sp := splitLeft e.position last
          let σ := comments o sp.1 σ
          let σ := semiRsrv o e.position σ
          let σ := comments o sp.2.1 σ
          let σ := prElse o fi e σ
          semiRsrv o fi σ

  /-- the `else` part of `ifClause`: `nestedStmts(el.Then, el.ThenLast, ic.FiPos)`, `comments(el.Last)` -/
  def prElse (o : Opts) (fi : Pos) : IfC → St → St
    | .mk _ _ _ _ _ _ thenEnd thn thenLast last _, σ =>
      let σ := nestedPre thn.length thenEnd fi σ
      let sep := sepOf thn σ
      let σ := listPost o thn.length sep thenLast (prStmtLoop o true thn σ)
      comments o last (nestedPost o fi σ)

  /-- the loop over `cmd.Items` in the `CaseClause` branch -/
  def prCaseItems (o : Opts) : List CaseItem → St → St
    | [], σ => σ
    | .mk pos opPos opBreak endLine coms pats stmts last :: rest, σ =>
      let sp := splitCase pos coms
      let σ := comments o sp.1 σ
      let σ := newlines o pos σ
      let σ := prItems o pats σ
      let σ := nestedPre stmts.length endLine opPos σ
      let sep := sepOf stmts σ
      let σ := listPost o stmts.length sep last (prStmtLoop o false stmts σ)
      let σ := nestedPost o opPos σ
      let σ :=
        if !o.minify || !rest.isEmpty || !opBreak then
          let σ := if wantsNewline o σ opPos false then { newlines o opPos σ with wantNewline := true } else σ
          advLine opPos.line σ
        else σ
      let σ := flushComments o (comments o sp.2 σ)
      prCaseItems o rest σ
end

/-- `Printer.reset` -/
def initSt (o : Opts) : St := { firstLine := !o.minify }

/-- `Printer.Print(w, *File)` -/
def printFile (o : Opts) (f : File) : St :=
  let σ := initSt o
  let sep := sepOf f.stmts σ
  let σ := listPost o f.stmts.length sep f.last (prStmtLoop o false f.stmts σ)
  let σ := newline o Pos.none σ
  flushComments o (flushHeredocs o σ)

/-- The ghost output: the comments written, in order. -/
def emitted (o : Opts) (f : File) : List Com := (printFile o f).emitted

/-- Every comment field of the tree, in the canonical field order. -/
def allComments (f : File) : List Com := acStmts f.stmts ++ f.last

/-- insertion sort by offset (stable) -/
def insertCom (c : Com) : List Com → List Com
  | [] => [c]
  | d :: ds => if c.pos.offs < d.pos.offs then c :: d :: ds else d :: insertCom c ds

def sortComs : List Com → List Com
  | [] => []
  | c :: cs => insertCom c (sortComs cs)

/-- The comments of the tree in source order. -/
def sourceOrder (f : File) : List Com := sortComs (allComments f)

/-- strictly increasing offsets -/
def sortedComs : List Com → Bool
  | [] => true
  | [_] => true
  | c :: d :: rest => decide (c.pos.offs < d.pos.offs) && sortedComs (d :: rest)

/-- The canonical field order is the source order (false exactly where the parser attaches a
    comment to a field that is printed out of source order). -/
def SourceOrdered (f : File) : Bool := sortedComs (allComments f)

/-! ## Well-formedness: what the printer relies on and the parser guarantees -/

/-- at most one element satisfies `p`, and it is the last one -/
def onlyLast (p : Com → Bool) : List Com → Bool
  | [] => true
  | [_] => true
  | c :: d :: rest => !p c && onlyLast p (d :: rest)

/-- once a comment satisfies `p`, all later ones do -/
def monotoneP (p : Com → Bool) : List Com → Bool
  | [] => true
  | c :: rest => (if p c then rest.all p else true) && monotoneP p rest

mutual
  def wfItem : Item → Bool
    | .li _ => true
    | .bslw _ => true
    | .tnl _ => true
    | .sub _ _ _ _ _ stmts _ => wfStmts stmts
    | .arr _ elems _ => wfElems elems
  def wfItems : List Item → Bool
    | [] => true
    | i :: is => wfItem i && wfItems is
  def wfElems : List Elem → Bool
    | [] => true
    | .mk pos coms items :: es =>
      onlyLast (fun c => c.pos.after pos) coms && wfItems items && wfElems es
  def wfStmt : Stmt → Bool
    | .mk _ _ _ _ _ cmd redirs => wfCmd cmd && wfRedirs redirs
  def wfRedirs : List Redir → Bool
    | [] => true
    | .mk _ _ word :: rs => wfItems word && wfRedirs rs
  def wfStmts : List Stmt → Bool
    | [] => true
    | s :: ss =>
      onlyLast (isEndCom s.cmdEnd s.hasCmd) s.coms && wfStmt s && wfStmts ss
  def wfCmd : Cmd → Bool
    | .none => true
    | .flat items => wfItems items
    | .block _ _ stmts _ => wfStmts stmts
    | .subshell _ _ _ _ _ stmts _ => wfStmts stmts
    | .ifc _ ic => wfIf ic
    | .whilec _ _ _ cond _ _ body _ => wfStmts cond && wfStmts body
    | .forc _ _ loop _ body _ => wfItems loop && wfStmts body
    | .binary _ x y => x.coms.isEmpty && wfStmt x && wfStmt y
    | .func body => wfStmt body
    | .casec _ _ word items _ => wfItems word && wfCaseItems items
    | .wrap pre inner => wfItems pre && (match inner with
      | none => true
      | some s => wfStmt s)
  def wfIf : IfC → Bool
    | .mk _ _ _ _ cond _ _ thn _ last els =>
      wfStmts cond && wfStmts thn && (match els with
        | none => true
        | some e =>
          (e.hasThen || (onlyLast (fun c => c.pos.after e.position) last && e.elseShape)) && wfIf e)
  def wfCaseItems : List CaseItem → Bool
    | [] => true
    | .mk pos _ _ _ coms pats stmts _ :: rest =>
      monotoneP (fun c => c.pos.after pos) coms && wfItems pats && wfStmts stmts
        && wfCaseItems rest
end

/-- What the parser guarantees about comment attachment, as far as the printer depends on it:
    at most one comment of a `Stmt` lies after `Cmd.End()` and it is the last one (`stmtList`
    stops at it); at most one comment of an `ArrayElem` lies after the element and it is the last
    one; at most one comment of `IfClause.Last` lies after `else` and it is the last one; the
    comments of a `CaseItem` after its first pattern form a suffix; the left operand of a
    `BinaryCmd` carries no comments (they are moved up).  Executable; checked on every tree the
    Go parser returns during a run — not proved of the parser. -/
def WFComments (f : File) : Bool := wfStmts f.stmts

end ShVerif.C05
