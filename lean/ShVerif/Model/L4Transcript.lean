/-
  L4: transcripts.  `trFileB o f f'` checks (executably) that the tree `f'` carries, as line
  numbers, the lines on which `printFile o f` actually writes the corresponding tokens — which is
  what parsing the printed text gives.  Programs without subshells and blocks only (the check is
  `false` otherwise).  `Proofs/L4Fix.lean` proves that the printer is a fixpoint on transcripts:
  `trFileB o f f' = true → printFile o f' = printFile o f` (every option set without SingleLine).
  Core Lean only.
-/
import ShVerif.Model.L4Syntax
namespace ShVerif.L4

def nls (bs : Bytes) : Nat := bs.count 10

/-- the line of the output on which the next byte goes -/
def P.cur (p : P) : Nat := 1 + nls (render p.out.reverse)

def WordPart.endMax (wp : WordPart) : Nat :=
  match wp with
  | .lit _ e _ => e.line
  | .sgl _ r _ => max r.line wp.stop.line

def partsMax : List WordPart → Nat
  | [] => 0
  | wp :: r => max wp.endMax (partsMax r)

/-- the state in which `p.word w` writes the word: after the continuation line, if any -/
def P.preWord (p : P) (w : Word) : P :=
  match w.parts with
  | [] => p
  | wp :: _ => if !p.o.singleLine && wp.pos.line > p.line then p.bslashNewl else p

/-- the continuation decision of the `wordJoin` loop -/
def P.joinStep (p : P) (any : Bool) (pos : Pos) : P × Bool :=
  if pos.line > p.line && !p.o.singleLine then ((if !any then p.incLevel else p).bslashNewl, true)
  else (p, any)

/-! helpers for subshells and blocks: the printer's `nestedStmts` / `stmtList` decisions -/

def Stmts.single : Stmts → Bool
  | .cons _ .nil => true
  | _ => false
def Stmts.singleRparen : Stmts → Bool
  | .cons s .nil => s.endsWithRparen
  | _ => false
def Stmts.headLparen : Stmts → Bool
  | .cons s _ => s.startsWithLparen
  | .nil => false
def Stmts.headLine : Stmts → Nat
  | .cons s _ => s.pos.line
  | .nil => 0
def Stmts.tailLen : Stmts → Nat
  | .cons _ r => r.length
  | .nil => 0

/-- `nestedStmts` up to its `stmtList` call -/
def P.nestPre (p : P) (ss : Stmts) (closing : Pos) : P :=
  let p := p.incLevel
  if ss.length > 1 then { p with wantNewline := true }
  else if closing.line > p.line && ss.length > 0 && ss.endLine < closing.line then { p with wantNewline := true }
  else p

/-- the local `sep` of `stmtList` -/
def P.listSep (p : P) (ss : Stmts) : Bool :=
  p.wantNewline || (match ss with
    | .nil => false
    | .cons s _ => s.pos.line > p.line)

/-- `case *Block:` up to the `nestedStmts` call -/
def P.blkOpen (p : P) (lb : Pos) : P :=
  let p := (p.advanceLine lb.line).spacePad
  let p := p.tok [123]
  let p := { p with wroteSemi := true, wantSpace := .required }
  { p with wantNewline := p.wantNewline || p.o.funcNextLine }

/-- `semiRsrv` up to writing the reserved word -/
def P.semiPre (p : P) (posLine : Nat) : P :=
  if p.wantsNewline posLine false then p.newlines posLine
  else
    let p := if !p.wroteSemi then p.tok [59] else p
    if !p.o.minify then p.spacePad else p

/-- `case *Subshell:` up to `rightParen` -/
def P.subClose (p : P) (lp rp : Pos) (ss : Stmts) : P :=
  ((((p.advanceLine lp.line).spacePad).subshellOpen lp ss).nestedStmtsWith ss rp
    (fun q => q.stmtListLoop true ss)).closingParenSpace ss lp.line rp.line

/-- `rightParen` up to writing `)` -/
def P.rparenPre (p : P) (posLine : Nat) : P := if p.o.minify then p else p.newlines posLine

/-- `case *Block:` up to `semiRsrv` -/
def P.blkBody (p : P) (lb rb : Pos) (ss : Stmts) : P :=
  if ((p.blkOpen lb).nestedStmtsWith ss rb (fun q => q.stmtListLoop true ss)).o.minify && ss.length == 0
  then ((p.blkOpen lb).nestedStmtsWith ss rb (fun q => q.stmtListLoop true ss)).space
  else (p.blkOpen lb).nestedStmtsWith ss rb (fun q => q.stmtListLoop true ss)

def trWordB (p : P) (w w' : Word) : Bool :=
  !w.parts.isEmpty && (wordBytes w'.parts == wordBytes w.parts) &&
  (match w'.parts with
   | [] => false
   | wp' :: _ => wp'.pos.line == (p.preWord w).cur) &&
  (partsMax w'.parts == (p.preWord w).cur + nls (wordBytes w.parts))

def trArgsB (p : P) (any : Bool) : List Word → List Word → Bool
  | [], [] => true
  | w :: rest, w' :: rest' =>
    match w.pos? with
    | none => false
    | some pos =>
      trWordB (p.joinStep any pos).1.spacePad w w' &&
      trArgsB ((p.joinStep any pos).1.spacePad.word w) (p.joinStep any pos).2 rest rest'
  | _, _ => false

def trCallB (p : P) : List Word → List Word → Bool
  | w :: rest, w' :: rest' =>
    match w.pos? with
    | none => false
    | some pos =>
      trArgsB ((p.advanceLine pos.line).spacePad.incLevel.decLevel) false [w] [w'] &&
      trArgsB (((p.advanceLine pos.line).spacePad.incLevel.decLevel).wordJoin [w]) false rest rest'
  | _, _ => false

def trSemiB (p : P) (semi : Pos) (bg : Bool) (semi' : Pos) : Bool :=
  (semi'.valid == ((semi.valid && decide (semi.line > p.line)) || bg)) &&
  (if semi.valid && decide (semi.line > p.line) then semi'.line == p.cur + 1
   else if bg then semi'.line == p.cur else true)

mutual
def trStmtB (p : P) : Stmt → Stmt → Bool
  | .mk _ semi neg bg cmd, .mk pos' semi' neg' bg' cmd' =>
    (neg' == neg) && (bg' == bg) && (pos'.line == p.cur) &&
    trCmdB (p.stmtPre neg) cmd cmd' &&
    trSemiB ((p.stmtPre neg).command cmd) semi bg semi'
def trCmdB (p : P) : Cmd → Cmd → Bool
  | .call args, c' =>
    match c' with
    | .call args' => trCallB p args args'
    | _ => false
  | .binary opPos op x y, c' =>
    match c' with
    | .binary opPos' op' x' y' =>
      (op' == op) && trStmtB ((p.advanceLine x.pos.line).spacePad) x x' &&
      decide (opPos'.line ≤ y'.pos.line) &&
      trStmtB ((((p.advanceLine x.pos.line).spacePad).stmt x).binaryOp opPos op y.pos.line y.isBinaryCmd).1 y y'
    | _ => false
  | .subshell _ _ _, _ => false
  | .block _ _ _, _ => false
end

def trLoopB (p : P) (first : Bool) : Stmts → Stmts → Bool
  | .nil, .nil => true
  | .cons s rest, .cons s' rest' =>
    trStmtB (p.stmtSep first s.pos.line) s s' &&
    trLoopB { ((p.stmtSep first s.pos.line).stmt s) with wantNewline := true } false rest rest'
  | _, _ => false

/-! ## The side condition for subshells and blocks

  Around `( )` and `{ }` the printer compares positions of the tree with each other (is the first
  statement on the line of `(`, is the closing token below the end of the list, are `(` and `)` on
  one line).  `nestOKFile o f` runs the printer and checks, at every subshell and block, that these
  comparisons come out the same way on the lines where the tokens are actually written. -/

def nestB (line : Nat) (ss : Stmts) (closing : Pos) : Bool :=
  decide (closing.line > line) && decide (ss.length > 0) && decide (ss.endLine < closing.line)

/-- the agreement of the `nestedStmts` / `stmtList` decisions at one nested list; `p1` is the state
    after the opening token, `rline` the line on which the closing token is written -/
def nestAgree (p1 : P) (ss : Stmts) (closing : Pos) (rline : Nat) : Bool :=
  (!decide (ss.length ≤ 1) ||
    ((decide (rline > p1.cur) && decide (ss.length > 0) &&
      decide (((p1.nestPre ss closing).stmtListLoop true ss).cur < rline)) == nestB p1.line ss closing)) &&
  (!ss.single ||
    (((p1.nestPre ss closing).wantNewline ||
      decide (((p1.nestPre ss closing).stmtSep true ss.headLine).cur > (p1.nestPre ss closing).cur)) ==
        (p1.nestPre ss closing).listSep ss))

mutual
def nestOKs (p : P) : Stmt → Bool
  | .mk _ _ neg _ cmd => nestOKc (p.stmtPre neg) cmd
def nestOKc (p : P) : Cmd → Bool
  | .call _ => true
  | .binary opPos op x y =>
    nestOKs ((p.advanceLine x.pos.line).spacePad) x &&
    nestOKs ((((p.advanceLine x.pos.line).spacePad).stmt x).binaryOp opPos op y.pos.line y.isBinaryCmd).1 y
  | .subshell lp rp ss =>
    (!ss.headLparen ||
      ((p.cur != (((((p.advanceLine lp.line).spacePad).subshellOpen lp ss).nestPre ss rp).stmtSep true ss.headLine).cur) ==
        (lp.line != ss.headLine))) &&
    nestAgree (((p.advanceLine lp.line).spacePad).subshellOpen lp ss) ss rp ((p.subClose lp rp ss).rparenPre rp.line).cur &&
    (!ss.singleRparen || ((p.cur == ((p.subClose lp rp ss).rparenPre rp.line).cur) == (lp.line == rp.line))) &&
    nestOKl ((((p.advanceLine lp.line).spacePad).subshellOpen lp ss).nestPre ss rp) true ss
  | .block lb rb ss =>
    nestAgree (p.blkOpen lb) ss rb ((p.blkBody lb rb ss).semiPre rb.line).cur &&
    !(p.blkBody lb rb ss).firstLine &&
    nestOKl ((p.blkOpen lb).nestPre ss rb) true ss
def nestOKl (p : P) (first : Bool) : Stmts → Bool
  | .nil => true
  | .cons s rest =>
    nestOKs (p.stmtSep first s.pos.line) s &&
    nestOKl { ((p.stmtSep first s.pos.line).stmt s) with wantNewline := true } false rest
end

/-- the side condition of C02's theorem for programs with subshells and blocks -/
def nestOKFile (o : Opts) (f : File) : Bool := nestOKl (P.init o) true f.stmts

/-- `f'` carries the lines on which `printFile o f` puts its tokens -/
def trFileB (o : Opts) (f f' : File) : Bool := trLoopB (P.init o) true f.stmts f'.stmts

/-- the residual hypothesis of C02 outside SingleLine, evaluated on one input: is the re-parsed
    tree a transcript of the first printing pass? -/
def specTranscript (o : Opts) (l : Lang) (src : Bytes) : String :=
  match parse l src with
  | .error .outside => "outside"
  | .error _ => "noparse-src"
  | .ok t =>
    match printFile o t with
    | .error .minifySingleLine => "refused"
    | .error .panic => "panic"
    | .ok b =>
      match parse l b with
      | .error _ => "reparse-fail"
      | .ok t' => if trFileB o t t' then "transcript" else "no-transcript"

/-- the side condition of `idempotent_nested_partial` and C02's statement on one input -/
def specNested (o : Opts) (l : Lang) (src : Bytes) : String :=
  match parse l src with
  | .error .outside => "outside"
  | .error _ => "noparse-src"
  | .ok t => (if nestOKFile o t then "side-ok " else "side-no ") ++ specIdempotent o l src

end ShVerif.L4
