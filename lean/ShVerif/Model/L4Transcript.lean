/-
  L4: transcripts.  `trFileB o f f'` checks (executably) that the tree `f'` carries, as line
  numbers, the lines on which `printFile o f` actually writes the corresponding tokens — which is
  what parsing the printed text gives.  Programs without subshells and blocks only (the check is
  `false` otherwise).  `Proofs/L4Fix.lean` proves that the printer is a fixpoint on transcripts:
  `trFileB o f f' = true → printFile o f' = printFile o f` (every option set without SingleLine).
  Core Lean only.
-/
import ShVerif.Model.L4Syntax
namespace ShVerif.L4

def nls (bs : Bytes) : Nat := bs.count 10

/-- the line of the output on which the next byte goes -/
def P.cur (p : P) : Nat := 1 + nls (render p.out.reverse)

def WordPart.endMax (wp : WordPart) : Nat :=
  match wp with
  | .lit _ e _ => e.line
  | .sgl _ r _ => max r.line wp.stop.line

def partsMax : List WordPart → Nat
  | [] => 0
  | wp :: r => max wp.endMax (partsMax r)

/-- the state in which `p.word w` writes the word: after the continuation line, if any -/
def P.preWord (p : P) (w : Word) : P :=
  match w.parts with
  | [] => p
  | wp :: _ => if !p.o.singleLine && wp.pos.line > p.line then p.bslashNewl else p

/-- the continuation decision of the `wordJoin` loop -/
def P.joinStep (p : P) (any : Bool) (pos : Pos) : P × Bool :=
  if pos.line > p.line && !p.o.singleLine then ((if !any then p.incLevel else p).bslashNewl, true)
  else (p, any)

def trWordB (p : P) (w w' : Word) : Bool :=
  !w.parts.isEmpty && (wordBytes w'.parts == wordBytes w.parts) &&
  (match w'.parts with
   | [] => false
   | wp' :: _ => wp'.pos.line == (p.preWord w).cur) &&
  (partsMax w'.parts == (p.preWord w).cur + nls (wordBytes w.parts))

def trArgsB (p : P) (any : Bool) : List Word → List Word → Bool
  | [], [] => true
  | w :: rest, w' :: rest' =>
    match w.pos? with
    | none => false
    | some pos =>
      trWordB (p.joinStep any pos).1.spacePad w w' &&
      trArgsB ((p.joinStep any pos).1.spacePad.word w) (p.joinStep any pos).2 rest rest'
  | _, _ => false

def trCallB (p : P) : List Word → List Word → Bool
  | w :: rest, w' :: rest' =>
    match w.pos? with
    | none => false
    | some pos =>
      trArgsB ((p.advanceLine pos.line).spacePad.incLevel.decLevel) false [w] [w'] &&
      trArgsB (((p.advanceLine pos.line).spacePad.incLevel.decLevel).wordJoin [w]) false rest rest'
  | _, _ => false

def trSemiB (p : P) (semi : Pos) (bg : Bool) (semi' : Pos) : Bool :=
  (semi'.valid == ((semi.valid && decide (semi.line > p.line)) || bg)) &&
  (if semi.valid && decide (semi.line > p.line) then semi'.line == p.cur + 1
   else if bg then semi'.line == p.cur else true)

mutual
def trStmtB (p : P) : Stmt → Stmt → Bool
  | .mk _ semi neg bg cmd, .mk pos' semi' neg' bg' cmd' =>
    (neg' == neg) && (bg' == bg) && (pos'.line == p.cur) &&
    trCmdB (p.stmtPre neg) cmd cmd' &&
    trSemiB ((p.stmtPre neg).command cmd) semi bg semi'
def trCmdB (p : P) : Cmd → Cmd → Bool
  | .call args, c' =>
    match c' with
    | .call args' => trCallB p args args'
    | _ => false
  | .binary opPos op x y, c' =>
    match c' with
    | .binary opPos' op' x' y' =>
      (op' == op) && trStmtB ((p.advanceLine x.pos.line).spacePad) x x' &&
      decide (opPos'.line ≤ y'.pos.line) &&
      trStmtB ((((p.advanceLine x.pos.line).spacePad).stmt x).binaryOp opPos op y.pos.line y.isBinaryCmd).1 y y'
    | _ => false
  | .subshell _ _ _, _ => false
  | .block _ _ _, _ => false
end

def trLoopB (p : P) (first : Bool) : Stmts → Stmts → Bool
  | .nil, .nil => true
  | .cons s rest, .cons s' rest' =>
    trStmtB (p.stmtSep first s.pos.line) s s' &&
    trLoopB { ((p.stmtSep first s.pos.line).stmt s) with wantNewline := true } false rest rest'
  | _, _ => false

/-- `f'` carries the lines on which `printFile o f` puts its tokens -/
def trFileB (o : Opts) (f f' : File) : Bool := trLoopB (P.init o) true f.stmts f'.stmts

/-- the residual hypothesis of C02 outside SingleLine, evaluated on one input: is the re-parsed
    tree a transcript of the first printing pass? -/
def specTranscript (o : Opts) (l : Lang) (src : Bytes) : String :=
  match parse l src with
  | .error .outside => "outside"
  | .error _ => "noparse-src"
  | .ok t =>
    match printFile o t with
    | .error .minifySingleLine => "refused"
    | .error .panic => "panic"
    | .ok b =>
      match parse l b with
      | .error _ => "reparse-fail"
      | .ok t' => if trFileB o t t' then "transcript" else "no-transcript"

end ShVerif.L4
