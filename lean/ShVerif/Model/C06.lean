/-
  C06 — the tree well-formedness predicate that makes the unguarded index expressions of the node
  methods (`Word.Pos` = `w.Parts[0].Pos()`, `CallExpr.Pos`, `LetClause.End`, `CaseItem.Pos` …) safe.
  It is a per-node condition on list lengths: for a node of the given type, at least one of the
  listed list fields is non-empty.  Core Lean only.
-/
namespace ShVerif.C06

/-- node type → list fields of which at least one must be non-empty -/
def wfReq : List (String × List String) :=
  [("Word", ["Parts"]),
   ("CallExpr", ["Assigns", "Args"]),
   ("CaseItem", ["Patterns"]),
   ("LetClause", ["Exprs"]),
   ("BraceExp", ["Elems"])]

def lenOf (lens : List (String × Nat)) (f : String) : Nat :=
  match lens.find? (·.1 == f) with
  | some (_, n) => n
  | none => 0

/-- the per-node predicate: `Pos()` and `End()` of a node of type `ty` whose list fields have
    these lengths index only non-empty lists (children assumed well-formed themselves) -/
def wfNode (ty : String) (lens : List (String × Nat)) : Bool :=
  match wfReq.find? (·.1 == ty) with
  | none => true
  | some (_, fields) => fields.any (fun f => lenOf lens f > 0)

/-- why an index expression without a syntactic guard is in range -/
inductive Why
  | wf (ty : String)        -- the WF clause of that node type
  | inv (reason : String)   -- an invariant of local state, spelled out
  deriving Repr

end ShVerif.C06
