import ShVerif.Base.Hex
/-
  C20 — model of expand/arith.go (`Arithm`, `atoi`, `atoiLargeBase`, `assgnArit`, `intPow`,
  `binArit`), of the precedence chain of syntax/parser_arithm.go (`parseArith`, bash variant,
  non-compact mode) and of the three status rules of interp/runner.go (`(( ))`, `let`, `$(( ))`),
  plus the declarative specification `BashArith` (bash's 64-bit arithmetic on its overflow-free,
  shift-in-range domain).  Core Lean only.

  Go's `int`/`int64` are 64-bit two's complement; every place where Go wraps is an explicit
  `wrap64` here.  Strings are byte lists.
-/
namespace ShVerif.C20

/-! ## 64-bit machine integers -/

def two63 : Int := 9223372036854775808
def two64 : Int := 18446744073709551616

/-- Reduction of a mathematical integer to Go's `int64`. -/
def wrap64 (i : Int) : Int := (i + two63) % two64 - two63

def inI64 (i : Int) : Bool := decide (-two63 ≤ i) && decide (i < two63)

/-- The `uint64` with the same bits. -/
def toU64 (i : Int) : Nat := (i % two64).toNat

def and64 (x y : Int) : Int := wrap64 (Int.ofNat (toU64 x &&& toU64 y))
def or64 (x y : Int) : Int := wrap64 (Int.ofNat (toU64 x ||| toU64 y))
def xor64 (x y : Int) : Int := wrap64 (Int.ofNat (toU64 x ^^^ toU64 y))

/-- Go `x << uint(y)` on int64: counts ≥ 64 (or negative, which become huge) give 0. -/
def shl64 (x y : Int) : Int :=
  if 0 ≤ y ∧ y < 64 then wrap64 (x * (2 : Int) ^ y.toNat) else 0

/-- Go `x >> uint(y)` on int64 (arithmetic shift). -/
def shr64 (x y : Int) : Int :=
  if 0 ≤ y ∧ y < 64 then x / (2 : Int) ^ y.toNat else if x < 0 then -1 else 0

def oneIf (b : Bool) : Int := if b then 1 else 0

/-! ## Syntax tree (mirrors syntax.Word / ParenArithm / UnaryArithm / BinaryArithm) -/

inductive UnOp
  | not | bitNeg | inc | dec | plus | minus
  deriving DecidableEq, Repr

inductive BinOp
  | add | sub | mul | quo | rem | pow
  | eql | gtr | lss | neq | leq | geq
  | and | or | xor | shr | shl
  | andL | orL | xorBool | comma | ternQuest | ternColon
  | assgn | addAssgn | subAssgn | mulAssgn | quoAssgn | remAssgn
  | andAssgn | orAssgn | xorAssgn | shlAssgn | shrAssgn
  | andBoolAssgn | orBoolAssgn | xorBoolAssgn | powAssgn
  deriving DecidableEq, Repr

/-- `word w`: a `*syntax.Word` whose expansion (`expand.Literal`) is the byte string `w` and whose
    `Lit()` is `w` too (a single literal part without quoting). -/
inductive Expr
  | word (w : Bytes)
  | paren (x : Expr)
  | unary (op : UnOp) (post : Bool) (x : Expr)
  | binary (op : BinOp) (x y : Expr)
  deriving DecidableEq, Repr

/-! ## atoi -/

/-- `strings.TrimSpace` on ASCII input (non-ASCII Unicode spaces are outside the model). -/
def isSpaceB (b : UInt8) : Bool := b == 32 || (9 ≤ b && b ≤ 13)

def trimSpace (s : Bytes) : Bytes :=
  ((s.dropWhile isSpaceB).reverse.dropWhile isSpaceB).reverse

def lowerB (c : UInt8) : UInt8 := c ||| 32

/-- Digit value in `strconv.ParseUint`: 0-9, then letters case-insensitively. -/
def digitVal (c : UInt8) : Option Nat :=
  if 48 ≤ c ∧ c ≤ 57 then some (c.toNat - 48)
  else if 97 ≤ lowerB c ∧ lowerB c ≤ 122 then some ((lowerB c).toNat - 97 + 10)
  else none

inductive PU
  | syntaxErr
  | range
  | ok (n : Nat)
  deriving DecidableEq, Repr

/-- The digit loop of `strconv.ParseUint(s, base, bitSize)` for an explicit base 2..36. -/
def parseUintLoop (base maxVal cutoff : Nat) : Nat → Bytes → PU
  | n, [] => .ok n
  | n, c :: cs =>
    match digitVal c with
    | none => .syntaxErr
    | some d =>
      if d ≥ base then .syntaxErr
      else if n ≥ cutoff then .range
      else if n * base + d > maxVal then .range
      else parseUintLoop base maxVal cutoff (n * base + d) cs

def maxU64 : Nat := 18446744073709551615

def parseUint (s : Bytes) (base bitSize : Nat) : PU :=
  if s = [] then .syntaxErr
  else parseUintLoop base (2 ^ bitSize - 1) (maxU64 / base + 1) 0 s

/-- `strconv.ParseInt(s, base, bitSize)`: the value Go returns, and whether `err != nil`. -/
def parseInt (s : Bytes) (base bitSize : Nat) : Int × Bool :=
  match s with
  | [] => (0, true)
  | c :: rest =>
    let neg := c == 45
    let s' := if c == 43 || c == 45 then rest else s
    let cutoff : Nat := 2 ^ (bitSize - 1)
    let fin (un : Nat) (err : Bool) : Int × Bool :=
      if !neg && un ≥ cutoff then (Int.ofNat (cutoff - 1), true)
      else if neg && un > cutoff then (-(Int.ofNat cutoff), true)
      else (if neg then -(Int.ofNat un) else Int.ofNat un, err)
    match parseUint s' base bitSize with
    | .syntaxErr => (0, true)
    | .range => fin (2 ^ bitSize - 1) true
    | .ok un => fin un false

/-- `strings.Cut(s, "#")`. -/
def cutHash : Bytes → Option (Bytes × Bytes)
  | [] => none
  | b :: rest =>
    if b = 35 then some ([], rest)
    else match cutHash rest with
      | none => none
      | some (a, c) => some (b :: a, c)

/-- Digit value in `atoiLargeBase` (bases 37..64): 0-9 a-z A-Z @ _. -/
def largeDigit (c : UInt8) : Option Nat :=
  if 48 ≤ c ∧ c ≤ 57 then some (c.toNat - 48)
  else if 97 ≤ c ∧ c ≤ 122 then some (c.toNat - 97 + 10)
  else if 65 ≤ c ∧ c ≤ 90 then some (c.toNat - 65 + 36)
  else if c = 64 then some 62
  else if c = 95 then some 63
  else none

/-- `atoiLargeBase`: wraps in int64, any bad digit makes the whole result 0. -/
def atoiLargeLoop (base : Nat) : Int → Bytes → Int
  | n, [] => n
  | n, c :: cs =>
    match largeDigit c with
    | none => 0
    | some d => if d ≥ base then 0 else atoiLargeLoop base (wrap64 (n * base + d)) cs

def atoiLargeBase (s : Bytes) (base : Nat) : Int := atoiLargeLoop base 0 s

def hasPrefix0x (s : Bytes) : Bool :=
  match s with
  | 48 :: 120 :: _ => true
  | 48 :: 88 :: _ => true
  | _ => false

/-- The digits in a given base: `strconv.ParseInt` (errors ignored) up to 36, `atoiLargeBase` above. -/
def atoiDigits (base : Nat) (s : Bytes) : Int :=
  if base > 36 then atoiLargeBase s base else (parseInt s base 64).1

/-- `atoi` after the sign has been removed: base prefix `0x`/`0X`, leading `0`, `base#`, decimal.
    (`return 0` for a bad base.) -/
def atoiMag (s : Bytes) : Int :=
  if hasPrefix0x s then atoiDigits 16 (s.drop 2)
  else match s with
    | 48 :: r => atoiDigits 8 r
    | _ =>
      match cutHash s with
      | some (baseStr, intStr) =>
        let (b, err) := parseInt baseStr 10 8
        if err || b < 2 || b > 64 then 0 else atoiDigits b.toNat intStr
      | none => atoiDigits 10 s

/-- `atoi` after `strings.TrimSpace`: one optional sign; `if neg { n = -n }` wraps. -/
def atoiSigned (s : Bytes) : Int :=
  match s with
  | 43 :: r => atoiMag r
  | 45 :: r => wrap64 (-(atoiMag r))
  | _ => atoiMag s

/-- `atoi` of expand/arith.go. -/
def atoi (s0 : Bytes) : Int := atoiSigned (trimSpace s0)

/-! ## strconv.FormatInt(v, 10) -/

def fmtNatGo : Nat → Nat → Bytes
  | 0, _ => []
  | fuel + 1, n =>
    if n < 10 then [UInt8.ofNat (48 + n)]
    else fmtNatGo fuel (n / 10) ++ [UInt8.ofNat (48 + n % 10)]

def fmtNat (n : Nat) : Bytes := fmtNatGo (n + 1) n

def fmtInt (v : Int) : Bytes :=
  if v < 0 then 45 :: fmtNat v.natAbs else fmtNat v.natAbs

/-! ## Environment (a `WriteEnviron`: `Get(name).String()`, `Set`) -/

structure Env where
  get : Bytes → Bytes
  /-- names whose `Set` fails (read-only variables, or every name for a non-`WriteEnviron`) -/
  ro : Bytes → Bool

def Env.set (env : Env) (n v : Bytes) : Option Env :=
  if env.ro n then none
  else some { env with get := fun m => if m = n then v else env.get m }

/-- `syntax.ValidName`. -/
def isNameStart (b : UInt8) : Bool := (65 ≤ b && b ≤ 90) || (97 ≤ b && b ≤ 122) || b == 95
def isNameChar (b : UInt8) : Bool := isNameStart b || (48 ≤ b && b ≤ 57)

def validName : Bytes → Bool
  | [] => false
  | b :: rest => isNameStart b && rest.all isNameChar

def maxNameRefDepth : Nat := 100

/-- The "recursively fetch vars" loop of `Arithm`.  Go keeps a counter `i` and breaks, without
    updating `str`, once `i+1 ≥ maxNameRefDepth`; `hops` is the number of updates still allowed
    (`maxNameRefDepth - 1 - i`). -/
def chase (get : Bytes → Bytes) : Nat → Bytes → Bytes
  | 0, str => str
  | hops + 1, str =>
    if validName str then
      let val := get str
      if val = [] then str else chase get hops val
    else str

/-! ## Arithm -/

inductive Err
  | divZero        -- "division by zero" (bash: "division by 0")
  | negExp         -- "exponent less than 0"
  | unsupUnary     -- "unsupported unary arithmetic operator"
  | unsupBinary    -- "unsupported binary arithmetic operator"
  | readOnly       -- `envSet` failed
  | unsupTarget    -- "unsupported assignment target" (`nodeLit(X) == ""`: not a literal word)
  -- the remaining classes are produced by the specification only
  | badNumber      -- bash: value too great for base / invalid arithmetic base / invalid number
  | syntaxErr      -- bash: syntax error in expression
  | recursion      -- bash: expression recursion level exceeded
  | outOfDomain    -- signed overflow or shift count outside 0..63: outside the property's domain
  | fuel           -- the specification's evaluator ran out of its structural fuel (no bash meaning)
  deriving DecidableEq, Repr

inductive Res
  | ok (v : Int)
  | err (e : Err)
  | panic          -- Go run-time panic (failed type assertion)
  deriving DecidableEq, Repr

def intPowLoop : Nat → Int → Int → Int → Int
  | 0, _, _, p => p
  | fuel + 1, a, b, p =>
    if b > 0 then
      let p' := if b % 2 ≠ 0 then wrap64 (p * a) else p
      intPowLoop fuel (wrap64 (a * a)) (b / 2) p'
    else p

/-- `intPow(a, b)`: square-and-multiply in wrapping int64; `b < 2^63` needs at most 63 rounds. -/
def intPow (a b : Int) : Int := intPowLoop 64 a b 1

/-- `binArit`. -/
def binArit (op : BinOp) (x y : Int) : Res :=
  match op with
  | .add => .ok (wrap64 (x + y))
  | .sub => .ok (wrap64 (x - y))
  | .mul => .ok (wrap64 (x * y))
  | .quo => if y = 0 then .err .divZero else .ok (wrap64 (Int.tdiv x y))
  | .rem => if y = 0 then .err .divZero else .ok (Int.tmod x y)
  | .pow => if y < 0 then .err .negExp else .ok (intPow x y)
  | .eql => .ok (oneIf (x == y))
  | .gtr => .ok (oneIf (decide (x > y)))
  | .lss => .ok (oneIf (decide (x < y)))
  | .neq => .ok (oneIf (x != y))
  | .leq => .ok (oneIf (decide (x ≤ y)))
  | .geq => .ok (oneIf (decide (x ≥ y)))
  | .and => .ok (and64 x y)
  | .or => .ok (or64 x y)
  | .xor => .ok (xor64 x y)
  | .shr => .ok (shr64 x y)
  | .shl => .ok (shl64 x y)
  | .comma => .ok y
  | _ => .err .unsupBinary

/-- The arithmetic of `assgnArit`'s switch (`none`: the operator is not an assignment). -/
def assignOp : BinOp → Option BinOp
  | .addAssgn => some .add | .subAssgn => some .sub | .mulAssgn => some .mul
  | .quoAssgn => some .quo | .remAssgn => some .rem | .andAssgn => some .and
  | .orAssgn => some .or | .xorAssgn => some .xor | .shlAssgn => some .shl
  | .shrAssgn => some .shr
  | _ => none

def isAssign (op : BinOp) : Bool := op == .assgn || (assignOp op).isSome

/-- Sequencing: continue with the value and the environment of a successful evaluation, stop at
    the first error (Go: `if err != nil { return 0, err }`). -/
def andThen (p : Res × Env) (f : Int → Env → Res × Env) : Res × Env :=
  match p with
  | (.ok v, env) => f v env
  | r => r

/-- `cfg.envSet(name, strconv.FormatInt(v, 10))`, then the value. -/
def setVar (env : Env) (n : Bytes) (v : Int) : Res × Env :=
  match env.set n (fmtInt v) with
  | none => (.err .readOnly, env)
  | some env' => (.ok v, env')

/-- `nodeLit(expr.X)`: the literal of a word operand; `none` stands for Go's `""` (not a word,
    or an empty literal), which `Arithm` rejects as "unsupported assignment target". -/
def wordOf : Expr → Option Bytes
  | .word w => if w = [] then none else some w
  | _ => none

/-- one optional sign -/
def stripSign : Bytes → Bytes
  | 43 :: r => r
  | 45 :: r => r
  | t => t

/-- `arithmNumberLike`: an exact name, or — after `TrimSpace` and one optional sign — empty or a
    digit followed by letters, digits, `#@_`. -/
def numberLike (s : Bytes) : Bool :=
  if validName s then true
  else
    match stripSign (trimSpace s) with
    | [] => true
    | c :: rest => (48 ≤ c && c ≤ 57) && (c :: rest).all fun c => isNameChar c || c == 64 || c == 35

/-- The word rule of `Arithm`: chase names, then either `atoi` or — when at least one name was
    followed (`i > 0`) and the string is not number-like — `cfg.arithmValue`, here the parameter
    `deeper`. -/
def evalWord (deeper : Env → Bytes → Res × Env) (env : Env) (w : Bytes) : Res × Env :=
  let str := chase env.get (maxNameRefDepth - 1) w
  if validName w && env.get w != [] && !numberLike str then deeper env str
  else (.ok (atoi str), env)

mutual
/-- `Arithm` with `cfg.arithmValue` abstracted as `deeper`: result and the environment at the
    moment evaluation stopped. -/
def evalWith (deeper : Env → Bytes → Res × Env) (env : Env) : Expr → Res × Env
  | .word w => evalWord deeper env w
  | .paren x => evalWith deeper env x
  | .unary op post x =>
    if op = .inc ∨ op = .dec then
      match wordOf x with
      | some name =>
        -- `oldInt, err := Arithm(cfg, expr.X)`: the variable is read as a word
        andThen (evalWord deeper env name) fun old env1 =>
          let val := if op = .inc then wrap64 (old + 1) else wrap64 (old - 1)
          andThen (setVar env1 name val) fun _ env2 => (.ok (if post then old else val), env2)
      | none => (.err .unsupTarget, env)
    else
      andThen (evalWith deeper env x) fun v env' =>
        match op with
        | .not => (.ok (oneIf (v == 0)), env')
        | .bitNeg => (.ok (-v - 1), env')
        | .plus => (.ok v, env')
        | .minus => (.ok (wrap64 (-v)), env')
        | _ => (.err .unsupUnary, env')
  | .binary op x y =>
    if isAssign op then
      match wordOf x with
      | some name =>
        match assignOp op with
        | none =>
          andThen (evalWith deeper env y) fun arg env' => setVar env' name arg
        | some aop =>
          -- the old value is read (as a word) before the right-hand side is evaluated
          andThen (evalWord deeper env name) fun val env1 =>
            andThen (evalWith deeper env1 y) fun arg env' =>
              match binArit aop val arg with
              | .ok v => setVar env' name v
              | e => (e, env')
      | none => (.err .unsupTarget, env)
    else if op = .ternQuest then
      andThen (evalWith deeper env x) fun cond env' => evalTernBranch deeper env' cond y
    else if op = .andL ∨ op = .orL then
      andThen (evalWith deeper env x) fun left env' =>
        if op = .andL ∧ left = 0 then (.ok 0, env')
        else if op = .orL ∧ left ≠ 0 then (.ok 1, env')
        else andThen (evalWith deeper env' y) fun right env'' => (.ok (oneIf (right != 0)), env'')
    else
      andThen (evalWith deeper env x) fun left env' =>
        andThen (evalWith deeper env' y) fun right env'' => (binArit op left right, env'')

/-- `b2 := expr.Y.(*syntax.BinaryArithm)` (whatever its operator) and the choice of the branch. -/
def evalTernBranch (deeper : Env → Bytes → Res × Env) (env : Env) (cond : Int) : Expr → Res × Env
  | .binary _ b2x b2y => if cond ≠ 0 then evalWith deeper env b2x else evalWith deeper env b2y
  | _ => (.panic, env)
end

/-! ## Parser: the precedence chain of syntax/parser_arithm.go (bash, non-compact) -/

inductive Sym
  | plus | minus | star | slash | perc | power
  | equal | nequal | lss | gtr | leq | geq
  | and | or | caret | shl | shr | andAnd | orOr | dblCaret
  | comma | quest | colon
  | assgn | addAssgn | subAssgn | mulAssgn | quoAssgn | remAssgn
  | andAssgn | orAssgn | xorAssgn | shlAssgn | shrAssgn
  | exclMark | tilde | addAdd | subSub
  deriving DecidableEq, Repr

inductive Tok
  | word (w : Bytes)
  | lparen
  | rparen
  | sym (s : Sym)
  deriving DecidableEq, Repr

/-- `BinAritOperator(tok)`. -/
def Sym.bin : Sym → Option BinOp
  | .plus => some .add | .minus => some .sub | .star => some .mul | .slash => some .quo
  | .perc => some .rem | .power => some .pow | .equal => some .eql | .nequal => some .neq
  | .lss => some .lss | .gtr => some .gtr | .leq => some .leq | .geq => some .geq
  | .and => some .and | .or => some .or | .caret => some .xor | .shl => some .shl
  | .shr => some .shr | .andAnd => some .andL | .orOr => some .orL | .dblCaret => some .xorBool
  | .comma => some .comma | .quest => some .ternQuest | .colon => some .ternColon
  | .assgn => some .assgn | .addAssgn => some .addAssgn | .subAssgn => some .subAssgn
  | .mulAssgn => some .mulAssgn | .quoAssgn => some .quoAssgn | .remAssgn => some .remAssgn
  | .andAssgn => some .andAssgn | .orAssgn => some .orAssgn | .xorAssgn => some .xorAssgn
  | .shlAssgn => some .shlAssgn | .shrAssgn => some .shrAssgn
  | _ => none

/-- Levels of the chain, outermost (loosest) first.  `levelOps l` are the operators handled by the
    generic left-associative `arithmExprBinary` at level `l`; the levels `lvAssign`, `lvTernary`,
    `lvPower`, `lvUnary`, `lvValue` have their own functions. -/
def lvComma : Nat := 0
def lvAssign : Nat := 1
def lvTernary : Nat := 2
def lvLor : Nat := 3
def lvPower : Nat := 13
def lvUnary : Nat := 14
def lvValue : Nat := 15

def levelOps : Nat → List BinOp
  | 0 => [.comma]
  | 3 => [.orL, .xorBool]
  | 4 => [.andL]
  | 5 => [.or]
  | 6 => [.xor]
  | 7 => [.and]
  | 8 => [.eql, .neq]
  | 9 => [.lss, .gtr, .leq, .geq]
  | 10 => [.shl, .shr]
  | 11 => [.add, .sub]
  | 12 => [.mul, .quo, .rem]
  | _ => []

def assignOps : List BinOp :=
  [.addAssgn, .subAssgn, .mulAssgn, .quoAssgn, .remAssgn, .andAssgn, .orAssgn, .xorAssgn,
   .shlAssgn, .shrAssgn, .assgn, .andBoolAssgn, .orBoolAssgn, .xorBoolAssgn, .powAssgn]

/-- `isArithName` (array elements `a[i]` are outside the model). -/
def isArithName : Option Expr → Bool
  | some (.word w) => validName w
  | _ => false

/-- Parse result: `none` is a reported syntax error; `some (none, rest)` is Go's `nil` expression. -/
abbrev PRes := Option (Option Expr × List Tok)

def symBinIn (t : List Tok) (ops : List BinOp) : Option (BinOp × List Tok) :=
  match t with
  | .sym s :: rest =>
    match s.bin with
    | some o => if ops.contains o then some (o, rest) else none
    | none => none
  | _ => none

mutual
/-- `parseLevel fuel l toks`: `arithmExprComma` … `arithmExprValue` by level number. -/
def parseLevel : Nat → Nat → List Tok → PRes
  | 0, _, _ => none
  | fuel + 1, l, toks =>
    if l = lvAssign then
      match parseLevel fuel lvTernary toks with
      | none => none
      | some (value, rest) =>
        match symBinIn rest assignOps with
        | none => some (value, rest)
        | some (o, rest') =>
          if !isArithName value then none
          else match value, parseLevel fuel lvAssign rest' with
            | some v, some (some y, rest'') => some (some (.binary o v y), rest'')
            | _, _ => none
    else if l = lvTernary then
      match parseLevel fuel lvLor toks with
      | none => none
      | some (value, rest) =>
        match rest with
        | .sym .quest :: rest1 =>
          match value, rest1 with
          | none, _ => none
          | _, .sym .colon :: _ => none
          | some c, _ =>
            match parseLevel fuel lvComma rest1 with
            | some (some t, .sym .colon :: rest2) =>
              match parseLevel fuel lvTernary rest2 with
              | some (some f, rest3) =>
                some (some (.binary .ternQuest c (.binary .ternColon t f)), rest3)
              | _ => none
            | _ => none
        | _ => some (value, rest)
    else if l = lvPower then
      match parseLevel fuel lvUnary toks with
      | none => none
      | some (value, rest) =>
        match rest with
        | .sym .power :: rest1 =>
          match value, parseLevel fuel lvPower rest1 with
          | some v, some (some y, rest2) => some (some (.binary .pow v y), rest2)
          | _, _ => none
        | _ => some (value, rest)
    else if l = lvUnary then
      let un (op : UnOp) (rest : List Tok) : PRes :=
        match parseLevel fuel lvUnary rest with
        | some (some x, rest') => some (some (.unary op false x), rest')
        | _ => none
      match toks with
      | .sym .exclMark :: rest => un .not rest
      | .sym .tilde :: rest => un .bitNeg rest
      | .sym .plus :: rest => un .plus rest
      | .sym .minus :: rest => un .minus rest
      | _ => parseLevel fuel lvValue toks
    else if l = lvValue then
      let pre (op : UnOp) (rest : List Tok) : PRes :=
        match rest with
        | .word _ :: _ =>
          match parseLevel fuel lvValue rest with
          | some (some x, rest') =>
            if (match x with | .unary _ true _ => true | _ => false) then none  -- `++x++`
            else if isArithName (some x) then some (some (.unary op false x), rest')
            else
              -- like bash, `--5` / `++5` are two unary signs
              let sign : UnOp := if op = .inc then .plus else .minus
              some (some (.unary sign false (.unary sign false x)), rest')
          | some (none, _) => none   -- unreachable: a word is always a value
          | none => none
        | _ => none
      let post (x : Expr) (rest : List Tok) : PRes :=
        match rest with
        | .sym .addAdd :: rest' =>
          if isArithName (some x) then some (some (.unary .inc true x), rest') else none
        | .sym .subSub :: rest' =>
          if isArithName (some x) then some (some (.unary .dec true x), rest') else none
        | _ => some (some x, rest)
      match toks with
      | .sym .addAdd :: rest => pre .inc rest
      | .sym .subSub :: rest => pre .dec rest
      | .lparen :: rest =>
        match parseLevel fuel lvComma rest with
        | some (some x, .rparen :: rest') => post (.paren x) rest'
        | _ => none
      | .sym .colon :: _ => none
      | .word w :: rest => post (.word w) rest
      | _ => some (none, toks)
    else
      match parseLevel fuel (l + 1) toks with
      | none => none
      | some (value, rest) => binLoop fuel l value rest

/-- The `for` loop of `arithmExprBinary`. -/
def binLoop : Nat → Nat → Option Expr → List Tok → PRes
  | 0, _, _, _ => none
  | fuel + 1, l, value, toks =>
    match symBinIn toks (levelOps l) with
    | none => some (value, toks)
    | some (o, rest) =>
      match value, parseLevel fuel (l + 1) rest with
      | some v, some (some y, rest') => binLoop fuel l (some (.binary o v y)) rest'
      | _, _ => none
end

/-- A complete `(( … ))` body: the whole token list must be one expression. -/
def parseArith (toks : List Tok) : Option Expr :=
  match parseLevel (20 * toks.length + 20) lvComma toks with
  | some (some e, []) => some e
  | _ => none

/-- Unparser: operators and parentheses exactly where the tree has them. -/
def BinOp.sym : BinOp → Option Sym
  | .add => some .plus | .sub => some .minus | .mul => some .star | .quo => some .slash
  | .rem => some .perc | .pow => some .power | .eql => some .equal | .neq => some .nequal
  | .lss => some .lss | .gtr => some .gtr | .leq => some .leq | .geq => some .geq
  | .and => some .and | .or => some .or | .xor => some .caret | .shl => some .shl
  | .shr => some .shr | .andL => some .andAnd | .orL => some .orOr | .xorBool => some .dblCaret
  | .comma => some .comma | .ternQuest => some .quest | .ternColon => some .colon
  | .assgn => some .assgn | .addAssgn => some .addAssgn | .subAssgn => some .subAssgn
  | .mulAssgn => some .mulAssgn | .quoAssgn => some .quoAssgn | .remAssgn => some .remAssgn
  | .andAssgn => some .andAssgn | .orAssgn => some .orAssgn | .xorAssgn => some .xorAssgn
  | .shlAssgn => some .shlAssgn | .shrAssgn => some .shrAssgn
  | _ => none

def UnOp.sym : UnOp → Sym
  | .not => .exclMark | .bitNeg => .tilde | .inc => .addAdd | .dec => .subSub
  | .plus => .plus | .minus => .minus

def printArith : Expr → List Tok
  | .word w => [.word w]
  | .paren x => .lparen :: printArith x ++ [.rparen]
  | .unary op post x =>
    if post then printArith x ++ [.sym op.sym] else .sym op.sym :: printArith x
  | .binary op x y =>
    match op.sym with
    | some s => printArith x ++ [.sym s] ++ printArith y
    | none => printArith x ++ printArith y

/-! ## Specification `BashArith`: bash's arithmetic on mathematical integers

  C-like big-step semantics over an environment, left-to-right side effects, variables whose
  values are expression text are evaluated recursively (bash `expr_streval`), numeric constants by
  bash's `strlong` rules.  Results that leave the signed 64-bit range and shift counts outside
  0..63 are reported as `outOfDomain` (the property excludes them).  `depth` is bash's
  `MAX_EXPR_RECURSION_LEVEL` budget for value-text recursion; `fuel` only bounds the structural
  recursion of this definition. -/

/-- bash digit alphabet: 0-9, a-z, A-Z (same as a-z for bases ≤ 36, 36..61 above), `@`=62, `_`=63. -/
def specDigit (base : Nat) (c : UInt8) : Option Nat :=
  if 48 ≤ c ∧ c ≤ 57 then some (c.toNat - 48)
  else if 97 ≤ c ∧ c ≤ 122 then some (c.toNat - 97 + 10)
  else if 65 ≤ c ∧ c ≤ 90 then some (c.toNat - 65 + (if base ≤ 36 then 10 else 36))
  else if c = 64 then some 62
  else if c = 95 then some 63
  else none

/-- Positional value; `none`: "value too great for base" / not a digit. -/
def specDigits (base : Nat) : Nat → Bytes → Option Nat
  | acc, [] => some acc
  | acc, c :: cs =>
    match specDigit base c with
    | some d => if d < base then specDigits base (acc * base + d) cs else none
    | none => none

/-- Value of a numeric constant: decimal, `0`octal, `0x`hex, `base#digits` with 2 ≤ base ≤ 64. -/
def specNumber (w : Bytes) : Option Nat :=
  match w with
  | [] => none
  | 48 :: 120 :: ds => specDigits 16 0 ds
  | 48 :: 88 :: ds => specDigits 16 0 ds
  | 48 :: ds => specDigits 8 0 ds
  | _ =>
    match cutHash w with
    | some (b, ds) =>
      match specDigits 10 0 b with
      | some base => if 2 ≤ base ∧ base ≤ 64 ∧ ds ≠ [] then specDigits base 0 ds else none
      | none => none
    | none => specDigits 10 0 w

/-- Tokeniser for the text of a variable value (blanks, words, longest-match operators). -/
def isBlankB (b : UInt8) : Bool := b == 32 || b == 9 || b == 10
def isWordB (b : UInt8) : Bool := isNameChar b || b == 64 || b == 35

def lexSym : Bytes → Option (Sym × Bytes)
  | 60 :: 60 :: 61 :: r => some (.shlAssgn, r)
  | 62 :: 62 :: 61 :: r => some (.shrAssgn, r)
  | 42 :: 42 :: r => some (.power, r)
  | 60 :: 60 :: r => some (.shl, r)
  | 62 :: 62 :: r => some (.shr, r)
  | 60 :: 61 :: r => some (.leq, r)
  | 62 :: 61 :: r => some (.geq, r)
  | 61 :: 61 :: r => some (.equal, r)
  | 33 :: 61 :: r => some (.nequal, r)
  | 38 :: 38 :: r => some (.andAnd, r)
  | 124 :: 124 :: r => some (.orOr, r)
  | 43 :: 43 :: r => some (.addAdd, r)
  | 45 :: 45 :: r => some (.subSub, r)
  | 43 :: 61 :: r => some (.addAssgn, r)
  | 45 :: 61 :: r => some (.subAssgn, r)
  | 42 :: 61 :: r => some (.mulAssgn, r)
  | 47 :: 61 :: r => some (.quoAssgn, r)
  | 37 :: 61 :: r => some (.remAssgn, r)
  | 38 :: 61 :: r => some (.andAssgn, r)
  | 124 :: 61 :: r => some (.orAssgn, r)
  | 94 :: 61 :: r => some (.xorAssgn, r)
  | 43 :: r => some (.plus, r)
  | 45 :: r => some (.minus, r)
  | 42 :: r => some (.star, r)
  | 47 :: r => some (.slash, r)
  | 37 :: r => some (.perc, r)
  | 60 :: r => some (.lss, r)
  | 62 :: r => some (.gtr, r)
  | 38 :: r => some (.and, r)
  | 124 :: r => some (.or, r)
  | 94 :: r => some (.caret, r)
  | 44 :: r => some (.comma, r)
  | 63 :: r => some (.quest, r)
  | 58 :: r => some (.colon, r)
  | 61 :: r => some (.assgn, r)
  | 33 :: r => some (.exclMark, r)
  | 126 :: r => some (.tilde, r)
  | _ => none

def lexArith : Nat → Bytes → Option (List Tok)
  | 0, _ => none
  | _ + 1, [] => some []
  | fuel + 1, b :: rest =>
    if isBlankB b then lexArith fuel rest
    else if b = 40 then (lexArith fuel rest).map (Tok.lparen :: ·)
    else if b = 41 then (lexArith fuel rest).map (Tok.rparen :: ·)
    else if isWordB b ∧ b ≠ 35 then
      (lexArith fuel (rest.dropWhile isWordB)).map (Tok.word (b :: rest.takeWhile isWordB) :: ·)
    else
      match lexSym (b :: rest) with
      | some (s, r) => (lexArith fuel r).map (Tok.sym s :: ·)
      | none => none

/-! ## `cfg.arithmValue`, `Arithm`, and the call sites in interp/runner.go -/

inductive ValParse
  | syntaxErr
  | empty
  | expr (e : Expr)
  deriving DecidableEq, Repr

/-- `syntax.NewParser().Arithmetic(strings.NewReader(val))`: the first expression of the text;
    what follows it is not looked at.  (Texts over word characters, blanks, operators and
    parentheses; `$`, quotes, backslashes, brackets are outside the model.) -/
def parseValue (v : Bytes) : ValParse :=
  match lexArith (v.length + 1) v with
  | none => .syntaxErr
  | some toks =>
    match parseLevel (20 * toks.length + 20) lvComma toks with
    | none => .syntaxErr
    | some (none, _) => .empty
    | some (some e, _) => .expr e

/-- `Arithm` when `maxNameRefDepth - cfg.arithmDepth = d`: `arithmValue` fails with "expression
    recursion level exceeded" at `d = 0`, otherwise parses the text and evaluates one level deeper. -/
def evalAt : Nat → Env → Expr → Res × Env
  | 0 => evalWith fun env _ => (.err .recursion, env)
  | d + 1 => evalWith fun env str =>
    match parseValue str with
    | .syntaxErr => (.err .syntaxErr, env)
    | .empty => (.ok 0, env)
    | .expr e' => evalAt d env e'

/-- `expand.Arithm` (called with `cfg.arithmDepth = 0`). -/
def evalArith (env : Env) (e : Expr) : Res × Env := evalAt maxNameRefDepth env e

/-- `r.arithm(expr)`: `(n, ok)`; the error is printed by `expandErr`. -/
def runnerArithm (env : Env) (e : Expr) : Int × Bool × Env :=
  match evalArith env e with
  | (.ok v, env') => (v, true, env')
  | (_, env') => (0, false, env')

/-- `case *syntax.ArithmCmd: r.exit.oneIf(!r.arithmTrue(cm.X))`. -/
def arithCmdStatus (env : Env) (e : Expr) : Nat × Env :=
  let (v, _, env') := runnerArithm env e
  (if v = 0 then 1 else 0, env')

/-- `case *syntax.LetClause`: stop at the first error (`val` is then 0), else the last value
    decides. -/
def letLoop (env : Env) (val : Int) : List Expr → Int × Env
  | [] => (val, env)
  | e :: rest =>
    match runnerArithm env e with
    | (v, true, env') => letLoop env' v rest
    | (_, false, env') => (0, env')

def letStatus (env : Env) (es : List Expr) : Nat × Env :=
  let (v, env') := letLoop env 0 es
  (if v = 0 then 1 else 0, env')

/-- A simple command whose only expansion is `$((e))` with a status-0 builtin (`echo $((e))`):
    `expandErr` fails the command (status 1, not run) for the messages "division by zero" and
    "exponent less than 0" only; any other arithmetic error is printed and the command runs. -/
def expansionStatus (env : Env) (e : Expr) : Nat × Env :=
  match evalArith env e with
  | (.err .divZero, env') => (1, env')
  | (.err .negExp, env') => (1, env')
  | (_, env') => (0, env')

/-- Text of a variable value as an expression: `some none` for a blank text (value 0). -/
def parseText (v : Bytes) : Option (Option Expr) :=
  match lexArith (v.length + 1) v with
  | none => none
  | some [] => some none
  | some toks => (parseArith toks).map some

def chk (v : Int) : Res := if inI64 v then .ok v else .err .outOfDomain

/-- `x ** y` for `y ≥ 0` (exponents ≥ 64 leave the range unless the base is 0, 1 or -1). -/
def specPow (x y : Int) : Res :=
  if y < 64 then chk (x ^ y.toNat)
  else if x = 0 then .ok 0
  else if x = 1 then .ok 1
  else if x = -1 then .ok (if y % 2 = 0 then 1 else -1)
  else .err .outOfDomain

/-- Binary operators on mathematical integers. -/
def specBin (op : BinOp) (x y : Int) : Res :=
  match op with
  | .add => chk (x + y)
  | .sub => chk (x - y)
  | .mul => chk (x * y)
  | .quo => if y = 0 then .err .divZero else chk (Int.tdiv x y)
  | .rem => if y = 0 then .err .divZero else .ok (Int.tmod x y)
  | .pow => if y < 0 then .err .negExp else specPow x y
  | .eql => .ok (oneIf (x == y))
  | .neq => .ok (oneIf (x != y))
  | .lss => .ok (oneIf (decide (x < y)))
  | .gtr => .ok (oneIf (decide (x > y)))
  | .leq => .ok (oneIf (decide (x ≤ y)))
  | .geq => .ok (oneIf (decide (x ≥ y)))
  | .and => .ok (and64 x y)
  | .or => .ok (or64 x y)
  | .xor => .ok (xor64 x y)
  | .shl => if 0 ≤ y ∧ y < 64 then chk (x * (2 : Int) ^ y.toNat) else .err .outOfDomain
  | .shr => if 0 ≤ y ∧ y < 64 then .ok (x / (2 : Int) ^ y.toNat) else .err .outOfDomain
  | .comma => .ok y
  | _ => .err .syntaxErr

/-- the `t : f` part of a conditional -/
def colonParts : Expr → Option (Expr × Expr)
  | .binary .ternColon t f => some (t, f)
  | _ => none

def specEval : Nat → Nat → Env → Expr → Res × Env
  | 0, _, env, _ => (.err .fuel, env)
  | fuel + 1, depth, env, e =>
    match e with
    | .word w =>
      if validName w then
        let v := env.get w
        if v = [] then (.ok 0, env)
        else match parseText v with
          | none => (.err .syntaxErr, env)
          | some none => (.ok 0, env)
          | some (some e') =>
            match depth with
            | 0 => (.err .recursion, env)
            | depth' + 1 => specEval fuel depth' env e'
      else match specNumber w with
        | some n => (chk (Int.ofNat n), env)
        | none => (.err .badNumber, env)
    | .paren x => specEval fuel depth env x
    | .unary op post x =>
      if op = .inc ∨ op = .dec then
        match wordOf x with
        | some n =>
          if validName n then
            andThen (specEval fuel depth env (.word n)) fun old env1 =>
              let val := if op = .inc then old + 1 else old - 1
              if inI64 val then
                andThen (setVar env1 n val) fun _ env2 => (.ok (if post then old else val), env2)
              else (.err .outOfDomain, env1)
          else (.err .syntaxErr, env)
        | none => (.err .syntaxErr, env)
      else if post then (.err .syntaxErr, env)
      else
        andThen (specEval fuel depth env x) fun v env1 =>
          match op with
          | .not => (.ok (oneIf (v == 0)), env1)
          | .bitNeg => (.ok (-v - 1), env1)
          | .plus => (.ok v, env1)
          | _ => (chk (-v), env1)
    | .binary op x y =>
      if isAssign op then
        match wordOf x with
        | some n =>
          if validName n then
            match assignOp op with
            | none =>
              if op = .assgn then
                andThen (specEval fuel depth env y) fun v env1 => setVar env1 n v
              else (.err .syntaxErr, env)
            | some aop =>
              andThen (specEval fuel depth env (.word n)) fun cur env1 =>
                andThen (specEval fuel depth env1 y) fun arg env2 =>
                  match specBin aop cur arg with
                  | .ok v => setVar env2 n v
                  | r => (r, env2)
          else (.err .syntaxErr, env)
        | none => (.err .syntaxErr, env)
      else if op = .ternQuest then
        match colonParts y with
        | some (t, f) =>
          andThen (specEval fuel depth env x) fun c env1 =>
            if c ≠ 0 then specEval fuel depth env1 t else specEval fuel depth env1 f
        | none => (.err .syntaxErr, env)
      else if op = .andL ∨ op = .orL then
        andThen (specEval fuel depth env x) fun l env1 =>
          if op = .andL ∧ l = 0 then (.ok 0, env1)
          else if op = .orL ∧ l ≠ 0 then (.ok 1, env1)
          else andThen (specEval fuel depth env1 y) fun r env2 => (.ok (oneIf (r != 0)), env2)
      else
        andThen (specEval fuel depth env x) fun l env1 =>
          andThen (specEval fuel depth env1 y) fun r env2 => (specBin op l r, env2)

/-- bash's nesting limit for expressions reached through variable values. -/
def bashMaxDepth : Nat := 1024

/-- Status rules of bash: `(( e ))` and `let e…` return 0 iff the (last) value is non-zero, 1 on
    any error (evaluation stops at the first error); a command containing `$(( e ))` is not run
    and the status is 1 when the expansion fails. -/
def specArithCmdStatus (fuel : Nat) (env : Env) (e : Expr) : Nat × Env :=
  match specEval fuel bashMaxDepth env e with
  | (.ok v, env') => (if v = 0 then 1 else 0, env')
  | (_, env') => (1, env')

def specLetLoop (fuel : Nat) (env : Env) (val : Int) : List Expr → Option Int × Env
  | [] => (some val, env)
  | e :: rest =>
    match specEval fuel bashMaxDepth env e with
    | (.ok v, env') => specLetLoop fuel env' v rest
    | (_, env') => (none, env')

def specLetStatus (fuel : Nat) (env : Env) (es : List Expr) : Nat × Env :=
  match specLetLoop fuel env 0 es with
  | (some v, env') => (if v = 0 then 1 else 0, env')
  | (none, env') => (1, env')

def specExpansionStatus (fuel : Nat) (env : Env) (e : Expr) : Nat × Env :=
  match specEval fuel bashMaxDepth env e with
  | (.ok _, env') => (0, env')
  | (_, env') => (1, env')

/-! ## Vocabulary of the theorems -/

/-- Trees of bash's grammar: `++`/`--` and assignments on names, `?` with its `:`, no zsh-only
    operators.  (Binding order is a separate matter: `PrecOK`.) -/
def plainBin (op : BinOp) : Bool :=
  match op with
  | .add | .sub | .mul | .quo | .rem | .pow | .eql | .gtr | .lss | .neq | .leq | .geq
  | .and | .or | .xor | .shr | .shl | .comma => true
  | _ => false

def isNameWord : Expr → Bool
  | .word n => validName n
  | _ => false

mutual
def WF : Expr → Bool
  | .word _ => true
  | .paren x => WF x
  | .unary op post x =>
    if op = .inc ∨ op = .dec then isNameWord x else !post && WF x
  | .binary op x y =>
    if op = .assgn ∨ (assignOp op).isSome then isNameWord x && WF y
    else if op = .ternQuest then WF x && WFColon y
    else if op = .andL ∨ op = .orL then WF x && WF y
    else plainBin op && WF x && WF y

/-- the `t : f` part of a conditional -/
def WFColon : Expr → Bool
  | .binary op t f => op == .ternColon && WF t && WF f
  | _ => false
end

/-- Every word of the tree is a name or a valid numeric constant. -/
def LitsOK : Expr → Prop
  | .word w => validName w = true ∨ ∃ n, specNumber w = some n
  | .paren x => LitsOK x
  | .unary _ _ x => LitsOK x
  | .binary _ x y => LitsOK x ∧ LitsOK y

def IsBlanks (s : Bytes) : Prop := ∀ b ∈ s, isBlankB b = true

/-- `IntLit v neg n`: the text `v` is blanks, an optional sign, a valid numeric constant of
    magnitude `n`, blanks. -/
inductive IntLit : Bytes → Bool → Nat → Prop
  | pos (pre lit post : Bytes) (n : Nat) : IsBlanks pre → IsBlanks post →
      specNumber lit = some n → IntLit (pre ++ lit ++ post) false n
  | plus (pre lit post : Bytes) (n : Nat) : IsBlanks pre → IsBlanks post →
      specNumber lit = some n → IntLit (pre ++ 43 :: lit ++ post) false n
  | minus (pre lit post : Bytes) (n : Nat) : IsBlanks pre → IsBlanks post →
      specNumber lit = some n → IntLit (pre ++ 45 :: lit ++ post) true n

/-- The value is expression text: not number-like for `arithmNumberLike`, and it lexes and parses
    completely (bash: no syntax error) to a grammatical tree whose constants are valid. -/
def ExprText (v : Bytes) : Prop :=
  numberLike v = false ∧ ∃ e', parseText v = some (some e') ∧ WF e' = true ∧ LitsOK e'

/-- "Variables hold nothing, an integer literal, a name, an expression, or only blanks." -/
def ValOK (v : Bytes) : Prop :=
  v = [] ∨ (∃ neg k, IntLit v neg k) ∨ validName v = true ∨ ExprText v ∨ IsBlanks v

def EnvOK (env : Env) : Prop := ∀ n, ValOK (env.get n)

/-- Results on which the specification pronounces (inside the property's domain). -/
def Res.inDomain : Res → Prop
  | .err .outOfDomain => False
  | .err .fuel => False
  | _ => True

/-- … and which do not hit the nesting limit (bash: 1024 levels; the code: 99 names / 100 texts). -/
def Res.good : Res → Prop
  | .err .outOfDomain => False
  | .err .fuel => False
  | .err .recursion => False
  | _ => True

end ShVerif.C20
