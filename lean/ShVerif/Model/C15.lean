/-
  C15 — typed JSON (syntax/typedjson/json.go) over schema-erased values.  Core Lean only.

  `Val` mirrors what `reflect` sees of a syntax tree (kind by kind), `GoType` the static types of
  the fields, `J` what `encoding/json` hands to / receives from the package (`any` built from
  `map[string]any`, `[]any`, `float64`, `string`, `bool`, `nil`).

  * `encodeValue` / `encodeRoot`  — `encodeValue` / `EncodeOptions.Encode`, with an explicit
    `panic` outcome for every `panic(...)` of the Go code and for every reflect call that would
    panic (`Set` of the zero Value for a nil slice element, `reflect.StructOf` on duplicate or
    unexported field names, the `default:` of the Kind switch).
  * `decodeValue` / `decodeRoot`  — `decodeValue` / `DecodeOptions.Decode`, with every check the Go
    code performs before a reflect operation, an `err` outcome per `fmt.Errorf`, and a `panic`
    outcome where a reflect call could panic (`val.Addr()` of a non-addressable value).
  * `Pos` — the bit packing of `syntax.Pos` (`NewPos`, `Offset`, `Line`, `Col`, `IsValid`).
  * `wf` — `JsonWF`, the executable well-formedness under which the round trip is proved.
-/
namespace ShVerif.C15

/-- byte strings (Go `string`), one `Nat < 256` per byte -/
abbrev Str := List Nat

/-! ### syntax.Pos -/

structure Pos where
  offs : Nat
  lineCol : Nat
  deriving DecidableEq, Repr, Inhabited

def maxUint32 : Nat := 4294967295
def offsetRecovered : Nat := maxUint32 - 10
def offsetMax : Nat := maxUint32 - 11
def lineBitSize : Nat := 18
def lineMax : Nat := (1 <<< lineBitSize) - 1
def colBitSize : Nat := 32 - lineBitSize
def colMax : Nat := (1 <<< colBitSize) - 1
def colBitMask : Nat := colMax

/-- `uint32(x)` -/
def u32 (x : Nat) : Nat := x % 4294967296

/-- `syntax.NewPos` (arguments are Go `uint`s). -/
def newPos (offset line column : Nat) : Pos :=
  let offset := min offset offsetMax
  let line := if line > lineMax then 0 else line
  let column := if column > colMax then 0 else column
  { offs := u32 offset, lineCol := u32 (u32 line <<< colBitSize) ||| u32 column }

namespace Pos
def zero : Pos := ⟨0, 0⟩
def recovered : Pos := ⟨offsetRecovered, 0⟩
def offset (p : Pos) : Nat := if p.offs > offsetMax then 0 else p.offs
def line (p : Pos) : Nat := p.lineCol >>> colBitSize
def col (p : Pos) : Nat := p.lineCol &&& colBitMask
def isValid (p : Pos) : Bool := decide (p.offs ≤ offsetMax) && decide (p.lineCol ≠ 0)
def isRecovered (p : Pos) : Bool := decide (p = recovered)
/-- both fields fit their `uint32` -/
def inRange (p : Pos) : Bool := decide (p.offs < 4294967296) && decide (p.lineCol < 4294967296)
end Pos

/-! ### types, values, JSON -/

inductive GoType
  | pos
  | bool
  | str
  /-- `uint8`/`uint32` kinds; `op = some T`: the named type `T` has `String()` and `UnmarshalText` -/
  | uint (bits : Nat) (op : Option String)
  /-- `*T` for a struct type `T` of the schema -/
  | ptr (name : String)
  | iface (name : String)
  | slice (elem : GoType)
  /-- a struct held by value (its fields inline) -/
  | struct (name : String) (fields : List (String × GoType))
  /-- any other Go type (no such field exists today; `field_kinds_supported`) -/
  | other (desc : String)
  deriving Repr, Inhabited

inductive Val
  | pos (p : Pos)
  | bool (b : Bool)
  | str (s : Str)
  | uint (bits : Nat) (op : Option String) (n : Nat)
  /-- nil pointer -/
  | nil
  | ptr (v : Val)
  /-- nil interface -/
  | inil
  | iface (v : Val)
  /-- nil slice -/
  | snil
  /-- non-nil slice (possibly empty) -/
  | slice (elems : List Val)
  /-- `pe`: the results of the `Pos()`/`End()` methods when `*T` is a `syntax.Node`; they are
      derived data (not part of the Go value) and only `encode` looks at them -/
  | struct (name : String) (pe : Option (Pos × Pos)) (fields : List (String × Val))
  | other
  deriving Repr, Inhabited

inductive J
  | null
  | bool (b : Bool)
  /-- a number whose `float64` value is integral -/
  | num (n : Int)
  /-- any other number -/
  | frac
  | str (s : Str)
  | arr (xs : List J)
  | obj (kvs : List (String × J))
  deriving Repr, Inhabited

structure Schema where
  /-- struct type name → fields in declaration order -/
  structs : List (String × List (String × GoType))
  /-- keys of `nodeByName` (each maps to the struct type of the same name) -/
  nodeNames : List String
  /-- interface name → struct types `T` with `*T` assignable to it -/
  impls : List (String × List String)
  /-- `token(n).String()` -/
  tokStr : Nat → Str
  /-- `(*T).UnmarshalText(s)` for the operator type `T`: the value stored, or `none` for an error -/
  unm : String → Str → Option Nat

def Schema.fieldsOf (σ : Schema) (t : String) : List (String × GoType) :=
  (σ.structs.lookup t).getD []

def Schema.implements (σ : Schema) (i t : String) : Bool :=
  ((σ.impls.lookup i).getD []).contains t

/-- Latin-1 view of a name as bytes (type names are ASCII; `wf` checks the round trip). -/
def bytesOfName (s : String) : Str := s.toList.map (·.toNat)
def nameOfBytes (b : Str) : String := String.ofList (b.map Char.ofNat)

/-- `ast.IsExported`-style check on the first byte. -/
def isExportedName (s : String) : Bool :=
  match s.toList with
  | c :: _ => decide ('A' ≤ c ∧ c ≤ 'Z')
  | [] => false

def reservedKeys : List String := ["Type", "Pos", "End"]

/-- `reflect.StructOf(Type, Pos, End, fields…)` panics on duplicate or unexported names. -/
def namesOK (names : List String) : Bool :=
  names.all (fun n => isExportedName n && !reservedKeys.contains n) && decide names.Nodup

/-! ### encoding/json's string coercion: invalid UTF-8 bytes become U+FFFD -/

def isCont (b : Nat) : Bool := decide (0x80 ≤ b) && decide (b ≤ 0xBF)

/-- Length of the well-formed UTF-8 sequence at the head of the string, 0 if there is none
    (`utf8.DecodeRuneInString` returning `RuneError, 1`; the empty case is not used). -/
def runeLen : Str → Nat
  | [] => 0
  | b0 :: rest =>
    if b0 < 0x80 then 1
    else if 0xC2 ≤ b0 ∧ b0 ≤ 0xDF then
      match rest with
      | b1 :: _ => if isCont b1 then 2 else 0
      | _ => 0
    else if 0xE0 ≤ b0 ∧ b0 ≤ 0xEF then
      match rest with
      | b1 :: b2 :: _ =>
        let lo := if b0 = 0xE0 then 0xA0 else 0x80
        let hi := if b0 = 0xED then 0x9F else 0xBF
        if lo ≤ b1 ∧ b1 ≤ hi ∧ isCont b2 then 3 else 0
      | _ => 0
    else if 0xF0 ≤ b0 ∧ b0 ≤ 0xF4 then
      match rest with
      | b1 :: b2 :: b3 :: _ =>
        let lo := if b0 = 0xF0 then 0x90 else 0x80
        let hi := if b0 = 0xF4 then 0x8F else 0xBF
        if lo ≤ b1 ∧ b1 ≤ hi ∧ isCont b2 ∧ isCont b3 then 4 else 0
      | _ => 0
    else 0

def sanitizeFuel : Nat → Str → Str
  | 0, _ => []
  | _, [] => []
  | fuel + 1, b :: rest =>
    match runeLen (b :: rest) with
    | 0 => 0xEF :: 0xBF :: 0xBD :: sanitizeFuel fuel rest
    | n => (b :: rest).take n ++ sanitizeFuel fuel ((b :: rest).drop n)

/-- the string as it comes back from `json.Marshal` + `json.Unmarshal` -/
def sanitize (s : Str) : Str := sanitizeFuel s.length s

/-! ### Encode -/

/-- result of `encodeValue`: the encoded value (`none` = the zero `reflect.Value`) and `tname` -/
inductive EncR
  | panic
  | res (j : Option J) (tname : String)
  deriving Repr, Inhabited

/-- `encodePos` into a field of type `*exportedPos` tagged `omitempty` -/
def encPos (p : Pos) : Option J :=
  if p.isValid then
    some (.obj [("Offset", .num p.offset), ("Line", .num p.line), ("Col", .num p.col)])
  else none

def optKv (k : String) : Option J → List (String × J)
  | some j => [(k, j)]
  | none => []

def peKvs : Option (Pos × Pos) → List (String × J)
  | some (p, e) => optKv "Pos" (encPos p) ++ optKv "End" (encPos e)
  | none => []

mutual
  def encodeValue (σ : Schema) : Val → EncR
    | .nil => .res none ""
    | .ptr v => encodeValue σ v
    | .inil => .res none ""
    | .iface v =>
      match encodeValue σ v with
      | .res (some (.obj kvs)) tname =>
        if tname = "" then .panic  -- "interface did not contain a named type?"
        else .res (some (.obj (("Type", .str (bytesOfName tname)) :: kvs))) ""
      | _ => .panic
    | .struct name pe fields =>
      if namesOK (fields.map (·.1)) then
        match encodeFields σ fields with
        | some kvs => .res (some (.obj (peKvs pe ++ kvs))) name
        | none => .panic
      else .panic  -- reflect.StructOf
    | .snil => .res none ""
    | .slice elems =>
      if elems.isEmpty then .res none ""
      else match encodeElems σ elems with
        | some js => .res (some (.arr js)) ""
        | none => .panic
    | .bool b => if b then .res (some (.bool true)) "" else .res none ""
    | .str s => if s.isEmpty then .res none "" else .res (some (.str (sanitize s))) ""
    | .uint bits op n =>
      if bits = 8 ∨ bits = 32 then
        if n = 0 then .res none ""
        else match op with
          | some _ => .res (some (.str (σ.tokStr n))) ""
          | none => .res (some (.num n)) ""
      else .panic
    | .pos _ => .panic    -- a Pos outside a struct field reaches reflect.StructOf with unexported fields
    | .other => .panic    -- default: panic(val.Kind().String())

  /-- the loop over the fields of a struct; `none` = panic -/
  def encodeFields (σ : Schema) : List (String × Val) → Option (List (String × J))
    | [] => some []
    | (k, .pos p) :: rest =>
      match encodeFields σ rest with
      | some kvs => some (optKv k (encPos p) ++ kvs)
      | none => none
    | (k, v) :: rest =>
      match encodeValue σ v, encodeFields σ rest with
      | .res (some j) _, some kvs => some ((k, j) :: kvs)
      | .res none _, some kvs => some kvs
      | _, _ => none

  /-- the loop over the elements of a slice; `enc.Index(i).Set(noValue)` panics -/
  def encodeElems (σ : Schema) : List Val → Option (List J)
    | [] => some []
    | v :: rest =>
      match encodeValue σ v, encodeElems σ rest with
      | .res (some j) _, some js => some (j :: js)
      | _, _ => none
end

inductive Enc
  | panic
  | val (j : J)
  deriving Repr, Inhabited

/-- `EncodeOptions.Encode(w, node)`: `v` is what the `syntax.Node` interface holds. -/
def encodeRoot (σ : Schema) (v : Val) : Enc :=
  match encodeValue σ (.iface v) with
  | .res (some j) _ => .val j
  | _ => .panic

/-! ### Decode -/

inductive DErr
  | unknownType | notAssignable | missingType | objInto | unknownField
  | arrInto | strInto | badOp | numOp | numRange | numInto | valInto
  | posKind | posLen | posField | posFieldKind | posRange | nullRoot
  deriving DecidableEq, Repr, Inhabited

inductive Res (α : Type)
  | ok (a : α)
  | err (e : DErr)
  | panic
  deriving Repr, Inhabited

/-- `jsonUint` -/
def jsonUint : J → Option Nat
  | .num n => if n < 0 ∨ n > (maxUint32 : Int) then none else some n.toNat
  | _ => none

def posFieldNames : List String := ["Offset", "Line", "Col"]

/-- one iteration of the loop in `decodePos` -/
def posField (kvs : List (String × J)) (name : String) : Res Nat :=
  match kvs.lookup name with
  | none => .err .posField
  | some (.num n) =>
    match jsonUint (.num n) with
    | some u => .ok u
    | none => .err .posRange
  | some .frac => .err .posRange
  | some _ => .err .posFieldKind

/-- `decodePos` -/
def decodePos : J → Res Pos
  | .obj kvs =>
    if kvs.length ≠ posFieldNames.length then .err .posLen
    else match posField kvs "Offset" with
      | .ok o =>
        match posField kvs "Line" with
        | .ok l =>
          match posField kvs "Col" with
          | .ok c => .ok (newPos o l c)
          | .err e => .err e
          | .panic => .panic
        | .err e => .err e
        | .panic => .panic
      | .err e => .err e
      | .panic => .panic
  | _ => .err .posKind

mutual
  /-- the zero value of a type -/
  def zero : GoType → Val
    | .pos => .pos Pos.zero
    | .bool => .bool false
    | .str => .str []
    | .uint bits op => .uint bits op 0
    | .ptr _ => .nil
    | .iface _ => .inil
    | .slice _ => .snil
    | .struct name fields => .struct name none (zeroFields fields)
    | .other _ => .other
  def zeroFields : List (String × GoType) → List (String × Val)
    | [] => []
    | (k, τ) :: rest => (k, zero τ) :: zeroFields rest
end

/-- what the object is decoded into after the "Type"/nil-pointer prologue of `decodeValue` -/
inductive Wrap
  | iface | ptr | val | pos
  deriving DecidableEq, Repr

/-- `enc["Type"].(string)` -/
def typeName (kvs : List (String × J)) : String :=
  match kvs.lookup "Type" with
  | some (.str s) => nameOfBytes s
  | _ => ""

/-- The prologue of the object case: "Type" lookup, assignability, allocation, the
    pointer/interface unwrapping loop and the struct-kind check.  Returns the struct to fill. -/
def resolve (σ : Schema) (τ : GoType) (tn : String) : Except DErr (String × List (String × GoType) × Wrap) :=
  if tn ≠ "" then
    if !σ.nodeNames.contains tn then .error .unknownType
    else match τ with
      | .iface i => if σ.implements i tn then .ok (tn, σ.fieldsOf tn, .iface) else .error .notAssignable
      | .ptr t => if t = tn then .ok (tn, σ.fieldsOf tn, .ptr) else .error .notAssignable
      | _ => .error .notAssignable
  else match τ with
    | .ptr t => .ok (t, σ.fieldsOf t, .ptr)
    | .iface _ => .error .missingType
    | .struct name ftys => .ok (name, ftys, .val)
    | .pos => .ok ("Pos", [], .pos)   -- a struct with unexported fields only
    | _ => .error .objInto

def wrapVal (w : Wrap) (name : String) (fs : List (String × Val)) : Val :=
  match w with
  | .iface => .iface (.ptr (.struct name none fs))
  | .ptr => .ptr (.struct name none fs)
  | .val => .struct name none fs
  | .pos => .pos Pos.zero

/-- `fval.Set…` on the struct being filled -/
def setField (k : String) (v : Val) : List (String × Val) → List (String × Val)
  | [] => []
  | (k', v') :: rest => if k' = k then (k', v) :: rest else (k', v') :: setField k v rest

mutual
  /-- `decodeValue(val, enc)` for a zero `val` of static type `τ`; `addr`: `val.CanAddr()` -/
  def decodeValue (σ : Schema) (addr : Bool) (τ : GoType) : J → Res Val
    | .obj kvs =>
      match resolve σ τ (typeName kvs) with
      | .error e => .err e
      | .ok (name, ftys, w) =>
        match decodeFields σ ftys kvs (zeroFields ftys) with
        | .ok fs => .ok (wrapVal w name fs)
        | .err e => .err e
        | .panic => .panic
    | .arr xs =>
      match τ with
      | .slice ε =>
        match decodeElems σ ε xs with
        | .ok [] => .ok .snil
        | .ok vs => .ok (.slice vs)
        | .err e => .err e
        | .panic => .panic
      | _ => .err .arrInto
    | .str s =>
      match τ with
      | .str => .ok (.str s)
      | .uint bits (some o) =>
        if addr then
          match σ.unm o s with
          | some n => .ok (.uint bits (some o) n)
          | none => .err .badOp
        else .panic   -- val.Addr()
      | _ => if addr then .err .strInto else .panic
    | .num n =>
      match τ with
      | .uint bits op =>
        if bits = 8 ∨ bits = 32 then
          if addr then
            if op.isSome then .err .numOp
            else match jsonUint (.num n) with
              | some u => if u < 2 ^ bits then .ok (.uint bits none u) else .err .numRange
              | none => .err .numRange
          else .panic
        else .err .numInto
      | _ => .err .numInto
    | .frac =>
      match τ with
      | .uint bits op =>
        if bits = 8 ∨ bits = 32 then
          if addr then (if op.isSome then .err .numOp else .err .numRange) else .panic
        else .err .numInto
      | _ => .err .numInto
    | .bool b =>
      match τ with
      | .bool => .ok (.bool b)
      | _ => .err .valInto
    | .null => .ok (zero τ)

  /-- `for name, fv := range enc { … }` over the struct with fields `ftys`, filling `acc` -/
  def decodeFields (σ : Schema) (ftys : List (String × GoType)) :
      List (String × J) → List (String × Val) → Res (List (String × Val))
    | [], acc => .ok acc
    | (k, jv) :: rest, acc =>
      if reservedKeys.contains k then decodeFields σ ftys rest acc
      else
        match (if isExportedName k then ftys.lookup k else none) with
        | none => .err .unknownField
        | some .pos =>
          match decodePos jv with
          | .ok p => decodeFields σ ftys rest (setField k (.pos p) acc)
          | .err e => .err e
          | .panic => .panic
        | some ft =>
          match decodeValue σ true ft jv with
          | .ok v => decodeFields σ ftys rest (setField k v acc)
          | .err e => .err e
          | .panic => .panic

  /-- `for _, encElem := range enc { … reflect.Append … }` -/
  def decodeElems (σ : Schema) (ε : GoType) : List J → Res (List Val)
    | [] => .ok []
    | x :: rest =>
      match decodeValue σ true ε x with
      | .ok v =>
        match decodeElems σ ε rest with
        | .ok vs => .ok (v :: vs)
        | .err e => .err e
        | .panic => .panic
      | .err e => .err e
      | .panic => .panic
end

/-- `DecodeOptions.Decode` after `json.NewDecoder(r).Decode(&enc)` succeeded -/
def decodeRoot (σ : Schema) (j : J) : Res Val :=
  match decodeValue σ true (.iface "Node") j with
  | .ok .inil => .err .nullRoot
  | r => r

/-! ### what the round trip is expected to return -/

def dropPos (p : Pos) : Pos := if p = Pos.recovered then Pos.zero else p

mutual
  /-- recovered positions become unset; the derived `Pos()`/`End()` annotations are forgotten -/
  def dropRecovered : Val → Val
    | .pos p => .pos (dropPos p)
    | .ptr v => .ptr (dropRecovered v)
    | .iface v => .iface (dropRecovered v)
    | .slice elems => .slice (dropRecoveredL elems)
    | .struct name _ fields => .struct name none (dropRecoveredF fields)
    | v => v
  def dropRecoveredL : List Val → List Val
    | [] => []
    | v :: rest => dropRecovered v :: dropRecoveredL rest
  def dropRecoveredF : List (String × Val) → List (String × Val)
    | [] => []
    | (k, v) :: rest => (k, dropRecovered v) :: dropRecoveredF rest
end

mutual
  /-- `dropRecovered`, and an empty-but-non-nil slice becomes the nil slice (`Encode` omits both) -/
  def canon : Val → Val
    | .pos p => .pos (dropPos p)
    | .ptr v => .ptr (canon v)
    | .iface v => .iface (canon v)
    | .slice [] => .snil
    | .slice (e :: elems) => .slice (canon e :: canonL elems)
    | .struct name _ fields => .struct name none (canonF fields)
    | v => v
  def canonL : List Val → List Val
    | [] => []
    | v :: rest => canon v :: canonL rest
  def canonF : List (String × Val) → List (String × Val)
    | [] => []
    | (k, v) :: rest => (k, canon v) :: canonF rest
end

mutual
  /-- no empty-but-non-nil slice anywhere -/
  def noEmptySlice : Val → Bool
    | .ptr v => noEmptySlice v
    | .iface v => noEmptySlice v
    | .slice [] => false
    | .slice (e :: elems) => noEmptySlice e && noEmptySliceL elems
    | .struct _ _ fields => noEmptySliceF fields
    | _ => true
  def noEmptySliceL : List Val → Bool
    | [] => true
    | v :: rest => noEmptySlice v && noEmptySliceL rest
  def noEmptySliceF : List (String × Val) → Bool
    | [] => true
    | (_, v) :: rest => noEmptySlice v && noEmptySliceF rest
end

/-! ### JsonWF -/

/-- values for which `encodeValue` returns the zero `reflect.Value` (a nil slice element of this
    kind makes `Encode` panic) -/
def isNoValue : Val → Bool
  | .nil | .inil | .snil => true
  | .slice elems => elems.isEmpty
  | .bool b => !b
  | .str s => s.isEmpty
  | .uint _ _ n => n == 0
  | _ => false

/-- a `Pos` held directly by a slice reaches `reflect.StructOf` with unexported fields -/
def isPosVal : Val → Bool
  | .pos _ => true
  | _ => false

def posWF (p : Pos) : Bool :=
  p.inRange && (p.isValid || decide (p = Pos.zero) || decide (p = Pos.recovered))

mutual
  /-- `JsonWF` with the condition on positions as a parameter: `v` has static type `τ` in `σ`, positions are valid, zero or recovered, there is no
      slice element that encodes to nothing, strings survive
      `encoding/json` (valid UTF-8), unsigned values fit, operator values are ones that
      `UnmarshalText` maps back from their `String()`. -/
  def wfWith (pok : Pos → Bool) (σ : Schema) : GoType → Val → Bool
    | .pos, .pos p => pok p
    | .bool, .bool _ => true
    | .str, .str s => decide (sanitize s = s)
    | .uint b o, .uint b' o' n =>
      decide (b = b') && decide (o = o') && (decide (b = 8) || decide (b = 32)) && decide (n < 2 ^ b) &&
        (match o with
         | none => true
         | some t => decide (n = 0) || decide (σ.unm t (σ.tokStr n) = some n))
    | .ptr _, .nil => true
    | .ptr t, .ptr (.struct name _ fs) =>
      decide (name = t) && namesOK ((σ.fieldsOf t).map (·.1)) && wfFieldsWith pok σ (σ.fieldsOf t) fs
    | .iface _, .inil => true
    | .iface i, .iface (.ptr (.struct name _ fs)) =>
      σ.nodeNames.contains name && σ.implements i name && decide (name ≠ "") &&
        decide (nameOfBytes (bytesOfName name) = name) &&
        namesOK ((σ.fieldsOf name).map (·.1)) && wfFieldsWith pok σ (σ.fieldsOf name) fs
    | .slice _, .snil => true
    | .slice ε, .slice elems => wfElemsWith pok σ ε elems
    | .struct name ftys, .struct name' _ fs =>
      decide (name = name') && namesOK (ftys.map (·.1)) && wfFieldsWith pok σ ftys fs
    | _, _ => false
  def wfFieldsWith (pok : Pos → Bool) (σ : Schema) : List (String × GoType) → List (String × Val) → Bool
    | [], [] => true
    | (k, τ) :: ts, (k', v) :: vs => decide (k = k') && wfWith pok σ τ v && wfFieldsWith pok σ ts vs
    | _, _ => false
  def wfElemsWith (pok : Pos → Bool) (σ : Schema) (ε : GoType) : List Val → Bool
    | [] => true
    | v :: vs => wfWith pok σ ε v && !isNoValue v && !isPosVal v && wfElemsWith pok σ ε vs
end

/-- `JsonWF`: positions are valid, zero or recovered -/
abbrev wf (σ : Schema) : GoType → Val → Bool := wfWith posWF σ
abbrev wfFields (σ : Schema) : List (String × GoType) → List (String × Val) → Bool := wfFieldsWith posWF σ
abbrev wfElems (σ : Schema) (ε : GoType) : List Val → Bool := wfElemsWith posWF σ ε

/-- the same without the condition on positions (any two `uint32`s) -/
abbrev wfAnyPos (σ : Schema) : GoType → Val → Bool := wfWith Pos.inRange σ

mutual
  /-- structural equality (the types have no derived `DecidableEq`) -/
  def beqVal : Val → Val → Bool
    | .pos p, .pos q => decide (p = q)
    | .bool a, .bool b => a == b
    | .str a, .str b => decide (a = b)
    | .uint b o n, .uint b' o' n' => decide (b = b') && decide (o = o') && decide (n = n')
    | .nil, .nil => true
    | .ptr a, .ptr b => beqVal a b
    | .inil, .inil => true
    | .iface a, .iface b => beqVal a b
    | .snil, .snil => true
    | .slice as, .slice bs => beqValL as bs
    | .struct n pe fs, .struct n' pe' fs' => decide (n = n') && decide (pe = pe') && beqValF fs fs'
    | .other, .other => true
    | _, _ => false
  def beqValL : List Val → List Val → Bool
    | [], [] => true
    | a :: as, b :: bs => beqVal a b && beqValL as bs
    | _, _ => false
  def beqValF : List (String × Val) → List (String × Val) → Bool
    | [], [] => true
    | (k, a) :: as, (k', b) :: bs => decide (k = k') && beqVal a b && beqValF as bs
    | _, _ => false
end

mutual
  /-- structural equality of JSON documents (key order included) -/
  def beqJ : J → J → Bool
    | .null, .null => true
    | .bool a, .bool b => a == b
    | .num a, .num b => decide (a = b)
    | .frac, .frac => true
    | .str a, .str b => decide (a = b)
    | .arr as, .arr bs => beqJL as bs
    | .obj as, .obj bs => beqJK as bs
    | _, _ => false
  def beqJL : List J → List J → Bool
    | [], [] => true
    | a :: as, b :: bs => beqJ a b && beqJL as bs
    | _, _ => false
  def beqJK : List (String × J) → List (String × J) → Bool
    | [], [] => true
    | (k, a) :: as, (k', b) :: bs => decide (k = k') && beqJ a b && beqJK as bs
    | _, _ => false
end

def beqEnc : Enc → Enc → Bool
  | .panic, .panic => true
  | .val a, .val b => beqJ a b
  | _, _ => false

/-! ### re-annotation: `Pos()`/`End()` are functions of the node -/

mutual
  /-- forget the derived `Pos()`/`End()` annotations -/
  def forget : Val → Val
    | .ptr v => .ptr (forget v)
    | .iface v => .iface (forget v)
    | .slice elems => .slice (forgetL elems)
    | .struct name _ fields => .struct name none (forgetF fields)
    | v => v
  def forgetL : List Val → List Val
    | [] => []
    | v :: rest => forget v :: forgetL rest
  def forgetF : List (String × Val) → List (String × Val)
    | [] => []
    | (k, v) :: rest => (k, forget v) :: forgetF rest
end

/-- the `Pos()`/`End()` methods: a function of the struct type and its (un-annotated) fields;
    `none` for structs that are not nodes -/
abbrev Ann := String → List (String × Val) → Option (Pos × Pos)

mutual
  /-- what `Encode` sees of a Go tree: every struct with the results of its `Pos()`/`End()` -/
  def annotate (ann : Ann) : Val → Val
    | .ptr v => .ptr (annotate ann v)
    | .iface v => .iface (annotate ann v)
    | .slice elems => .slice (annotateL ann elems)
    | .struct name _ fields => .struct name (ann name (forgetF fields)) (annotateF ann fields)
    | v => v
  def annotateL (ann : Ann) : List Val → List Val
    | [] => []
    | v :: rest => annotate ann v :: annotateL ann rest
  def annotateF (ann : Ann) : List (String × Val) → List (String × Val)
    | [] => []
    | (k, v) :: rest => (k, annotate ann v) :: annotateF ann rest
end

/-- what `encodePos` keeps of a position -/
def posKey (p : Pos) : Option (Nat × Nat × Nat) :=
  if p.isValid then some (p.offset, p.line, p.col) else none

def peKey : Option (Pos × Pos) → Option (Option (Nat × Nat × Nat) × Option (Nat × Nat × Nat))
  | some (p, e) => some (posKey p, posKey e)
  | none => none

mutual
  /-- `Pos()`/`End()` of every node are encoded alike before and after the round trip (clearing
      recovered positions does not move the valid `Pos()`/`End()` of any node) -/
  def peStable (ann : Ann) : Val → Prop
    | .ptr v => peStable ann v
    | .iface v => peStable ann v
    | .slice elems => peStableL ann elems
    | .struct name _ fields =>
      peKey (ann name (canonF fields)) = peKey (ann name (forgetF fields)) ∧ peStableF ann fields
    | _ => True
  def peStableL (ann : Ann) : List Val → Prop
    | [] => True
    | v :: rest => peStable ann v ∧ peStableL ann rest
  def peStableF (ann : Ann) : List (String × Val) → Prop
    | [] => True
    | (_, v) :: rest => peStable ann v ∧ peStableF ann rest
end

end ShVerif.C15

namespace ShVerif.C15

/-! ### the real schema, assembled from the regenerated tables (`ShVerif.Gen.C15`) -/

def decimal (n : Nat) : Str := (Nat.toDigits 10 n).map (·.toNat)

/-- `token.String()` as generated by stringer: `_token_name[_token_index[i]:_token_index[i+1]]`, or
    `"token(" + strconv.FormatInt(i) + ")"` past the table. -/
def tokStrOf (name : Str) (index : List Nat) (n : Nat) : Str :=
  if n + 1 < index.length then
    let a := index.getD n 0
    let b := index.getD (n + 1) 0
    (name.drop a).take (b - a)
  else [116, 111, 107, 101, 110, 40] ++ decimal n ++ [41]

/-- a generated `UnmarshalText`: the first `case` whose string matches assigns the named constant -/
def unmOf (tables : List (String × List (Str × String))) (consts : List (String × List (String × Nat)))
    (t : String) (s : Str) : Option Nat :=
  match tables.lookup t with
  | none => none
  | some cases =>
    match cases.lookup s with
    | none => none
    | some c =>
      match consts.lookup t with
      | none => none
      | some cs => cs.lookup c

def mkSchema (structs : List (String × List (String × GoType))) (nodeByName : List (String × String))
    (impls : List (String × List String)) (tokenName : Str) (tokenIndex : List Nat)
    (tables : List (String × List (Str × String))) (consts : List (String × List (String × Nat))) : Schema :=
  { structs := structs
    nodeNames := nodeByName.map (·.1)
    impls := impls
    tokStr := tokStrOf tokenName tokenIndex
    unm := unmOf tables consts }

end ShVerif.C15

namespace ShVerif.C15

/-! ### predicates over the regenerated tables (decided in `Props/C15.lean`) -/

/-- the `reflect.Kind` a static type has -/
def kindOf : GoType → String
  | .pos => "Struct"
  | .bool => "Bool"
  | .str => "String"
  | .uint 8 _ => "Uint8"
  | .uint 32 _ => "Uint32"
  | .uint _ _ => "Uint?"
  | .ptr _ => "Pointer"
  | .iface _ => "Interface"
  | .slice _ => "Slice"
  | .struct _ _ => "Struct"
  | .other _ => "?"

mutual
  /-- a field type `encodeValue`/`decodeValue` handle: a kind of the switch, pointers point to
      known structs, interfaces are known, inline structs have usable field names -/
  def typeOK (kinds : List String) (structNames ifaceNames : List String) : GoType → Bool
    | .ptr t => kinds.contains "Pointer" && structNames.contains t
    | .iface i => kinds.contains "Interface" && ifaceNames.contains i
    | .slice e => kinds.contains "Slice" && typeOK kinds structNames ifaceNames e
    | .struct _ fs => kinds.contains "Struct" && namesOK (fieldNames fs) && typesOK kinds structNames ifaceNames fs
    | .other _ => false
    | τ => kinds.contains (kindOf τ)
  def typesOK (kinds : List String) (structNames ifaceNames : List String) : List (String × GoType) → Bool
    | [] => true
    | (_, τ) :: rest => typeOK kinds structNames ifaceNames τ && typesOK kinds structNames ifaceNames rest
  def fieldNames : List (String × GoType) → List String
    | [] => []
    | (k, _) :: rest => k :: fieldNames rest
end

/-- every struct: usable field names, every field type supported -/
def schemaOK (kinds : List String) (structs : List (String × List (String × GoType))) (ifaceNames : List String) : Bool :=
  structs.all fun (_, fs) =>
    namesOK (fs.map (·.1)) && typesOK kinds (structs.map (·.1)) ifaceNames fs

/-- every constant of every operator type survives `String()` then `UnmarshalText` -/
def opRoundTrip (σ : Schema) (consts : List (String × List (String × Nat))) : Bool :=
  consts.all fun (t, cs) => cs.all fun (_, v) => decide (v ≠ 0) && decide (σ.unm t (σ.tokStr v) = some v)

/-- within one operator type, two constants with the same string have the same value -/
def opInjective (σ : Schema) (consts : List (String × List (String × Nat))) : Bool :=
  consts.all fun (_, cs) => cs.all fun (_, v) => cs.all fun (_, w) =>
    decide (σ.tokStr v = σ.tokStr w → v = w)

def sortedLE : List Nat → Bool
  | a :: b :: rest => decide (a ≤ b) && sortedLE (b :: rest)
  | _ => true

end ShVerif.C15

namespace ShVerif.C15

mutual
  /-- no recovered position anywhere (the derived `pe` annotations are not looked at) -/
  def noRecovered : Val → Bool
    | .pos p => decide (p ≠ Pos.recovered)
    | .ptr v => noRecovered v
    | .iface v => noRecovered v
    | .slice elems => noRecoveredL elems
    | .struct _ _ fields => noRecoveredF fields
    | _ => true
  def noRecoveredL : List Val → Bool
    | [] => true
    | v :: rest => noRecovered v && noRecoveredL rest
  def noRecoveredF : List (String × Val) → Bool
    | [] => true
    | (_, v) :: rest => noRecovered v && noRecoveredF rest
end

end ShVerif.C15

namespace ShVerif.C15

mutual
  /-- empty-but-non-nil slices become nil, annotations are forgotten; positions are kept -/
  def nilEmpty : Val → Val
    | .ptr v => .ptr (nilEmpty v)
    | .iface v => .iface (nilEmpty v)
    | .slice [] => .snil
    | .slice (e :: elems) => .slice (nilEmpty e :: nilEmptyL elems)
    | .struct name _ fields => .struct name none (nilEmptyF fields)
    | v => v
  def nilEmptyL : List Val → List Val
    | [] => []
    | v :: rest => nilEmpty v :: nilEmptyL rest
  def nilEmptyF : List (String × Val) → List (String × Val)
    | [] => []
    | (k, v) :: rest => (k, nilEmpty v) :: nilEmptyF rest
end

/-- `Pos()`/`End()` cannot tell a nil slice from an empty one (they use `len` and `range` only) -/
def annSliceBlind (ann : Ann) : Prop :=
  ∀ (name : String) (fs : List (String × Val)),
    peKey (ann name (nilEmptyF fs)) = peKey (ann name (forgetF fs))

end ShVerif.C15
