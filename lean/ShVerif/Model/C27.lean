import ShVerif.Base.Hex
import ShVerif.Model.L1Heap
/-
  C27 — Subshells cannot change the parent shell.

  Model of interp/vars.go (`overlayEnviron` Get/Set/Each, `newOverlayEnviron`, `lookupVar`,
  `setVar`, `delVar`, `setVarWithIndex`, `unsetElem`, `assignVal`), internal/sparse.go
  (`IndexedMax`, `SetIndexedElem`, `DeleteIndexedElem`, `CanonicalIndexes`), `Runner.subshell`
  (interp/api.go) and the state-writing builtins (`read -a`, `mapfile`, `shift`, `set --`, `cd`,
  `pushd`, `popd`, `set -o`/`shopt`, `alias`, `unalias`, function definition, `unset`, the
  `declare` family, function call scopes) over the L1 GoSlice heap.

  `fx = true` is the code as it is: `assignVal` clones `prev.List`/`prev.Indexes` before `a+=s`
  (commit db7f3b5).  `fx = false` is the PINNED old variant (`prev.List[0] += s` and
  `SetIndexedElem(prev.List, …)` on the uncloned slice), kept for the `pinned_…` theorems and so
  that the harness can still describe a tree in which the defect has come back.

  Not modelled: namerefs (`Resolve` is the identity), the special parameters of `lookupVar`
  (`@ * # ? - $ ! 0-9 RANDOM … DIRSTACK`), exit codes, output.
-/
namespace ShVerif.C27
open ShVerif ShVerif.L1

inductive Kind | unknown | string | nameRef | indexed | associative | keepValue
deriving DecidableEq, Repr, Inhabited

/-- `expand.Variable`; `list` lives in the string-array heap, `indexes` in the int-array heap,
    `map` is a map-heap id (`none` = nil map). -/
structure Var where
  set : Bool := false
  isLocal : Bool := false
  exported : Bool := false
  readOnly : Bool := false
  kind : Kind := .unknown
  str : Bytes := []
  list : Slice := Slice.nil
  indexes : Slice := Slice.nil
  map : Option Nat := none
deriving DecidableEq, Repr, Inhabited

def Var.declared (v : Var) : Bool :=
  v.set || v.isLocal || v.exported || v.readOnly || v.kind != .unknown

/-- `overlayEnviron.parent`: Go nil, the Runner's root `Env` (a read-only `expand.Environ`),
    or another overlay. -/
inductive PRef | nil | base | ov (id : Nat)
deriving DecidableEq, Repr, Inhabited

/-- `*overlayEnviron`; `values = none` is the nil map. -/
structure Scope where
  parent : PRef := .nil
  values : Option (List (Bytes × Var)) := none
  funcScope : Bool := false
deriving Repr, Inhabited

structure Heap where
  strs : ArrHeap Bytes := []
  ints : ArrHeap Nat := []
  maps : MapHeap Bytes Bytes := []
  scopes : List Scope := []
  fmaps : MapHeap Bytes Bytes := []            -- `Runner.Funcs` maps: name ↦ body (printed)
  amaps : MapHeap Bytes (Bytes × Bool) := []   -- `Runner.alias` maps: name ↦ (words, blank)
deriving Repr, Inhabited

/-- Saved state of a function call (`Runner.call`). -/
structure Frame where
  env : Nat
  params : Slice
  inFunc : Bool
deriving Repr, Inhabited

structure Runner where
  base : List (Bytes × Bytes) := []   -- Runner.Env (ListEnviron), read-only
  env : Nat := 0                      -- writeEnv: id of an overlay scope
  dir : Bytes := []
  params : Slice := Slice.nil
  opts : List Bool := []
  funcs : Option Nat := none
  alias : Option Nat := none
  dirStack : Slice := Slice.nil
  inFunc : Bool := false
  frames : List Frame := []
deriving Repr, Inhabited

/-! ### overlayEnviron -/

def baseVar (v : Bytes) : Var := { set := true, exported := true, kind := .string, str := v }

/-- `Environ.Get` along the parent chain. -/
def envGet (base : List (Bytes × Bytes)) (scopes : List Scope) : Nat → PRef → Bytes → Var
  | 0, _, _ => {}
  | _ + 1, .nil, _ => {}
  | _ + 1, .base, name =>
    match alookup base name with
    | some v => baseVar v
    | none => {}
  | fuel + 1, .ov id, name =>
    match scopes[id]? with
    | none => {}
    | some o =>
      match alookup (o.values.getD []) name with
      | some v => v
      | none => envGet base scopes fuel o.parent name

/-- `Environ.Each`: parent first, then the overlay's own values. -/
def envEach (base : List (Bytes × Bytes)) (scopes : List Scope) : Nat → PRef → List (Bytes × Var)
  | 0, _ => []
  | _ + 1, .nil => []
  | _ + 1, .base => base.map fun (n, v) => (n, baseVar v)
  | fuel + 1, .ov id =>
    match scopes[id]? with
    | none => []
    | some o => envEach base scopes fuel o.parent ++ o.values.getD []

def fuelOf (scopes : List Scope) : Nat := scopes.length + 2

/-- The `values` map after `Set(name, vr)` on an overlay where the variable was `prev`:
    `KeepValue` keeps the old value, a readonly `prev` refuses (error; nothing stored), unsetting a
    local keeps a local tombstone, otherwise the variable is (re)stored. -/
def newValues (vals : List (Bytes × Var)) (prev : Var) (name : Bytes) (vr : Var) : List (Bytes × Var) :=
  if vr.kind == .keepValue then
    if !vr.set && prev.isLocal then
      aset vals name { vr with kind := prev.kind, str := prev.str, list := prev.list, indexes := prev.indexes,
                               map := prev.map, isLocal := true }
    else
      aset (if !vr.set then aerase vals name else vals) name
        { vr with kind := prev.kind, str := prev.str, list := prev.list, indexes := prev.indexes,
                  map := prev.map, isLocal := prev.isLocal || vr.isLocal }
  else if prev.readOnly then vals
  else if !vr.set && prev.isLocal then aset vals name { vr with isLocal := true }
  else aset (if !vr.set then aerase vals name else vals) name { vr with isLocal := prev.isLocal || vr.isLocal }

/-- `overlayEnviron.Set`.  `none` = Go panic (nil overlay, or the `o.parent.(WriteEnviron)` type
    assertion failing).  A "readonly variable" error leaves the variables unchanged but has
    already made the `values` map. -/
def envSet (base : List (Bytes × Bytes)) : Nat → List Scope → Nat → Bytes → Var → Option (List Scope)
  | 0, _, _, _, _ => none
  | fuel + 1, scopes, id, name, vr =>
    match scopes[id]? with
    | none => none
    | some o =>
      if o.funcScope && !vr.isLocal && !((alookup (o.values.getD []) name).getD {}).isLocal then
        -- manipulation of a global variable inside a function
        match o.parent with
        | .ov p => envSet base fuel scopes p name vr
        | _ => none
      else
        some (scopes.set id { o with values := some (newValues (o.values.getD [])
          (if (alookup (o.values.getD []) name).isNone && o.parent != .nil then
             envGet base scopes (fuelOf scopes) o.parent name
           else (alookup (o.values.getD []) name).getD {})
          name vr) })

/-- `newOverlayEnviron(parent, background)`: a fresh overlay; in the background case the
    variables are copied shallowly (slices and maps shared). -/
def newOverlay (base : List (Bytes × Bytes)) (scopes : List Scope) (parent : Nat) (bg : Bool) :
    Option (List Scope × Nat) :=
  let id := scopes.length
  if !bg then some (scopes ++ [{ parent := .ov parent }], id)
  else
    let all := envEach base scopes (fuelOf scopes) (.ov parent)
    let sc0 := scopes ++ [{ parent := .nil }]
    (all.foldl (fun acc nv => acc.bind fun sc => envSet base (fuelOf sc) sc id nv.1 nv.2) (some sc0)).map
      fun sc => (sc, id)

/-- The growth oracles of the two array heaps (the Go runtime's policy depends on the element
    size); every theorem quantifies over both. -/
structure Grows where
  strs : Grow
  ints : Grow

/-! ### internal/sparse.go -/

def indexedMax (h : Heap) (list indexes : Slice) : Int :=
  if indexes.len > 0 then
    match sliceGet? h.ints indexes (indexes.len - 1) with
    | some k => (k : Int)
    | none => -1
  else (list.len : Int) - 1

/-- `slices.BinarySearch` on a sorted index list. -/
def searchIdx (cs : List Nat) (k : Nat) : Nat × Bool :=
  let pos := (cs.takeWhile (· < k)).length
  (pos, cs[pos]? == some k)

def isCanonical : List Nat → Nat → Bool
  | [], _ => true
  | k :: rest, i => k == i && isCanonical rest (i + 1)

def canonicalIndexes (h : Heap) (indexes : Slice) : Slice :=
  if isCanonical (cells h.ints indexes) 0 then Slice.nil else indexes

/-- The sparse part of `SetIndexedElem` (after `indexes` is known to be non-nil). -/
def setIndexedSparse (g : Grows) (h : Heap) (list indexes : Slice) (k : Nat) (val : Bytes) :
    Option (Heap × Slice × Slice) :=
  let r := searchIdx (cells h.ints indexes) k
  if r.2 then
    match sliceSet h.strs list r.1 val with
    | none => none
    | some s => some ({ h with strs := s }, list, indexes)
  else
    match sliceInsert g.strs h.strs list r.1 val with
    | none => none
    | some a =>
      match sliceInsert g.ints h.ints indexes r.1 k with
      | none => none
      | some b =>
        some ({ h with strs := a.1, ints := b.1 }, a.2, canonicalIndexes { h with strs := a.1, ints := b.1 } b.2)

/-- `SetIndexedElem(list, indexes, k, val)`. -/
def setIndexedElem (g : Grows) (h : Heap) (list indexes : Slice) (k : Nat) (val : Bytes) :
    Option (Heap × Slice × Slice) :=
  if indexes.isNil then
    if k < list.len then
      match sliceSet h.strs list k val with
      | none => none
      | some s => some ({ h with strs := s }, list, Slice.nil)
    else if k = list.len then
      some ({ h with strs := (sliceAppend g.strs h.strs list val).1 }, (sliceAppend g.strs h.strs list val).2, Slice.nil)
    else
      -- indexes = make([]int, len(list), len(list)+1)
      setIndexedSparse g { h with ints := (sliceMake h.ints (List.range list.len) (list.len + 1)).1 } list
        (sliceMake h.ints (List.range list.len) (list.len + 1)).2 k val
  else setIndexedSparse g h list indexes k val

def deleteIndexedSparse (h : Heap) (list indexes : Slice) (k : Nat) : Option (Heap × Slice × Slice) :=
  let r := searchIdx (cells h.ints indexes) k
  if !r.2 then some (h, list, indexes)
  else
    match sliceDelete h.strs list r.1 (r.1 + 1) with
    | none => none
    | some a =>
      match sliceDelete h.ints indexes r.1 (r.1 + 1) with
      | none => none
      | some b =>
        some ({ h with strs := a.1, ints := b.1 }, a.2, canonicalIndexes { h with strs := a.1, ints := b.1 } b.2)

/-- `DeleteIndexedElem(list, indexes, k)` with `k ≥ 0`. -/
def deleteIndexedElem (h : Heap) (list indexes : Slice) (k : Nat) : Option (Heap × Slice × Slice) :=
  if indexes.isNil then
    if list.len ≤ k then some (h, list, Slice.nil)
    else if k = list.len - 1 then
      match sliceTo list k with
      | none => none
      | some l => some (h, l, Slice.nil)
    else
      deleteIndexedSparse { h with ints := (sliceMake h.ints (List.range list.len) list.len).1 } list
        (sliceMake h.ints (List.range list.len) list.len).2 k
  else deleteIndexedSparse h list indexes k

/-! ### Runner: variables -/

def lookupVar (r : Runner) (h : Heap) (name : Bytes) : Var :=
  let v := envGet r.base h.scopes (fuelOf h.scopes) (.ov r.env) name
  if v.declared then v else {}

/-- `Runner.setVar` (a readonly error only sets the exit code, which is not modelled). -/
def setVar (r : Runner) (h : Heap) (name : Bytes) (vr : Var) : Option Heap :=
  match envSet r.base (fuelOf h.scopes) h.scopes r.env name
      (if r.opts.head?.getD false then { vr with exported := true } else vr) with
  | none => none
  | some sc => some { h with scopes := sc }

/-- `Runner.delVar`: straight to `writeEnv.Set` (allexport does not apply). -/
def delVar (r : Runner) (h : Heap) (name : Bytes) : Option Heap :=
  match envSet r.base (fuelOf h.scopes) h.scopes r.env name {} with
  | none => none
  | some sc => some { h with scopes := sc }

def setVarString (r : Runner) (h : Heap) (name val : Bytes) : Option Heap :=
  setVar r h name { set := true, kind := .string, str := val }

/-- `Variable.String()`. -/
def varString (h : Heap) (v : Var) : Bytes :=
  match v.kind with
  | .string => v.str
  | .indexed =>
    if v.indexes.isNil then (sliceGet? h.strs v.list 0).getD []
    else
      let r := searchIdx (cells h.ints v.indexes) 0
      if r.2 then (sliceGet? h.strs v.list r.1).getD [] else []
  | _ => []

def intText (k : Int) : Bytes := bytesOfString (toString k)

/-- The subscript of an assignment `name[idx]=…`: absent, an integer literal, or the empty
    quoted word that `setVarWithIndex` synthesises for associative arrays. -/
inductive Idx | none | int (k : Int) | emptyKey
deriving DecidableEq, Repr, Inhabited

/-- Right-hand side of an assignment: `a=` / `a=s` / `a=(…)` with optional integer subscripts /
    `a=(["k"]=v …)`. -/
inductive Rhs
  | none
  | str (s : Bytes)
  | arr (elems : List (Option Int × Bytes))
  | amap (elems : List (Bytes × Bytes))
deriving Repr, Inhabited

/-- `as.Value != nil` with a non-empty word. -/
def Rhs.isStr : Rhs → Bool
  | .str _ => true
  | _ => false

inductive ValType | dflt | a | A | n
deriving DecidableEq, Repr, Inhabited

/-- `slices.Clone(list)`, `slices.Clone(indexes)`. -/
def cloneBoth (g : Grows) (h : Heap) (list indexes : Slice) : Heap × Slice × Slice :=
  ({ h with strs := (sliceClone g.strs h.strs list).1, ints := (sliceClone g.ints h.ints indexes).1 },
   (sliceClone g.strs h.strs list).2, (sliceClone g.ints h.ints indexes).2)

/-- Negative indices count from one past the maximum index. -/
def resolveIdx (h : Heap) (list indexes : Slice) (k : Int) : Int :=
  if k < 0 then k + (indexedMax h list indexes + 1) else k

/-- The index an array element is assigned at: explicit (negative counts from the end) or the
    running index. -/
def elemIndex (h : Heap) (list indexes : Slice) (index : Int) : Option Int → Int
  | some k => resolveIdx h list indexes k
  | none => index

/-- The element loop of `assignVal` for an indexed array value; an element with a "bad array
    subscript" is skipped (`continue`, the running index unchanged). -/
def assignElems (g : Grows) : Heap → Slice → Slice → Int → List (Option Int × Bytes) →
    Option (Heap × Slice × Slice)
  | h, list, indexes, _, [] => some (h, list, indexes)
  | h, list, indexes, index, e :: rest =>
    if elemIndex h list indexes index e.1 < 0 then assignElems g h list indexes index rest
    else
      match setIndexedElem g h list indexes (elemIndex h list indexes index e.1).toNat e.2 with
      | none => none
      | some r => assignElems g r.1 r.2.1 r.2.2 (elemIndex h list indexes index e.1 + 1) rest

/-- The base array of `a+=(…)`: `none` = panic("unexpected conversion of kind"),
    `some none` = the `// TODO` return for associative arrays. -/
def appendBase (g : Grows) (h : Heap) (prev : Var) (append : Bool) : Option (Option (Heap × Slice × Slice)) :=
  if append then
    match prev.kind with
    | .unknown => some (some (h, Slice.nil, Slice.nil))
    | .string =>
      some (some ({ h with strs := (sliceMake h.strs [prev.str] 1).1 }, (sliceMake h.strs [prev.str] 1).2, Slice.nil))
    | .indexed => some (some (cloneBoth g h prev.list prev.indexes))
    | .associative => some none
    | _ => none
  else some (some (h, Slice.nil, Slice.nil))

/-- The indexed-array branch of `assignVal` (`a=(…)`, `a+=(…)`). -/
def assignArr (g : Grows) (h : Heap) (prev : Var) (append : Bool) (elems : List (Option Int × Bytes)) :
    Option (Heap × Var) :=
  match appendBase g h prev append with
  | none => none
  | some none => some (h, prev)
  | some (some b) =>
    match assignElems g b.1 b.2.1 b.2.2 (indexedMax b.1 b.2.1 b.2.2 + 1) elems with
    | none => none
    | some r =>
      some (r.1, { prev with kind := .indexed, list := if r.2.1.isNil then Slice.empty else r.2.1,
                             indexes := r.2.2 })

/-- The associative branch of `assignVal` (`valType == "-A"`). -/
def assignMap (h : Heap) (prev : Var) (append : Bool) (amap : List (Bytes × Bytes)) : Heap × Var :=
  ({ h with maps := (mapAlloc h.maps amap).1 },
   if !append then { prev with kind := .associative, map := some (mapAlloc h.maps amap).2 } else prev)

/-- The `+=` scalar append onto an indexed array (vars.go:416-421), on `prev` as given. -/
def appendIndexed (g : Grows) (h : Heap) (prev : Var) (s : Bytes) : Option (Heap × Var) :=
  if prev.list.len > 0 && (prev.indexes.isNil || sliceGet? h.ints prev.indexes 0 == some 0) then
    -- prev.List[0] += s
    match sliceGet? h.strs prev.list 0 with
    | none => none
    | some old =>
      match sliceSet h.strs prev.list 0 (old ++ s) with
      | none => none
      | some st => some ({ h with strs := st }, prev)
  else
    match setIndexedElem g h prev.list prev.indexes 0 s with
    | none => none
    | some r => some (r.1, { prev with list := r.2.1, indexes := r.2.2 })

/-- `Runner.assignVal`.  `fx = true`: clone before `+=` (the code as it is); `fx = false`: pinned. -/
def assignVal (fx : Bool) (g : Grows) (h : Heap) (prev : Var) (append : Bool) (rhs : Rhs)
    (vt : ValType) (hasIdx : Bool := false) : Option (Heap × Var) :=
  match rhs with
  | .str s =>
    if !append then some (h, { prev with set := true, kind := if vt == .n then .nameRef else .string, str := s })
    else if hasIdx && prev.kind != .associative then
      -- name[i]+=s: setVarWithIndex appends s to the element at index i
      some (h, { prev with set := true, kind := .string, str := s })
    else match prev.kind with
      | .string | .unknown => some (h, { prev with set := true, kind := .string, str := prev.str ++ s })
      | .indexed =>
        if fx then
          appendIndexed g (cloneBoth g h prev.list prev.indexes).1
            { prev with set := true, list := (cloneBoth g h prev.list prev.indexes).2.1,
                        indexes := (cloneBoth g h prev.list prev.indexes).2.2 } s
        else appendIndexed g h { prev with set := true } s
      | _ => some (h, { prev with set := true })
  | .none => some (h, { prev with set := true, kind := if vt == .n then .nameRef else .string, str := [] })
  | .amap elems =>
    -- `a=(["k"]=v …)`: associative when declared -A or when the first subscript is quoted
    if vt == .A || (vt == .dflt && !elems.isEmpty) then
      some (assignMap h { prev with set := true } append (elems.foldl (fun m kv => aset m kv.1 kv.2) []))
    else if elems.isEmpty then assignArr g h { prev with set := true } append []
    else none   -- quoted subscripts on an indexed array: outside the modelled vocabulary
  | .arr elems =>
    if vt == .A then
      -- keys are the literal subscripts; a missing subscript is a nil-interface type assertion panic
      if elems.any (fun e => e.1.isNone) then none
      else some (assignMap h { prev with set := true } append
        (elems.foldl (fun m kv => aset m (intText (kv.1.getD 0)) kv.2) []))
    else assignArr g h { prev with set := true } append elems

/-- The subscript `setVarWithIndex` works with: a scalar assigned to an array goes to `[0]` /
    `[""]`. -/
def effIdx (prev vr : Var) (idx : Idx) : Idx :=
  if vr.kind == .string && idx == .none then
    match prev.kind with
    | .indexed => .int 0
    | .associative => .emptyKey
    | _ => .none
  else idx

def idxInt : Idx → Int
  | .int k => k
  | _ => 0

def idxKey : Idx → Bytes
  | .int k => intText k
  | _ => []

/-- `name[k]+=value`: the current value of that element (if any) followed by `val`. -/
def appendedVal (h : Heap) (list indexes : Slice) (k : Nat) (val : Bytes) : Bytes :=
  if !indexes.isNil then
    if (searchIdx (cells h.ints indexes) k).2 then
      (sliceGet? h.strs list (searchIdx (cells h.ints indexes) k).1).getD [] ++ val
    else val
  else if k < list.len then (sliceGet? h.strs list k).getD [] ++ val
  else val

/-- The tail of `setVarWithIndex` for indexed storage: resolve a negative index, (append,) set,
    store. -/
def setIndexedVar (g : Grows) (r : Runner) (h : Heap) (prev : Var) (name : Bytes) (k : Int) (val : Bytes)
    (list indexes : Slice) (appendElem : Bool := false) : Option Heap :=
  if resolveIdx h list indexes k < 0 then some h
  else
    match setIndexedElem g h list indexes (resolveIdx h list indexes k).toNat
        (if appendElem then appendedVal h list indexes (resolveIdx h list indexes k).toNat val else val) with
    | none => none
    | some x => setVar r x.1 name { prev with set := true, kind := .indexed, list := x.2.1, indexes := x.2.2 }

/-- The map a key is written to: `maps.Clone(prev.Map)`, made when nil. -/
def cloneOrMake (ms : MapHeap Bytes Bytes) (m : Option Nat) : MapHeap Bytes Bytes × Nat :=
  match (mapClone ms m).2 with
  | some id => ((mapClone ms m).1, id)
  | none => mapAlloc (mapClone ms m).1 []

/-- `Runner.setVarWithIndex`. -/
def setVarWithIndex (g : Grows) (r : Runner) (h : Heap) (prev : Var) (name : Bytes) (idx : Idx)
    (vr : Var) (appendElem : Bool := false) : Option Heap :=
  match effIdx prev vr idx with
  | .none => setVar r h name vr
  | i =>
    match prev.kind with
    | .string =>
      setIndexedVar g r { h with strs := (sliceAppend g.strs h.strs Slice.nil prev.str).1 } prev name (idxInt i) vr.str
        (sliceAppend g.strs h.strs Slice.nil prev.str).2 Slice.nil appendElem
    | .indexed =>
      setIndexedVar g r (cloneBoth g h prev.list prev.indexes).1 prev name (idxInt i) vr.str
        (cloneBoth g h prev.list prev.indexes).2.1 (cloneBoth g h prev.list prev.indexes).2.2 appendElem
    | .associative =>
      -- `index.(*syntax.Word)`: a negative literal parses as a unary expression → silent return
      if idxInt i < 0 then some h
      else
        setVar r { h with maps := updMap (cloneOrMake h.maps prev.map).1 (cloneOrMake h.maps prev.map).2
                                    fun m => aset m (idxKey i) vr.str }
          name { prev with set := true, map := some (cloneOrMake h.maps prev.map).2 }
    | _ => setIndexedVar g r h prev name (idxInt i) vr.str Slice.nil Slice.nil appendElem

/-- Subscript of `unset 'name[sub]'`. -/
inductive Sub | all | int (k : Int)
deriving DecidableEq, Repr, Inhabited

/-- `Runner.unsetElem`. -/
def unsetElem (g : Grows) (r : Runner) (h : Heap) (name : Bytes) (sub : Sub) : Option Heap :=
  match (lookupVar r h name).kind with
  | .indexed =>
    match sub with
    | .all => delVar r h name
    | .int k =>
      if resolveIdx h (lookupVar r h name).list (lookupVar r h name).indexes k < 0 then some h
      else
        match deleteIndexedElem (cloneBoth g h (lookupVar r h name).list (lookupVar r h name).indexes).1
            (cloneBoth g h (lookupVar r h name).list (lookupVar r h name).indexes).2.1
            (cloneBoth g h (lookupVar r h name).list (lookupVar r h name).indexes).2.2
            (resolveIdx h (lookupVar r h name).list (lookupVar r h name).indexes k).toNat with
        | none => none
        | some x => setVar r x.1 name { lookupVar r h name with list := x.2.1, indexes := x.2.2 }
  | .associative =>
    match sub with
    | .all => delVar r h name
    | .int k =>
      setVar r { h with maps :=
          match (mapClone h.maps (lookupVar r h name).map).2 with
          | some id => updMap (mapClone h.maps (lookupVar r h name).map).1 id fun mm => aerase mm (intText k)
          | none => (mapClone h.maps (lookupVar r h name).map).1 }
        name { lookupVar r h name with map := (mapClone h.maps (lookupVar r h name).map).2 }
  | .string =>
    if sub == .int 0 then delVar r h name else some h
  | _ => some h

/-! ### Assigning expansions `${name[idx]=word}` / `${name[idx]:=word}` (expand/param.go) -/

/-- `Variable.indexedVal(i)`. -/
def indexedVal (h : Heap) (v : Var) (i : Nat) : Option Bytes :=
  if !v.indexes.isNil then
    if (searchIdx (cells h.ints v.indexes) i).2 then
      sliceGet? h.strs v.list (searchIdx (cells h.ints v.indexes) i).1
    else none
  else sliceGet? h.strs v.list i

def optPair (o : Option Bytes) : Bytes × Bool :=
  match o with
  | some s => (s, true)
  | none => ([], false)

/-- `Config.varInd(vr, idx)` for an absent or integer-literal subscript: the string and whether it
    is set; `none` = the expansion fails ("negative array index", unsupported subscript). -/
def varInd (h : Heap) (vr : Var) (idx : Option Int) : Option (Bytes × Bool) :=
  match idx with
  | none =>
    match vr.kind with
    | .indexed => some (optPair (indexedVal h vr 0))
    | .associative => some (optPair (vr.map.bind fun id => alookup (mapOf h.maps id) (intText 0)))
    | _ => some (varString h vr, vr.set)
  | some k =>
    match vr.kind with
    | .string => if k = 0 then some (vr.str, vr.set) else some ([], false)
    | .indexed =>
      if resolveIdx h vr.list vr.indexes k < 0 then none
      else some (optPair (indexedVal h vr (resolveIdx h vr.list vr.indexes k).toNat))
    | .associative =>
      if k < 0 then none   -- not a *syntax.Word
      else some (optPair (vr.map.bind fun id => alookup (mapOf h.maps id) (intText k)))
    | _ => some ([], false)

/-- The list `assignElem` sets the element on: `slices.Clone(vr.List)`, `slices.Clone(vr.Indexes)`,
    replaced by `[]string{vr.Str}` for a scalar. -/
def elemBase (g : Grows) (h : Heap) (vr : Var) : Heap × Slice × Slice :=
  if vr.kind == .string then
    ({ (cloneBoth g h vr.list vr.indexes).1 with
         strs := (sliceMake (cloneBoth g h vr.list vr.indexes).1.strs [vr.str] 1).1 },
     (sliceMake (cloneBoth g h vr.list vr.indexes).1.strs [vr.str] 1).2, Slice.nil)
  else cloneBoth g h vr.list vr.indexes

/-- `Config.assignElem(name, vr, idx, val)` writing through `expandEnv.Set` = `Runner.setVar`.
    An error of the expansion leaves the state as it is. -/
def assignElem (g : Grows) (r : Runner) (h : Heap) (name : Bytes) (vr : Var) (idx : Option Int) (val : Bytes) :
    Option Heap :=
  if idx.isNone && vr.kind != .indexed && vr.kind != .associative then
    setVar r h name { set := true, kind := .string, str := val }
  else if vr.kind == .associative then
    if idx.getD 0 < 0 then some h
    else
      setVar r { h with maps := updMap (cloneOrMake h.maps vr.map).1 (cloneOrMake h.maps vr.map).2
                                  fun m => aset m (intText (idx.getD 0)) val }
        name { vr with set := true, map := some (cloneOrMake h.maps vr.map).2 }
  else if resolveIdx h vr.list vr.indexes (idx.getD 0) < 0 then some h
  else
    match setIndexedElem g (elemBase g h vr).1 (elemBase g h vr).2.1 (elemBase g h vr).2.2
        (resolveIdx h vr.list vr.indexes (idx.getD 0)).toNat val with
    | none => none
    | some x => setVar r x.1 name { vr with set := true, kind := .indexed, str := [], list := x.2.1, indexes := x.2.2 }

/-! ### Operations -/

inductive DeclVariant | declare | «local» | «export» | «readonly»
deriving DecidableEq, Repr, Inhabited

inductive UnsetMode | both | vars | funcs
deriving DecidableEq, Repr, Inhabited

inductive Op
  /-- `name[idx]=rhs` / `name[idx]+=rhs` as a command of its own. -/
  | assign (name : Bytes) (idx : Idx) (append : Bool) (rhs : Rhs)
  /-- `declare|local|export|readonly [-x] [-r] [-a|-A] [-g] name[=rhs]`; `naked = true` is a
      bare name. -/
  | decl (v : DeclVariant) (x r g : Bool) (vt : ValType) (name : Bytes) (naked append : Bool) (rhs : Rhs)
  /-- `name=rhs cmd` / `name+=rhs cmd`: set (exported) for the command, restored afterwards. -/
  | inline (name : Bytes) (append : Bool) (rhs : Rhs)
  /-- `: "${name[idx]=val}"` (`colon = false`) / `: "${name[idx]:=val}"` (`colon = true`). -/
  | paramAssign (name : Bytes) (idx : Option Int) (colon : Bool) (val : Bytes)
  /-- A command that fails without writing, e.g. `((a[1]=2))` (unsupported assignment target). -/
  | nop
  /-- `unset [-v|-f] name` / `unset 'name[sub]'`. -/
  | unset (mode : UnsetMode) (name : Bytes) (sub : Option Sub)
  /-- `read -a name` with the given fields. -/
  | readArr (name : Bytes) (vals : List Bytes)
  /-- `r.setVarString(name, val)`: `read name`, `for name in …`, `getopts`, `((name=…))`. -/
  | setStr (name val : Bytes)
  /-- `mapfile name` with the given lines. -/
  | mapfile (name : Bytes) (vals : List Bytes)
  | shift (n : Int)
  /-- `set -- args…`. -/
  | setParams (args : List Bytes)
  /-- `cd dir` (an existing absolute directory). -/
  | cd (dir : Bytes)
  | pushd (dir : Bytes)
  | pushdSwap
  | popd
  /-- `set -o`/`set +o`/`shopt -s`/`shopt -u` on option number `i`. -/
  | setOpt (i : Nat) (v : Bool)
  | alias (name words : Bytes) (blank : Bool)
  | unalias (name : Bytes)
  | funcDef (name body : Bytes)
  /-- Entering a function call with the given arguments. -/
  | pushFunc (params : List Bytes)
  /-- Returning from it. -/
  | popFunc
deriving Repr, Inhabited

/-- `changeDir` on an existing absolute directory (`r.Dir` is set by the caller's record update). -/
def changeDir (r : Runner) (h : Heap) (dir : Bytes) : Option (Heap × Runner) :=
  match setVarString { r with dir := dir } h (bytesOfString "OLDPWD")
      (varString h (lookupVar { r with dir := dir } h (bytesOfString "PWD"))) with
  | none => none
  | some h1 =>
    match setVarString { r with dir := dir } h1 (bytesOfString "PWD") dir with
    | none => none
    | some h2 => some (h2, { r with dir := dir })

def swapTop (h : Heap) (ds : Slice) : Option Heap :=
  match sliceGet? h.strs ds (ds.len - 1), sliceGet? h.strs ds (ds.len - 2) with
  | some oldtop, some top =>
    match sliceSet h.strs ds (ds.len - 1) top with
    | none => none
    | some s1 =>
      match sliceSet s1 ds (ds.len - 2) oldtop with
      | none => none
      | some s2 => some { h with strs := s2 }
  | _, _ => none

/-- The attributes the `declare` family puts on the variable before `setVar`. -/
def declAttrs (v : DeclVariant) (x ro gl inFunc : Bool) (vr : Var) : Var :=
  let vr := if gl then { vr with isLocal := false }
    else if (v == .declare && inFunc) || v == .local then { vr with isLocal := true } else vr
  let vr := if x || v == .export then { vr with exported := true } else vr
  if ro || v == .readonly then { vr with readOnly := true } else vr

/-- The map an alias / function is written to: the runner's, made when nil. -/
def mapOrMake {ν : Type} (ms : MapHeap Bytes ν) : Option Nat → MapHeap Bytes ν × Nat
  | some id => (ms, id)
  | none => mapAlloc ms []

/-- One operation on a runner.  `none` = Go panic. -/
def step (fx : Bool) (g : Grows) (h : Heap) (r : Runner) : Op → Option (Heap × Runner)
  | .assign name idx append rhs =>
    match assignVal fx g h { lookupVar r h name with isLocal := false } append rhs .dflt (idx != .none) with
    | none => none
    | some a =>
      -- appendElem = as.Append && as.Value != nil && vr.Kind == expand.String
      match setVarWithIndex g r a.1 { lookupVar r h name with isLocal := false } name idx a.2
          (append && rhs.isStr && a.2.kind == .string) with
      | none => none
      | some h' => some (h', r)
  | .decl v x ro gl vt name naked append rhs =>
    if v == .local && !r.inFunc then some (h, r)
    else
      match (if naked then
          some (h, if vt == .A then { lookupVar r h name with kind := .associative }
                   else { lookupVar r h name with kind := .keepValue })
        else assignVal fx g h (lookupVar r h name) append rhs vt) with
      | none => none
      | some a =>
        match setVar r a.1 name (declAttrs v x ro gl r.inFunc a.2) with
        | none => none
        | some h' => some (h', r)
  | .inline name append rhs =>
    match assignVal fx g h (lookupVar r h name) append rhs .dflt with
    | none => none
    | some a =>
      match setVar r a.1 name { a.2 with exported := true } with
      | none => none
      | some h1 =>
        -- … the command runs …, then `r.setVar(restore.name, restore.vr)`
        match setVar r h1 name (lookupVar r h name) with
        | none => none
        | some h2 => some (h2, r)
  | .paramAssign name idx colon val =>
    match varInd h (lookupVar r h name) idx with
    | none => some (h, r)
    | some sv =>
      -- AssignUnset: only when unset; both forms: only when the string is empty
      if (colon || !sv.2) && sv.1.isEmpty then
        match assignElem g r h name (lookupVar r h name) idx val with
        | none => none
        | some h' => some (h', r)
      else some (h, r)
  | .nop => some (h, r)
  | .unset mode name sub =>
    match sub with
    | some s =>
      if mode != .funcs then
        match unsetElem g r h name s with
        | none => none
        | some h' => some (h', r)
      else some (h, r)
    | none =>
      if mode != .funcs && (lookupVar r h name).set then
        match delVar r h name with
        | none => none
        | some h' => some (h', r)
      else
        match r.funcs with
        | some id =>
          if (alookup (mapOf h.fmaps id) name).isSome && mode != .vars then
            some ({ h with fmaps := updMap h.fmaps id fun m => aerase m name }, r)
          else some (h, r)
        | none => some (h, r)
  | .readArr name vals =>
    -- `expand.ReadFields` returns nil for a line without fields (stored as `[]string{}`), else `make([]string, n)`
    match setVar r { h with strs := if vals.isEmpty then h.strs else (sliceMake h.strs vals vals.length).1 } name
        { set := true, kind := .indexed,
          list := if vals.isEmpty then Slice.empty else (sliceMake h.strs vals vals.length).2 } with
    | none => none
    | some h' => some (h', r)
  | .setStr name val =>
    match setVarString r h name val with
    | none => none
    | some h' => some (h', r)
  | .mapfile name vals =>
    -- vr.Set = true; vr.List = []string{}; then one append per line
    match setVar r { h with strs := (sliceAppendList g.strs h.strs Slice.empty vals).1 } name
        { set := true, kind := .indexed, list := (sliceAppendList g.strs h.strs Slice.empty vals).2 } with
    | none => none
    | some h' => some (h', r)
  | .shift n =>
    if n ≥ (r.params.len : Int) then some (h, { r with params := Slice.nil })
    else if n < 0 then none
    else
      match sliceFrom r.params n.toNat with
      | none => none
      | some p => some (h, { r with params := p })
  | .setParams args =>
    some ({ h with strs := (sliceMake h.strs args args.length).1 },
          { r with params := (sliceMake h.strs args args.length).2 })
  | .cd dir => changeDir r h dir
  | .pushd dir =>
    match changeDir r h dir with
    | none => none
    | some x =>
      some ({ x.1 with strs := (sliceAppend g.strs x.1.strs x.2.dirStack x.2.dir).1 },
            { x.2 with dirStack := (sliceAppend g.strs x.1.strs x.2.dirStack x.2.dir).2 })
  | .pushdSwap =>
    if r.dirStack.len < 2 then some (h, r)
    else
      match sliceGet? h.strs r.dirStack (r.dirStack.len - 2) with
      | none => none
      | some newtop =>
        match swapTop h r.dirStack with
        | none => none
        | some h1 => changeDir r h1 newtop
  | .popd =>
    if r.dirStack.len < 2 then some (h, r)
    else
      match sliceTo r.dirStack (r.dirStack.len - 1) with
      | none => none
      | some ds =>
        match sliceGet? h.strs ds (ds.len - 1) with
        | none => none
        | some newtop => changeDir { r with dirStack := ds } h newtop
  | .setOpt i v => some (h, { r with opts := r.opts.set i v })
  | .alias name words blank =>
    some ({ h with amaps := updMap (mapOrMake h.amaps r.alias).1 (mapOrMake h.amaps r.alias).2
                              fun m => aset m name (words, blank) },
          { r with alias := some (mapOrMake h.amaps r.alias).2 })
  | .unalias name =>
    match r.alias with
    | some id => some ({ h with amaps := updMap h.amaps id fun m => aerase m name }, r)
    | none => some (h, r)
  | .funcDef name body =>
    some ({ h with fmaps := updMap (mapOrMake h.fmaps r.funcs).1 (mapOrMake h.fmaps r.funcs).2
                              fun m => aset m name body },
          { r with funcs := some (mapOrMake h.fmaps r.funcs).2 })
  | .pushFunc params =>
    some ({ h with strs := (sliceMake h.strs params params.length).1,
                   scopes := h.scopes ++ [{ parent := .ov r.env, funcScope := true }] },
          { r with frames := { env := r.env, params := r.params, inFunc := r.inFunc } :: r.frames,
                   env := h.scopes.length, params := (sliceMake h.strs params params.length).2, inFunc := true })
  | .popFunc =>
    match r.frames with
    | [] => some (h, r)
    | f :: rest => some (h, { r with env := f.env, params := f.params, inFunc := f.inFunc, frames := rest })

def run (fx : Bool) (g : Grows) : Heap → Runner → List Op → Option (Heap × Runner)
  | h, r, [] => some (h, r)
  | h, r, op :: ops =>
    match step fx g h r op with
    | none => none
    | some x => run fx g x.1 x.2 ops

/-- `r2.dirStack = append(r2.dirBootstrap[:0], r.dirStack...)`: a fresh one-cell array, then one
    append of all elements. -/
def copyDirStack (g : Grows) (strs : ArrHeap Bytes) (ds : Slice) : ArrHeap Bytes × Slice :=
  sliceAppendMany g.strs (sliceMake strs [] 1).1 { (sliceMake strs [] 1).2 with len := 0 } (cells strs ds)

/-- `Runner.subshell(background)`. -/
def subshell (g : Grows) (h : Heap) (r : Runner) (bg : Bool) : Option (Heap × Runner) :=
  match newOverlay r.base h.scopes r.env bg with
  | none => none
  | some e =>
    some ({ h with scopes := e.1, fmaps := (mapClone h.fmaps r.funcs).1, amaps := (mapClone h.amaps r.alias).1,
                   strs := (copyDirStack g h.strs r.dirStack).1 },
          { base := r.base, env := e.2, dir := r.dir, params := r.params, opts := r.opts,
            funcs := (mapClone h.fmaps r.funcs).2, alias := (mapClone h.amaps r.alias).2,
            dirStack := (copyDirStack g h.strs r.dirStack).2, inFunc := false, frames := [] })

/-! ### Initial state (`New` + `Reset`) -/

def initState (base : List (Bytes × Bytes)) (dir : Bytes) (opts : List Bool) : Option (Heap × Runner) := do
  let h : Heap := { scopes := [{ parent := .base }] }
  let (s, boot) := sliceMake h.strs [] 1
  let r : Runner := { base := base, env := 0, dir := dir, opts := opts,
                      dirStack := { boot with len := 0 } }
  let h := { h with strs := s }
  let h ← setVarString r h (bytesOfString "PWD") dir
  let h ← setVarString r h (bytesOfString "IFS") (bytesOfString " \t\n")
  let h ← setVarString r h (bytesOfString "OPTIND") (bytesOfString "1")
  let (s, ds) := sliceAppend (fun _ _ n => n) h.strs r.dirStack dir
  pure ({ h with strs := s }, { r with dirStack := ds })

/-! ### Observation: everything the property talks about, dereferenced -/

structure VarObs where
  name : Bytes
  set : Bool
  isLocal : Bool
  exported : Bool
  readOnly : Bool
  kind : Kind
  str : Bytes
  list : List Bytes
  listNil : Bool
  indexes : List Nat
  idxNil : Bool
  map : Option (List (Bytes × Bytes))
deriving DecidableEq, Repr

def obsVar (h : Heap) (nv : Bytes × Var) : VarObs :=
  { name := nv.1, set := nv.2.set, isLocal := nv.2.isLocal, exported := nv.2.exported,
    readOnly := nv.2.readOnly, kind := nv.2.kind, str := nv.2.str,
    list := cells h.strs nv.2.list, listNil := nv.2.list.isNil,
    indexes := cells h.ints nv.2.indexes, idxNil := nv.2.indexes.isNil,
    map := nv.2.map.map (mapOf h.maps) }

structure ScopeObs where
  funcScope : Bool
  valuesNil : Bool
  vars : List VarObs
deriving DecidableEq, Repr

/-- The overlay chain, innermost first (`none` marks the read-only root Env). -/
def obsChain (h : Heap) : Nat → PRef → List (Option ScopeObs)
  | 0, _ => []
  | _ + 1, .nil => []
  | _ + 1, .base => [none]
  | fuel + 1, .ov id =>
    match h.scopes[id]? with
    | none => []
    | some o =>
      some { funcScope := o.funcScope, valuesNil := o.values.isNone,
             vars := (o.values.getD []).map (obsVar h) } :: obsChain h fuel o.parent

structure Obs where
  chain : List (Option ScopeObs)
  base : List (Bytes × Bytes)
  funcs : Option (List (Bytes × Bytes))
  alias : Option (List (Bytes × (Bytes × Bool)))
  opts : List Bool
  dir : Bytes
  params : List Bytes
  paramsNil : Bool
  dirStack : List Bytes
  inFunc : Bool
deriving DecidableEq, Repr

/-- The parent's observable state: variables with array contents, functions, aliases, options,
    directory (and directory stack), positional parameters. -/
def observe (r : Runner) (h : Heap) : Obs :=
  { chain := obsChain h (r.env + 2) (.ov r.env), base := r.base,
    funcs := r.funcs.map (mapOf h.fmaps), alias := r.alias.map (mapOf h.amaps),
    opts := r.opts, dir := r.dir, params := cells h.strs r.params, paramsNil := r.params.isNil,
    dirStack := cells h.strs r.dirStack, inFunc := r.inFunc }

/-! ### Specification vocabulary for the theorems -/

/-- Heap sizes: the ids below them are the objects that exist at some moment. -/
structure Sizes where
  strs : Nat
  ints : Nat
  maps : Nat
  scopes : Nat
  fmaps : Nat
  amaps : Nat
deriving DecidableEq, Repr

def Heap.sizes (h : Heap) : Sizes :=
  { strs := h.strs.length, ints := h.ints.length, maps := h.maps.length, scopes := h.scopes.length,
    fmaps := h.fmaps.length, amaps := h.amaps.length }

/-- A slice that can be read in a heap with `len` arrays: it points to an existing array (or has
    no cells). -/
def SliceIn (len : Nat) (s : Slice) : Prop := s.len = 0 ∨ s.arr < len

def VarIn (h : Heap) (v : Var) : Prop :=
  SliceIn h.strs.length v.list ∧ SliceIn h.ints.length v.indexes ∧ ∀ id, v.map = some id → id < h.maps.length

def ScopeIn (h : Heap) (o : Scope) : Prop :=
  (∀ nv ∈ o.values.getD [], VarIn h nv.2) ∧ ∀ p, o.parent = .ov p → p < h.scopes.length

/-- Well-formed parent state: every id stored in the runner or in any overlay scope refers to an
    existing heap object (no dangling references). -/
def WF (r : Runner) (h : Heap) : Prop :=
  (∀ o ∈ h.scopes, ScopeIn h o) ∧ r.env < h.scopes.length ∧
  SliceIn h.strs.length r.params ∧ SliceIn h.strs.length r.dirStack ∧
  (∀ id, r.funcs = some id → id < h.fmaps.length) ∧ (∀ id, r.alias = some id → id < h.amaps.length)

/-- The subshell is created, then the operations run in it. -/
def childRun (fx : Bool) (g : Grows) (h : Heap) (p : Runner) (bg : Bool) (ops : List Op) : Option (Heap × Runner) :=
  match subshell g h p bg with
  | none => none
  | some c => run fx g c.1 c.2 ops

/-- The variable a `name+=word` operation appends to, when the operation is of that form. -/
def appendTarget (r : Runner) (h : Heap) : Op → Option Var
  | .assign name _ true (.str _) => some (lookupVar r h name)
  | .inline name true (.str _) => some (lookupVar r h name)
  | .decl v _ _ _ _ name false true (.str _) =>
    if v == .local && !r.inFunc then none else some (lookupVar r h name)
  | _ => none

/-- PINNED: the exact extra hypothesis of `pinned_isolation_partial`: an operation `name+=word` never hits an
    indexed array whose element storage existed before the subshell was created (`n` = heap
    sizes at that moment). -/
def AppendSafe (n : Sizes) (r : Runner) (h : Heap) (op : Op) : Prop :=
  ∀ v, appendTarget r h op = some v → v.kind = .indexed → Owned n.strs v.list ∧ Owned n.ints v.indexes

def SafeRun (n : Sizes) (g : Grows) : Heap → Runner → List Op → Prop
  | _, _, [] => True
  | h, r, op :: ops =>
    AppendSafe n r h op ∧
      match step false g h r op with
      | none => True
      | some x => SafeRun n g x.1 x.2 ops

end ShVerif.C27
