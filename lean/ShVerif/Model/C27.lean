import ShVerif.Base.Hex
import ShVerif.Model.L1Heap
/-
  C27 — Subshells cannot change the parent shell.

  Model of interp/vars.go (`overlayEnviron` Get/Set/Each, `newOverlayEnviron`, `lookupVar`,
  `setVar`, `delVar`, `setVarWithIndex`, `unsetElem`, `assignVal`), internal/sparse.go
  (`IndexedMax`, `SetIndexedElem`, `DeleteIndexedElem`, `CanonicalIndexes`), `Runner.subshell`
  (interp/api.go) and the state-writing builtins (`read -a`, `mapfile`, `shift`, `set --`, `cd`,
  `pushd`, `popd`, `set -o`/`shopt`, `alias`, `unalias`, function definition, `unset`, the
  `declare` family, function call scopes) over the L1 GoSlice heap.

  `fx = false` is the code as it is today: `a+=s` on an indexed array writes `prev.List[0]` /
  calls `SetIndexedElem(prev.List, …)` on the *uncloned* slice (vars.go:418/420).
  `fx = true` is the suggested repair (props/C27.fixes/assignval-clone.diff): clone first.

  Not modelled: namerefs (`Resolve` is the identity), the special parameters of `lookupVar`
  (`@ * # ? - $ ! 0-9 RANDOM … DIRSTACK`), exit codes, output.
-/
namespace ShVerif.C27
open ShVerif ShVerif.L1

inductive Kind | unknown | string | nameRef | indexed | associative | keepValue
deriving DecidableEq, Repr, Inhabited

/-- `expand.Variable`; `list` lives in the string-array heap, `indexes` in the int-array heap,
    `map` is a map-heap id (`none` = nil map). -/
structure Var where
  set : Bool := false
  isLocal : Bool := false
  exported : Bool := false
  readOnly : Bool := false
  kind : Kind := .unknown
  str : Bytes := []
  list : Slice := Slice.nil
  indexes : Slice := Slice.nil
  map : Option Nat := none
deriving DecidableEq, Repr, Inhabited

def Var.declared (v : Var) : Bool :=
  v.set || v.isLocal || v.exported || v.readOnly || v.kind != .unknown

/-- `overlayEnviron.parent`: Go nil, the Runner's root `Env` (a read-only `expand.Environ`),
    or another overlay. -/
inductive PRef | nil | base | ov (id : Nat)
deriving DecidableEq, Repr, Inhabited

/-- `*overlayEnviron`; `values = none` is the nil map. -/
structure Scope where
  parent : PRef := .nil
  values : Option (List (Bytes × Var)) := none
  funcScope : Bool := false
deriving Repr, Inhabited

structure Heap where
  strs : ArrHeap Bytes := []
  ints : ArrHeap Nat := []
  maps : MapHeap Bytes Bytes := []
  scopes : List Scope := []
  fmaps : MapHeap Bytes Bytes := []            -- `Runner.Funcs` maps: name ↦ body (printed)
  amaps : MapHeap Bytes (Bytes × Bool) := []   -- `Runner.alias` maps: name ↦ (words, blank)
deriving Repr, Inhabited

/-- Saved state of a function call (`Runner.call`). -/
structure Frame where
  env : Nat
  params : Slice
  inFunc : Bool
deriving Repr, Inhabited

structure Runner where
  base : List (Bytes × Bytes) := []   -- Runner.Env (ListEnviron), read-only
  env : Nat := 0                      -- writeEnv: id of an overlay scope
  dir : Bytes := []
  params : Slice := Slice.nil
  opts : List Bool := []
  funcs : Option Nat := none
  alias : Option Nat := none
  dirStack : Slice := Slice.nil
  inFunc : Bool := false
  frames : List Frame := []
deriving Repr, Inhabited

/-! ### overlayEnviron -/

def baseVar (v : Bytes) : Var := { set := true, exported := true, kind := .string, str := v }

/-- `Environ.Get` along the parent chain. -/
def envGet (base : List (Bytes × Bytes)) (scopes : List Scope) : Nat → PRef → Bytes → Var
  | 0, _, _ => {}
  | _ + 1, .nil, _ => {}
  | _ + 1, .base, name =>
    match alookup base name with
    | some v => baseVar v
    | none => {}
  | fuel + 1, .ov id, name =>
    match scopes[id]? with
    | none => {}
    | some o =>
      match alookup (o.values.getD []) name with
      | some v => v
      | none => envGet base scopes fuel o.parent name

/-- `Environ.Each`: parent first, then the overlay's own values. -/
def envEach (base : List (Bytes × Bytes)) (scopes : List Scope) : Nat → PRef → List (Bytes × Var)
  | 0, _ => []
  | _ + 1, .nil => []
  | _ + 1, .base => base.map fun (n, v) => (n, baseVar v)
  | fuel + 1, .ov id =>
    match scopes[id]? with
    | none => []
    | some o => envEach base scopes fuel o.parent ++ o.values.getD []

def fuelOf (scopes : List Scope) : Nat := scopes.length + 2

/-- `overlayEnviron.Set`.  `none` = Go panic (nil overlay, or the `o.parent.(WriteEnviron)` type
    assertion failing).  A "readonly variable" error leaves the variables unchanged but has
    already made the `values` map. -/
def envSet (base : List (Bytes × Bytes)) : Nat → List Scope → Nat → Bytes → Var → Option (List Scope)
  | 0, _, _, _, _ => none
  | fuel + 1, scopes, id, name, vr =>
    match scopes[id]? with
    | none => none
    | some o =>
      let prevE := alookup (o.values.getD []) name
      let prev0 : Var := prevE.getD {}
      if o.funcScope && !vr.isLocal && !prev0.isLocal then
        match o.parent with
        | .ov p => envSet base fuel scopes p name vr
        | _ => none
      else
        let prev : Var :=
          if prevE.isNone && o.parent != .nil then envGet base scopes (fuelOf scopes) o.parent name
          else prev0
        let vals := o.values.getD []
        let store (vals : List (Bytes × Var)) : Option (List Scope) :=
          some (scopes.set id { o with values := some vals })
        let keep := vr.kind == .keepValue
        let vr : Var :=
          if keep then { vr with kind := prev.kind, str := prev.str, list := prev.list,
                                  indexes := prev.indexes, map := prev.map }
          else vr
        if !keep && prev.readOnly then store vals
        else if !vr.set && prev.isLocal then store (aset vals name { vr with isLocal := true })
        else
          let vals := if !vr.set then aerase vals name else vals
          store (aset vals name { vr with isLocal := prev.isLocal || vr.isLocal })

/-- `newOverlayEnviron(parent, background)`: a fresh overlay; in the background case the
    variables are copied shallowly (slices and maps shared). -/
def newOverlay (base : List (Bytes × Bytes)) (scopes : List Scope) (parent : Nat) (bg : Bool) :
    Option (List Scope × Nat) :=
  let id := scopes.length
  if !bg then some (scopes ++ [{ parent := .ov parent }], id)
  else
    let all := envEach base scopes (fuelOf scopes) (.ov parent)
    let sc0 := scopes ++ [{ parent := .nil }]
    (all.foldl (fun acc nv => acc.bind fun sc => envSet base (fuelOf sc) sc id nv.1 nv.2) (some sc0)).map
      fun sc => (sc, id)

/-- The growth oracles of the two array heaps (the Go runtime's policy depends on the element
    size); every theorem quantifies over both. -/
structure Grows where
  strs : Grow
  ints : Grow

/-! ### internal/sparse.go -/

def indexedMax (h : Heap) (list indexes : Slice) : Int :=
  if indexes.len > 0 then
    match sliceGet? h.ints indexes (indexes.len - 1) with
    | some k => (k : Int)
    | none => -1
  else (list.len : Int) - 1

/-- `slices.BinarySearch` on a sorted index list. -/
def searchIdx (cs : List Nat) (k : Nat) : Nat × Bool :=
  let pos := (cs.takeWhile (· < k)).length
  (pos, cs[pos]? == some k)

def isCanonical : List Nat → Nat → Bool
  | [], _ => true
  | k :: rest, i => k == i && isCanonical rest (i + 1)

def canonicalIndexes (h : Heap) (indexes : Slice) : Slice :=
  if isCanonical (cells h.ints indexes) 0 then Slice.nil else indexes

/-- `SetIndexedElem(list, indexes, k, val)`. -/
def setIndexedElem (g : Grows) (h : Heap) (list indexes : Slice) (k : Nat) (val : Bytes) :
    Option (Heap × Slice × Slice) :=
  let sparse (h : Heap) (indexes : Slice) : Option (Heap × Slice × Slice) :=
    let (pos, ok) := searchIdx (cells h.ints indexes) k
    if ok then
      (sliceSet h.strs list pos val).map fun s => ({ h with strs := s }, list, indexes)
    else do
      let (s, list') ← sliceInsert g.strs h.strs list pos val
      let (is, idx') ← sliceInsert g.ints h.ints indexes pos k
      let h' := { h with strs := s, ints := is }
      pure (h', list', canonicalIndexes h' idx')
  if indexes.isNil then
    if k < list.len then
      (sliceSet h.strs list k val).map fun s => ({ h with strs := s }, list, Slice.nil)
    else if k = list.len then
      let (s, list') := sliceAppend g.strs h.strs list val
      some ({ h with strs := s }, list', Slice.nil)
    else
      let (is, idx) := sliceMake h.ints (List.range list.len) (list.len + 1)
      sparse { h with ints := is } idx
  else sparse h indexes

/-- `DeleteIndexedElem(list, indexes, k)` with `k ≥ 0`. -/
def deleteIndexedElem (h : Heap) (list indexes : Slice) (k : Nat) : Option (Heap × Slice × Slice) :=
  let sparse (h : Heap) (indexes : Slice) : Option (Heap × Slice × Slice) :=
    let (pos, ok) := searchIdx (cells h.ints indexes) k
    if !ok then some (h, list, indexes)
    else do
      let (s, list') ← sliceDelete h.strs list pos (pos + 1)
      let (is, idx') ← sliceDelete h.ints indexes pos (pos + 1)
      let h' := { h with strs := s, ints := is }
      pure (h', list', canonicalIndexes h' idx')
  if indexes.isNil then
    if list.len ≤ k then some (h, list, Slice.nil)
    else if k = list.len - 1 then (sliceTo list k).map fun l => (h, l, Slice.nil)
    else
      let (is, idx) := sliceMake h.ints (List.range list.len) list.len
      sparse { h with ints := is } idx
  else sparse h indexes

/-! ### Runner: variables -/

def lookupVar (r : Runner) (h : Heap) (name : Bytes) : Var :=
  let v := envGet r.base h.scopes (fuelOf h.scopes) (.ov r.env) name
  if v.declared then v else {}

/-- `Runner.setVar` (a readonly error only sets the exit code, which is not modelled). -/
def setVar (r : Runner) (h : Heap) (name : Bytes) (vr : Var) : Option Heap :=
  let vr := if r.opts.head?.getD false then { vr with exported := true } else vr
  (envSet r.base (fuelOf h.scopes) h.scopes r.env name vr).map fun sc => { h with scopes := sc }

/-- `Runner.delVar`: straight to `writeEnv.Set` (allexport does not apply). -/
def delVar (r : Runner) (h : Heap) (name : Bytes) : Option Heap :=
  (envSet r.base (fuelOf h.scopes) h.scopes r.env name {}).map fun sc => { h with scopes := sc }

def setVarString (r : Runner) (h : Heap) (name val : Bytes) : Option Heap :=
  setVar r h name { set := true, kind := .string, str := val }

/-- `Variable.String()`. -/
def varString (h : Heap) (v : Var) : Bytes :=
  match v.kind with
  | .string => v.str
  | .indexed =>
    if v.indexes.isNil then (sliceGet? h.strs v.list 0).getD []
    else
      let (pos, ok) := searchIdx (cells h.ints v.indexes) 0
      if ok then (sliceGet? h.strs v.list pos).getD [] else []
  | _ => []

def intText (k : Int) : Bytes := bytesOfString (toString k)

/-- The subscript of an assignment `name[idx]=…`: absent, an integer literal, or the empty
    quoted word that `setVarWithIndex` synthesises for associative arrays. -/
inductive Idx | none | int (k : Int) | emptyKey
deriving DecidableEq, Repr, Inhabited

/-- Right-hand side of an assignment: `a=` / `a=s` / `a=(…)` with optional integer subscripts /
    `a=(["k"]=v …)`. -/
inductive Rhs
  | none
  | str (s : Bytes)
  | arr (elems : List (Option Int × Bytes))
  | amap (elems : List (Bytes × Bytes))
deriving Repr, Inhabited

inductive ValType | dflt | a | A | n
deriving DecidableEq, Repr, Inhabited

def cloneBoth (g : Grows) (h : Heap) (list indexes : Slice) : Heap × Slice × Slice :=
  let (s, l) := sliceClone g.strs h.strs list
  let (is, ix) := sliceClone g.ints h.ints indexes
  ({ h with strs := s, ints := is }, l, ix)

/-- The element loop of `assignVal` for an indexed array value.  Returns `stop = true` after a
    "bad array subscript" error (`break`). -/
def assignElems (g : Grows) : Heap → Slice → Slice → Int → List (Option Int × Bytes) →
    Option (Heap × Slice × Slice)
  | h, list, indexes, _, [] => some (h, list, indexes)
  | h, list, indexes, index, (oi, v) :: rest =>
    let index : Int :=
      match oi with
      | some k => if k < 0 then k + (indexedMax h list indexes + 1) else k
      | none => index
    if index < 0 then some (h, list, indexes)
    else
      match setIndexedElem g h list indexes index.toNat v with
      | none => none
      | some (h', l', ix') => assignElems g h' l' ix' (index + 1) rest

/-- The indexed-array branch of `assignVal` (`a=(…)`, `a+=(…)`). -/
def assignArr (g : Grows) (h : Heap) (prev : Var) (append : Bool) (elems : List (Option Int × Bytes)) :
    Option (Heap × Var) :=
  let base : Option (Option (Heap × Slice × Slice)) :=
    if append then
      match prev.kind with
      | .unknown => some (some (h, Slice.nil, Slice.nil))
      | .string =>
        let (s, l) := sliceMake h.strs [prev.str] 1
        some (some ({ h with strs := s }, l, Slice.nil))
      | .indexed => some (some (cloneBoth g h prev.list prev.indexes))
      | .associative => some none
      | _ => none
    else some (some (h, Slice.nil, Slice.nil))
  match base with
  | none => none                       -- panic("unexpected conversion of kind")
  | some none => some (h, prev)        -- TODO in the code: returns prev
  | some (some (h, list, indexes)) =>
    match assignElems g h list indexes (indexedMax h list indexes + 1) elems with
    | none => none
    | some (h, list, indexes) =>
      let list := if list.isNil then Slice.empty else list
      some (h, { prev with kind := .indexed, list := list, indexes := indexes })

/-- The associative branch of `assignVal` (`valType == "-A"`). -/
def assignMap (h : Heap) (prev : Var) (append : Bool) (amap : List (Bytes × Bytes)) : Heap × Var :=
  let (ms, id) := mapAlloc h.maps amap
  let h := { h with maps := ms }
  if !append then (h, { prev with kind := .associative, map := some id })
  else (h, prev)

/-- The `+=` scalar append onto an indexed array (vars.go:416-421), on `prev` as given. -/
def appendIndexed (g : Grows) (h : Heap) (prev : Var) (s : Bytes) : Option (Heap × Var) :=
  if prev.list.len > 0 && (prev.indexes.isNil || sliceGet? h.ints prev.indexes 0 == some 0) then
    -- prev.List[0] += s
    match sliceGet? h.strs prev.list 0 with
    | none => none
    | some old => (sliceSet h.strs prev.list 0 (old ++ s)).map fun st => ({ h with strs := st }, prev)
  else
    (setIndexedElem g h prev.list prev.indexes 0 s).map fun (h', l, ix) =>
      (h', { prev with list := l, indexes := ix })

/-- `Runner.assignVal`.  `fx` selects the repaired variant that clones before `+=`. -/
def assignVal (fx : Bool) (g : Grows) (h : Heap) (prev : Var) (append : Bool) (rhs : Rhs)
    (vt : ValType) : Option (Heap × Var) :=
  let prev := { prev with set := true }
  let scalarKind : Kind := if vt == .n then .nameRef else .string
  match rhs with
  | .str s =>
    if !append then some (h, { prev with kind := scalarKind, str := s })
    else match prev.kind with
      | .string | .unknown => some (h, { prev with kind := .string, str := prev.str ++ s })
      | .indexed =>
        if fx then
          let (h', l, ix) := cloneBoth g h prev.list prev.indexes
          appendIndexed g h' { prev with list := l, indexes := ix } s
        else appendIndexed g h prev s
      | _ => some (h, prev)
  | .none => some (h, { prev with kind := scalarKind, str := [] })
  | .amap elems =>
    -- `a=(["k"]=v …)`: associative when declared -A or when the first subscript is quoted
    if vt == .A || (vt == .dflt && !elems.isEmpty) then
      some (assignMap h prev append (elems.foldl (fun m kv => aset m kv.1 kv.2) []))
    else if elems.isEmpty then assignArr g h prev append []
    else none   -- quoted subscripts on an indexed array: outside the modelled vocabulary
  | .arr elems =>
    if vt == .A then
      -- keys are the literal subscripts; a missing subscript is a nil-interface type assertion panic
      if elems.any (fun e => e.1.isNone) then none
      else some (assignMap h prev append (elems.foldl (fun m kv => aset m (intText (kv.1.getD 0)) kv.2) []))
    else assignArr g h prev append elems

/-- `Runner.setVarWithIndex`. -/
def setVarWithIndex (g : Grows) (r : Runner) (h : Heap) (prev : Var) (name : Bytes) (idx : Idx)
    (vr : Var) : Option Heap :=
  let idx : Idx :=
    if vr.kind == .string && idx == .none then
      match prev.kind with
      | .indexed => .int 0
      | .associative => .emptyKey
      | _ => .none
    else idx
  match idx with
  | .none => setVar r h name vr
  | _ =>
    let valStr := vr.str
    let key : Bytes := match idx with | .int k => intText k | _ => []
    let k : Int := match idx with | .int k => k | _ => 0
    let go (h : Heap) (list indexes : Slice) : Option Heap :=
      let k := if k < 0 then k + (indexedMax h list indexes + 1) else k
      if k < 0 then some h
      else
        match setIndexedElem g h list indexes k.toNat valStr with
        | none => none
        | some (h, l, ix) => setVar r h name { prev with kind := .indexed, list := l, indexes := ix }
    match prev.kind with
    | .string =>
      let (s, l) := sliceAppend g.strs h.strs Slice.nil prev.str
      go { h with strs := s } l Slice.nil
    | .indexed =>
      let (h, l, ix) := cloneBoth g h prev.list prev.indexes
      go h l ix
    | .associative =>
      -- `index.(*syntax.Word)`: a negative literal parses as a unary expression → silent return
      if k < 0 then some h else
      let (ms, m) := mapClone h.maps prev.map
      let (ms, id) : MapHeap Bytes Bytes × Nat :=
        match m with
        | some id => (ms, id)
        | none => mapAlloc ms []
      let ms := updMap ms id fun m => aset m key valStr
      setVar r { h with maps := ms } name { prev with map := some id }
    | _ => go h Slice.nil Slice.nil

/-- Subscript of `unset 'name[sub]'`. -/
inductive Sub | all | int (k : Int)
deriving DecidableEq, Repr, Inhabited

/-- `Runner.unsetElem`. -/
def unsetElem (g : Grows) (r : Runner) (h : Heap) (name : Bytes) (sub : Sub) : Option Heap :=
  let vr := lookupVar r h name
  match vr.kind with
  | .indexed =>
    match sub with
    | .all => delVar r h name
    | .int k =>
      let k := if k < 0 then k + (indexedMax h vr.list vr.indexes + 1) else k
      if k < 0 then some h
      else
        let (h, l, ix) := cloneBoth g h vr.list vr.indexes
        match deleteIndexedElem h l ix k.toNat with
        | none => none
        | some (h, l, ix) => setVar r h name { vr with list := l, indexes := ix }
  | .associative =>
    match sub with
    | .all => delVar r h name
    | .int k =>
      let (ms, m) := mapClone h.maps vr.map
      let ms := match m with
        | some id => updMap ms id fun mm => aerase mm (intText k)
        | none => ms
      setVar r { h with maps := ms } name { vr with map := m }
  | .string =>
    if sub == .int 0 then delVar r h name else some h
  | _ => some h

/-! ### Operations -/

inductive DeclVariant | declare | «local» | «export» | «readonly»
deriving DecidableEq, Repr, Inhabited

inductive UnsetMode | both | vars | funcs
deriving DecidableEq, Repr, Inhabited

inductive Op
  /-- `name[idx]=rhs` / `name[idx]+=rhs` as a command of its own. -/
  | assign (name : Bytes) (idx : Idx) (append : Bool) (rhs : Rhs)
  /-- `declare|local|export|readonly [-x] [-r] [-a|-A] [-g] name[=rhs]`; `rhs = none` with
      `naked = true` is a bare name. -/
  | decl (v : DeclVariant) (x r g : Bool) (vt : ValType) (name : Bytes) (naked append : Bool) (rhs : Rhs)
  /-- `unset [-v|-f] name` / `unset 'name[sub]'`. -/
  | unset (mode : UnsetMode) (name : Bytes) (sub : Option Sub)
  /-- `read -a name` with the given fields. -/
  | readArr (name : Bytes) (vals : List Bytes)
  /-- `r.setVarString(name, val)`: `read name`, `for name in …`, `getopts`, `((name=…))`. -/
  | setStr (name val : Bytes)
  /-- `mapfile name` with the given lines. -/
  | mapfile (name : Bytes) (vals : List Bytes)
  | shift (n : Int)
  /-- `set -- args…`. -/
  | setParams (args : List Bytes)
  /-- `cd dir` (an existing absolute directory). -/
  | cd (dir : Bytes)
  | pushd (dir : Bytes)
  | pushdSwap
  | popd
  /-- `set -o`/`set +o`/`shopt -s`/`shopt -u` on option number `i`. -/
  | setOpt (i : Nat) (v : Bool)
  | alias (name words : Bytes) (blank : Bool)
  | unalias (name : Bytes)
  | funcDef (name body : Bytes)
  /-- Entering a function call with the given arguments. -/
  | pushFunc (params : List Bytes)
  /-- Returning from it. -/
  | popFunc
deriving Repr, Inhabited

/-- `r.Params = args` for freshly expanded fields. -/
def freshParams (h : Heap) (args : List Bytes) : Heap × Slice :=
  let (s, p) := sliceMake h.strs args args.length
  ({ h with strs := s }, p)

/-- `changeDir` on an existing absolute directory. -/
def changeDir (r : Runner) (h : Heap) (dir : Bytes) : Option (Heap × Runner) := do
  let r := { r with dir := dir }
  let h ← setVarString r h (bytesOfString "OLDPWD") (varString h (lookupVar r h (bytesOfString "PWD")))
  let h ← setVarString r h (bytesOfString "PWD") dir
  pure (h, r)

def swapTop (h : Heap) (ds : Slice) : Option Heap := do
  let oldtop ← sliceGet? h.strs ds (ds.len - 1)
  let top ← sliceGet? h.strs ds (ds.len - 2)
  let s ← sliceSet h.strs ds (ds.len - 1) top
  let s ← sliceSet s ds (ds.len - 2) oldtop
  pure { h with strs := s }

/-- One operation on a runner.  `none` = Go panic. -/
def step (fx : Bool) (g : Grows) (h : Heap) (r : Runner) : Op → Option (Heap × Runner)
  | .assign name idx append rhs => do
    let prev := { lookupVar r h name with isLocal := false }
    let (h, vr) ← assignVal fx g h prev append rhs .dflt
    let h ← setVarWithIndex g r h prev name idx vr
    pure (h, r)
  | .decl v x ro gl vt name naked append rhs =>
    if v == .local && !r.inFunc then some (h, r)
    else do
      let isLocalDecl := (v == .declare && r.inFunc) || v == .local
      let x := x || v == .export
      let ro := ro || v == .readonly
      let vr := lookupVar r h name
      let (h, vr) ←
        if naked then
          pure (h, if vt == .A then { vr with kind := .associative } else { vr with kind := .keepValue })
        else assignVal fx g h vr append rhs vt
      let vr := if gl then { vr with isLocal := false } else if isLocalDecl then { vr with isLocal := true } else vr
      let vr := if x then { vr with exported := true } else vr
      let vr := if ro then { vr with readOnly := true } else vr
      let h ← setVar r h name vr
      pure (h, r)
  | .unset mode name sub =>
    let vars := mode != .funcs
    let funcs := mode != .vars
    match sub with
    | some s => if vars then (unsetElem g r h name s).map fun h => (h, r) else some (h, r)
    | none =>
      if vars && (lookupVar r h name).set then (delVar r h name).map fun h => (h, r)
      else
        match r.funcs with
        | some id =>
          if (alookup (mapOf h.fmaps id) name).isSome && funcs then
            some ({ h with fmaps := updMap h.fmaps id fun m => aerase m name }, r)
          else some (h, r)
        | none => some (h, r)
  | .readArr name vals =>
    -- `expand.ReadFields` returns nil for a line without fields, else `make([]string, n)`
    let (s, l) := if vals.isEmpty then (h.strs, Slice.nil) else sliceMake h.strs vals vals.length
    (setVar r { h with strs := s } name { set := true, kind := .indexed, list := l }).map fun h => (h, r)
  | .setStr name val => (setVarString r h name val).map fun h => (h, r)
  | .mapfile name vals =>
    let (s, l) := sliceAppendList g.strs h.strs Slice.nil vals
    (setVar r { h with strs := s } name { kind := .indexed, list := l }).map fun h => (h, r)
  | .shift n =>
    if n ≥ (r.params.len : Int) then some (h, { r with params := Slice.nil })
    else if n < 0 then none
    else (sliceFrom r.params n.toNat).map fun p => (h, { r with params := p })
  | .setParams args =>
    let (h, p) := freshParams h args
    some (h, { r with params := p })
  | .cd dir => changeDir r h dir
  | .pushd dir => do
    let (h, r) ← changeDir r h dir
    let (s, ds) := sliceAppend g.strs h.strs r.dirStack r.dir
    pure ({ h with strs := s }, { r with dirStack := ds })
  | .pushdSwap =>
    if r.dirStack.len < 2 then some (h, r)
    else do
      let newtop ← sliceGet? h.strs r.dirStack (r.dirStack.len - 2)
      let h ← swapTop h r.dirStack
      changeDir r h newtop
  | .popd =>
    if r.dirStack.len < 2 then some (h, r)
    else do
      let ds ← sliceTo r.dirStack (r.dirStack.len - 1)
      let newtop ← sliceGet? h.strs ds (ds.len - 1)
      changeDir { r with dirStack := ds } h newtop
  | .setOpt i v => some (h, { r with opts := r.opts.set i v })
  | .alias name words blank =>
    let (am, id) : MapHeap Bytes (Bytes × Bool) × Nat :=
      match r.alias with
      | some id => (h.amaps, id)
      | none => mapAlloc h.amaps []
    some ({ h with amaps := updMap am id fun m => aset m name (words, blank) }, { r with alias := some id })
  | .unalias name =>
    match r.alias with
    | some id => some ({ h with amaps := updMap h.amaps id fun m => aerase m name }, r)
    | none => some (h, r)
  | .funcDef name body =>
    let (fm, id) : MapHeap Bytes Bytes × Nat :=
      match r.funcs with
      | some id => (h.fmaps, id)
      | none => mapAlloc h.fmaps []
    some ({ h with fmaps := updMap fm id fun m => aset m name body }, { r with funcs := some id })
  | .pushFunc params =>
    let (h, p) := freshParams h params
    let id := h.scopes.length
    some ({ h with scopes := h.scopes ++ [{ parent := .ov r.env, funcScope := true }] },
          { r with frames := { env := r.env, params := r.params, inFunc := r.inFunc } :: r.frames,
                   env := id, params := p, inFunc := true })
  | .popFunc =>
    match r.frames with
    | [] => some (h, r)
    | f :: rest => some (h, { r with env := f.env, params := f.params, inFunc := f.inFunc, frames := rest })

def run (fx : Bool) (g : Grows) : Heap → Runner → List Op → Option (Heap × Runner)
  | h, r, [] => some (h, r)
  | h, r, op :: ops =>
    match step fx g h r op with
    | none => none
    | some (h', r') => run fx g h' r' ops

/-- `Runner.subshell(background)`. -/
def subshell (g : Grows) (h : Heap) (r : Runner) (bg : Bool) : Option (Heap × Runner) := do
  let (sc, env) ← newOverlay r.base h.scopes r.env bg
  let (fm, funcs) := mapClone h.fmaps r.funcs
  let (am, als) := mapClone h.amaps r.alias
  -- r2.dirStack = append(r2.dirBootstrap[:0], r.dirStack...)
  let (s, boot) := sliceMake h.strs [] 1
  let (s, ds) := sliceAppendMany g.strs s { boot with len := 0 } (cells h.strs r.dirStack)
  pure ({ h with scopes := sc, fmaps := fm, amaps := am, strs := s },
        { base := r.base, env := env, dir := r.dir, params := r.params, opts := r.opts,
          funcs := funcs, alias := als, dirStack := ds, inFunc := false, frames := [] })

/-! ### Initial state (`New` + `Reset`) -/

def initState (base : List (Bytes × Bytes)) (dir : Bytes) (opts : List Bool) : Option (Heap × Runner) := do
  let h : Heap := { scopes := [{ parent := .base }] }
  let (s, boot) := sliceMake h.strs [] 1
  let r : Runner := { base := base, env := 0, dir := dir, opts := opts,
                      dirStack := { boot with len := 0 } }
  let h := { h with strs := s }
  let h ← setVarString r h (bytesOfString "PWD") dir
  let h ← setVarString r h (bytesOfString "IFS") (bytesOfString " \t\n")
  let h ← setVarString r h (bytesOfString "OPTIND") (bytesOfString "1")
  let (s, ds) := sliceAppend (fun _ _ n => n) h.strs r.dirStack dir
  pure ({ h with strs := s }, { r with dirStack := ds })

/-! ### Observation: everything the property talks about, dereferenced -/

structure VarObs where
  name : Bytes
  set : Bool
  isLocal : Bool
  exported : Bool
  readOnly : Bool
  kind : Kind
  str : Bytes
  list : List Bytes
  listNil : Bool
  indexes : List Nat
  idxNil : Bool
  map : Option (List (Bytes × Bytes))
deriving DecidableEq, Repr

def obsVar (h : Heap) (nv : Bytes × Var) : VarObs :=
  { name := nv.1, set := nv.2.set, isLocal := nv.2.isLocal, exported := nv.2.exported,
    readOnly := nv.2.readOnly, kind := nv.2.kind, str := nv.2.str,
    list := cells h.strs nv.2.list, listNil := nv.2.list.isNil,
    indexes := cells h.ints nv.2.indexes, idxNil := nv.2.indexes.isNil,
    map := nv.2.map.map (mapOf h.maps) }

structure ScopeObs where
  funcScope : Bool
  valuesNil : Bool
  vars : List VarObs
deriving DecidableEq, Repr

/-- The overlay chain, innermost first (`none` marks the read-only root Env). -/
def obsChain (h : Heap) : Nat → PRef → List (Option ScopeObs)
  | 0, _ => []
  | _ + 1, .nil => []
  | _ + 1, .base => [none]
  | fuel + 1, .ov id =>
    match h.scopes[id]? with
    | none => []
    | some o =>
      some { funcScope := o.funcScope, valuesNil := o.values.isNone,
             vars := (o.values.getD []).map (obsVar h) } :: obsChain h fuel o.parent

structure Obs where
  chain : List (Option ScopeObs)
  base : List (Bytes × Bytes)
  funcs : Option (List (Bytes × Bytes))
  alias : Option (List (Bytes × (Bytes × Bool)))
  opts : List Bool
  dir : Bytes
  params : List Bytes
  paramsNil : Bool
  dirStack : List Bytes
  inFunc : Bool
deriving DecidableEq, Repr

/-- The parent's observable state: variables with array contents, functions, aliases, options,
    directory (and directory stack), positional parameters. -/
def observe (r : Runner) (h : Heap) : Obs :=
  { chain := obsChain h (r.env + 2) (.ov r.env), base := r.base,
    funcs := r.funcs.map (mapOf h.fmaps), alias := r.alias.map (mapOf h.amaps),
    opts := r.opts, dir := r.dir, params := cells h.strs r.params, paramsNil := r.params.isNil,
    dirStack := cells h.strs r.dirStack, inFunc := r.inFunc }

end ShVerif.C27
