import ShVerif.Base.Hex
/-
  C36 — model of the decision logic of `cmd/shfmt/main.go` (+ `fileutil/file.go`):

  * `shebang`, `couldBeScript2`                      — fileutil.Shebang / CouldBeScript2
  * `langOfName`, `langFromFilename`, `fileLang`, `stdinLang`  — language selection
  * `useEC`, `optsOfFlags`, `propsOptions`           — flags vs EditorConfig → option record
  * `outcome`                                        — the tail of formatBytes (list/write/diff/stdout/status)
  * `visit`, `formatPath`, `runWalk`, `runStdin`     — the walk callback of main(), formatPath, formatStdin
  * `Script`, `applyScript`, `simpleDiff`, unified-diff text reader `parseUnified` — the diff model

  The formatter itself (parser + printer) and the EditorConfig file lookup are *inputs* to this
  model: `F : Opts → path → src → Res`, `D : path → src → res → diff text`, and three resolved
  property sections per file.  Core Lean only.
-/
namespace ShVerif.C36

/-- ASCII string literal as bytes. -/
def asc (s : String) : Bytes := s.toList.map (fun c => UInt8.ofNat c.toNat)

/-! ## byte-string helpers -/

def startsWith : Bytes → Bytes → Bool
  | _, [] => true
  | [], _ :: _ => false
  | a :: as, p :: ps => a == p && startsWith as ps

def endsWith (s suf : Bytes) : Bool := startsWith s.reverse suf.reverse

/-- `strings.TrimPrefix`. -/
def trimPrefix (s p : Bytes) : Bytes := if startsWith s p then s.drop p.length else s

def slash : UInt8 := 47
def dot : UInt8 := 46
def nl : UInt8 := 10

/-- `filepath.Base` (Unix). -/
def base (p : Bytes) : Bytes :=
  if p = [] then [dot] else
  let q := (p.reverse.dropWhile (· == slash))       -- strip trailing slashes (reversed)
  if q = [] then [slash] else
  (q.takeWhile (· != slash)).reverse

/-- `filepath.Ext`: from the last dot of the last path element, or empty. -/
def extRev : Bytes → Bytes → Bytes      -- scans the reversed path, `acc` = bytes already passed
  | [], _ => []
  | c :: rest, acc =>
    if c == slash then [] else
    if c == dot then c :: acc else extRev rest (c :: acc)

def ext (p : Bytes) : Bytes := extRev p.reverse []

/-! ## languages -/

inductive Lang | bash | posix | mksh | bats | zsh | auto
  deriving DecidableEq, Repr, Inhabited

def Lang.str : Lang → String
  | .bash => "bash" | .posix => "posix" | .mksh => "mksh"
  | .bats => "bats" | .zsh => "zsh" | .auto => "auto"

/-- `(*LangVariant).Set`: `none` is the error return (receiver unchanged). -/
def langOfName (s : Bytes) : Option Lang :=
  if s = asc "bash" then some .bash
  else if s = asc "posix" then some .posix
  else if s = asc "sh" then some .posix
  else if s = asc "dash" then some .posix
  else if s = asc "mksh" then some .mksh
  else if s = asc "bats" then some .bats
  else if s = asc "zsh" then some .zsh
  else if s = asc "auto" then some .auto
  else none

/-- `l.Set(s)` on a variable currently holding `cur`. -/
def langSet (cur : Lang) (s : Bytes) : Lang := (langOfName s).getD cur

/-! ## fileutil.Shebang
  `^#![ \t]*/(usr/)?bin/(env[ \t]+)?(sh|dash|bash|mksh|bats|zsh)(\s|$)` — the regexp is
  deterministic (no alternative can succeed where an earlier one consumed differently), so it is
  modelled as a straight-line matcher.  Result: the shell name, `[]` when there is no match. -/

def isBlank (c : UInt8) : Bool := c == 32 || c == 9
/-- RE2 `\s` = `[\t\n\f\r ]`. -/
def isReSpace (c : UInt8) : Bool := c == 9 || c == 10 || c == 12 || c == 13 || c == 32

def stripLit (s lit : Bytes) : Option Bytes :=
  if startsWith s lit then some (s.drop lit.length) else none

def shellNames : List Bytes :=
  [asc "sh", asc "dash", asc "bash", asc "mksh", asc "bats", asc "zsh"]

def matchName (s : Bytes) : List Bytes → Bytes
  | [] => []
  | n :: ns =>
    match stripLit s n with
    | some rest =>
      match rest with
      | [] => n
      | c :: _ => if isReSpace c then n else matchName s ns
    | none => matchName s ns

def shebang (bs : Bytes) : Bytes :=
  match stripLit bs (asc "#!") with
  | none => []
  | some s1 =>
    match stripLit (s1.dropWhile isBlank) [slash] with
    | none => []
    | some s2 =>
      let s3 := (stripLit s2 (asc "usr/")).getD s2
      match stripLit s3 (asc "bin/") with
      | none => []
      | some s4 =>
        let s5 :=
          match stripLit s4 (asc "env") with
          | some r => match r with
            | c :: _ => if isBlank c then r.dropWhile isBlank else s4
            | [] => s4
          | none => s4
        matchName s5 shellNames

/-! ## fileutil.CouldBeScript2 -/

inductive Kind | reg | dir | lnk | other | missing
  deriving DecidableEq, Repr, Inhabited

inductive Conf | notScript | ifShebang | isScript
  deriving DecidableEq, Repr

def shellExts : List Bytes :=
  [asc ".sh", asc ".bash", asc ".mksh", asc ".bats", asc ".zsh"]

/-- `strings.IndexByte(name, '.') > 0`. -/
def dotAfterFirst : Bytes → Bool
  | [] => false
  | _ :: rest => rest.contains dot

/-- `none` = Go panics (`name[0]` on an empty name; directory entries never have one). -/
def couldBeScript2 (name : Bytes) (k : Kind) : Option Conf :=
  match name with
  | [] => none
  | c :: _ =>
    if c == dot then some .notScript
    else if k != .reg then some .notScript
    else if shellExts.any (endsWith name) then some .isScript
    else if dotAfterFirst name then some .notScript
    else some .ifShebang

/-! ## flags -/

inductive Tri | off | nl | nul      -- the boolString flags -l / -f: "false", "true", "0"
  deriving DecidableEq, Repr, Inhabited

inductive Detect | dflt | exec | all
  deriving DecidableEq, Repr, Inhabited

/-- The command line.  Parser/printer flags are `Option`: `none` = not given (`flag.Visit` does
    not see it); giving any of them — even with its default value — turns EditorConfig off. -/
structure Flags where
  list : Tri := .off
  write : Bool := false
  diff : Bool := false
  find : Tri := .off
  applyIgnore : Bool := false
  detect : Detect := .dflt
  filename : Bytes := []
  ln : Option Lang := none
  posix : Option Bool := none
  simplify : Option Bool := none
  indent : Option Nat := none
  bn : Option Bool := none
  ci : Option Bool := none
  sr : Option Bool := none
  kp : Option Bool := none
  fn : Option Bool := none
  mn : Option Bool := none
  deriving Repr, Inhabited

/-- `useEditorConfig` after `flag.Visit`. -/
def useEC (f : Flags) : Bool :=
  f.ln.isNone && f.posix.isNone && f.simplify.isNone && f.indent.isNone && f.bn.isNone &&
  f.ci.isNone && f.sr.isNone && f.kp.isNone && f.fn.isNone && f.mn.isNone

/-- `-p and -ln=lang cannot coexist`. -/
def startupError (f : Flags) : Bool :=
  f.posix.getD false && (f.ln.getD .auto) != .auto

/-- `lang.val` once main() has applied `-p`. -/
def lnVal (f : Flags) : Lang :=
  if f.posix.getD false then .posix else f.ln.getD .auto

/-- The effective formatting options (parser variant, simplify, printer options). -/
structure Opts where
  lang : Lang
  indent : Nat
  bn : Bool
  ci : Bool
  sr : Bool
  kp : Bool
  fn : Bool
  mn : Bool
  simplify : Bool
  deriving DecidableEq, Repr, Inhabited

def b01 (b : Bool) : String := if b then "1" else "0"

/-- Canonical rendering `lang/indent/bn/ci/sr/kp/fn/mn/simplify` (line protocol). -/
def showOpts (o : Opts) : String :=
  o.lang.str ++ "/" ++ toString o.indent ++ "/" ++ b01 o.bn ++ "/" ++ b01 o.ci ++ "/" ++ b01 o.sr ++
  "/" ++ b01 o.kp ++ "/" ++ b01 o.fn ++ "/" ++ b01 o.mn ++ "/" ++ b01 o.simplify

/-- Options when any parser/printer flag was given. -/
def optsOfFlags (f : Flags) (fileLang : Lang) : Opts :=
  { lang := fileLang
    indent := f.indent.getD 0
    bn := f.bn.getD false, ci := f.ci.getD false, sr := f.sr.getD false
    kp := f.kp.getD false, fn := f.fn.getD false, mn := f.mn.getD false
    simplify := f.simplify.getD false || f.mn.getD false }

/-! ## EditorConfig properties -/

abbrev Props := List (Bytes × Bytes)

/-- `Section.Get`: first property with that name, `""` when absent. -/
def pget : Props → Bytes → Bytes
  | [], _ => []
  | (k, v) :: rest, name => if k = name then v else pget rest name

def isDigit (c : UInt8) : Bool := 48 ≤ c && c ≤ 57

def digitsVal : Bytes → Nat → Nat
  | [], acc => acc
  | c :: rest, acc => digitsVal rest (acc * 10 + (c.toNat - 48))

/-- `n, _ := strconv.Atoi(s)`: 0 on a syntax error, saturated on a range error. -/
def atoi (s : Bytes) : Int :=
  let (neg, ds) :=
    match s with
    | 43 :: r => (false, r)
    | 45 :: r => (true, r)
    | _ => (false, s)
  if ds = [] || !ds.all isDigit then 0 else
  let v := digitsVal ds 0
  if neg then (if v > 2^63 then -(2^63 : Int) else -(v : Int))
  else (if v > 2^63 - 1 then (2^63 - 1 : Int) else (v : Int))

def ptrue (p : Props) (k : String) : Bool := pget p (asc k) = asc "true"

/-- The indent size `propsOptions` computes. -/
def propsIndent (p : Props) : Nat :=
  if pget p (asc "indent_style") = asc "space" then
    let n := atoi (pget p (asc "indent_size"))
    if n > 0 then n.toNat else 8
  else 0

/-- `propsOptions`.  `shell_variant` set to a known name takes precedence over the detected
    language, except `auto`, which keeps the detected language (as for the `-ln` flag).
    `none` = the Go code panics (`syntax.Variant(LangAuto)`): only possible if the detected language
    itself were `auto`, which language selection never produces (`no_panic`).
    Second component: `validLang` (`Set` succeeded — also for `auto`). -/
def propsOptions (fileLang : Lang) (p : Props) : Option (Opts × Bool) :=
  let sv := langOfName (pget p (asc "shell_variant"))
  let set := sv.getD fileLang                             -- lang.Set(...)
  let lang := if set = .auto then fileLang else set       -- `auto` keeps the detected language
  if lang = .auto then none else
  let mn := ptrue p "minify"
  some ({ lang := lang, indent := propsIndent p
          bn := ptrue p "binary_next_line", ci := ptrue p "switch_case_indent"
          sr := ptrue p "space_redirects", kp := ptrue p "keep_padding"
          fn := ptrue p "function_next_line", mn := mn
          simplify := mn || ptrue p "simplify" }, sv.isSome)

/-- `editorConfigLangs`: which of the three resolved sections applies. -/
inductive LangClass | shell | bash | zsh deriving DecidableEq, Repr
def langClass : Lang → LangClass
  | .bash | .bats => .bash
  | .zsh => .zsh
  | _ => .shell

/-! ## language selection -/

def bashRc : List Bytes := [asc "bash_profile", asc "bashrc", asc "bash_logout"]
def zshRc : List Bytes := [asc "zshenv", asc "zprofile", asc "zshrc", asc "zlogin", asc "zlogout"]

def langFromFilename (name : Bytes) : Lang :=
  let b := trimPrefix (base name) [dot]
  if bashRc.contains b then .bash
  else if zshRc.contains b then .zsh
  else
    let e := trimPrefix (ext name) [dot]
    if e = asc "sh" then .auto else langSet .auto e

/-- shebang → language, with the bash fallback. -/
def langFromShebang (prefix_ : Bytes) : Lang :=
  (langOfName (shebang prefix_)).getD .bash

/-- The 32 bytes formatPath reads for the shebang (`io.ReadAtLeast(f, copyBuf[:32], 9)` on a
    regular file). -/
def headOf (src : Bytes) : Bytes := src.take 32

/-- Language of a path argument / walked file (formatPath). -/
def fileLang (f : Flags) (path src : Bytes) : Lang :=
  let l := lnVal f
  if l != .auto then l else
  let l2 := langFromFilename path
  if l2 != .auto then l2 else langFromShebang (headOf src)

/-- Language of standard input (formatStdin): the whole input is searched for the shebang. -/
def stdinLang (f : Flags) (name src : Bytes) : Lang :=
  let l := lnVal f
  if l != .auto then l else
  let l2 := langFromFilename name
  if l2 != .auto then l2 else langFromShebang src

/-! ## formatter results and the tail of formatBytes -/

inductive Res
  | ok (out : Bytes)
  | langErr (msg : Bytes)       -- a `syntax.LangError`
  | err (msg : Bytes)           -- any other parse error
  | unknown                     -- driver only: the harness supplied no result for these options
  deriving DecidableEq, Repr, Inhabited

/-- What one call of formatPath/formatBytes did. -/
structure Step where
  stdout : Bytes := []
  errLine : Option Bytes := none     -- line printed to stderr (without the newline)
  write : Option Bytes := none       -- bytes handed to maybeio.WriteFile(path, …)
  listed : Bool := false             -- the path was printed because of -l
  diffed : Bool := false             -- a diff was printed
  fail : Bool := false               -- a non-nil error was returned (status 1)
  panicked : Bool := false
  deriving DecidableEq, Repr, Inhabited

def listLine (t : Tri) (path : Bytes) : Bytes :=
  match t with
  | .off => []
  | .nl => path ++ [nl]
  | .nul => path ++ [0]

/-- `%q` for the plain ASCII paths the generator uses. -/
def quote (p : Bytes) : Bytes := [34] ++ p ++ [34]

def refuseMsg (path : Bytes) : Bytes :=
  asc "refusing to atomically replace " ++ quote path ++
  asc " with a regular file as it is not one already"

/-- The part of `formatBytes` after printing: a pure function of the flags, `src`, `res`, the
    diff text `dt` (= `diffpkg.Diff(path+".orig", src, path, res)`) and whether `Lstat(path)` says
    regular. -/
def outcome (list : Tri) (write diff : Bool) (path src res dt : Bytes) (isReg : Bool) : Step :=
  if src ≠ res then
    let s1 := listLine list path
    let listed := list != .off
    if write && !isReg then
      { stdout := s1, listed := listed, errLine := some (refuseMsg path), fail := true }
    else
      let w := if write then some res else none
      if diff then
        { stdout := s1 ++ dt, listed := listed, write := w, diffed := true, fail := true }
      else if list != .off && !write then
        { stdout := s1, listed := listed, write := w, fail := true }
      else if list == .off && !write && !diff then
        { stdout := s1 ++ res, listed := listed, write := w }
      else
        { stdout := s1, listed := listed, write := w }
  else if list == .off && !write && !diff then { stdout := res }
  else {}

/-! ## formatBytes / formatPath / the walk -/

/-- The formatter and the diff printer, as inputs. -/
abbrev Fmt := Opts → Bytes → Bytes → Res          -- options, path, src
abbrev Dif := Bytes → Bytes → Bytes → Bytes       -- path, src, res ↦ diff text

/-- Everything about one file-system entry the decision logic looks at. -/
structure Entry where
  path : Bytes
  explicit : Bool := false
  kind : Kind := .reg          -- by lstat
  skind : Kind := .reg         -- by stat (differs from `kind` only for symlinks)
  exec : Bool := false         -- mode & 0111 ≠ 0 (of the stat'ed file)
  src : Bytes := []
  pShell : Props := []         -- ecQuery.Find(path, ["shell"])
  pBash : Props := []          -- ecQuery.Find(path, ["shell","bash"])
  pZsh : Props := []           -- ecQuery.Find(path, ["shell","zsh"])
  deriving Repr, Inhabited

def propsFor (e : Entry) (l : Lang) : Props :=
  match langClass l with
  | .shell => e.pShell | .bash => e.pBash | .zsh => e.pZsh

/-- Options formatBytes ends up with; `none` = panic.  Bool: language came from EditorConfig. -/
def resolveOpts (f : Flags) (e : Entry) (fileLang : Lang) : Option (Opts × Bool) :=
  if useEC f then propsOptions fileLang (propsFor e fileLang)
  else some (optsOfFlags f fileLang, false)

def langErrSuffix (f : Flags) (o : Opts) (fromEC : Bool) : Bytes :=
  if lnVal f != .auto then [] else
  if fromEC then asc " (parsed as " ++ asc o.lang.str ++ asc " via EditorConfig)"
  else asc " (parsed as " ++ asc o.lang.str ++ asc " via -ln=auto)"

def formatBytes (F : Fmt) (D : Dif) (f : Flags) (e : Entry) (path src : Bytes) (l : Lang) : Step :=
  match resolveOpts f e l with
  | none => { panicked := true }
  | some (o, fromEC) =>
    match F o path src with
    | .unknown => { errLine := some (asc "plan-mismatch " ++ asc (showOpts o)), fail := true }
    | .err msg => { errLine := some msg, fail := true }
    | .langErr msg => { errLine := some (msg ++ langErrSuffix f o fromEC), fail := true }
    | .ok res => outcome f.list f.write f.diff path src res (D path src res) (e.kind == .reg)

/-- What the shebang sniff `io.ReadAtLeast(f, copyBuf[:32], 9)` of formatPath reports for a regular
    file: `io.EOF` (nothing to read), `io.ErrUnexpectedEOF` (1..8 bytes), or success (9..32 bytes). -/
inductive Sniff | eof | short | window
  deriving DecidableEq, Repr

def sniffOf (src : Bytes) : Sniff :=
  if src = [] then .eof else if src.length < 9 then .short else .window

/-- `formatPath(path, checkShebang)`.  The Go code reads the 32-byte head only when it needs the
    shebang (`checkShebang || shebangForAuto`) and then sets the language from it; that is
    `fileLang` above (the `-ln` value, else the filename, else the shebang of the head). -/
def formatPath (F : Fmt) (D : Dif) (f : Flags) (e : Entry) (checkShebang : Bool) : Step :=
  let hd := headOf e.src
  if checkShebang && hd.length < 9 then {} else            -- too short to have a shebang
  if checkShebang && shebang hd = [] then {} else          -- not a shell script
  match f.find with
  | .nl => { stdout := e.path ++ [nl] }
  | .nul => { stdout := e.path ++ [0] }
  | .off => formatBytes F D f e e.path e.src (fileLang f e.path e.src)

/-- What the `filepath.WalkDir` callback of main() decides for an entry, before any file is
    read: it depends on the walk flags and on the entry's name, kind, mode and ignore rule only. -/
inductive Decision
  | format (checkShebang : Bool)   -- call formatPath
  | skip                           -- return nil
  | skipDir                        -- filepath.SkipDir
  | error (msg : Bytes)            -- return an error (printed by main, status 1)
  | panic
  deriving DecidableEq, Repr

def isVcsDir (name : Bytes) : Bool :=
  name = asc ".git" || name = asc ".svn" || name = asc ".hg"

def enoent : Bytes := asc ": no such file or directory"

def visitDecision (f : Flags) (e : Entry) : Decision :=
  if e.kind == .missing then .error (asc "lstat " ++ e.path ++ enoent) else
  let name := base e.path
  if e.kind == .dir && isVcsDir name then .skipDir else
  if (!e.explicit || f.applyIgnore) && pget e.pShell (asc "ignore") = asc "true" then
    (if e.kind == .dir then .skipDir else .skip)
  else
  -- an explicit symlink is resolved with os.Stat
  if e.explicit && e.kind == .lnk && e.skind == .missing then
    .error (asc "stat " ++ e.path ++ enoent) else
  let k := if e.explicit && e.kind == .lnk then e.skind else e.kind
  if !e.explicit || k != .reg || f.find != .off then
    match couldBeScript2 name k with
    | none => .panic
    | some c0 =>
      let c :=
        if c0 == .notScript && k == .reg && name.head? != some dot then
          match f.detect with
          | .exec => if e.exec then Conf.ifShebang else c0
          | .all => Conf.ifShebang
          | .dflt => c0
        else c0
      if c == .notScript then .skip
      else .format (c == .ifShebang)
  else .format false

inductive Visit
  | step (s : Step)       -- formatPath was called
  | skip
  | skipDir
  | error (msg : Bytes)
  | panic
  deriving DecidableEq, Repr

/-- The `filepath.WalkDir` callback of main(). -/
def visit (F : Fmt) (D : Dif) (f : Flags) (e : Entry) : Visit :=
  match visitDecision f e with
  | .format cs => .step (formatPath F D f e cs)
  | .skip => .skip
  | .skipDir => .skipDir
  | .error m => .error m
  | .panic => .panic

/-- Result of a whole run. -/
structure Out where
  stdout : Bytes := []
  stderr : List Bytes := []
  writes : List (Bytes × Bytes) := []
  status : Nat := 0
  panicked : Bool := false
  deriving DecidableEq, Repr, Inhabited

def dirPrefix (p : Bytes) : Bytes := if p = [dot] then [] else p ++ [slash]

/-- The visits of a run, in order: entries are given in `filepath.WalkDir` order for each
    argument (complete trees); entries below a skipped directory are dropped. -/
def visits (F : Fmt) (D : Dif) (f : Flags) : List Entry → Option Bytes → List (Entry × Visit)
  | [], _ => []
  | e :: rest, skipping =>
    let skipping := if e.explicit then none else skipping
    match skipping with
    | some pre =>
      if startsWith e.path pre then visits F D f rest skipping
      else
        let v := visit F D f e
        (e, v) :: visits F D f rest (match v with | .skipDir => some (dirPrefix e.path) | _ => none)
    | none =>
      let v := visit F D f e
      (e, v) :: visits F D f rest (match v with | .skipDir => some (dirPrefix e.path) | _ => none)

def visitFails : Visit → Bool
  | .step s => s.fail
  | .error _ => true
  | _ => false

/-- Fold the visits into the observable result; a panic ends the process with status 2. -/
def collect : List (Entry × Visit) → Out → Out
  | [], o => o
  | (e, v) :: rest, o =>
    match v with
    | .panic => { o with status := 2, panicked := true }
    | .skip | .skipDir => collect rest o
    | .error msg => collect rest { o with stderr := o.stderr ++ [msg], status := 1 }
    | .step s =>
      if s.panicked then { o with status := 2, panicked := true } else
      collect rest
        { o with
          stdout := o.stdout ++ s.stdout
          stderr := o.stderr ++ s.errLine.toList
          writes := o.writes ++ (s.write.map fun w => (e.path, w)).toList
          status := if s.fail then 1 else o.status }

/-- A visit that printed its path because of `-l`. -/
def listedV : Visit → Bool
  | .step s => s.listed
  | _ => false

/-- A visit that reported an error on stderr. -/
def errorV : Visit → Bool
  | .step s => s.errLine.isSome
  | .error _ => true
  | _ => false

def panicV : Visit → Bool
  | .step s => s.panicked
  | .panic => true
  | _ => false

def startupMsg : Bytes := asc "-p and -ln=lang cannot coexist"

def runWalk (F : Fmt) (D : Dif) (f : Flags) (entries : List Entry) : Out :=
  if startupError f then { stderr := [startupMsg], status := 1 } else
  if f.filename ≠ [] then { stderr := [asc "-filename can only be used with stdin"], status := 1 } else
  collect (visits F D f entries none) {}

def stdinName (f : Flags) : Bytes :=
  if f.filename ≠ [] then f.filename else asc "<standard input>"

/-- `formatStdin`; `e` carries the property sections resolved for the name (its `path`). -/
def stdinStep (F : Fmt) (D : Dif) (f : Flags) (e : Entry) : Step :=
  if f.write then { errLine := some (asc "-w cannot be used on standard input"), fail := true } else
  if f.applyIgnore && pget e.pShell (asc "ignore") = asc "true" then {} else
  formatBytes F D f e e.path e.src (stdinLang f e.path e.src)

def runStdin (F : Fmt) (D : Dif) (f : Flags) (e : Entry) : Out :=
  if startupError f then { stderr := [startupMsg], status := 1 } else
  collect [(e, .step (stdinStep F D f e))] {}

/-! ## vocabulary of the property statements -/

/-- Formatter idempotence under fixed options (property C02), as a hypothesis. -/
def Idempotent (F : Fmt) : Prop := ∀ o p s r, F o p s = .ok r → F o p r = .ok r

/-- The formatted bytes do not depend on the file name (it only appears in error positions). -/
def NameIndependent (F : Fmt) : Prop := ∀ o p p' s r, F o p s = .ok r → F o p' s = .ok r

/-- The same command line with `-l` instead of `-w`/`-d`. -/
def lFlags (f : Flags) : Flags := { f with list := .nl, write := false, diff := false }

/-- The file's bytes after a step. -/
def contentAfter (s : Step) (src : Bytes) : Bytes := s.write.getD src

/-! ## diff model: edit scripts over lines -/

/-- One hunk: it applies at 0-based line `pos` of the *old* file; `del` are the old lines it
    covers (context lines appear in both `del` and `ins`). -/
structure Hunk where
  pos : Nat
  del : List Bytes
  ins : List Bytes
  deriving DecidableEq, Repr

abbrev Script := List Hunk

/-- Apply hunks in order to the lines `a`; `cur` = number of old lines already consumed.
    Every deleted/context line must match (no fuzz). -/
def applyFrom : Script → List Bytes → Nat → Option (List Bytes)
  | [], a, _ => some a
  | h :: hs, a, cur =>
    if h.pos < cur then none else
    let skip := h.pos - cur
    if a.length < skip then none else
    let rest := a.drop skip
    if rest.take h.del.length = h.del then
      match applyFrom hs (rest.drop h.del.length) (h.pos + h.del.length) with
      | some tail => some (a.take skip ++ h.ins ++ tail)
      | none => none
    else none

def applyScript (d : Script) (a : List Bytes) : Option (List Bytes) := applyFrom d a 0

/-- Longest common prefix length. -/
def commonPrefix : List Bytes → List Bytes → Nat
  | x :: xs, y :: ys => if x = y then commonPrefix xs ys + 1 else 0
  | _, _ => 0

/-- A reference diff: one hunk replacing everything after the common prefix. -/
def simpleDiff (a b : List Bytes) : Script :=
  if a = b then [] else
  let n := commonPrefix a b
  [{ pos := n, del := a.drop n, ins := b.drop n }]

/-- `strings.SplitAfter(s, "\n")` without the final empty piece: lines keep their newline; a last
    line without one is kept as is. -/
def splitLines : Bytes → List Bytes
  | [] => []
  | c :: rest =>
    if c = nl then [c] :: splitLines rest
    else match splitLines rest with
      | [] => [[c]]
      | l :: ls => (c :: l) :: ls

def joinLines (ls : List Bytes) : Bytes := ls.flatten

/-! ### reading unified-diff text (driver/spec use): the format `diffpkg.Diff` prints -/

def parseNat (s : Bytes) : Option Nat :=
  if s = [] || !s.all isDigit then none else some (digitsVal s 0)

def splitOn1 (s : Bytes) (c : UInt8) : Bytes × Bytes :=
  (s.takeWhile (· != c), (s.dropWhile (· != c)).drop 1)

/-- `@@ -a,b +c,d @@` ↦ (a, b, c, d). -/
def parseHunkHeader (l : Bytes) : Option (Nat × Nat × Nat × Nat) :=
  match stripLit l (asc "@@ -") with
  | none => none
  | some r =>
    let (a, r1) := splitOn1 r 44
    let (b, r2) := splitOn1 r1 32
    match stripLit r2 (asc "+") with
    | none => none
    | some r3 =>
      let (c, r4) := splitOn1 r3 44
      let (d, _) := splitOn1 r4 32
      match parseNat a, parseNat b, parseNat c, parseNat d with
      | some a, some b, some c, some d => some (a, b, c, d)
      | _, _, _, _ => none

def noNlMarker : Bytes := asc "\\ No newline at end of file\n"

def dropLastByte (l : Bytes) : Bytes := l.take (l.length - 1)

/-- Fold every `\\ No newline at end of file` marker into the line before it (which loses its
    newline). -/
def mergeMarkers (ls : List Bytes) : List Bytes :=
  ls.foldr (fun l acc =>
    match acc with
    | m :: acc' => if m = noNlMarker then dropLastByte l :: acc' else l :: acc
    | [] => [l]) []

/-- Read the body of one hunk: `nd`/`ni` = old/new lines still expected. -/
def readBody : List Bytes → Nat → Nat → List Bytes → List Bytes → Option (List Bytes × List Bytes × List Bytes)
  | lines, 0, 0, del, ins => some (del.reverse, ins.reverse, lines)
  | [], _, _, _, _ => none
  | l :: rest, nd, ni, del, ins =>
    match l with
    | [] => none
    | tag :: body =>
      if tag = 32 then
        if nd = 0 || ni = 0 then none else readBody rest (nd - 1) (ni - 1) (body :: del) (body :: ins)
      else if tag = 45 then
        if nd = 0 then none else readBody rest (nd - 1) ni (body :: del) ins
      else if tag = 43 then
        if ni = 0 then none else readBody rest nd (ni - 1) del (body :: ins)
      else none

/-- Read hunks until the text ends or a line that is not a hunk header appears. -/
def readHunks : Nat → List Bytes → List Hunk → Option (Script × List Bytes)
  | 0, _, _ => none
  | fuel + 1, lines, acc =>
    match lines with
    | [] => some (acc.reverse, [])
    | l :: rest =>
      match parseHunkHeader l with
      | none => some (acc.reverse, lines)
      | some (a, b, _, d) =>
        match readBody rest b d [] [] with
        | none => none
        | some (del, ins, rest') =>
          readHunks fuel rest' ({ pos := if b = 0 then a else a - 1, del := del, ins := ins } :: acc)

/-- One file's diff as printed by shfmt -d: three header lines, then hunks.
    Returns (old name, new name, script, remaining lines). -/
def parseFileDiff (lines : List Bytes) : Option (Bytes × Bytes × Script × List Bytes) :=
  match lines with
  | l1 :: l2 :: l3 :: rest =>
    if !startsWith l1 (asc "diff ") then none else
    match stripLit l2 (asc "--- "), stripLit l3 (asc "+++ ") with
    | some o, some n =>
      match readHunks (rest.length + 1) rest [] with
      | some (sc, rest') => some (dropLastByte o, dropLastByte n, sc, rest')
      | none => none
    | _, _ => none
  | _ => none

/-- Apply the text of one unified diff to `src`. -/
def patchText (dt src : Bytes) : Option Bytes :=
  match parseFileDiff (mergeMarkers (splitLines dt)) with
  | some (_, _, sc, []) => (applyScript sc (splitLines src)).map joinLines
  | _ => none

end ShVerif.C36
